"""Shared contract vocabulary for the replay buffers (C02, C04, C08, C19).

Abstract view of a ReplayBuffer: the ghost history `hist` of all added
transitions, represented in "log space": n = |hist| and, per key k, an
immutable ghost function H_k : Int -> Val (field k of the j-th added
transition).  Representation invariant WF (DESIGN 5, C02):

  N >= 1, 0 <= ins < N, len == min(n, N), ins == n mod N,
  forall k, j.  n-len <= j < n  =>  buffer[k][j mod N] == cast_k(H_k(j))
"""
import z3

from pyvc import core as C
from pyvc import tensor as T
from pyvc.core import INT, REAL, VAL, NDArr, Sym, band, implies
from pyvc.lib.np_model import cast_fn

RB = "rl_blox.blox.replay_buffer."
DEFAULT_KEYS = ["observation", "action", "reward", "next_observation", "termination"]
DEFAULT_DTYPES = {"observation": "float", "action": "float", "reward": "float", "next_observation": "float", "termination": "int"}
A2C_KEYS = ["obs", "actions", "rewards", "terminations", "truncations"]


def H(k):
    return C.uf(f"H_{k}", INT, VAL)


def stored(k, dtype, j):
    """what slot (j mod N) must hold for history entry j"""
    return cast_fn(dtype)(H(k)(j))


class BufView:
    def __init__(self, obj, keys, dtypes, n, N, arrs):
        self.obj = obj
        self.keys = keys
        self.dtypes = dtypes
        self.n = n
        self.N = N
        self.arrs = arrs  # key -> NDArr


def wf_scalar(N, ins, ln, n):
    return band(N >= 1, n >= 0, ins >= 0, ins < N, ln == C.smin(n, N), ins == n % N)


def wf_data_fact(st, keys, dtypes, arrs_data, n, ln, N, Hmap=None):
    """assume the data part of WF as quantified facts"""
    for k in keys:
        data = arrs_data[k]
        hk = (Hmap or {}).get(k) or (lambda j, k=k: stored(k, dtypes[k], j))
        st.assume_forall([INT], lambda j, data=data, hk=hk: z3.Implies(
            z3.And(j >= C.to_z3(n) - C.to_z3(ln), j < C.to_z3(n)),
            z3.Select(data, j % C.to_z3(N)) == hk(j)), f"WF.data[{k}]")


def make_replay_buffer(E, cls="ReplayBuffer", keys=None, dtypes=None, name="rb", nonempty=True, tag=""):
    """symbolic buffer in an arbitrary WF state with n >= 1 (arrays allocated)
    or n == 0 (built by running the real constructor)"""
    keys = keys or DEFAULT_KEYS
    dtypes = dtypes or {k: DEFAULT_DTYPES.get(k, "float") for k in keys}
    ci = E.resolve(RB + cls)
    N = E.int(f"N{tag}")
    n = E.int(f"n{tag}")
    ins = E.int(f"ins{tag}")
    ln = E.int(f"len{tag}")
    E.assume(wf_scalar(N, ins, ln, n))
    E.assume(n >= 1)
    arrs = {}
    buf = {}
    for k in keys:
        a = E.new_arr(f"{name}.buffer[{k}]", N, VAL)
        a.dtype = dtypes[k]
        a.payload_shape = ()
        arrs[k] = a
        buf[k] = a
    from pyvc.core import NamedTupleType

    o = E.new_obj(ci, name=name, buffer=buf, Batch=NamedTupleType("Batch", keys), buffer_size=N,
                  current_len=ln, insert_idx=ins)
    wf_data_fact(E.st, keys, dtypes, {k: arrs[k].data for k in keys}, n, ln, N)
    return BufView(o, keys, dtypes, n, N, arrs)


def oblige_wf(E, prefix, view: BufView, n2, Hmap=None, datas=None):
    """WF of the buffer object in its current state for history length n2,
    with Hmap giving the (possibly extended) history per key"""
    o = view.obj
    N, ins, ln = o.fields["buffer_size"], o.fields["insert_idx"], o.fields["current_len"]
    E.oblige(f"{prefix}.wf.scalars", wf_scalar(N, ins, ln, n2))
    for k in view.keys:
        arr = o.fields["buffer"][k]
        hk = (Hmap or {}).get(k) or (lambda j, k=k: stored(k, view.dtypes[k], j))
        data = arr.data
        E.st.oblige_forall(
            f"{prefix}.wf.data[{k}]", [INT],
            lambda j, data=data, hk=hk: z3.Implies(
                z3.And(j >= C.to_z3(n2) - C.to_z3(ln), j < C.to_z3(n2)),
                z3.Select(data, j % C.to_z3(N)) == hk(j)), hint="j")
        E.oblige(f"{prefix}.wf.alloc[{k}]", C.compare("==", C.mk(arr.length) if not isinstance(arr.length, int) else arr.length, N))


def extended_history(view, n, sample):
    """H'_k(j) = sample_k if j == n else H_k(j) (as stored values)"""
    out = {}
    for k in view.keys:
        sk = sample[k]
        out[k] = (lambda j, k=k, sk=sk: z3.If(j == C.to_z3(n), cast_fn(view.dtypes[k])(_val(sk)), stored(k, view.dtypes[k], j)))
    return out


def _val(x):
    from pyvc.lib.np_model import to_sort

    return to_sort(x, VAL, None)
