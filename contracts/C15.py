"""C15 - deferred training releases exactly the collected steps; checkpoints only improve.

Functions under contract:
  rl_blox.blox.checkpointing.assess_performance_and_checkpoint  (full contract)
  rl_blox.blox.checkpointing.CheckpointState                    (class invariant CWF)
  rl_blox.algorithm.td7.train_td7                               (release block: C15.td7 tasks in contracts/loops)
Postconditions are transcribed from the property statement (see DESIGN 5, C15).
"""
import z3

from pyvc import core as C
from pyvc.core import band, bnot, bor, iff, implies, smin
from pyvc.runner import Task

PROPERTY = "C15"
LEVEL = "proof"
Q = "rl_blox.blox.checkpointing."
INF = 10 ** 8


def _state(E):
    """symbolic CheckpointState satisfying the class invariant CWF"""
    eps = E.int("episodes_since_update")
    ts = E.int("timesteps_since_update")
    mx = E.int("max_episodes_before_update")
    mn = E.real("min_return")
    best = E.real("best_min_return")
    cs = E.new_obj(Q + "CheckpointState", name="checkpoint_state",
                   episodes_since_udpate=eps, timesteps_since_upate=ts,
                   max_episodes_before_update=mx, min_return=mn, best_min_return=best)
    return cs, eps, ts, mx, mn, best


def cwf(eps, ts, mx, mn, best):
    """CWF: counters describe the current assessment window.
    eps = episodes in the window, ts = env steps in the window, mn = min(1e8,
    min return of the window); every return of the window was >= best
    (otherwise the window would have been cut)."""
    return band(eps >= 0, eps < mx, mx >= 1, ts >= eps, mn <= INF, mn >= best)


def _call(E, cs, spe, ret, epoch, rw, mxc, sbc):
    return E.call(Q + "assess_performance_and_checkpoint", cs, spe, ret, epoch, rw, mxc, sbc)


def _args(E):
    spe = E.int("steps_per_episode", 1)
    ret = E.real("episode_return")
    epoch = E.int("epoch", 0)
    rw = E.real("reset_weight", 0, 1)
    mxc = E.int("max_episodes_when_checkpointing", 1)
    sbc = E.int("steps_before_checkpointing")
    E.assume(ret <= INF)  # returns beyond the 1e8 sentinel are outside the documented range
    return spe, ret, epoch, rw, mxc, sbc


def h_contract(E):
    cs, eps, ts, mx, mn, best = _state(E)
    E.assume(cwf(eps, ts, mx, mn, best))
    spe, ret, epoch, rw, mxc, sbc = _args(E)
    upd, tr = _call(E, cs, spe, ret, epoch, rw, mxc, sbc)
    f = cs.fields
    eps2, ts2, mx2, mn2, best2 = (f["episodes_since_udpate"], f["timesteps_since_upate"],
                                  f["max_episodes_before_update"], f["min_return"], f["best_min_return"])
    W = ts + spe  # env steps collected in the window, including the episode that just ended
    wmin = smin(mn, ret)  # min return of the window
    cut = ret < best  # "an episode return falls below the best minimum so far"
    complete = (eps + 1 == mx)
    release = bor(cut, complete)
    switch = band(release, epoch < sbc, sbc <= epoch + W)
    # -- released iterations == collected steps, none lost, none duplicated
    E.oblige("release.iff_cut_or_complete", iff(release, C.compare(">", tr, 0)))
    E.oblige("release.count_equals_window_steps", implies(release, tr == W))
    E.oblige("norelease.zero_iterations", implies(bnot(release), tr == 0))
    E.oblige("release.counters_reset", implies(release, band(eps2 == 0, ts2 == 0, mn2 == INF)))
    E.oblige("norelease.counters_accumulate", implies(bnot(release), band(eps2 == eps + 1, ts2 == W, mn2 == wmin)))
    # -- checkpoint replaced only after a complete window whose returns are all >= best
    E.oblige("checkpoint.iff_complete_and_all_ge_best", iff(upd, band(complete, wmin >= best)))
    E.oblige("checkpoint.never_on_cut", implies(cut, bnot(upd)))
    E.oblige("cut.exactly_when_return_below_best", iff(band(C.compare(">", tr, 0), bnot(complete)), band(cut, bnot(complete))))
    E.oblige("best.improves_or_scaled", best2 == C.ite(upd, wmin, best) * C.ite(switch, rw, 1))
    E.oblige("best.only_improves_without_switch", implies(bnot(switch), best2 >= best))
    # -- switch to the longer window exactly when the iteration count crosses the threshold
    E.oblige("switch.window_iff_crossing", mx2 == C.ite(switch, mxc, mx))
    E.oblige("switch.once.after_threshold_never", implies(epoch >= sbc, band(mx2 == mx, best2 == C.ite(upd, wmin, best))))
    E.oblige("switch.once.crossing_passes_threshold", implies(switch, epoch + tr >= sbc))
    # -- class invariant preserved (induction over calls)
    E.oblige("cwf.preserved", cwf(eps2, ts2, mx2, mn2, best2))
    # vacuity canaries (must be refuted)
    E.oblige("canary.tr_is_old_ts", tr == ts, assume_after=False)
    E.oblige("canary.never_updates", bnot(upd), assume_after=False)
    E.cover("end")


def h_init(E):
    """CheckpointState() establishes CWF"""
    cs = E.call(Q + "CheckpointState")
    f = cs.fields
    E.oblige("init.cwf", cwf(f["episodes_since_udpate"], f["timesteps_since_upate"], f["max_episodes_before_update"],
                              f["min_return"], f["best_min_return"]))
    E.oblige("init.window_empty", band(C.compare("==", f["episodes_since_udpate"], 0), C.compare("==", f["timesteps_since_upate"], 0)))
    E.oblige("canary.init", C.compare("==", f["max_episodes_before_update"], 2), assume_after=False)


def h_two_calls(E):
    """history lemma: over two consecutive calls with the caller's
    epoch' = epoch + training_steps, the window switch happens at most once and
    released iterations add up to the collected steps."""
    cs, eps, ts, mx, mn, best = _state(E)
    E.assume(cwf(eps, ts, mx, mn, best))
    spe, ret, epoch, rw, mxc, sbc = _args(E)
    upd1, tr1 = _call(E, cs, spe, ret, epoch, rw, mxc, sbc)
    mx_mid = cs.fields["max_episodes_before_update"]
    spe2 = E.int("steps_per_episode_2", 1)
    ret2 = E.real("episode_return_2")
    E.assume(ret2 <= INF)
    epoch2 = epoch + tr1
    upd2, tr2 = _call(E, cs, spe2, ret2, epoch2, rw, mxc, sbc)
    mx_end = cs.fields["max_episodes_before_update"]
    sw1 = band(C.compare(">", tr1, 0), epoch < sbc, sbc <= epoch + tr1)
    sw2 = band(C.compare(">", tr2, 0), epoch2 < sbc, sbc <= epoch2 + tr2)
    E.oblige("switch.at_most_once", bnot(band(sw1, sw2)))
    E.oblige("steps.conserved", tr1 + tr2 + cs.fields["timesteps_since_upate"] == ts + spe + spe2)
    E.oblige("canary.two", tr1 + tr2 == ts, assume_after=False)


from . import loops  # noqa: E402

TASKS = [
    Task("assess", h_contract),
    Task("init", h_init),
    Task("history2", h_two_calls),
] + loops.td7_tasks({"C15"})

TRUSTED = [
    "reals for float returns (1e8 sentinel exact)",
    "python int arithmetic is unbounded (exact)",
]
ASSUMPTIONS = [
    "episode returns and min_return lie in (-inf, 1e8] (1e8 is the code's 'no return yet' sentinel)",
    "reset_weight in [0,1] and max_episodes_when_checkpointing >= 1 (documented configuration range)",
    "steps_per_episode >= 1 (an episode has at least one step)",
]
NOT_COVERED = [
    "steps of episodes that end before learning_starts belong to no window (documented warm-up)",
]
REPLAY = {"assess.": "c15_assess", "history2.": "c15_assess", "train_td7": "loops_native"}
