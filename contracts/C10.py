"""C10 - actions sent to the environment respect the action-space bounds.

Functions under contract (real source, interpreted):
  rl_blox.algorithm.ddpg.sample_actions / make_sample_actions
  rl_blox.algorithm.td3.sample_target_actions / make_sample_target_actions
  rl_blox.blox.function_approximator.policy_head.DeterministicTanhPolicy.__init__/__call__/scale_output
  rl_blox.blox.cross_entropy_method.cem_sample / cem_update / optimize_cem
  rl_blox.algorithm.pets._init_mpc_optimizer_cem / PETSMPCState.initial_plan / mpc_action /
      _pets_optimize / _pets_opt_iter

Postconditions are transcribed from the property statement and the docstring
formulas (DESIGN 5, C10); per component d, scale_d = (high_d - low_d) / 2.
Every function contract's postcondition is a python function `post_*` that the
training-loop contracts can call on the values they observe.
"""
import z3

from pyvc import core as C
from pyvc import tensor as T
from pyvc.core import INT, KEY, REAL, Sym, band, bnot, bor, iff, implies
from pyvc.interp import LoopSpec
from pyvc.lib import LIB
from pyvc.lib.ext_cem import sort_model
from pyvc.lib.ext_spaces import BOX, box_sample, mk_box
from pyvc.runner import Task

from .nets import mk_net, net_call, rows_tensor

PROPERTY = "C10"
LEVEL = "proof"
ALG = "rl_blox.algorithm."
BLX = "rl_blox.blox."
TANH = BLX + "function_approximator.policy_head.DeterministicTanhPolicy"


# =========================================================================
# generic helpers
# =========================================================================
def rng_of(shape):
    """index-range guard for a tensor shape: fn(*idx) -> z3 Bool"""
    return lambda *i: z3.And(*[z3.And(i[k] >= 0, i[k] < T.dim_z(d)) for k, d in enumerate(shape)]) if shape else z3.BoolVal(True)


def shape_is(E, name, t, dims):
    dims = tuple(T.norm_dim(d) for d in dims)
    ok = isinstance(t, T.Tensor) and t.ndim == len(dims) and all(T.dim_eq(a, b) for a, b in zip(t.shape, dims))
    if ok:
        E.st.ok(name)
    else:
        E.st.fail(name, f"shape {getattr(t, 'shape', type(t).__name__)} != {dims}")
    return ok


def bcast_last(t, nd):
    """index function of a tensor that is broadcast against the trailing axes of an nd-index"""
    return lambda *i: t.at(*T._bidx(t, nd, i))


def _restricted(st, using):
    """context: only the quantified hypotheses whose name starts with one of `using`
    are visible (also to the congruence closure of Sum nodes) - hiding hypotheses is sound"""
    class Ctx:
        def __enter__(self):
            self.saved = st.qfacts
            if using is not None:
                self.vis = [q for q in st.qfacts if any(q.name.startswith(u) for u in using)]
                st.qfacts = list(self.vis)
            return self

        def __exit__(self, *a):
            if using is not None:
                vis_ids = {id(q) for q in self.vis}
                new = [q for q in st.qfacts if id(q) not in vis_ids]  # facts added meanwhile (sum congruences)
                st.qfacts = self.saved + new
            return False
    return Ctx()


def oblige_forall(E, name, sorts, fn, hint="d", using=None, assume=True):
    """Skolemised forall-goal; the statement is assumed afterwards ONLY when it was
    discharged (a failed clause must not mask later ones).  Returns True iff discharged."""
    st = E.st
    n0 = len(st.results)
    sks = [st.fresh(f"{hint}{k}", s) for k, s in enumerate(sorts)]
    with _restricted(st, using):
        st.oblige(name, C.as_bool(fn(*sks)), assume_after=False, extra_pool=[t for t in sks if t.sort() == INT])
    ok = all(r.verdict == "discharged" for r in st.results[n0:])
    if ok and assume:
        st.assume_forall(sorts, fn, name)
    return ok


def oblige_within(E, name, x, lo, hi, using=None, assume=True):
    """forall idx in range(x.shape): lo[idx] <= x[idx] <= hi[idx]  (lo/hi broadcast against x's trailing axes)"""
    x = T.as_tensor(x)
    lo, hi = T.as_tensor(lo), T.as_tensor(hi)
    n = x.ndim
    g = rng_of(x.shape)
    lof, hif = bcast_last(lo, n), bcast_last(hi, n)

    def fn(*i):
        v = C.as_real(x.at(*i))
        return z3.Implies(g(*i), z3.And(C.as_real(lof(*i)) <= v, v <= C.as_real(hif(*i))))

    if n == 0:
        E.oblige(name, Sym(fn()), assume_after=False)
        return E.st.results[-1].verdict == "discharged"
    return oblige_forall(E, name, [INT] * n, fn, using=using, assume=assume)


def oblige_eq(E, name, got, want, using=None, assume=True):
    """tensor equality: same shape (syntactic, as NumPy decides it) and equal elements"""
    got, want = T.as_tensor(got), T.as_tensor(want)
    r = T.tensor_eq_goal(got, want)
    if r is None:
        E.st.fail(name, f"shape {got.shape} vs required {want.shape}")
        return False
    sorts, fn = r
    if not sorts:
        E.oblige(name, Sym(fn()), assume_after=False)
        return E.st.results[-1].verdict == "discharged"
    return oblige_forall(E, name, sorts, fn, hint="i", using=using, assume=assume)


def assume_within(E, name, x, lo, hi):
    x = T.as_tensor(x)
    lo, hi = T.as_tensor(lo), T.as_tensor(hi)
    n = x.ndim
    g = rng_of(x.shape)
    lof, hif = bcast_last(lo, n), bcast_last(hi, n)
    E.st.assume_forall([INT] * n, lambda *i: z3.Implies(g(*i), z3.And(C.as_real(lof(*i)) <= C.as_real(x.at(*i)), C.as_real(x.at(*i)) <= C.as_real(hif(*i)))), name)


def clip_observer(E, fn, args, kwargs):
    """records the operands of every jnp.clip executed by the code under contract"""
    if isinstance(fn, C.Builtin) and fn.name in ("jax.numpy.clip", "numpy.clip") and not E.st.ghost.get("in_spec"):
        a = list(args) + [None] * 3
        x = a[0]
        lo = kwargs.get("a_min", kwargs.get("min", a[1]))
        hi = kwargs.get("a_max", kwargs.get("max", a[2]))
        E.st.ghost.setdefault("clips", []).append((x, lo, hi))
    return None


def setup_clip(shared):
    shared.observers.append(clip_observer)


def normal_of(E, key, shape):
    """the term jax.random.normal(key, shape) of the jax.random model"""
    return LIB.funcs["jax.random.normal"].fn(E, key, tuple(shape))


# =========================================================================
# postconditions (reusable by the training-loop contracts)
# =========================================================================
def half_range(box):
    return (box.fields["high"] - box.fields["low"]) / 2


def post_in_box(E, name, box, action, using=None):
    """`action` (shape (..., A)) lies inside the action space, component-wise"""
    oblige_within(E, name, action, box.fields["low"], box.fields["high"], using=using)


def post_sample_actions(E, prefix, box, sigma, pi_o, key, result, clips):
    """ddpg.sample_actions: result = clip(pi(o) + sigma * scale * normal(key, shape), low, high)"""
    low, high = box.fields["low"], box.fields["high"]
    if not shape_is(E, f"{prefix}.shape", result, pi_o.shape):
        return
    z = normal_of(E, key, pi_o.shape)
    exploring = pi_o + sigma * half_range(box) * z  # property: action + noise level * half range * N(0,1)
    if not clips:
        E.st.fail(f"{prefix}.pre_clip", "no clipping step was executed")
    else:
        x, lo, hi = clips[-1]
        oblige_eq(E, f"{prefix}.pre_clip", x, exploring)
        oblige_eq(E, f"{prefix}.clip_is_to_action_bounds.low", T.as_tensor(lo), low)
        oblige_eq(E, f"{prefix}.clip_is_to_action_bounds.high", T.as_tensor(hi), high)
    post_in_box(E, f"{prefix}.bounds", box, result)
    oblige_eq(E, f"{prefix}.value", result, T.clip(exploring, low, high))


def post_sample_target_actions(E, prefix, box, sigma, noise_clip, pi_o, key, result, clips):
    """td3.sample_target_actions: result = clip(pi(o) + clip(sigma*scale*z, -c*scale, c*scale), low, high)"""
    low, high = box.fields["low"], box.fields["high"]
    if not shape_is(E, f"{prefix}.shape", result, pi_o.shape):
        return
    scale = half_range(box)
    z = normal_of(E, key, pi_o.shape)
    eps = sigma * scale * z
    c = noise_clip * scale
    smoothed = pi_o + T.clip(eps, -c, c)
    if len(clips) < 2:
        E.st.fail(f"{prefix}.pre_clip", f"{len(clips)} clipping steps were executed, the documented sampler has two")
        E.st.fail(f"{prefix}.noise_bound", "no clipped smoothing noise")
    else:
        x0 = clips[0][0]
        x1 = clips[-1][0]
        oblige_eq(E, f"{prefix}.noise_pre_clip", x0, eps)
        oblige_eq(E, f"{prefix}.pre_clip", x1, smoothed)
        # target-smoothing noise actually added to the policy action: |x1 - pi(o)| <= noise_clip * scale
        oblige_within(E, f"{prefix}.noise_bound", T.as_tensor(x1) - pi_o, -c, c)
    post_in_box(E, f"{prefix}.bounds", box, result)
    oblige_eq(E, f"{prefix}.value", result, T.clip(smoothed, low, high))


def post_tanh_policy(E, prefix, box, y, out):
    """DeterministicTanhPolicy: tanh maps the raw output y to [-1, 1], which is mapped
    affinely onto [low, high]:  out = low + (tanh(y) + 1) * (high - low) / 2"""
    low, high = box.fields["low"], box.fields["high"]
    if not shape_is(E, f"{prefix}.shape", out, y.shape):
        return
    post_in_box(E, f"{prefix}.bounds", box, out)
    oblige_eq(E, f"{prefix}.value", out, low + (T.tfn("tanh", y) + 1) * (high - low) / 2)


# =========================================================================
# harness pieces
# =========================================================================
def _dims(E, batch, act1=False):
    D = E.dim("D_obs", 1)  # created first: concrete-size confirmation runs then use D_act = 2 (per-dimension bounds differ)
    A = 1 if act1 else E.dim("D_act", 1)  # act1: degenerate scenario with ONE action component (python int 1)
    bs = () if not batch else ((1,) if batch == 1 else (E.dim("N", 1),))
    return A, D, bs


def _policies(E, kind, box, A):
    """the policy handed to the samplers: an arbitrary network (arbitrary, possibly
    huge outputs - the samplers do not assume a tanh head) or the real tanh-scaled head"""
    net = mk_net(E, "pi", A)
    if kind == "net":
        return net, (lambda obs: net_call(E, net, obs))
    pol = E.call(TANH, net, box)
    return pol, (lambda obs: E.call(pol, obs))


def mk_h_sample_actions(kind, batch, act1=False):
    def h(E):
        A, D, bs = _dims(E, batch, act1)
        box = mk_box(E, "action_space", A)
        sigma = E.real("exploration_noise")
        policy, apply = _policies(E, kind, box, A)
        obs = rows_tensor(E, "obs", bs, D)
        key = E.val("key", KEY)
        sampler = E.call(ALG + "ddpg.make_sample_actions", box, sigma)
        E.st.ghost["clips"] = []
        result = E.call(sampler, policy, obs, key)
        clips = list(E.st.ghost["clips"])
        E.st.ghost["in_spec"] = True
        pi_o = apply(obs)
        post_sample_actions(E, "explore", box, sigma, pi_o, key, result, clips)
        idx = [0] * result.ndim
        E.oblige("canary.explore", C.compare("==", result.at(*idx), box.fields["low"].at(0) - 1), assume_after=False)
    return h


def mk_h_sample_target_actions(kind, batch, act1=False):
    def h(E):
        A, D, bs = _dims(E, batch, act1)
        box = mk_box(E, "action_space", A)
        sigma = E.real("exploration_noise")
        noise_clip = E.real("noise_clip", 0)  # requires noise_clip >= 0
        policy, apply = _policies(E, kind, box, A)
        obs = rows_tensor(E, "obs", bs, D)
        key = E.val("key", KEY)
        sampler = E.call(ALG + "td3.make_sample_target_actions", box, sigma, noise_clip)
        E.st.ghost["clips"] = []
        result = E.call(sampler, policy, obs, key)
        clips = list(E.st.ghost["clips"])
        E.st.ghost["in_spec"] = True
        pi_o = apply(obs)
        post_sample_target_actions(E, "smooth", box, sigma, noise_clip, pi_o, key, result, clips)
        idx = [0] * result.ndim
        E.oblige("canary.smooth", C.compare("==", result.at(*idx), box.fields["high"].at(0) + 1), assume_after=False)
    return h


def mk_h_tanh(batch, act1=False):
    def h(E):
        A, D, bs = _dims(E, batch, act1)
        box = mk_box(E, "action_space", A)
        net = mk_net(E, "pi", A)
        pol = E.call(TANH, net, box)
        # constructor: scale = half range, bias = centre of the box
        oblige_eq(E, "tanh.init.scale", pol.fields["action_scale"], half_range(box))
        oblige_eq(E, "tanh.init.bias", pol.fields["action_bias"], (box.fields["high"] + box.fields["low"]) / 2)
        E.oblige("tanh.init.net", pol.fields["policy_net"] is net)
        # scale_output on an ARBITRARY real tensor (any magnitude)
        y = T.fresh_tensor("y", bs + (A,), REAL)
        out = E.call(E.getattr(pol, "scale_output"), y)
        post_tanh_policy(E, "tanh.scale_output", box, y, out)
        # __call__ on an observation
        obs = rows_tensor(E, "obs", bs, D)
        act = E.call(pol, obs)
        post_tanh_policy(E, "tanh.call", box, net_call(E, net, obs), act)
        idx = [0] * out.ndim
        E.oblige("canary.tanh", C.compare("==", out.at(*idx), box.fields["low"].at(0) - 1), assume_after=False)
    return h


# =========================================================================
# finite-sum bound lemma (lemmas/SumLemmas.lean: PyvcSum.sum_mem_Icc / sum_ge / sum_le / mean_mem_Icc)
# =========================================================================
def sum_bounds_lemma(E, name, t, lo=None, hi=None, using=None):
    """t: tensor (K, *rest); lo / hi: tensors broadcastable to `rest` (or None).
    OBLIGES the premise  forall j < K, p: lo[p] <= t[j, p] <= hi[p]  and only when it
    was discharged ASSUMES the conclusion for S[p] = sum_j t[j, p]:
        K * lo[p] <= S[p] <= K * hi[p]      and, for K >= 1,   lo[p] <= S[p] / K <= hi[p].
    Returns S (the Sum node is shared with the specification that uses it)."""
    t = T.as_tensor(t)
    K = t.shape[0]
    rest = t.shape[1:]
    n = len(rest)
    S = T.as_tensor(T.reduce(t, "sum", 0))
    lo_f = bcast_last(T.as_tensor(lo), n) if lo is not None else None
    hi_f = bcast_last(T.as_tensor(hi), n) if hi is not None else None
    g = rng_of(t.shape)
    gr = rng_of(rest)

    def premise(*i):
        v = C.as_real(t.at(*i))
        cs = []
        if lo_f is not None:
            cs.append(C.as_real(lo_f(*i[1:])) <= v)
        if hi_f is not None:
            cs.append(v <= C.as_real(hi_f(*i[1:])))
        return z3.Implies(g(*i), z3.And(*cs))

    ok = oblige_forall(E, f"{name}.lemma_premise[sum_bounds]", [INT] * (n + 1), premise, hint="lj", using=using, assume=False)
    if not ok:
        return S
    Kz = z3.ToReal(T.dim_z(K))

    def conclusion(*p):
        s = C.as_real(S.at(*p))
        cs = []
        if lo_f is not None:
            l = C.as_real(lo_f(*p))
            cs += [Kz * l <= s, z3.Implies(Kz >= 1, l <= s / Kz)]
        if hi_f is not None:
            h = C.as_real(hi_f(*p))
            cs += [s <= Kz * h, z3.Implies(Kz >= 1, s / Kz <= h)]
        return z3.Implies(gr(*p), z3.And(*cs))

    if n == 0:
        E.assume(Sym(conclusion()))
    else:
        E.st.assume_forall([INT] * n, conclusion, f"{name}.lemma[sum_bounds]")
    return S


# =========================================================================
# cross-entropy method
# =========================================================================
CEM = BLX + "cross_entropy_method."


def truncnorm_of(E, key, shape):
    return LIB.funcs["jax.random.truncated_normal"].fn(E, key, -2, 2, shape=tuple(shape))


def post_cem_sample(E, prefix, samples, n_population, mean, var, key, lb, ub):
    """cem_sample ensures: n_population candidates, each inside [lb, ub]; the candidates are
    mean + z * sigma with z ~ truncated normal on [-2, 2] (key-determined) and
    sigma^2 = min(var, ((mean - lb)/2)^2, ((ub - mean)/2)^2)"""
    if not shape_is(E, f"{prefix}.shape", samples, (n_population,) + tuple(mean.shape)):
        return False
    ok = oblige_within(E, f"{prefix}.bounds", samples, lb, ub)
    z = truncnorm_of(E, key, (n_population,) + tuple(mean.shape))
    half_lo = (mean - lb) / 2
    half_hi = (ub - mean) / 2
    cvar = T.tmin(T.tmin(half_lo * half_lo, half_hi * half_hi), var)
    oblige_eq(E, f"{prefix}.value", samples, z * T.tfn("sqrt", cvar) + mean)
    return ok


def elites_of(E, samples, fitness, n_elite):
    """the n_elite best candidates: samples[top_k(fitness, n_elite)] (assumed sort model of lax.top_k)"""
    perm, _rank = sort_model(E, fitness)
    idx = T.Tensor((n_elite,), lambda j: Sym(perm(C.to_z3(j))), INT)
    return T.index(samples, idx), idx, perm


def post_cem_update(E, prefix, samples, fitness, mean, var, n_elite, alpha, lb, ub, mean2, var2):
    """cem_update ensures (docstring + property):
        mean' = alpha*mean + (1-alpha)*xbar,  var' = alpha*var + (1-alpha)*(1/k) sum_i (x_i - xbar)^2
    over the k = n_elite candidates with the largest fitness; lb <= mean' <= ub; var' >= 0"""
    ok = shape_is(E, f"{prefix}.mean_shape", mean2, mean.shape) and shape_is(E, f"{prefix}.var_shape", var2, var.shape)
    if not ok:
        return False
    elites, idx, perm = elites_of(E, samples, fitness, n_elite)
    # elites are samples, hence inside the bounds: mean of bounded terms is bounded (lemma)
    S = sum_bounds_lemma(E, f"{prefix}.elite_mean", elites, lb, ub, using=["pre.samples_in_bounds", "sort.perm"])
    xbar = S / n_elite
    okv = oblige_eq(E, f"{prefix}.mean_value", mean2, alpha * mean + (1 - alpha) * xbar, using=["sum.congr"])
    ok = oblige_within(E, f"{prefix}.mean_bounds", mean2, lb, ub, assume=False,
                       using=["pre.mean_in_bounds", f"{prefix}.elite_mean.lemma", "sum.congr"] + ([f"{prefix}.mean_value"] if okv else []))
    dev = elites - T.expand_dims(T.as_tensor(xbar), 0) if isinstance(xbar, T.Tensor) else elites - xbar
    S2 = sum_bounds_lemma(E, f"{prefix}.elite_var", dev * dev, lo=0, using=[])
    okv = oblige_eq(E, f"{prefix}.var_value", var2, alpha * var + (1 - alpha) * (S2 / n_elite), using=["sum.congr"])
    n = var2.ndim
    g = rng_of(var2.shape)
    ok2 = oblige_forall(E, f"{prefix}.var_nonneg", [INT] * n, lambda *p: z3.Implies(g(*p), C.as_real(var2.at(*p)) >= 0), hint="p", assume=False,
                        using=["pre.var_nonneg", f"{prefix}.elite_var.lemma", "sum.congr"] + ([f"{prefix}.var_value"] if okv else []))
    return ok and ok2


def _cem_dims(E, rank, one_elite=False):
    """dimension symbols in an order that keeps n_elite <= n_population when the engine
    re-runs a failed obligation on small concrete sizes (n_elite >= 2 there, so that a
    sum and a mean differ; the single-elite case is a separate task)"""
    n_elite = 1 if one_elite else E.dim("n_elite", 2)
    if rank == 1:
        pshape = (E.dim("n_parameters", 1),)
    else:
        pshape = (E.dim("plan_horizon", 1), E.dim("D_act", 1))
    n_pop = E.dim("n_population", 1)
    return n_elite, pshape, n_pop


def _cem_dist(E, pshape):
    """search distribution inside the box: lb <= mean <= ub, var >= 0"""
    mean = T.fresh_tensor("mean", pshape, REAL)
    var = T.fresh_tensor("var", pshape, REAL)
    lb = T.fresh_tensor("lb", pshape, REAL)
    ub = T.fresh_tensor("ub", pshape, REAL)
    assume_within(E, "pre.mean_in_bounds", mean, lb, ub)
    g = rng_of(pshape)
    E.st.assume_forall([INT] * len(pshape), lambda *p: z3.Implies(g(*p), C.as_real(var.at(*p)) >= 0), "pre.var_nonneg")
    return mean, var, lb, ub


def mk_h_cem_sample(rank):
    def h(E):
        _ne, pshape, n_pop = _cem_dims(E, rank)
        mean, var, lb, ub = _cem_dist(E, pshape)
        key = E.val("key", KEY)
        samples = E.call(CEM + "cem_sample", mean, var, key, n_pop, lb, ub)
        post_cem_sample(E, "cem_sample", samples, n_pop, mean, var, key, lb, ub)
        idx = [0] * samples.ndim
        E.oblige("canary.cem_sample", C.compare("==", samples.at(*idx), lb.at(*idx[1:]) - 1), assume_after=False)
    return h


def mk_h_cem_update(rank, one_elite=False):
    def h(E):
        n_elite, pshape, n_pop = _cem_dims(E, rank, one_elite)
        E.assume(C.compare("<=", n_elite, n_pop))  # requires 1 <= n_elite <= n_population
        mean, var, lb, ub = _cem_dist(E, pshape)
        alpha = E.real("alpha", 0, 1)
        samples = T.fresh_tensor("samples", (n_pop,) + pshape, REAL)
        assume_within(E, "pre.samples_in_bounds", samples, lb, ub)
        fitness = T.fresh_tensor("fitness", (n_pop,), REAL)
        mean2, var2 = E.call(CEM + "cem_update", samples, fitness, mean, var, n_elite, alpha)
        post_cem_update(E, "cem_update", samples, fitness, mean, var, n_elite, alpha, lb, ub, mean2, var2)
        idx = [0] * mean2.ndim
        E.oblige("canary.cem_update", C.compare("==", mean2.at(*idx), lb.at(*idx) - 1), assume_after=False)
    return h


# =========================================================================
# modular contracts of cem_sample / cem_update (proved by the tasks above) used as stubs
# =========================================================================
def nonneg_q(t):
    g = rng_of(t.shape)
    return [INT] * t.ndim, (lambda *p: z3.Implies(g(*p), C.as_real(t.at(*p)) >= 0))


def within_q(x, lo, hi):
    x, lo, hi = T.as_tensor(x), T.as_tensor(lo), T.as_tensor(hi)
    n = x.ndim
    g = rng_of(x.shape)
    lof, hif = bcast_last(lo, n), bcast_last(hi, n)
    return [INT] * n, (lambda *i: z3.Implies(g(*i), z3.And(C.as_real(lof(*i)) <= C.as_real(x.at(*i)), C.as_real(x.at(*i)) <= C.as_real(hif(*i)))))


def same_shape(a, b):
    a, b = T.as_tensor(a), T.as_tensor(b)
    return a.ndim == b.ndim and all(T.dim_eq(x, y) for x, y in zip(a.shape, b.shape))


def stub_cem_sample(E, mean, var, step_key, n_population, lb, ub):
    """contract of cem_sample (tasks cem_sample*): requires lb <= mean <= ub, var >= 0,
    equal shapes; ensures a fresh (n_population,) + shape array inside [lb, ub]"""
    k = E.st.ghost["n_stub"] = E.st.ghost.get("n_stub", 0) + 1
    pre = "call.cem_sample.requires"
    if not (same_shape(mean, var) and same_shape(mean, lb) and same_shape(mean, ub)):
        raise C.PyRaise("AssertionError", "chex.assert_equal_shape")
    oblige_forall(E, f"{pre}.mean_in_bounds", *within_q(mean, lb, ub), assume=False)
    oblige_forall(E, f"{pre}.var_nonneg", *nonneg_q(T.as_tensor(var)), assume=False)
    samples = T.fresh_tensor("samples", (n_population,) + tuple(T.as_tensor(mean).shape), REAL, is_input=False)
    E.st.assume_forall(*within_q(samples, lb, ub), f"ens.cem_sample{k}.bounds")
    E.st.ghost["cem_bounds"] = (lb, ub)
    return samples


def stub_cem_update(E, samples, fitness, mean, var, n_elite, alpha):
    """contract of cem_update (tasks cem_update*) for the bounds lb, ub of the planner:
    requires samples and mean inside [lb, ub], var >= 0, 0 <= alpha <= 1, 1 <= n_elite <= n_population,
    fitness of shape (n_population,); ensures lb <= mean' <= ub, var' >= 0, shapes kept"""
    k = E.st.ghost["n_stub"] = E.st.ghost.get("n_stub", 0) + 1
    lb, ub = E.st.ghost["cem_bounds"]
    pre = "call.cem_update.requires"
    samples, fitness, mean, var = [T.as_tensor(x) for x in (samples, fitness, mean, var)]
    n_pop = samples.shape[0]
    if fitness.ndim != 1 or not T.dim_eq(fitness.shape[0], n_pop) or not same_shape(mean, var) or samples.ndim != mean.ndim + 1:
        E.st.fail(f"{pre}.shapes", f"samples {samples.shape} fitness {fitness.shape} mean {mean.shape} var {var.shape}")
    else:
        E.st.ok(f"{pre}.shapes")
    oblige_forall(E, f"{pre}.samples_in_bounds", *within_q(samples, lb, ub), assume=False)
    oblige_forall(E, f"{pre}.mean_in_bounds", *within_q(mean, lb, ub), assume=False)
    oblige_forall(E, f"{pre}.var_nonneg", *nonneg_q(var), assume=False)
    E.oblige(f"{pre}.alpha_in_unit_interval", band(C.compare(">=", alpha, 0), C.compare("<=", alpha, 1)), assume_after=False)
    E.oblige(f"{pre}.n_elite_in_range", band(C.compare(">=", n_elite, 1), C.compare("<=", n_elite, n_pop)), assume_after=False)
    mean2 = T.fresh_tensor("mean_next", mean.shape, REAL, is_input=False)
    var2 = T.fresh_tensor("var_next", var.shape, REAL, is_input=False)
    E.st.assume_forall(*within_q(mean2, lb, ub), f"ens.cem_update{k}.mean_bounds")
    E.st.assume_forall(*nonneg_q(var2), f"ens.cem_update{k}.var_nonneg")
    return mean2, var2


def dist_qinv(mean, var, lb, ub):
    """search-distribution invariant of the planner loops"""
    return [("mean_in_bounds",) + tuple(within_q(mean, lb, ub)), ("var_nonneg",) + tuple(nonneg_q(T.as_tensor(var)))]


def setup_optimize_cem(shared):
    shared.stubs[CEM + "cem_sample"] = stub_cem_sample
    shared.stubs[CEM + "cem_update"] = stub_cem_update
    shared.loop_specs[(CEM + "optimize_cem", 0)] = LoopSpec(qinv=lambda L: dist_qinv(L["mean"], L["var"], L["lb"], L["ub"]))


def mk_h_optimize_cem(rank):
    def h(E):
        n_elite, pshape, n_pop = _cem_dims(E, rank)
        E.assume(C.compare("<=", n_elite, n_pop))
        mean, var, lb, ub = _cem_dist(E, pshape)
        alpha = E.real("alpha", 0, 1)
        epsilon = E.real("epsilon")
        n_iter = E.int("n_iter", 0)
        key = E.val("key", KEY)
        fit = C.Builtin("fitness_function", lambda E_, x: T.fresh_tensor("fitness", (n_pop,), REAL, is_input=False))
        r = E.call(CEM + "optimize_cem", fit, mean, var, key, n_iter, n_pop, n_elite, lb, ub, epsilon, alpha)
        if shape_is(E, "optimize_cem.shape", r, pshape):
            oblige_within(E, "optimize_cem.result_in_bounds", r, lb, ub, assume=False)
            idx = [0] * r.ndim
            E.oblige("canary.optimize_cem", C.compare("==", r.at(*idx), lb.at(*idx) - 1), assume_after=False)
    return h


# =========================================================================
# PETS: CEM planner over action sequences
# =========================================================================
PETS = ALG + "pets."


def stacked(t, H):
    """bounds of a plan: the action bound repeated over the horizon, shape (H, A)"""
    return T.Tensor((H,) + tuple(t.shape), lambda h, *d: t.at(*d), REAL)


def _pets_dims(E):
    n_samples = E.dim("n_samples", 10)  # n_elite = int(0.1 * n_samples) >= 1 is a configuration precondition
    H = E.dim("plan_horizon", 1)
    A = E.dim("D_act", 1)
    return n_samples, H, A


def h_init_mpc_optimizer(E):
    """_init_mpc_optimizer_cem ensures: the returned closures are cem_sample / cem_update
    with lb / ub = the action bounds stacked over the horizon, n_population = n_samples,
    n_elite = int(0.1 * n_samples), hence (contracts above) candidates and the updated
    mean are inside the action bounds at every step of the plan"""
    n_samples, H, A = _pets_dims(E)
    box = mk_box(E, "action_space", A)
    low, high = box.fields["low"], box.fields["high"]
    sample_fn, update_fn = E.call(PETS + "_init_mpc_optimizer_cem", box, H, n_samples)
    lbs, ubs = stacked(low, H), stacked(high, H)
    mean = T.fresh_tensor("mean", (H, A), REAL)
    var = T.fresh_tensor("var", (H, A), REAL)
    assume_within(E, "pre.mean_in_bounds", mean, lbs, ubs)
    E.st.assume_forall(*nonneg_q(var), "pre.var_nonneg")
    key = E.val("key", KEY)
    # -- sample_fn(mean, var, key): real cem_sample through the returned partial
    actions = E.call(sample_fn, mean, var, key)
    post_cem_sample(E, "mpc.sample_fn", actions, n_samples, mean, var, key, lbs, ubs)
    if isinstance(actions, T.Tensor) and actions.ndim == 3:
        oblige_within(E, "mpc.sample_fn.every_planned_action_in_action_space", actions, low, high, assume=False, using=["mpc.sample_fn.bounds"])
    if isinstance(actions, T.Tensor) and actions.ndim == 3:
        E.oblige("canary.mpc_init_sample", C.compare("==", actions.at(0, 0, 0), low.at(0) - 1), assume_after=False)
    # -- update_fn(samples, fitness, mean, var): real cem_update through the returned partial
    samples = T.fresh_tensor("samples", (n_samples, H, A), REAL)
    assume_within(E, "pre.samples_in_bounds", samples, lbs, ubs)
    fitness = T.fresh_tensor("fitness", (n_samples,), REAL)
    mean2, var2 = E.call(update_fn, samples, fitness, mean, var)
    # witnesses of "update_fn is cem_update for SOME 1 <= n_elite <= n_samples and 0 <= alpha <= 1":
    # the parameters bound by the returned partial (documented defaults: int(0.1 * n_samples), 0.1)
    kw = update_fn.kwargs if isinstance(update_fn, C.Partial) else {}
    n_elite = kw.get("n_elite", LIB.builtins["int"].fn(E, C.binop("*", C.frac_of(0.1), n_samples)))
    alpha = kw.get("alpha", C.frac_of(0.1))
    E.oblige("mpc.update_fn.n_elite_in_range", band(C.compare(">=", n_elite, 1), C.compare("<=", n_elite, n_samples)), assume_after=False)
    E.oblige("mpc.update_fn.alpha_in_unit_interval", band(C.compare(">=", alpha, 0), C.compare("<=", alpha, 1)), assume_after=False)
    post_cem_update(E, "mpc.update_fn", samples, fitness, mean, var, n_elite, alpha, lbs, ubs, mean2, var2)
    E.st.oblige("canary.mpc_init", C.as_bool(C.compare("==", mean2.at(0, 0), low.at(0) - 1)), assume_after=False, using=["pre.", "sort.", "action_space."])


def mk_mpc_config(E, box, n_samples, H, A, sample_fn, update_fn, init_prev):
    """PETSMPCConfig as train_pets builds it; requires (established by train_pets):
    low <= avg_act <= high, init_var >= 0 of shape (H, A)"""
    avg_act = T.fresh_tensor("avg_act", (A,), REAL)
    assume_within(E, "pre.avg_act_in_bounds", avg_act, box.fields["low"], box.fields["high"])
    init_var = T.fresh_tensor("init_var", (H, A), REAL)
    E.st.assume_forall(*nonneg_q(init_var), "pre.init_var_nonneg")
    reward_model = C.Builtin("reward_model", lambda E_, a, o: C.Anything("reward"))
    return E.call(PETS + "PETSMPCConfig", plan_horizon=H, n_particles=E.dim("n_particles", 1), n_samples=n_samples,
                  n_opt_iter=E.int("n_opt_iter", 0), init_with_previous_plan=init_prev, reward_model=reward_model,
                  action_space_shape=(A,), avg_act=avg_act, init_var=init_var, sample_fn=sample_fn, update_fn=update_fn)


def stub_ts_inf(E, keys, model_idx, acts, obs, dynamics_model):
    """documented result shape of ts_inf (C17 proves its contents): (n_samples, n_particles, plan_horizon + 1) + obs.shape"""
    keys, acts, obs = T.as_tensor(keys), T.as_tensor(acts), T.as_tensor(obs)
    return T.fresh_tensor("trajectories", (acts.shape[0], keys.shape[1], C.binop("+", acts.shape[1], 1)) + tuple(obs.shape), REAL, is_input=False)


def stub_evaluate_plans(E, actions, trajectories, reward_model):
    """documented result shape of evaluate_plans (C17): expected returns, shape (n_samples,), arbitrary values"""
    return T.fresh_tensor("expected_returns", (T.as_tensor(actions).shape[0],), REAL, is_input=False)


def _first_or_later_iteration(E, fr):
    """best_return is -inf before the first iteration and a finite number afterwards"""
    if "best_return" in fr.vars and not E.branch(E.st.fresh_sym("first_iteration", C.BOOL)):
        fr.vars["best_return"] = E.st.fresh_sym("best_return", REAL)


def setup_pets_optimize(shared):
    shared.stubs[CEM + "cem_sample"] = stub_cem_sample
    shared.stubs[CEM + "cem_update"] = stub_cem_update
    shared.stubs[PETS + "ts_inf"] = stub_ts_inf
    shared.stubs[PETS + "evaluate_plans"] = stub_evaluate_plans
    shared.loop_specs[(PETS + "_pets_optimize", 0)] = LoopSpec(
        qinv=lambda L: dist_qinv(L["mean"], L["var"], *L.E.st.ghost["plan_bounds"]), havoc_extra=_first_or_later_iteration)


def _pets_world(E, init_prev):
    n_samples, H, A = _pets_dims(E)
    D = E.dim("D_obs", 1)
    box = mk_box(E, "action_space", A)
    sample_fn, update_fn = E.call(PETS + "_init_mpc_optimizer_cem", box, H, n_samples)
    config = mk_mpc_config(E, box, n_samples, H, A, sample_fn, update_fn, init_prev)
    lbs, ubs = stacked(box.fields["low"], H), stacked(box.fields["high"], H)
    E.st.ghost["plan_bounds"] = (lbs, ubs)
    model = E.new_obj("pyvc.Opaque", name="dynamics_model", n_ensemble=E.int("n_ensemble", 1))
    obs = T.fresh_tensor("obs", (D,), REAL)
    return n_samples, H, A, D, box, config, lbs, ubs, model, obs


def h_pets_opt_iter(E):
    """one optimizer iteration keeps the search distribution inside the plan bounds"""
    n_samples, H, A, D, box, config, lbs, ubs, model, obs = _pets_world(E, True)
    mean = T.fresh_tensor("mean", (H, A), REAL)
    var = T.fresh_tensor("var", (H, A), REAL)
    assume_within(E, "pre.mean_in_bounds", mean, lbs, ubs)
    E.st.assume_forall(*nonneg_q(var), "pre.var_nonneg")
    key = E.val("key", KEY)
    P = config.fields["n_particles"]
    model_indices = T.fresh_tensor("model_indices", (P,), INT)
    best_plan = T.fresh_tensor("best_plan", (H, A), REAL)
    best_return = E.real("best_return")
    out = E.call(PETS + "_pets_opt_iter", config, model, key, obs, model_indices, mean, var, best_plan, best_return)
    mean2, var2 = out[0], out[1]
    if shape_is(E, "opt_iter.mean_shape", mean2, (H, A)) and shape_is(E, "opt_iter.var_shape", var2, (H, A)):
        oblige_within(E, "opt_iter.mean_in_plan_bounds", mean2, lbs, ubs, assume=False)
        oblige_forall(E, "opt_iter.var_nonneg", *nonneg_q(var2), assume=False)
        E.oblige("canary.opt_iter", C.compare("==", mean2.at(0, 0), box.fields["low"].at(0) - 1), assume_after=False)


def h_pets_optimize(E):
    """_pets_optimize requires a plan inside the bounds; ensures the optimised plan is inside the bounds"""
    n_samples, H, A, D, box, config, lbs, ubs, model, obs = _pets_world(E, True)
    mean = T.fresh_tensor("mean", (H, A), REAL)
    assume_within(E, "pre.mean_in_bounds", mean, lbs, ubs)
    key = E.val("key", KEY)
    plan = E.call(PETS + "_pets_optimize", config, model, mean, key, obs)
    if shape_is(E, "pets_optimize.shape", plan, (H, A)):
        oblige_within(E, "pets_optimize.plan_in_bounds", plan, lbs, ubs, assume=False)
        E.oblige("canary.pets_optimize", C.compare("==", plan.at(0, 0), box.fields["low"].at(0) - 1), assume_after=False)


def stub_pets_optimize(E, config, dynamics_model, mean, key, obs):
    """contract of _pets_optimize (task pets_optimize)"""
    lbs, ubs = E.st.ghost["plan_bounds"]
    oblige_forall(E, "call._pets_optimize.requires.plan_in_bounds", *within_q(mean, lbs, ubs), assume=False)
    plan = T.fresh_tensor("optimized_plan", T.as_tensor(mean).shape, REAL, is_input=False)
    E.st.assume_forall(*within_q(plan, lbs, ubs), "ens._pets_optimize.plan_in_bounds")
    return plan


def setup_mpc_action(shared):
    shared.stubs[PETS + "_pets_optimize"] = stub_pets_optimize


def post_mpc_action(E, prefix, box, H, action, prev_plan):
    """mpc_action ensures: the returned action is inside the action space; the shifted
    plan kept for the next call has the same shape and stays inside the bounds"""
    A = box.fields["low"].shape[0]
    ok = shape_is(E, f"{prefix}.action_shape", action, (A,))
    if ok:
        post_in_box(E, f"{prefix}.action_in_bounds", box, action)
    pp = T.as_tensor(prev_plan)
    if pp.ndim != 2 or not T.dim_eq(pp.shape[1], A):
        E.st.fail(f"{prefix}.prev_plan_shape", f"{pp.shape}")
        return
    E.oblige(f"{prefix}.prev_plan_shape", C.compare("==", pp.shape[0], H))
    post_in_box(E, f"{prefix}.prev_plan_in_bounds", box, pp)


def h_mpc_action(E):
    init_prev = E.bool("init_with_previous_plan")
    n_samples, H, A, D, box, config, lbs, ubs, model, obs = _pets_world(E, init_prev)
    prev = T.fresh_tensor("prev_plan", (H, A), REAL)
    assume_within(E, "pre.prev_plan_in_bounds", prev, lbs, ubs)
    state = E.call(PETS + "PETSMPCState", dynamics_model=model, prev_plan=prev, key=E.val("key", KEY))
    optimize_fn = C.Partial(E.resolve(PETS + "_pets_optimize"), (config,), {})
    action = E.call(PETS + "mpc_action", config, state, optimize_fn, obs)
    post_mpc_action(E, "mpc_action", box, H, action, state.fields["prev_plan"])
    E.oblige("canary.mpc_action", C.compare("==", T.as_tensor(action).at(0), box.fields["low"].at(0) - 1), assume_after=False)


def h_initial_plan(E):
    n_samples, H, A, D, box, config, lbs, ubs, model, obs = _pets_world(E, True)
    plan = E.call(PETS + "PETSMPCState.initial_plan", config)
    if shape_is(E, "initial_plan.shape", plan, (H, A)):
        post_in_box(E, "initial_plan.in_bounds", box, plan)
        oblige_eq(E, "initial_plan.value", plan, stacked(config.fields["avg_act"], H))
        E.oblige("canary.initial_plan", C.compare("==", plan.at(0, 0), box.fields["low"].at(0) - 1), assume_after=False)


def h_box_model(E):
    """plumbing of the assumed Box model: attributes, isinstance tag, sample() inside the box"""
    A = E.dim("D_act", 1)
    box = mk_box(E, "action_space", A)
    s1 = E.call(E.getattr(box, "sample"))
    s2 = E.call(E.getattr(box, "sample"))
    shape_is(E, "box.sample_shape", s1, E.getattr(box, "shape"))
    post_in_box(E, "box.sample_in_bounds", box, s1)
    post_in_box(E, "box.second_sample_in_bounds", box, s2)
    E.oblige("box.is_box", LIB.builtins["isinstance"].fn(E, box, C.LibNS("gymnasium.spaces.Box")) is True)
    E.oblige("canary.box_samples_equal", C.compare("==", s1.at(0), s2.at(0)), assume_after=False)
    E.oblige("canary.box_sample_is_low", C.compare("==", s1.at(0), box.fields["low"].at(0)), assume_after=False)


TASKS = [
    Task("box_model", h_box_model),
    Task("sample_actions", mk_h_sample_actions("net", False), setup=setup_clip),
    Task("sample_actions_batch", mk_h_sample_actions("net", True), setup=setup_clip),
    Task("sample_actions_tanh_policy", mk_h_sample_actions("tanh", False), setup=setup_clip),
    Task("sample_target_actions", mk_h_sample_target_actions("net", False), setup=setup_clip),
    Task("sample_target_actions_batch", mk_h_sample_target_actions("net", True), setup=setup_clip),
    Task("sample_target_actions_tanh_policy", mk_h_sample_target_actions("tanh", True), setup=setup_clip),
    Task("tanh_policy", mk_h_tanh(False)),
    Task("tanh_policy_batch", mk_h_tanh(True)),
    Task("sample_actions_one_action_dim", mk_h_sample_actions("tanh", True, act1=True), setup=setup_clip),
    Task("sample_target_actions_one_action_dim", mk_h_sample_target_actions("tanh", True, act1=True), setup=setup_clip),
    Task("sample_target_actions_batch_of_one", mk_h_sample_target_actions("net", 1, act1=True), setup=setup_clip),
    Task("tanh_policy_one_action_dim", mk_h_tanh(True, act1=True)),
    Task("cem_sample", mk_h_cem_sample(1)),
    Task("cem_sample_plan", mk_h_cem_sample(2)),
    Task("cem_update", mk_h_cem_update(1)),
    Task("cem_update_plan", mk_h_cem_update(2)),
    Task("cem_update_single_elite", mk_h_cem_update(1, one_elite=True)),
    Task("cem_update_plan_single_elite", mk_h_cem_update(2, one_elite=True)),
    Task("optimize_cem", mk_h_optimize_cem(1), setup=setup_optimize_cem),
    Task("optimize_cem_plan", mk_h_optimize_cem(2), setup=setup_optimize_cem),
    Task("pets_init_mpc_optimizer", h_init_mpc_optimizer),
    Task("pets_opt_iter", h_pets_opt_iter, setup=setup_pets_optimize),
    Task("pets_optimize", h_pets_optimize, setup=setup_pets_optimize),
    Task("pets_mpc_action", h_mpc_action, setup=setup_mpc_action),
    Task("pets_initial_plan", h_initial_plan),
]

TRUSTED = [
    "reals for floats (the property's 'up to floating-point rounding of the bound itself' caveat)",
    "lemmas/SumLemmas.lean: PyvcSum.sum_mem_Icc, PyvcSum.sum_ge, PyvcSum.sum_le, PyvcSum.mean_mem_Icc "
    "(rule sum_bounds_lemma: premise obliged, conclusion assumed); PyvcSum.sum_congr_range (Sum-node congruence)",
    "lib jnp.clip(x, lo, hi) = minimum(maximum(x, lo), hi); tanh in [-1, 1]; sqrt(x)^2 = x and sqrt(x) >= 0 for x >= 0",
    "lib jax.random.normal / truncated_normal(key, -2, 2, shape): uninterpreted functions of (key, index), the latter with values in [-2, 2]",
    "lib jax.lax.top_k: indices of the k largest entries (descending sort permutation: distinct, in range); ties not modelled",
    "lib gymnasium.spaces.Box: low <= high component-wise, sample() inside the box (pyvc/lib/ext_spaces.py)",
    "lib nnx.Variable(v).value is v; nnx.jit / jax.jit / functools.partial are semantics-preserving wrappers",
    "python list comprehension over range(n) with a pure element = n copies (core.SymComp) stacked by jnp.vstack / jnp.array",
]
ASSUMPTIONS = [
    "action space is a 1-D Box with low_d <= high_d for every component (gymnasium's constructor check); bounds finite",
    "noise_clip >= 0 (sample_target_actions); exploration_noise is ANY real (bounds hold even for negative noise levels)",
    "the policy handed to the samplers is an arbitrary row-wise network (any output magnitude) or the tanh head around one",
    "cem_sample requires lb <= mean <= ub, var >= 0 and equal shapes; cem_update requires samples and mean inside [lb, ub], "
    "var >= 0, 0 <= alpha <= 1, 1 <= n_elite <= n_population",
    "PETS: n_samples >= 10 so that n_elite = int(0.1 * n_samples) >= 1; avg_act inside the box and init_var >= 0 "
    "(train_pets builds them as (high+low)/2 and (high-low)^2/16: to be established by the training-loop contract)",
    "ts_inf / evaluate_plans are replaced by their documented result shapes with arbitrary values (their contents are C17); "
    "the fitness / reward functions are arbitrary",
]
NOT_COVERED = [
    "float32 rounding at the bound (tanh(y)*scale+bias may exceed high by an ulp): outside the real-arithmetic model, checked only by the replay driver's tolerance",
    "the env.step(action) call sites of the training loops (training-loop contracts call post_in_box / post_sample_actions / post_mpc_action)",
    "tie-breaking of lax.top_k; n_elite = int(0.1 * n_samples) == 0 for n_samples < 10 (mean of an empty elite set is NaN) is excluded by the configuration precondition",
    "unbounded boxes (low = -inf / high = inf) - scale would be inf",
]
REPLAY = {
    "sample_actions": "c10_bounds",
    "sample_target_actions": "c10_bounds",
    "tanh_policy": "c10_bounds",
    "cem_": "c10_bounds",
    "optimize_cem": "c10_bounds",
    "pets_": "c10_bounds",
}
EXPLANATION = (
    "Per-component bounds proofs over symbolic action dimension / batch / horizon / population sizes: the samplers' "
    "results equal clip(pi(o) + noise, low, high) with the documented noise terms (observed at the executed jnp.clip calls), "
    "the tanh head maps every real to [low, high], CEM candidates and updated means stay in [lb, ub] (sqrt / truncation "
    "argument; mean-of-bounded-terms lemma), and the planner loops keep lb <= mean <= ub as a quantified loop invariant."
)
