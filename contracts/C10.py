"""C10 - actions sent to the environment respect the action-space bounds.

Functions under contract (real source, interpreted):
  rl_blox.algorithm.ddpg.sample_actions / make_sample_actions
  rl_blox.algorithm.td3.sample_target_actions / make_sample_target_actions
  rl_blox.blox.function_approximator.policy_head.DeterministicTanhPolicy.__init__/__call__/scale_output
  rl_blox.blox.cross_entropy_method.cem_sample / cem_update / optimize_cem
  rl_blox.algorithm.pets._init_mpc_optimizer_cem / PETSMPCState.initial_plan / mpc_action /
      _pets_optimize / _pets_opt_iter

Postconditions are transcribed from the property statement and the docstring
formulas (DESIGN 5, C10); per component d, scale_d = (high_d - low_d) / 2.
Every function contract's postcondition is a python function `post_*` that the
training-loop contracts can call on the values they observe.
"""
import z3

from pyvc import core as C
from pyvc import tensor as T
from pyvc.core import INT, KEY, REAL, Sym, band, bnot, bor, iff, implies
from pyvc.interp import LoopSpec
from pyvc.lib import LIB
from pyvc.lib.ext_cem import sort_model
from pyvc.lib.ext_spaces import BOX, box_sample, mk_box
from pyvc.runner import Task

from .nets import mk_net, net_call, rows_tensor

PROPERTY = "C10"
LEVEL = "proof"
ALG = "rl_blox.algorithm."
BLX = "rl_blox.blox."
TANH = BLX + "function_approximator.policy_head.DeterministicTanhPolicy"


# =========================================================================
# generic helpers
# =========================================================================
def rng_of(shape):
    """index-range guard for a tensor shape: fn(*idx) -> z3 Bool"""
    return lambda *i: z3.And(*[z3.And(i[k] >= 0, i[k] < T.dim_z(d)) for k, d in enumerate(shape)]) if shape else z3.BoolVal(True)


def shape_is(E, name, t, dims):
    dims = tuple(T.norm_dim(d) for d in dims)
    ok = isinstance(t, T.Tensor) and t.ndim == len(dims) and all(T.dim_eq(a, b) for a, b in zip(t.shape, dims))
    if ok:
        E.st.ok(name)
    else:
        E.st.fail(name, f"shape {getattr(t, 'shape', type(t).__name__)} != {dims}")
    return ok


def bcast_last(t, nd):
    """index function of a tensor that is broadcast against the trailing axes of an nd-index"""
    return lambda *i: t.at(*T._bidx(t, nd, i))


def oblige_forall(E, name, sorts, fn, hint="d", using=None):
    """Skolemised forall-goal; the statement is assumed afterwards ONLY when it was
    discharged (a failed clause must not mask later ones).  Returns True iff discharged."""
    st = E.st
    n0 = len(st.results)
    sks = [st.fresh(f"{hint}{k}", s) for k, s in enumerate(sorts)]
    st.oblige(name, C.as_bool(fn(*sks)), assume_after=False, extra_pool=[t for t in sks if t.sort() == INT], using=using)
    ok = all(r.verdict == "discharged" for r in st.results[n0:])
    if ok:
        st.assume_forall(sorts, fn, name)
    return ok


def oblige_within(E, name, x, lo, hi, using=None):
    """forall idx in range(x.shape): lo[idx] <= x[idx] <= hi[idx]  (lo/hi broadcast against x's trailing axes)"""
    x = T.as_tensor(x)
    lo, hi = T.as_tensor(lo), T.as_tensor(hi)
    n = x.ndim
    g = rng_of(x.shape)
    lof, hif = bcast_last(lo, n), bcast_last(hi, n)

    def fn(*i):
        v = C.as_real(x.at(*i))
        return z3.Implies(g(*i), z3.And(C.as_real(lof(*i)) <= v, v <= C.as_real(hif(*i))))

    if n == 0:
        E.oblige(name, Sym(fn()), assume_after=False)
        return E.st.results[-1].verdict == "discharged"
    return oblige_forall(E, name, [INT] * n, fn, using=using)


def oblige_eq(E, name, got, want, using=None):
    """tensor equality: same shape (syntactic, as NumPy decides it) and equal elements"""
    got, want = T.as_tensor(got), T.as_tensor(want)
    r = T.tensor_eq_goal(got, want)
    if r is None:
        E.st.fail(name, f"shape {got.shape} vs required {want.shape}")
        return False
    sorts, fn = r
    if not sorts:
        E.oblige(name, Sym(fn()), assume_after=False)
        return E.st.results[-1].verdict == "discharged"
    return oblige_forall(E, name, sorts, fn, hint="i", using=using)


def assume_within(E, name, x, lo, hi):
    x = T.as_tensor(x)
    lo, hi = T.as_tensor(lo), T.as_tensor(hi)
    n = x.ndim
    g = rng_of(x.shape)
    lof, hif = bcast_last(lo, n), bcast_last(hi, n)
    E.st.assume_forall([INT] * n, lambda *i: z3.Implies(g(*i), z3.And(C.as_real(lof(*i)) <= C.as_real(x.at(*i)), C.as_real(x.at(*i)) <= C.as_real(hif(*i)))), name)


def clip_observer(E, fn, args, kwargs):
    """records the operands of every jnp.clip executed by the code under contract"""
    if isinstance(fn, C.Builtin) and fn.name in ("jax.numpy.clip", "numpy.clip") and not E.st.ghost.get("in_spec"):
        a = list(args) + [None] * 3
        x = a[0]
        lo = kwargs.get("a_min", kwargs.get("min", a[1]))
        hi = kwargs.get("a_max", kwargs.get("max", a[2]))
        E.st.ghost.setdefault("clips", []).append((x, lo, hi))
    return None


def setup_clip(shared):
    shared.observers.append(clip_observer)


def normal_of(E, key, shape):
    """the term jax.random.normal(key, shape) of the jax.random model"""
    return LIB.funcs["jax.random.normal"].fn(E, key, tuple(shape))


# =========================================================================
# postconditions (reusable by the training-loop contracts)
# =========================================================================
def half_range(box):
    return (box.fields["high"] - box.fields["low"]) / 2


def post_in_box(E, name, box, action, using=None):
    """`action` (shape (..., A)) lies inside the action space, component-wise"""
    oblige_within(E, name, action, box.fields["low"], box.fields["high"], using=using)


def post_sample_actions(E, prefix, box, sigma, pi_o, key, result, clips):
    """ddpg.sample_actions: result = clip(pi(o) + sigma * scale * normal(key, shape), low, high)"""
    low, high = box.fields["low"], box.fields["high"]
    if not shape_is(E, f"{prefix}.shape", result, pi_o.shape):
        return
    z = normal_of(E, key, pi_o.shape)
    exploring = pi_o + sigma * half_range(box) * z  # property: action + noise level * half range * N(0,1)
    if not clips:
        E.st.fail(f"{prefix}.pre_clip", "no clipping step was executed")
    else:
        x, lo, hi = clips[-1]
        oblige_eq(E, f"{prefix}.pre_clip", x, exploring)
        oblige_eq(E, f"{prefix}.clip_is_to_action_bounds.low", T.as_tensor(lo), low)
        oblige_eq(E, f"{prefix}.clip_is_to_action_bounds.high", T.as_tensor(hi), high)
    post_in_box(E, f"{prefix}.bounds", box, result)
    oblige_eq(E, f"{prefix}.value", result, T.clip(exploring, low, high))


def post_sample_target_actions(E, prefix, box, sigma, noise_clip, pi_o, key, result, clips):
    """td3.sample_target_actions: result = clip(pi(o) + clip(sigma*scale*z, -c*scale, c*scale), low, high)"""
    low, high = box.fields["low"], box.fields["high"]
    if not shape_is(E, f"{prefix}.shape", result, pi_o.shape):
        return
    scale = half_range(box)
    z = normal_of(E, key, pi_o.shape)
    eps = sigma * scale * z
    c = noise_clip * scale
    smoothed = pi_o + T.clip(eps, -c, c)
    if len(clips) < 2:
        E.st.fail(f"{prefix}.pre_clip", f"{len(clips)} clipping steps were executed, the documented sampler has two")
        E.st.fail(f"{prefix}.noise_bound", "no clipped smoothing noise")
    else:
        x0 = clips[0][0]
        x1 = clips[-1][0]
        oblige_eq(E, f"{prefix}.noise_pre_clip", x0, eps)
        oblige_eq(E, f"{prefix}.pre_clip", x1, smoothed)
        # target-smoothing noise actually added to the policy action: |x1 - pi(o)| <= noise_clip * scale
        oblige_within(E, f"{prefix}.noise_bound", T.as_tensor(x1) - pi_o, -c, c)
    post_in_box(E, f"{prefix}.bounds", box, result)
    oblige_eq(E, f"{prefix}.value", result, T.clip(smoothed, low, high))


def post_tanh_policy(E, prefix, box, y, out):
    """DeterministicTanhPolicy: tanh maps the raw output y to [-1, 1], which is mapped
    affinely onto [low, high]:  out = low + (tanh(y) + 1) * (high - low) / 2"""
    low, high = box.fields["low"], box.fields["high"]
    if not shape_is(E, f"{prefix}.shape", out, y.shape):
        return
    post_in_box(E, f"{prefix}.bounds", box, out)
    oblige_eq(E, f"{prefix}.value", out, low + (T.tfn("tanh", y) + 1) * (high - low) / 2)


# =========================================================================
# harness pieces
# =========================================================================
def _dims(E, batch):
    A = E.dim("D_act", 1)
    D = E.dim("D_obs", 1)
    bs = () if not batch else (E.dim("N", 1),)
    return A, D, bs


def _policies(E, kind, box, A):
    """the policy handed to the samplers: an arbitrary network (arbitrary, possibly
    huge outputs - the samplers do not assume a tanh head) or the real tanh-scaled head"""
    net = mk_net(E, "pi", A)
    if kind == "net":
        return net, (lambda obs: net_call(E, net, obs))
    pol = E.call(TANH, net, box)
    return pol, (lambda obs: E.call(pol, obs))


def mk_h_sample_actions(kind, batch):
    def h(E):
        A, D, bs = _dims(E, batch)
        box = mk_box(E, "action_space", A)
        sigma = E.real("exploration_noise")
        policy, apply = _policies(E, kind, box, A)
        obs = rows_tensor(E, "obs", bs, D)
        key = E.val("key", KEY)
        sampler = E.call(ALG + "ddpg.make_sample_actions", box, sigma)
        E.st.ghost["clips"] = []
        result = E.call(sampler, policy, obs, key)
        clips = list(E.st.ghost["clips"])
        E.st.ghost["in_spec"] = True
        pi_o = apply(obs)
        post_sample_actions(E, "explore", box, sigma, pi_o, key, result, clips)
        idx = [0] * result.ndim
        E.oblige("canary.explore", C.compare("==", result.at(*idx), box.fields["low"].at(0) - 1), assume_after=False)
    return h


def mk_h_sample_target_actions(kind, batch):
    def h(E):
        A, D, bs = _dims(E, batch)
        box = mk_box(E, "action_space", A)
        sigma = E.real("exploration_noise")
        noise_clip = E.real("noise_clip", 0)  # requires noise_clip >= 0
        policy, apply = _policies(E, kind, box, A)
        obs = rows_tensor(E, "obs", bs, D)
        key = E.val("key", KEY)
        sampler = E.call(ALG + "td3.make_sample_target_actions", box, sigma, noise_clip)
        E.st.ghost["clips"] = []
        result = E.call(sampler, policy, obs, key)
        clips = list(E.st.ghost["clips"])
        E.st.ghost["in_spec"] = True
        pi_o = apply(obs)
        post_sample_target_actions(E, "smooth", box, sigma, noise_clip, pi_o, key, result, clips)
        idx = [0] * result.ndim
        E.oblige("canary.smooth", C.compare("==", result.at(*idx), box.fields["high"].at(0) + 1), assume_after=False)
    return h


def mk_h_tanh(batch):
    def h(E):
        A, D, bs = _dims(E, batch)
        box = mk_box(E, "action_space", A)
        net = mk_net(E, "pi", A)
        pol = E.call(TANH, net, box)
        # constructor: scale = half range, bias = centre of the box
        oblige_eq(E, "tanh.init.scale", pol.fields["action_scale"], half_range(box))
        oblige_eq(E, "tanh.init.bias", pol.fields["action_bias"], (box.fields["high"] + box.fields["low"]) / 2)
        E.oblige("tanh.init.net", pol.fields["policy_net"] is net)
        # scale_output on an ARBITRARY real tensor (any magnitude)
        y = T.fresh_tensor("y", bs + (A,), REAL)
        out = E.call(E.getattr(pol, "scale_output"), y)
        post_tanh_policy(E, "tanh.scale_output", box, y, out)
        # __call__ on an observation
        obs = rows_tensor(E, "obs", bs, D)
        act = E.call(pol, obs)
        post_tanh_policy(E, "tanh.call", box, net_call(E, net, obs), act)
        idx = [0] * out.ndim
        E.oblige("canary.tanh", C.compare("==", out.at(*idx), box.fields["low"].at(0) - 1), assume_after=False)
    return h


# =========================================================================
# finite-sum bound lemma (lemmas/SumLemmas.lean: PyvcSum.sum_mem_Icc / sum_ge / sum_le / mean_mem_Icc)
# =========================================================================
def sum_bounds_lemma(E, name, t, lo=None, hi=None):
    """t: tensor (K, *rest); lo / hi: tensors broadcastable to `rest` (or None).
    OBLIGES the premise  forall j < K, p: lo[p] <= t[j, p] <= hi[p]  and only when it
    was discharged ASSUMES the conclusion for S[p] = sum_j t[j, p]:
        K * lo[p] <= S[p] <= K * hi[p]      and, for K >= 1,   lo[p] <= S[p] / K <= hi[p].
    Returns S (the Sum node is shared with the specification that uses it)."""
    t = T.as_tensor(t)
    K = t.shape[0]
    rest = t.shape[1:]
    n = len(rest)
    S = T.as_tensor(T.reduce(t, "sum", 0))
    lo_f = bcast_last(T.as_tensor(lo), n) if lo is not None else None
    hi_f = bcast_last(T.as_tensor(hi), n) if hi is not None else None
    g = rng_of(t.shape)
    gr = rng_of(rest)

    def premise(*i):
        v = C.as_real(t.at(*i))
        cs = []
        if lo_f is not None:
            cs.append(C.as_real(lo_f(*i[1:])) <= v)
        if hi_f is not None:
            cs.append(v <= C.as_real(hi_f(*i[1:])))
        return z3.Implies(g(*i), z3.And(*cs))

    ok = oblige_forall(E, f"{name}.lemma_premise[sum_bounds]", [INT] * (n + 1), premise, hint="lj")
    if not ok:
        return S
    Kz = z3.ToReal(T.dim_z(K))

    def conclusion(*p):
        s = C.as_real(S.at(*p))
        cs = []
        if lo_f is not None:
            l = C.as_real(lo_f(*p))
            cs += [Kz * l <= s, z3.Implies(Kz >= 1, l <= s / Kz)]
        if hi_f is not None:
            h = C.as_real(hi_f(*p))
            cs += [s <= Kz * h, z3.Implies(Kz >= 1, s / Kz <= h)]
        return z3.Implies(gr(*p), z3.And(*cs))

    if n == 0:
        E.assume(Sym(conclusion()))
    else:
        E.st.assume_forall([INT] * n, conclusion, f"{name}.lemma[sum_bounds]")
    return S


# =========================================================================
# cross-entropy method
# =========================================================================
CEM = BLX + "cross_entropy_method."


def truncnorm_of(E, key, shape):
    return LIB.funcs["jax.random.truncated_normal"].fn(E, key, -2, 2, shape=tuple(shape))


def post_cem_sample(E, prefix, samples, n_population, mean, var, key, lb, ub):
    """cem_sample ensures: n_population candidates, each inside [lb, ub]; the candidates are
    mean + z * sigma with z ~ truncated normal on [-2, 2] (key-determined) and
    sigma^2 = min(var, ((mean - lb)/2)^2, ((ub - mean)/2)^2)"""
    if not shape_is(E, f"{prefix}.shape", samples, (n_population,) + tuple(mean.shape)):
        return False
    ok = oblige_within(E, f"{prefix}.bounds", samples, lb, ub)
    z = truncnorm_of(E, key, (n_population,) + tuple(mean.shape))
    half_lo = (mean - lb) / 2
    half_hi = (ub - mean) / 2
    cvar = T.tmin(T.tmin(half_lo * half_lo, half_hi * half_hi), var)
    oblige_eq(E, f"{prefix}.value", samples, z * T.tfn("sqrt", cvar) + mean)
    return ok


def elites_of(E, samples, fitness, n_elite):
    """the n_elite best candidates: samples[top_k(fitness, n_elite)] (assumed sort model of lax.top_k)"""
    perm, _rank = sort_model(E, fitness)
    idx = T.Tensor((n_elite,), lambda j: Sym(perm(C.to_z3(j))), INT)
    return T.index(samples, idx), idx, perm


def post_cem_update(E, prefix, samples, fitness, mean, var, n_elite, alpha, lb, ub, mean2, var2):
    """cem_update ensures (docstring + property):
        mean' = alpha*mean + (1-alpha)*xbar,  var' = alpha*var + (1-alpha)*(1/k) sum_i (x_i - xbar)^2
    over the k = n_elite candidates with the largest fitness; lb <= mean' <= ub; var' >= 0"""
    ok = shape_is(E, f"{prefix}.mean_shape", mean2, mean.shape) and shape_is(E, f"{prefix}.var_shape", var2, var.shape)
    if not ok:
        return False
    elites, idx, perm = elites_of(E, samples, fitness, n_elite)
    # elites are samples, hence inside the bounds: mean of bounded terms is bounded (lemma)
    S = sum_bounds_lemma(E, f"{prefix}.elite_mean", elites, lb, ub)
    xbar = S / n_elite
    oblige_eq(E, f"{prefix}.mean_value", mean2, alpha * mean + (1 - alpha) * xbar)
    ok = oblige_within(E, f"{prefix}.mean_bounds", mean2, lb, ub)
    dev = elites - T.expand_dims(T.as_tensor(xbar), 0) if isinstance(xbar, T.Tensor) else elites - xbar
    S2 = sum_bounds_lemma(E, f"{prefix}.elite_var", dev * dev, lo=0)
    oblige_eq(E, f"{prefix}.var_value", var2, alpha * var + (1 - alpha) * (S2 / n_elite))
    n = var2.ndim
    g = rng_of(var2.shape)
    ok2 = oblige_forall(E, f"{prefix}.var_nonneg", [INT] * n, lambda *p: z3.Implies(g(*p), C.as_real(var2.at(*p)) >= 0), hint="p")
    return ok and ok2


def _cem_dims(E, rank):
    """dimension symbols in an order that keeps n_elite <= n_population when the engine
    re-runs a failed obligation on small concrete sizes"""
    n_elite = E.dim("n_elite", 1)
    if rank == 1:
        pshape = (E.dim("n_parameters", 1),)
    else:
        pshape = (E.dim("plan_horizon", 1), E.dim("D_act", 1))
    n_pop = E.dim("n_population", 1)
    return n_elite, pshape, n_pop


def _cem_dist(E, pshape):
    """search distribution inside the box: lb <= mean <= ub, var >= 0"""
    mean = T.fresh_tensor("mean", pshape, REAL)
    var = T.fresh_tensor("var", pshape, REAL)
    lb = T.fresh_tensor("lb", pshape, REAL)
    ub = T.fresh_tensor("ub", pshape, REAL)
    assume_within(E, "pre.mean_in_bounds", mean, lb, ub)
    g = rng_of(pshape)
    E.st.assume_forall([INT] * len(pshape), lambda *p: z3.Implies(g(*p), C.as_real(var.at(*p)) >= 0), "pre.var_nonneg")
    return mean, var, lb, ub


def mk_h_cem_sample(rank):
    def h(E):
        _ne, pshape, n_pop = _cem_dims(E, rank)
        mean, var, lb, ub = _cem_dist(E, pshape)
        key = E.val("key", KEY)
        samples = E.call(CEM + "cem_sample", mean, var, key, n_pop, lb, ub)
        post_cem_sample(E, "cem_sample", samples, n_pop, mean, var, key, lb, ub)
        idx = [0] * samples.ndim
        E.oblige("canary.cem_sample", C.compare("==", samples.at(*idx), lb.at(*idx[1:]) - 1), assume_after=False)
    return h


def mk_h_cem_update(rank):
    def h(E):
        n_elite, pshape, n_pop = _cem_dims(E, rank)
        E.assume(C.compare("<=", n_elite, n_pop))  # requires 1 <= n_elite <= n_population
        mean, var, lb, ub = _cem_dist(E, pshape)
        alpha = E.real("alpha", 0, 1)
        samples = T.fresh_tensor("samples", (n_pop,) + pshape, REAL)
        assume_within(E, "pre.samples_in_bounds", samples, lb, ub)
        fitness = T.fresh_tensor("fitness", (n_pop,), REAL)
        mean2, var2 = E.call(CEM + "cem_update", samples, fitness, mean, var, n_elite, alpha)
        post_cem_update(E, "cem_update", samples, fitness, mean, var, n_elite, alpha, lb, ub, mean2, var2)
        idx = [0] * mean2.ndim
        E.oblige("canary.cem_update", C.compare("==", mean2.at(*idx), lb.at(*idx) - 1), assume_after=False)
    return h


TASKS = [
    Task("sample_actions", mk_h_sample_actions("net", False), setup=setup_clip),
    Task("sample_actions_batch", mk_h_sample_actions("net", True), setup=setup_clip),
    Task("sample_actions_tanh_policy", mk_h_sample_actions("tanh", False), setup=setup_clip),
    Task("sample_target_actions", mk_h_sample_target_actions("net", False), setup=setup_clip),
    Task("sample_target_actions_batch", mk_h_sample_target_actions("net", True), setup=setup_clip),
    Task("sample_target_actions_tanh_policy", mk_h_sample_target_actions("tanh", True), setup=setup_clip),
    Task("tanh_policy", mk_h_tanh(False)),
    Task("tanh_policy_batch", mk_h_tanh(True)),
    Task("cem_sample", mk_h_cem_sample(1)),
    Task("cem_sample_plan", mk_h_cem_sample(2)),
    Task("cem_update", mk_h_cem_update(1)),
    Task("cem_update_plan", mk_h_cem_update(2)),
]

TRUSTED = []
ASSUMPTIONS = []
NOT_COVERED = []
