"""C16 - black-box optimisers keep their distribution and bookkeeping invariants (CMA-ES part).

Functions under contract (rl_blox/algorithm/cmaes.py):
  CMAESConfig.create, CMAESState.create, Population.create, sample_population,
  get_next_parameters, set_evaluation_feedback, update_search_distribution
  (default and active variant), flat_params, set_params.
The cross-entropy-method half of the property (cem_sample / cem_update /
optimize_cem) is contracted in contracts/C10.py; its tasks are imported at the
bottom of this file (see `CEM TASKS`).

Postconditions are transcribed from the property statement (DESIGN 5, C16):
  W   recombination weights w_i = (log(P/2 + 1/2) - log(1 + i)) / Sigma, i < floor(P/2):
      positive, non-increasing, sum to one
  WF  well-formed configuration: mu == floor(P/2) >= 1, mueff > 0, 0 < c1, 0 < cmu,
      c1 + cmu < 1, 0 < cc <= 1, 0 < cs < 1, damps > 0, neg_cmu > 0 (what `create` establishes and
      what `update_search_distribution` relies on)
  INC incumbent: after a tell, best_fitness == min(old best_fitness, told cost), `<=`
      keeps the later candidate on ties, best_params is the candidate that was asked,
      `it` counts tells
  M   mean' == sum_{k<mu} w_k * samples[rank_k] with rank an ascending sort of the fitness
  S   var' <= var * exp(0.6)^2  (sigma'/sigma <= e^0.6), var' > 0
  C   cov' symmetric (both variants), positive diagonal (default variant)
  RT  flat_params(set_params(net, p)) == p
"""
import z3

from pyvc import core as C
from pyvc import tensor as T
from pyvc.core import INT, REAL, Opaque, Sym, band, bnot, bor, iff, implies, ite, smin
from pyvc.lib import ext_cmaes as X
from pyvc.lib.ext_symlist import SymList, fresh_symlist
from pyvc.runner import Task

PROPERTY = "C16"
LEVEL = "proof"
Q = "rl_blox.algorithm.cmaes."


def zr(x):
    return C.as_real(x)


def in_range(i, n):
    return z3.And(i >= 0, i < T.dim_z(n))


# =========================================================== configuration
CFG_FIELDS = ("active bounds maximize min_variance min_fitness_dist max_condition n_samples_per_update n_params mu "
              "weights mueff cc cs c1 cmu damps ps_update_weight hsig_threshold eigen_update_freq alpha_old neg_cmu").split()


def cfg_wf(f, P, n):
    """WF: the scalar part of the well-formed-configuration predicate"""
    return band(C.compare("==", f["n_samples_per_update"], P), C.compare("==", f["n_params"], n),
                C.compare("==", f["mu"], P // 2), C.compare(">=", f["mu"], 1),
                f["mueff"] > 0, f["c1"] > 0, f["cmu"] > 0, f["c1"] + f["cmu"] < 1,
                f["cc"] > 0, f["cc"] <= 1, f["cs"] > 0, f["cs"] < 1, f["damps"] > 0, f["neg_cmu"] > 0)


def weights_wf(E, name, w, mu, oblige=True):
    """W: positive, non-increasing (quantified) - obliged or assumed"""
    pos = lambda i: z3.Implies(in_range(i, mu), zr(w.at(i)) > 0)  # noqa: E731
    mono = lambda i, j: z3.Implies(z3.And(i >= 0, i <= j, j < T.dim_z(mu)), zr(w.at(i)) >= zr(w.at(j)))  # noqa: E731
    if oblige:
        E.st.oblige_forall(f"{name}.positive", [INT], pos, hint="i")
        E.st.oblige_forall(f"{name}.non_increasing", [INT, INT], mono, hint="i", using=[])
    else:
        E.st.assume_forall([INT], pos, f"{name}.positive")
        E.st.assume_forall([INT, INT], mono, f"{name}.non_increasing")


def mk_create(default_pop):
    def h(E):
        n = E.int("n_params", 1)
        P = None if default_pop else E.int("n_samples_per_update", 2)
        active = E.bool("active")
        maximize = E.bool("maximize")
        cfg = E.call(Q + "CMAESConfig.create", active, None, maximize, E.real("min_variance"), E.real("min_fitness_dist"),
                     E.real("max_condition"), n, P)
        f = cfg.fields
        if default_pop:
            # documented default population 4 + int(3 log n)
            logn = Sym(C.uf("log", REAL, REAL)(zr(n)))
            P = f["n_samples_per_update"]
            E.oblige("default.population_formula", Sym(C.to_z3(P) == 4 + z3.ToInt(3 * logn.z)))
            E.oblige("default.population_at_least_4", C.compare(">=", P, 4))
        if set(f) == set(CFG_FIELDS):
            E.st.ok("create.all_fields_set")
        else:
            E.st.fail("create.all_fields_set", str(sorted(set(f) ^ set(CFG_FIELDS))))
        w = f["weights"]
        mu = f["mu"]
        E.oblige("create.mu_is_half_population", C.compare("==", mu, P // 2))
        if not (isinstance(w, T.Tensor) and w.ndim == 1 and T.dim_eq(w.shape[0], T.norm_dim(mu) if isinstance(mu, Sym) else mu)):
            E.st.fail("weights.shape", f"{getattr(w, 'shape', None)} vs mu={mu}")
            return
        E.st.ok("weights.shape")
        # --- the sum the code normalises with: Sigma = sum_i (log(P/2+1/2) - log(1+i))
        log = C.uf("log", REAL, REAL)
        half = zr(P) / 2
        num = lambda i: log(half + z3.RealVal("1/2")) - log(1 + z3.ToReal(i))  # noqa: E731
        raw = T.Tensor((w.shape[0],), lambda i: Sym(num(C.to_z3(i))), REAL)
        sigma = T.reduce(raw, "sum")
        nd_sigma = X.node_of(E, sigma)
        E.st.oblige_forall("weights.numerator_positive", [INT], lambda i: z3.Implies(in_range(i, mu), num(i) > 0), hint="i")
        X.lemma_sum_pos(E, "weights.lemma_sigma_positive", nd_sigma, using=["weights.numerator_positive"])
        # the code's own normaliser is the same sum (congruence) - formula of the property
        E.st.oblige_forall("weights.formula", [INT], lambda i: z3.Implies(in_range(i, mu), zr(w.at(i)) == num(i) / C.to_z3(sigma)), hint="i", using=[])
        weights_wf(E, "weights", w, mu)
        # --- sum to one: sum_i num_i / Sigma == Sigma / Sigma
        tot = T.reduce(w, "sum")
        nd_tot = X.node_of(E, tot)
        X.lemma_sum_scale(E, "weights.lemma_sum_div", nd_tot, nd_sigma, sigma, using=["weights.formula"])
        E.oblige("weights.sum_to_one", C.compare("==", tot, 1))
        # --- mueff = 1 / sum w^2 > 0
        sq = T.reduce(w * w, "sum")
        X.lemma_sum_pos(E, "config.lemma_sum_squares_positive", X.node_of(E, sq), using=["weights.positive"])
        E.oblige("config.mueff_formula", C.compare("==", f["mueff"], 1 / sq))
        E.oblige("config.mueff_positive", f["mueff"] > 0)
        E.oblige("config.c1_positive", f["c1"] > 0)
        E.oblige("config.cmu_positive", f["cmu"] > 0)
        E.oblige("config.c1_plus_cmu_below_one", f["c1"] + f["cmu"] < 1)
        E.oblige("config.cc_in_unit_interval", band(f["cc"] > 0, f["cc"] <= 1))
        E.oblige("config.cs_in_unit_interval", band(f["cs"] > 0, f["cs"] < 1))
        E.oblige("config.damps_positive", f["damps"] > 0)
        E.oblige("config.neg_cmu_positive", f["neg_cmu"] > 0)
        E.oblige("config.well_formed", cfg_wf(f, P, n))
        E.oblige("config.flags_kept", band(iff(f["active"], active), iff(f["maximize"], maximize)))
        E.oblige("canary.weights_constant", Sym(zr(w.at(0)) == zr(w.at(1))), assume_after=False)
        E.oblige("canary.c1_large", f["c1"] > 1, assume_after=False)
    return h



# ================================================================== states
def stub_inv_sqrt(shared):
    """inv_sqrt (eigh-based) is opaque: three arrays of the right shapes"""
    def stub(E, cov):
        n = cov.shape[0]
        return (T.fresh_tensor("invsqrtC_new", (n, n), REAL, is_input=False), T.fresh_tensor("eigvec", (n, n), REAL, is_input=False),
                T.fresh_tensor("eigval_sqrt", (n,), REAL, is_input=False))
    shared.stubs[Q + "inv_sqrt"] = stub


def tensor_eq(E, name, got, want, using=None):
    got, want = T.as_tensor(got), T.as_tensor(want)
    r = T.tensor_eq_goal(got, want)
    if r is None:
        E.st.fail(name, f"shape {got.shape} vs required {want.shape}")
        return
    sorts, fn = r
    if not sorts:
        E.oblige(name, Sym(fn()))
    else:
        E.st.oblige_forall(name, sorts, fn, hint="i", using=using)


def is_plus_inf(v):
    return isinstance(v, Opaque) and v.tag == "inf"


def mk_state_create(cov_kind, with_key):
    def h(E):
        n = E.dim("n_params", 1)
        x0 = T.fresh_tensor("initial_params", (n,), REAL)
        var = E.real("variance")
        E.assume(var > 0)
        key = E.val("key", C.KEY) if with_key else None
        cov_in = None
        if cov_kind == "diag":
            cov_in = T.fresh_tensor("covariance", (n,), REAL)
            E.st.assume_forall([INT], lambda i: zr(cov_in.at(i)) > 0, "cov_in.positive")
        elif cov_kind == "full":
            cov_in = T.fresh_tensor("covariance", (n, n), REAL)
            E.st.assume_forall([INT, INT], lambda i, j: zr(cov_in.at(i, j)) == zr(cov_in.at(j, i)), "cov_in.symmetric")
            E.st.assume_forall([INT], lambda i: zr(cov_in.at(i, i)) > 0, "cov_in.positive_diagonal")
        s = E.call(Q + "CMAESState.create", key, x0, var, cov_in)
        f = s.fields
        E.oblige("canary.mean_zero", Sym(zr(f["mean"].at(0)) == 0), assume_after=False)
        E.oblige("init.counters_zero", band(C.compare("==", f["it"], 0), C.compare("==", f["eigen_decomp_updated"], 0), C.compare("==", f["best_fitness_it"], 0)))
        if is_plus_inf(f["best_fitness"]):
            E.st.ok("init.best_fitness_is_plus_infinity")
        else:
            E.st.fail("init.best_fitness_is_plus_infinity", repr(f["best_fitness"]))
        tensor_eq(E, "init.mean_is_initial_params", f["mean"], x0)
        tensor_eq(E, "init.last_mean_is_initial_params", f["last_mean"], x0)
        tensor_eq(E, "init.best_params_is_initial_params", f["best_params"], x0)
        E.oblige("init.variance", C.compare("==", f["var"], var))
        zero = T.full((n,), 0, REAL)
        tensor_eq(E, "init.pc_zero", f["pc"], zero)
        tensor_eq(E, "init.ps_zero", f["ps"], zero)
        cov = f["cov"]
        if cov_kind == "none":
            want = T.Tensor((n, n), lambda i, j: ite(C.compare("==", i, j), 1, 0), REAL)
        elif cov_kind == "diag":
            want = T.Tensor((n, n), lambda i, j: ite(C.compare("==", i, j), cov_in.at(i), 0), REAL)
        else:
            want = cov_in
        tensor_eq(E, "init.cov_value", cov, want)
        E.st.oblige_forall("init.cov_symmetric", [INT, INT], lambda i, j: z3.Implies(z3.And(in_range(i, n), in_range(j, n)), zr(cov.at(i, j)) == zr(cov.at(j, i))), hint="i")
        E.st.oblige_forall("init.cov_positive_diagonal", [INT], lambda i: z3.Implies(in_range(i, n), zr(cov.at(i, i)) > 0), hint="i")
        inv = f["invsqrtC"]
        if isinstance(inv, T.Tensor) and inv.ndim == 2 and T.dim_eq(inv.shape[0], n) and T.dim_eq(inv.shape[1], n):
            E.st.ok("init.invsqrtC_shape")
        else:
            E.st.fail("init.invsqrtC_shape", repr(inv))
        if with_key:
            E.oblige("init.key_kept", C.compare("==", f["key"], key))
        else:
            E.oblige("init.default_key_is_key0", C.compare("==", f["key"], Sym(C.uf("key_of_seed", INT, C.KEY)(z3.IntVal(0)))))
    return h


def h_population_create(E):
    """bounded stand-in: `[np.inf] * len(samples)` is a python list replication"""
    n = E.dim("n_params", 1)
    for P in (1, 2, 3, 6):
        samples = T.fresh_tensor(f"samples{P}", (P, n), REAL)
        pop = E.call(Q + "Population.create", samples)
        fit = pop.fields["fitness"]
        if pop.fields["samples"] is samples:
            E.st.ok(f"population[{P}].samples_kept")
        else:
            E.st.fail(f"population[{P}].samples_kept", "samples replaced")
        if isinstance(fit, list) and len(fit) == P and all(is_plus_inf(v) for v in fit):
            E.st.ok(f"population[{P}].one_unevaluated_fitness_slot_per_sample")
        else:
            E.st.fail(f"population[{P}].one_unevaluated_fitness_slot_per_sample", repr(fit))
    E.oblige("canary.population", Sym(zr(samples.at(0, 0)) == 0), assume_after=False)


def mk_config(E, P, n, active, maximize=None, bounds=None):
    """a configuration satisfying WF + W (what CMAESConfig.create establishes)"""
    mu = C.binop("//", P, 2)
    w = T.fresh_tensor("weights", (mu,), REAL)
    f = dict(active=active, bounds=bounds, maximize=E.bool("maximize") if maximize is None else maximize,
             min_variance=E.real("min_variance"), min_fitness_dist=E.real("min_fitness_dist"), max_condition=E.real("max_condition"),
             n_samples_per_update=P, n_params=n, mu=mu, weights=w, mueff=E.real("mueff"), cc=E.real("cc"), cs=E.real("cs"),
             c1=E.real("c1"), cmu=E.real("cmu"), damps=E.real("damps"), ps_update_weight=E.real("ps_update_weight"),
             hsig_threshold=E.real("hsig_threshold"), eigen_update_freq=E.int("eigen_update_freq"), alpha_old=C.frac_of(0.5),
             neg_cmu=E.real("neg_cmu"))
    cfg = E.new_obj(Q + "CMAESConfig", name="config", **f)
    E.assume(cfg_wf(f, P, n))
    weights_wf(E, "W", w, mu, oblige=False)
    return cfg, f


def mk_state(E, n, best_inf=False):
    cov = T.fresh_tensor("cov", (n, n), REAL)
    E.st.assume_forall([INT, INT], lambda i, j: zr(cov.at(i, j)) == zr(cov.at(j, i)), "cov.symmetric")
    E.st.assume_forall([INT], lambda i: z3.Implies(in_range(i, n), zr(cov.at(i, i)) > 0), "cov.positive_diagonal")
    f = dict(key=E.val("key", C.KEY), it=E.int("it", 0), eigen_decomp_updated=E.int("eigen_decomp_updated", 0),
             mean=T.fresh_tensor("mean", (n,), REAL), last_mean=T.fresh_tensor("last_mean", (n,), REAL), var=E.real("var"), cov=cov,
             invsqrtC=T.fresh_tensor("invsqrtC", (n, n), REAL), best_fitness=Opaque("inf") if best_inf else E.real("best_fitness"),
             best_fitness_it=E.int("best_fitness_it", 0), best_params=T.fresh_tensor("best_params", (n,), REAL),
             pc=T.fresh_tensor("pc", (n,), REAL), ps=T.fresh_tensor("ps", (n,), REAL))
    E.assume(f["var"] > 0)
    s = E.new_obj(Q + "CMAESState", name="state", **f)
    return s, dict(f)


def mk_population(E, P, n):
    samples = T.fresh_tensor("samples", (P, n), REAL)
    fit = fresh_symlist(E, "fitness", REAL, length=P)
    pop = E.new_obj(Q + "Population", name="population", samples=samples, fitness=fit)
    return pop, samples, fit


# ============================================================== ask / tell
def h_ask(E):
    P, n = E.dim("population", 2), E.dim("n_params", 1)
    cfg, cf = mk_config(E, P, n, E.bool("active"))
    s, sf = mk_state(E, n)
    pop, samples, fit = mk_population(E, P, n)
    x = E.call(Q + "get_next_parameters", cfg, s, pop)
    E.oblige("canary.ask", Sym(zr(x.at(0)) == zr(samples.at(0, 0))), assume_after=False)
    it = sf["it"]
    k = it - P * (it // P)  # position inside the current generation
    E.oblige("ask.position_in_range", band(k >= 0, C.compare("<", k, P)))
    tensor_eq(E, "ask.returns_candidate_of_this_position", x, T.index(samples, k))
    # a generation asks every member of the population exactly once: positions of
    # the tells g*P .. g*P+P-1 are 0 .. P-1
    g, r = E.int("generation", 0), E.int("offset", 0)
    E.assume(band(C.compare("<", r, P), it == g * P + r))
    E.oblige("ask.generation_enumerates_population", k == r)
    if all(s.fields[a] is sf[a] for a in sf) and pop.fields["samples"] is samples:
        E.st.ok("ask.pure")
    else:
        E.st.fail("ask.pure", "get_next_parameters modified the optimiser state")


def mk_tell(feedback_kind, best_inf):
    def h(E):
        P, n = E.dim("population", 2), E.dim("n_params", 1)
        cfg, cf = mk_config(E, P, n, E.bool("active"))
        s, sf = mk_state(E, n, best_inf=best_inf)
        pop, samples, fit = mk_population(E, P, n)
        old_len, old_cols = fit.snapshot()
        if feedback_kind == "scalar":
            fb = E.real("feedback")
            total = fb
        else:
            fb = T.fresh_tensor("feedback", (E.dim("n_steps", 1),), REAL)
            total = T.reduce(fb, "sum")
        asked = E.call(Q + "get_next_parameters", cfg, s, pop)
        E.call(Q + "set_evaluation_feedback", cfg, s, pop, fb)
        f2 = s.fields
        it = sf["it"]
        k = it - P * (it // P)
        cost = ite(cf["maximize"], -total, total)  # internal fitness: cost to be minimised
        best = sf["best_fitness"]
        if best_inf:
            better = True
            new_best = cost
        else:
            better = C.compare("<=", cost, best)  # ties: the later candidate wins
            new_best = smin(best, cost)
        if best_inf:
            E.oblige("canary.tell_cost_zero", C.compare("==", f2["best_fitness"], 0), assume_after=False)
        else:
            E.oblige("canary.tell_never_improves", C.compare("!=", f2["best_fitness"], cost), assume_after=False)
            E.oblige("canary.tell_always_improves", C.compare("==", f2["best_fitness"], cost), assume_after=False)
        E.oblige("tell.counts_tells", C.compare("==", f2["it"], it + 1))
        E.oblige("tell.best_fitness_is_min_so_far", C.compare("==", f2["best_fitness"], new_best))
        E.oblige("tell.best_fitness_never_increases", True if best_inf else C.compare("<=", f2["best_fitness"], best))
        bp = T.as_tensor(f2["best_params"])
        E.st.oblige_forall("tell.best_params_is_the_asked_candidate_when_not_worse", [INT],
                           lambda j: z3.Implies(z3.And(in_range(j, n), C.as_bool(better)), zr(bp.at(j)) == zr(asked.at(j))), hint="j")
        E.st.oblige_forall("tell.best_params_kept_when_worse", [INT],
                           lambda j: z3.Implies(z3.And(in_range(j, n), z3.Not(C.as_bool(better))), zr(bp.at(j)) == zr(sf["best_params"].at(j))), hint="j")
        E.oblige("tell.best_iteration", C.compare("==", f2["best_fitness_it"], ite(better, it, sf["best_fitness_it"])))
        # population bookkeeping: the cost is stored at the asked position, nothing else changes
        new_len, new_cols = fit.snapshot()
        E.oblige("tell.fitness_stored_at_asked_position", Sym(z3.Select(new_cols[0], C.to_z3(k)) == zr(cost)))
        E.st.oblige_forall("tell.other_fitness_slots_unchanged", [INT], lambda j: z3.Implies(j != C.to_z3(k), z3.Select(new_cols[0], j) == z3.Select(old_cols[0], j)), hint="j")
        E.oblige("tell.population_size_unchanged", Sym(new_len == old_len))
        frame = [a for a in sf if a not in ("it", "best_fitness", "best_fitness_it", "best_params")]
        if all(f2[a] is sf[a] for a in frame) and pop.fields["samples"] is samples:
            E.st.ok("tell.distribution_untouched")
        else:
            E.st.fail("tell.distribution_untouched", str([a for a in frame if f2[a] is not sf[a]]))
    return h


def h_history3(E):
    """three ask/tell rounds from the initial state: the incumbent is the best
    (latest on ties) of everything told so far"""
    P, n = E.dim("population", 3), E.dim("n_params", 1)
    cfg, cf = mk_config(E, P, n, E.bool("active"))
    x0 = T.fresh_tensor("initial_params", (n,), REAL)
    s = E.call(Q + "CMAESState.create", E.val("key", C.KEY), x0, E.real("variance", 1, 1), None)
    pop, samples, fit = mk_population(E, P, n)
    fbs, asked = [], []
    for r in range(3):
        asked.append(E.call(Q + "get_next_parameters", cfg, s, pop))
        fbs.append(E.real(f"feedback{r}"))
        E.call(Q + "set_evaluation_feedback", cfg, s, pop, fbs[-1])
    c = [ite(cf["maximize"], -x, x) for x in fbs]
    f = s.fields
    E.oblige("canary.history", C.compare("==", f["best_fitness"], c[0]), assume_after=False)
    e = ite(C.compare("<=", c[2], smin(c[0], c[1])), 2, ite(C.compare("<=", c[1], c[0]), 1, 0))
    E.oblige("history.best_fitness_is_min_of_all_told", C.compare("==", f["best_fitness"], smin(c[0], c[1], c[2])))
    E.oblige("history.counts_tells", C.compare("==", f["it"], 3))
    E.oblige("history.best_iteration_is_latest_minimiser", C.compare("==", f["best_fitness_it"], e))
    bp = T.as_tensor(f["best_params"])
    for r in range(3):
        tensor_eq(E, f"history.asked_candidate_{r}_is_population_member_{r}", asked[r], T.index(samples, r))
    E.st.oblige_forall("history.best_params_is_latest_minimiser", [INT], lambda j: z3.Implies(in_range(j, n), zr(bp.at(j)) == zr(T.index(samples, (e, Sym(j))))), hint="j")
    E.oblige("history.return_reported_by_train_cmaes", implies(cf["maximize"], C.compare("==", -f["best_fitness"], C.smax(fbs[0], fbs[1], fbs[2]))))


def h_sample_population(E):
    P, n = E.dim("population", 2), E.dim("n_params", 1)
    bounds = T.fresh_tensor("bounds", (n, 2), REAL)
    E.st.assume_forall([INT], lambda i: zr(bounds.at(i, 0)) <= zr(bounds.at(i, 1)), "bounds.ordered")
    for tag, b in (("unbounded", None), ("bounded", bounds)):
        cfg, cf = mk_config(E, P, n, E.bool("active"), bounds=b)
        s, sf = mk_state(E, n)
        x = E.call(Q + "sample_population", cfg, s)
        if isinstance(x, T.Tensor) and x.ndim == 2 and T.dim_eq(x.shape[0], P) and T.dim_eq(x.shape[1], n):
            E.st.ok(f"sample[{tag}].shape_population_by_params")
        else:
            E.st.fail(f"sample[{tag}].shape_population_by_params", repr(x))
            continue
        if b is not None:
            E.st.oblige_forall(f"sample[{tag}].within_bounds", [INT, INT], lambda k, i: z3.Implies(z3.And(in_range(k, P), in_range(i, n)),
                               z3.And(zr(x.at(k, i)) >= zr(bounds.at(i, 0)), zr(x.at(k, i)) <= zr(bounds.at(i, 1)))), hint="k")
        frame = [a for a in sf if a != "key"]
        if all(s.fields[a] is sf[a] for a in frame):
            E.st.ok(f"sample[{tag}].distribution_untouched")
        else:
            E.st.fail(f"sample[{tag}].distribution_untouched", "state modified")
    E.oblige("canary.sample", Sym(zr(x.at(0, 0)) == 0), assume_after=False)



# =================================================================== update
def mk_update(active, probe_active_positivity=False):
    def h(E):
        P, n = E.dim("population", 2), E.dim("n_params", 1)
        cfg, cf = mk_config(E, P, n, active)
        mu, w = cf["mu"], cf["weights"]
        s, sf = mk_state(E, n)
        pop, samples, fit = mk_population(E, P, n)
        flen, fcols = fit.snapshot()
        fitv = lambda i: z3.Select(fcols[0], i)  # noqa: E731  the fitness told for population member i
        E.call(Q + "update_search_distribution", cfg, s, pop)
        f2 = s.fields
        st = E.st
        E.oblige("canary.mean_unchanged", Sym(zr(f2["mean"].at(0)) == zr(sf["mean"].at(0))), assume_after=False, using=[])
        E.oblige("canary.var_unchanged", C.compare("==", f2["var"], sf["var"]), assume_after=False, using=[])
        # ---- M: mean' is the weighted average of the mu best candidates
        sorts = st.ghost.get("argsorts") or []
        if len(sorts) != 1:
            st.fail("mean.ranks_population_once", f"{len(sorts)} argsort calls")
            return
        st.ok("mean.ranks_population_once")
        perm = sorts[0]["fn"]
        st.oblige_forall("mean.ranking_ascending_in_told_fitness", [INT, INT],
                         lambda k, l: z3.Implies(z3.And(k >= 0, k <= l, l < T.dim_z(P)), fitv(perm(k)) <= fitv(perm(l))), hint="k", using=["argsort.sorted"])
        st.oblige_forall("mean.ranking_is_permutation", [INT, INT],
                         lambda k, l: z3.Implies(z3.And(in_range(k, P), in_range(l, P), k != l), z3.And(in_range(perm(k), P), perm(k) != perm(l))), hint="k", using=["argsort.perm"])
        best = T.Tensor((mu, n), lambda k, j: samples.at(Sym(perm(C.to_z3(k))), j), REAL)  # the mu best candidates
        mark = len(st.sums)
        want_mean = T.reduce_axis(T.index(w, (slice(None), None)) * best, 0, "sum")
        spec_nodes = st.sums[mark:]
        code_node = X.node_of_app(E, T.as_tensor(f2["mean"]).at(Sym(st.fresh("jm", INT))))
        if spec_nodes and code_node is not None:
            X.lemma_sum_congr_nodes(E, "mean.lemma_same_terms", code_node, spec_nodes[0], using=[])
        else:  # sums unrolled (concrete sizes) or mean' is not a sum: the premise is the equation itself
            tensor_eq(E, "mean.lemma_same_terms.premise_terms_equal", f2["mean"], want_mean, using=[])
        tensor_eq(E, "mean.weighted_recombination_of_mu_best", f2["mean"], want_mean, using=["mean.lemma_same_terms"])
        tensor_eq(E, "mean.last_mean_is_old_mean", f2["last_mean"], sf["mean"], using=[])
        # ---- S: step size
        e06 = Sym(C.uf("exp", REAL, REAL)(z3.RealVal("3/5")))
        E.oblige("step.variance_stays_positive", C.compare(">", f2["var"], 0))
        E.oblige("step.sigma_grows_at_most_by_exp_0_6", C.compare("<=", f2["var"], sf["var"] * e06 * e06))
        # ---- C: covariance
        cov2 = T.as_tensor(f2["cov"])
        if not (cov2.ndim == 2 and T.dim_eq(cov2.shape[0], n) and T.dim_eq(cov2.shape[1], n)):
            st.fail("cov.shape", str(cov2.shape))
            return
        st.ok("cov.shape")
        X.auto_sum_single(E, "cov.lemma_diag_product")
        quad = [nd for nd in X.sum_nodes(E) if nd.nparams == 2 and not getattr(nd, "_single", False) and T.dim_eq(nd.dim, mu)]
        i, j = st.fresh("i", INT), st.fresh("j", INT)
        st.add_pool(i, j)
        for q, nd in enumerate(quad):
            X.lemma_sum_congr_at(E, f"cov.lemma_rank_mu_symmetric.{q}", nd, (i, j), (j, i), using=["cov.lemma_diag_product"])
        E.oblige("cov.symmetric", Sym(z3.Implies(z3.And(in_range(i, n), in_range(j, n)), zr(cov2.at(Sym(i), Sym(j))) == zr(cov2.at(Sym(j), Sym(i))))), using=["cov.symmetric"])
        if probe_active_positivity:
            # NOT a claim (see NOT_COVERED): run offline on concrete sizes to obtain the solver's counter-model
            if isinstance(n, int):
                for q in range(n):
                    E.assume(Sym(zr(sf["cov"].at(q, q)) > 0))
                E.oblige("probe.active_positive_variances", Sym(zr(cov2.at(0, 0)) > 0), using=[], assume_after=False)
        if not active:
            for q, nd in enumerate(quad):
                X.lemma_sum_pos(E, f"cov.lemma_rank_mu_diagonal_nonneg.{q}", nd, (i, i), strict=False, using=["cov.lemma_diag_product", "W.positive"])
            E.oblige("cov.positive_variances", Sym(z3.Implies(in_range(i, n), zr(cov2.at(Sym(i), Sym(i))) > 0)), using=["cov.positive_diagonal"])
        # ---- bookkeeping frame: an update is not a tell
        keep = ("it", "best_fitness", "best_fitness_it", "best_params", "key")
        if all(f2[a] is sf[a] for a in keep) and pop.fields["samples"] is samples and fit.snapshot()[1][0] is fcols[0]:
            st.ok("update.incumbent_and_counters_untouched")
        else:
            st.fail("update.incumbent_and_counters_untouched", str([a for a in keep if f2[a] is not sf[a]]))
        for a in ("pc", "ps"):
            t = T.as_tensor(f2[a])
            (st.ok if t.ndim == 1 and T.dim_eq(t.shape[0], n) else (lambda nm: st.fail(nm, str(t.shape))))(f"update.{a}_shape")
        E.oblige("canary.end", C.compare("==", sf["var"], 1), assume_after=False, using=[])
    return h


# =============================================================== round trip
def leaf_shapes(E, spec):
    """spec: string of ranks, e.g. '21' = a matrix followed by a vector"""
    out = []
    for q, r in enumerate(spec):
        out.append(tuple(E.dim(f"d{q}_{a}", 1) for a in range(int(r))))
    return out


def _oblige_leaf_is_slice(E, q, lf, sh, off, p):
    if len(sh) == 1:
        E.st.oblige_forall(f"set.leaf{q}_is_its_slice", [INT], lambda a: z3.Implies(in_range(a, sh[0]), zr(lf.at(a)) == zr(p.at(C.binop("+", off, Sym(a))))), hint="a", using=[])
    else:
        E.st.oblige_forall(f"set.leaf{q}_is_its_slice", [INT, INT], lambda a, b: z3.Implies(z3.And(in_range(a, sh[0]), in_range(b, sh[1])),
                           zr(lf.at(a, b)) == zr(p.at(C.binop("+", off, Sym(a) * sh[1] + Sym(b))))), hint="a", using=[])


def mk_roundtrip(spec):
    def h(E):
        shapes = leaf_shapes(E, spec)
        leaves = [T.fresh_tensor(f"leaf{q}", sh, REAL) for q, sh in enumerate(shapes)]
        sizes = [X._prod(E, sh) for sh in shapes]
        total = 0
        for z in sizes:
            total = C.binop("+", total, z)
        # the module also holds a NON-Param variable (BatchNorm statistics, action_scale / action_bias of the tanh
        # policy heads): documented "Only variables of the type nnx.Param will be extracted / updated"
        stat = T.fresh_tensor("non_param_variable", (E.dim("d_stat", 1),), REAL)
        net = X.mk_param_net(E, "net", leaves, other=[stat])
        p = T.fresh_tensor("params", (total,), REAL)
        E.call(Q + "set_params", net, p)
        new = net.fields["$leaves"]
        kept = len(net.fields["$other"]) == 1 and net.fields["$other"][0] is stat
        (E.st.ok if kept else (lambda nm: E.st.fail(nm, "set_params wrote a non-Param variable")))("set.non_param_variables_untouched")
        ok = len(new) == len(leaves) and all(isinstance(a, T.Tensor) and a.ndim == b.ndim and all(T.dim_eq(x, y) for x, y in zip(a.shape, b.shape)) for a, b in zip(new, leaves))
        if not ok:
            E.st.fail("set.leaf_shapes_kept", str([getattr(a, "shape", None) for a in new]))
            return
        E.st.ok("set.leaf_shapes_kept")
        # leaf l is the reshaped slice params[off_l : off_l + size_l]
        off = 0
        for q, (lf, sh) in enumerate(zip(new, shapes)):
            _oblige_leaf_is_slice(E, q, lf, sh, off, p)
            off = C.binop("+", off, sizes[q])
        back = E.call(Q + "flat_params", net)
        tensor_eq(E, "roundtrip.flat_of_set_is_identity", back, p, using=[])
        # the other direction: reading, then writing back, changes no parameter
        net2 = X.mk_param_net(E, "net2", leaves, other=[stat])
        E.call(Q + "set_params", net2, E.call(Q + "flat_params", net2))
        for q, (a, b) in enumerate(zip(net2.fields["$leaves"], leaves)):
            tensor_eq(E, f"roundtrip.set_of_flat_keeps_leaf{q}", a, b, using=[])
        E.oblige("canary.roundtrip", Sym(zr(back.at(0)) == 0), assume_after=False, using=[])
    return h


TASKS = [
    Task("CMAESConfig.create", mk_create(False)),
    Task("CMAESConfig.create[default-population]", mk_create(True)),
    Task("CMAESState.create[identity-cov,default-key]", mk_state_create("none", False), setup=stub_inv_sqrt),
    Task("CMAESState.create[diagonal-cov]", mk_state_create("diag", True), setup=stub_inv_sqrt),
    Task("CMAESState.create[full-cov]", mk_state_create("full", True), setup=stub_inv_sqrt),
    Task("Population.create", h_population_create, bounded="population size in {1,2,3,6} (python list replication [inf]*len(samples)); n_params symbolic"),
    Task("sample_population", h_sample_population),
    Task("get_next_parameters", h_ask),
    Task("set_evaluation_feedback[scalar]", mk_tell("scalar", False)),
    Task("set_evaluation_feedback[reward-array]", mk_tell("array", False)),
    Task("set_evaluation_feedback[first-tell]", mk_tell("scalar", True)),
    Task("ask_tell_history3", h_history3, setup=stub_inv_sqrt),
    Task("update_search_distribution[default]", mk_update(False), setup=stub_inv_sqrt),
    Task("update_search_distribution[active]", mk_update(True), setup=stub_inv_sqrt),
] + [Task(f"set_params/flat_params[leaves={spec}]", mk_roundtrip(spec),
          bounded="number of parameter leaves <= 3 (leaf ranks 1 and 2, all leaf dimensions symbolic)") for spec in ("1", "2", "21", "12", "212")]

# counter-model returned by z3 for `probe.active_positive_variances` (mk_update(True, probe_active_positivity=True)
# explored at the concrete sizes population=2, n_params=2, i.e. mu=1; every WF clause holds in it):
ACTIVE_COUNTER_MODEL = dict(
    population=2, n_params=2, mu=1, weights=[2], mueff="16/3", cc="1/2", cs="15/16", c1="3/8", cmu="1/2", neg_cmu=2, alpha_old="1/2",
    var=1, cov=[["9/16", "9/16"], ["9/16", "3/10"]], mean=[0, "17/4"], pc=[0, 0], samples=[[2, 2], [2, 2]], fitness=[0, 0],
    result="cov'[0,0] = (1 - c1a - cmu + neg_cmu/2)*9/16 + (cmu + neg_cmu/2)*w*(2-0)^2 - neg_cmu*w*(2-0)^2 <= 0",
)

# CEM TASKS ---------------------------------------------------------------
# The cross-entropy-method half of C16 (cem_sample / cem_update / optimize_cem:
# samples within the bounds, exactly the n_elite best candidates, mean stays in
# the box) is contracted in contracts/C10.py.  Import them here once C10 is
# final (not duplicated on purpose):
#   from .C10 import TASKS as _C10_TASKS
#   TASKS += [t for t in _C10_TASKS if t.name.startswith(("cem_", "optimize_cem"))]

TRUSTED = [
    "reals for floats (weights sum to one / symmetry / positivity are exact statements over the reals)",
    "lemmas/SumLemmas.lean (PyvcSum.c16_sum_pos, c16_sum_nonneg, c16_sum_div, c16_sum_single, c16_sum_congr, sum_congr_range): "
    "the finite-sum rules applied by pyvc/lib/ext_cmaes.py - each premise is a named obligation `*.lemma_*.premise_*`",
    "log strictly increasing on (0, inf), log 1 = 0; exp strictly increasing and positive; sqrt(x)^2 = x for x >= 0 (pyvc.state.theory_axioms)",
    "jnp.argsort: a stable ascending sort permutation of range(len(a)) (pyvc/lib/ext_cmaes.py)",
    "jnp.log1p(x) = log(1+x); jnp.linalg.norm(x) = sqrt(sum x_i^2); np.prod(shape) = product of the dimensions",
    "parameter trees: jax.tree_util.tree_leaves(state) lists the nnx.Param leaves in the order in which tree_unflatten(tree_structure(state), .) "
    "puts them back; nnx.update / nnx.state write / read exactly these leaves (pyvc/lib/ext_cmaes.py, ParamNet)",
    "jax.random.multivariate_normal(key, mean, cov, shape) has shape shape + (n,); jnp.clip(x, lo, hi) = min(max(x, lo), hi)",
    "IEEE ordering of +-inf against finite numbers: -inf < x < +inf (pyvc.core.compare)",
]

# non-finite fitness values are outside real arithmetic: bounded native stand-in on the real code
TASKS.append(Task("native.nonfinite_fitness", native="c16_cmaes", bounded="21 fitness sequences containing NaN / +inf / -inf / ties x 3 (n_params, population) x minimise/maximise"))
ASSUMPTIONS = [
    "n_params >= 1 and population size n_samples_per_update >= 2 (population 1 gives mu = 0 and a ZeroDivisionError in CMAESConfig.create - outside the property's quantifier)",
    "update_search_distribution / set_evaluation_feedback / get_next_parameters are verified against ANY configuration satisfying the well-formed predicate "
    "WF (mu = floor(P/2) >= 1, weights positive and non-increasing, mueff > 0, 0 < c1, 0 < cmu, c1 + cmu < 1, 0 < cc <= 1, 0 < cs < 1, damps > 0); "
    "CMAESConfig.create is proved to establish every clause of WF (tasks CMAESConfig.create*), none had to be left as an unproved assumption",
    "state precondition of the update: var > 0, cov symmetric with positive diagonal (established by CMAESState.create for covariance=None, a positive diagonal, "
    "or a symmetric matrix with positive diagonal - proved - and preserved by the default update - proved)",
    "fitness values told to the optimiser are finite reals in the symbolic tasks; +inf as the initial incumbent is modelled exactly; NaN / +-inf feedback is checked natively only (replay driver)",
    "inv_sqrt (eigh based) is opaque: an uninterpreted (n, n) array; no obligation depends on its value",
    "the incumbent clause is proved as an inductive step from an arbitrary state plus a 3-tell history from the initial state; longer histories follow by induction on the step",
]
NOT_COVERED = [
    "positive variances for the ACTIVE variant (config.active=True): not a theorem - cov'_ii = a*cov_ii + c1*pc_i^2 + (cmu + neg_cmu/2)*sum_k w_k n_ki^2 - neg_cmu*sum_k w_k m_ki^2 "
    "with m the mu WORST candidates, unbounded below. Solver counter-model (population 2, mu 1, n_params 2): see ACTIVE_COUNTER_MODEL in this file; "
    "native witness through the public API: samples [[.1,0],[0,.1],[-.1,0],[5,0],[-5,0],[5,.1]] (worst candidates 5 sigma from the mean), fitness = |x|^2, variance 1, identity covariance, "
    "n_samples_per_update=6, active=True gives diag(cov') = [-0.61, 0.82] (replay/drivers/c16_cmaes.py native_extras); not observed for populations drawn by sample_population (0 of 40 generations)",
    "NaN fitness: over the reals there is no NaN; natively `NaN <= best` is False, so a NaN tell never becomes the incumbent, still counts as a tell and is stored in the population "
    "(checked by the replay driver on histories [3, NaN, 3, inf, -inf, 1], [NaN, NaN], [inf, 2, NaN, 2]); a NaN inside population.fitness is ranked last by jnp.argsort - not modelled",
    "floating-point rounding: sum(weights) == 1, symmetry of cov' and the step-size bound hold exactly over the reals; natively they hold up to rounding (driver tolerance 1e-5)",
    "set_params / flat_params for networks with more than 3 parameter leaves or leaves of rank > 2: bounded stand-in tasks (1-3 leaves, rank 1 and 2, symbolic dimensions); "
    "the replay driver checks real nnx networks (Linear, Linear+LayerNorm, MLP with 6 leaves)",
    "Population.create for a symbolic population size (python list replication): bounded stand-in, sizes 1, 2, 3, 6",
    "restart / termination heuristics (is_cmaes_finished) and train_cmaes are not part of the property",
]
REPLAY = {"": "c16_cmaes", "cem_": "c10_bounds", "optimize_cem": "c10_bounds"}

# CEM half of the property ("only proposes candidates within the bounds, mean from exactly the best k, mean stays
# within the bounds"): the contracts of cem_sample / cem_update / optimize_cem live in contracts/C10.py (they are
# also what C10's planner clause needs) and are part of this property's check.
from .C10 import TASKS as _C10_TASKS  # noqa: E402

TASKS = TASKS + [t for t in _C10_TASKS if t.name.startswith(("cem_", "optimize_cem"))]
EXPLANATION = (
    "CMAESConfig.create is executed symbolically for every n_params >= 1 and population >= 2 (and the default population): the recombination weights equal the documented "
    "log-rank formula, are positive, non-increasing and sum to one (sum lemmas with obliged premises), and the scalar constants satisfy the well-formed predicate WF. "
    "set_evaluation_feedback is an inductive step for the incumbent invariant (min so far, later candidate on ties, the asked candidate, tell counter); "
    "update_search_distribution is verified against any WF configuration for symbolic population size and dimension: mean = weighted sum of the mu best by an ascending "
    "sort of the told fitness, sigma'/sigma <= e^0.6, symmetric covariance for both variants (diagonal-product collapse + congruence of the rank-mu sums), positive variances for the default variant."
)
