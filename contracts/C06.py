"""C06 - target networks follow the Polyak / hard-copy law, only at update points.

(a) function level: soft_target_net_update / hard_target_net_update against the
    leaf-wise law, for leaf networks and for wrapper modules (every leaf);
(b) aliasing: at every update site of every training routine the target object
    is not the online object (targets come from nnx.clone: fresh identity,
    disjoint storage - assumed library contract);
(c) cadence: in every training loop the number of updates of each target equals
    the number of documented update points, by the documented rule and in the
    (online, target) argument order - an inductive ghost-counter invariant
    (contracts/loops.py), for all delay settings and all histories.
"""
import z3

from pyvc import core as C
from pyvc.core import INT, REAL, Anything, Sym, band, implies
from pyvc.lib.nnx_model import PARAMS, leaf, leaf_nets, mk_net
from pyvc.runner import Task

from . import loops

PROPERTY = "C06"
LEVEL = "proof"
TN = "rl_blox.blox.target_net."


def _modules(E, shape):
    """online / target module pairs: a leaf network, a double-Q wrapper, a SALE policy wrapper"""
    if shape == "leaf":
        return mk_net(E, "net", E.int("out", 1)), mk_net(E, "target", E.int("out_t", 1))
    if shape == "doubleq":
        mk = lambda p: E.new_obj("rl_blox.blox.double_qnet.ContinuousClippedDoubleQNet", name=p, q1=mk_net(E, p + ".q1", 1), q2=mk_net(E, p + ".q2", 1))  # noqa: E731
        return mk("net"), mk("target")
    if shape == "layers":
        # an MLP-like module: a python list of layers plus an output layer (every leaf must follow the law)
        mk = lambda p: E.new_obj("rl_blox.blox.function_approximator.mlp.MLP", name=p, n_outputs=2, activation=Anything("act"),  # noqa: E731
                                 hidden_layers=[mk_net(E, p + ".h0", 8), mk_net(E, p + ".ln", 8), mk_net(E, p + ".h1", 8)], output_layer=mk_net(E, p + ".out", 2))
        return mk("net"), mk("target")
    raise ValueError(shape)


def mk_soft(shape):
    def h(E):
        net, target = _modules(E, shape)
        tau = E.real("tau", 0, 1)
        before_net = [n.fields["$params"].z for n in leaf_nets(net)]
        before_t = [n.fields["$params"].z for n in leaf_nets(target)]
        E.call(TN + "soft_target_net_update", net, target, tau)
        after_net = [n.fields["$params"].z for n in leaf_nets(net)]
        after_t = [n.fields["$params"].z for n in leaf_nets(target)]
        if len(after_t) != len(before_net):
            E.st.fail("soft.structure", "leaf count differs")
            return
        for k, (pn, pt0, pt1) in enumerate(zip(before_net, before_t, after_t)):
            nm = leaf_nets(target)[k].name
            E.st.oblige_forall(f"soft.polyak_law_every_leaf[{nm}]", [INT], lambda l, pn=pn, pt0=pt0, pt1=pt1: leaf(pt1, l) == tau.z * leaf(pn, l) + (1 - tau.z) * leaf(pt0, l), hint="l", using=["polyak"])
            E.st.oblige_forall(f"soft.tau1_is_hard_copy[{nm}]", [INT], lambda l, pn=pn, pt1=pt1: z3.Implies(tau.z == 1, leaf(pt1, l) == leaf(pn, l)), hint="l", using=["polyak"])
            E.st.oblige_forall(f"soft.tau0_is_noop[{nm}]", [INT], lambda l, pt0=pt0, pt1=pt1: z3.Implies(tau.z == 0, leaf(pt1, l) == leaf(pt0, l)), hint="l", using=["polyak"])
        same = all(z3.eq(a, b) for a, b in zip(before_net, after_net))
        (E.st.ok if same else E.st.fail)("soft.online_network_unchanged", *([] if same else ["online parameters were written"]))
        E.st.oblige_forall("canary.soft", [INT], lambda l: leaf(after_t[0], l) == leaf(before_t[0], l), hint="l")
        E.cover("end")
    return h


def mk_hard(shape):
    def h(E):
        net, target = _modules(E, shape)
        before_net = [n.fields["$params"].z for n in leaf_nets(net)]
        before_t = [n.fields["$params"].z for n in leaf_nets(target)]
        E.call(TN + "hard_target_net_update", net, target)
        after_net = [n.fields["$params"].z for n in leaf_nets(net)]
        after_t = [n.fields["$params"].z for n in leaf_nets(target)]
        for k, (pn, pt1) in enumerate(zip(before_net, after_t)):
            nm = leaf_nets(target)[k].name
            E.st.oblige_forall(f"hard.target_equals_online_every_leaf[{nm}]", [INT], lambda l, pn=pn, pt1=pt1: leaf(pt1, l) == leaf(pn, l), hint="l")
        same = all(z3.eq(a, b) for a, b in zip(before_net, after_net))
        (E.st.ok if same else E.st.fail)("hard.online_network_unchanged", *([] if same else ["online parameters were written"]))
        E.st.oblige_forall("canary.hard", [INT], lambda l: leaf(after_t[0], l) == leaf(before_t[0], l), hint="l")
    return h


TASKS = [
    Task("soft_target_net_update[leaf]", mk_soft("leaf")),
    Task("soft_target_net_update[double-q]", mk_soft("doubleq")),
    Task("soft_target_net_update[layers]", mk_soft("layers")),
    Task("hard_target_net_update[leaf]", mk_hard("leaf")),
    Task("hard_target_net_update[double-q]", mk_hard("doubleq")),
    Task("hard_target_net_update[layers]", mk_hard("layers")),
] + loops.tasks_for({"C06"}) + loops.td7_tasks({"C06"})

TRUSTED = [
    "optax.incremental_update(new, old, s) = s*new + (1-s)*old leaf-wise; nnx.state reads, nnx.update(m, st) writes exactly m",
    "nnx.clone(m): structurally equal module with fresh identity and disjoint storage",
    "Gymnasium Env API contract",
]
ASSUMPTIONS = [
    "reals for floats (leaf-by-leaf float equality is not claimed)",
    "cadence: the inner gradient-step loop is unrolled for gradient_steps in {1,2} (configuration scenarios); delays, warm-up, budgets and histories are symbolic",
    "module shapes: a leaf network, a double-Q wrapper, a layer list + output layer (every leaf obeys the law; LayerNorm parameters are leaves like any other)",
]
NOT_COVERED = []
REPLAY = {"soft_": "c06_target", "hard_": "c06_target", "": "loops_native"}
