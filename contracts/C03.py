"""C03 - critic and representation losses implement their documented targets per sample.

Functions under contract (real source interpreted from /repo):
  rl_blox.blox.losses: dqn_loss, nature_dqn_loss, ddqn_loss, ddqn_per_loss,
    ddpg_loss, td3_loss, _mse_clipped_double_q_loss, td3_lap_loss, huber_loss,
    sac_loss, mse_continuous_action_value_loss, mse_discrete_action_value_loss,
    masked_mse_loss
  rl_blox.blox.double_qnet.ContinuousClippedDoubleQNet.__call__ / mean
  rl_blox.algorithm.td7: td7_update_critic (target construction, argnums),
    _sum_of_qnet_losses
  rl_blox.algorithm.mrq.mrq_loss
  rl_blox.blox.embedding.sale.state_action_embedding_loss
  rl_blox.blox.embedding.model_based_encoder.model_based_encoder_loss (+ nested
    model_rollout scan body)

Every specification term below is written from the docstring formula / the
property statement (y_i = r_i + (1 - t_i) * gamma * bootstrap_i, regression =
mean of squared / Huber errors), never from the code.  Networks are
uninterpreted row-wise functions; `net_call` builds the same application terms
the interpreter builds for `q(x)`.
"""
from fractions import Fraction

import z3

from pyvc import core as C
from pyvc import tensor as T
from pyvc.core import INT, REAL, Sym
from pyvc.runner import Task

from .nets import (comp, continuous_batch, discrete_batch, flags01, mk_net, mk_optimizer, net_call, no_grad_through,
                   oblige_tensor_eq, rows_tensor)

PROPERTY = "C03"
LEVEL = "proof"

L = "rl_blox.blox.losses."
LOUD = {"ShapeError", "AssertionError", "ValueError", "TypeError", "IndexError"}


# --------------------------------------------------------------------- helpers
def eq(a, b):
    return C.compare("==", a, b)


def sq(x):
    return x * x


def dims(E, batch1=False, act1=False, discrete=False):
    N = 1 if batch1 else E.dim("N")
    D = E.dim("D_obs")
    if discrete:
        A = E.dim("n_actions")
    else:
        A = 1 if act1 else E.dim("D_act")
    return N, D, A


def tag_bootstrap_input(t, name):
    """gradient ghost: mark a bootstrap input as a differentiable source so
    that 'zero gradient w.r.t. the bootstrap inputs' is observable"""
    t.gdeps = frozenset([name])
    return t


def td_target(rew, term, gamma, boot):
    """documented regression target  y_i = r_i + (1 - t_i) * gamma * boot_i"""
    return rew + (1 - term) * gamma * boot


def pick(qvals, act, N):
    """Q(o_i, a_i) for discrete actions"""
    return T.Tensor((N,), lambda i: qvals.at(i, act.at(i)), REAL)


def col0(t):
    """(N, 1) network output -> per-sample value (N,)"""
    return T.Tensor((t.shape[0],), lambda i: t.at(i, 0), REAL)


def huber(err, delta):
    """documented Huber loss of an error tensor with threshold delta:
    0.5 e^2 if |e| <= delta else 0.5 delta^2 + delta (|e| - delta)"""
    a = T.tabs(err)
    return T.where(T.tensor_compare("<=", a, delta), Fraction(1, 2) * a * a, Fraction(1, 2) * delta * delta + delta * (a - delta))


def all_terminated(E, term):
    E.st.assume_forall([INT], lambda i: C.as_int(term.at(i)) == 1, "all_terminated")


def grad_obligations(E, prefix, loss, q_names, forbidden):
    no_grad_through(E, f"{prefix}.grad.zero_wrt_targets_and_bootstrap_inputs", loss, forbidden)
    gd = C.gdeps_of(loss)
    missing = [n for n in q_names if n not in gd]
    if missing:
        E.st.fail(f"{prefix}.grad.depends_on_online_net", f"loss does not depend differentiably on {missing}")
    else:
        E.st.ok(f"{prefix}.grad.depends_on_online_net")


def scalar_shape(E, name, v):
    if isinstance(v, T.Tensor):
        E.st.fail(name, f"expected a scalar, got shape {v.shape}")
        return False
    E.st.ok(name)
    return True


def first_call(E, p, thunk, batch1):
    """batch size 1: the loss must give the documented per-sample value OR raise
    (a loud rejection) - never a silently different value.  Returns None when
    the real code rejected the input."""
    if not batch1:
        return thunk()
    try:
        out = thunk()
    except C.PyRaise as e:
        if e.exc_type in LOUD:
            E.st.ok(f"{p}.batch1.documented_value_or_loud_rejection", backend=f"raises {e.exc_type}")
            return None
        raise
    E.st.ok(f"{p}.batch1.documented_value_or_loud_rejection", backend="value checked by the obligations below")
    return out


# ----------------------------------------------------------------- DQN family
def mk_discrete(fn, kind, batch1=False):
    """kind: dqn | nature | ddqn | per"""

    def h(E):
        N, D, A = dims(E, batch1=batch1, discrete=True)
        obs, act, rew, nobs, term = discrete_batch(E, N, D, A)
        tag_bootstrap_input(nobs, "next_obs")
        gamma = E.real("gamma", 0, 1)
        q = mk_net(E, "q", A)
        qt = mk_net(E, "q_target", A) if kind != "dqn" else None
        w = T.fresh_tensor("is_ratio", (N,), REAL) if kind == "per" else None

        def run(nobs_):
            batch = (obs, act, rew, nobs_, term)
            if kind == "dqn":
                return E.call(L + fn, q, batch, gamma)
            if kind == "per":
                return E.call(L + fn, q, qt, batch, gamma, w)
            return E.call(L + fn, q, qt, batch, gamma)

        E.oblige("canary.pre", eq(gamma, Fraction(1, 2)), assume_after=False)
        out = first_call(E, fn, lambda: run(nobs), batch1)
        if out is None:
            return
        # ---- documented bootstrap
        if kind == "dqn":
            boot = T.reduce(net_call(E, q, nobs), "max", 1)
        elif kind == "nature":
            boot = T.reduce(net_call(E, qt, nobs), "max", 1)
        else:
            sel = T.reduce(net_call(E, q, nobs), "argmax", 1)
            qtn = net_call(E, qt, nobs)
            boot = T.Tensor((N,), lambda i: qtn.at(i, sel.at(i)), REAL)
        y = td_target(rew, term, gamma, boot)
        pred = pick(net_call(E, q, obs), act, N)
        p = fn
        if kind == "per":
            loss, (qmean, tdmean) = out
            E.oblige(f"{p}.loss_is_importance_weighted_mse_to_target", eq(loss, T.mean(w * sq(pred - y))))
            E.oblige(f"{p}.aux.td_error_mean", eq(tdmean, T.mean(T.tabs(pred - y))))
        else:
            loss, qmean = out
            E.oblige(f"{p}.loss_is_mse_to_target", eq(loss, T.mean(sq(pred - y))))
        E.oblige(f"{p}.aux.q_mean", eq(qmean, T.mean(pred)))
        grad_obligations(E, p, loss, ["q"], ["q_target", "next_obs"])
        E.oblige(f"canary.{p}", eq(loss, 0), assume_after=False)
        # ---- corollary: a terminated transition contributes no bootstrap term
        all_terminated(E, term)
        nobs2 = tag_bootstrap_input(rows_tensor(E, "next_obs_other", (N,), D), "next_obs")
        out2 = run(nobs2)
        loss2 = out2[0]
        E.oblige(f"{p}.terminated_no_bootstrap", eq(loss, loss2))
        E.oblige(f"canary.{p}.terminated", eq(loss2, 0), assume_after=False)

    return h


TASKS = []
for _fn, _kind in (("dqn_loss", "dqn"), ("nature_dqn_loss", "nature"), ("ddqn_loss", "ddqn"), ("ddqn_per_loss", "per")):
    TASKS.append(Task(_fn, mk_discrete(_fn, _kind)))
    TASKS.append(Task(f"{_fn}[N=1]", mk_discrete(_fn, _kind, batch1=True), allow_raise=LOUD))


# ------------------------------------------------------- continuous-action family
DQ = "rl_blox.blox.double_qnet.ContinuousClippedDoubleQNet"


def mk_double(E, name):
    """ContinuousClippedDoubleQNet (real class) over two uninterpreted critics"""
    s = "" if name == "q" else "_target"
    q1, q2 = mk_net(E, f"q1{s}", 1), mk_net(E, f"q2{s}", 1)
    return E.new_obj(DQ, name=name, q1=q1, q2=q2), q1, q2


def cat(a, b):
    return T.concatenate([a, b], axis=-1)


def clipped_min(E, q1, q2, x):
    """documented clipped double-Q value min(Q1(x_i), Q2(x_i)) per sample"""
    return T.tmin(col0(net_call(E, q1, x)), col0(net_call(E, q2, x)))


def mk_continuous(fn, kind, batch1=False, act1=False):
    """kind: ddpg | td3 | lap | sac"""

    def h(E):
        from pyvc.lib.ext_policy_stub import mk_policy, policy_log_probability, policy_sample

        N, D, A = dims(E, batch1=batch1, act1=act1)
        obs, act, rew, nobs, term = continuous_batch(E, N, D, A)
        tag_bootstrap_input(nobs, "next_obs")
        gamma = E.real("gamma", 0, 1)
        p = fn
        if kind == "ddpg":
            q, qt = mk_net(E, "q", 1), mk_net(E, "q_target", 1)
            pit = mk_net(E, "policy_target", A)
            online = ["q"]
            forbidden = ["q_target", "policy_target", "next_obs"]
        else:
            q, q1, q2 = mk_double(E, "q")
            qt, q1t, q2t = mk_double(E, "q_target")
            online = ["q1", "q2"]
            forbidden = ["q1_target", "q2_target", "next_obs", "next_action"]
        if kind in ("td3", "lap"):
            nact = tag_bootstrap_input(rows_tensor(E, "next_action", (N,), A), "next_action")
        if kind == "lap":
            delta = E.real("min_priority")
            E.assume(delta > 0)
        if kind == "sac":
            pol = mk_policy(E, "policy", A)
            key = E.val("action_key", C.KEY)
            alpha = E.real("alpha")
            forbidden = forbidden + ["policy"]

        def run(nobs_):
            batch = (obs, act, rew, nobs_, term)
            if kind == "ddpg":
                return E.call(L + fn, q, qt, pit, batch, gamma)
            if kind == "td3":
                return E.call(L + fn, q, qt, nact, batch, gamma)
            if kind == "lap":
                return E.call(L + fn, q, qt, nact, batch, gamma, delta)
            return E.call(L + fn, q, qt, pol, key, alpha, batch, gamma)

        E.oblige("canary.pre", eq(gamma, Fraction(1, 2)), assume_after=False)
        out = first_call(E, fn, lambda: run(nobs), batch1)
        if out is None:
            return
        # ---- documented bootstrap and target
        if kind == "ddpg":
            boot = col0(net_call(E, qt, cat(nobs, net_call(E, pit, nobs))))
        elif kind in ("td3", "lap"):
            boot = clipped_min(E, q1t, q2t, cat(nobs, nact))
        else:
            a_next = policy_sample(E, pol, nobs, key)
            boot = clipped_min(E, q1t, q2t, cat(nobs, a_next)) - alpha * policy_log_probability(E, pol, nobs, a_next)
        y = td_target(rew, term, gamma, boot)
        xa = cat(obs, act)
        if kind == "ddpg":
            pred = col0(net_call(E, q, xa))
            loss, qmean = out
            if scalar_shape(E, f"{p}.loss_is_scalar", loss):
                E.oblige(f"{p}.loss_is_mse_to_target", eq(loss, T.mean(sq(pred - y))))
                E.oblige(f"{p}.aux.q_mean", eq(qmean, T.mean(pred)))
        else:
            p1, p2 = col0(net_call(E, q1, xa)), col0(net_call(E, q2, xa))
            if kind == "lap":
                loss, (qmean, tderr) = out
                if scalar_shape(E, f"{p}.loss_is_scalar", loss):
                    E.oblige(f"{p}.loss_is_sum_of_huber_regressions", eq(loss, T.mean(huber(p1 - y, delta)) + T.mean(huber(p2 - y, delta))))
                oblige_tensor_eq(E, f"{p}.aux.max_abs_td_error", tderr, T.tmax(T.tabs(p1 - y), T.tabs(p2 - y)))
            else:
                loss, qmean = out
                if scalar_shape(E, f"{p}.loss_is_scalar", loss):
                    E.oblige(f"{p}.loss_is_sum_of_two_mse_to_target", eq(loss, T.mean(sq(p1 - y)) + T.mean(sq(p2 - y))))
            if not isinstance(qmean, T.Tensor):
                E.oblige(f"{p}.aux.q_mean", eq(qmean, T.mean(T.tmin(p1, p2))))
            else:
                E.st.fail(f"{p}.aux.q_mean", f"shape {qmean.shape}")
        grad_obligations(E, p, loss, online, forbidden)
        if not isinstance(loss, T.Tensor):
            E.oblige(f"canary.{p}", eq(loss, 0), assume_after=False)
        # ---- corollary: a terminated transition contributes no bootstrap term
        all_terminated(E, term)
        nobs2 = tag_bootstrap_input(rows_tensor(E, "next_obs_other", (N,), D), "next_obs")
        loss2 = run(nobs2)[0]
        if not isinstance(loss, T.Tensor) and not isinstance(loss2, T.Tensor):
            E.oblige(f"{p}.terminated_no_bootstrap", eq(loss, loss2))
            E.oblige(f"canary.{p}.terminated", eq(loss2, 0), assume_after=False)
        else:
            E.st.fail(f"{p}.terminated_no_bootstrap", "loss is not a scalar")

    return h


for _fn, _kind in (("ddpg_loss", "ddpg"), ("td3_loss", "td3"), ("td3_lap_loss", "lap"), ("sac_loss", "sac")):
    TASKS.append(Task(_fn, mk_continuous(_fn, _kind)))
    TASKS.append(Task(f"{_fn}[N=1]", mk_continuous(_fn, _kind, batch1=True), allow_raise=LOUD))
    TASKS.append(Task(f"{_fn}[D_act=1]", mk_continuous(_fn, _kind, act1=True)))


# ------------------------------------------------------------- building blocks
def mk_clipped_double(batch1=False, act1=False):
    def h(E):
        N, D, A = dims(E, batch1=batch1, act1=act1)
        obs = rows_tensor(E, "obs", (N,), D)
        act = rows_tensor(E, "action", (N,), A)
        y = T.fresh_tensor("q_target_value", (N,), REAL)
        q, q1, q2 = mk_double(E, "q")
        p = "_mse_clipped_double_q_loss"
        E.oblige("canary.pre", eq(y.at(0), 1), assume_after=False)
        out = first_call(E, p, lambda: E.call(L + p, y, q, act, obs), batch1)
        if out is None:
            return
        loss, qmean = out
        xa = cat(obs, act)
        p1, p2 = col0(net_call(E, q1, xa)), col0(net_call(E, q2, xa))
        if scalar_shape(E, f"{p}.loss_is_scalar", loss):
            E.oblige(f"{p}.loss_is_sum_of_two_mse", eq(loss, T.mean(sq(p1 - y)) + T.mean(sq(p2 - y))))
            E.oblige(f"{p}.aux.q_mean", eq(qmean, T.mean(T.tmin(p1, p2))))
            E.oblige(f"canary.{p}", eq(loss, 0), assume_after=False)
        grad_obligations(E, p, loss, ["q1", "q2"], [])

    return h


def h_huber(E):
    """huber_loss(|e|, delta): 0.5 e^2 if |e| <= delta else 0.5 delta^2 + delta (|e| - delta)  (source comment = its documentation)"""
    N = E.dim("N")
    a = T.fresh_tensor("abs_errors", (N,), REAL)
    E.st.assume_forall([INT], lambda i: C.as_real(a.at(i)) >= 0, "abs.nonneg")
    delta = E.real("delta")
    E.assume(delta > 0)
    r = E.call(L + "huber_loss", a, delta)
    want = T.where(T.tensor_compare("<=", a, delta), Fraction(1, 2) * a * a, Fraction(1, 2) * delta * delta + delta * (a - delta))
    oblige_tensor_eq(E, "huber_loss.piecewise_definition", r, want)
    E.oblige("canary.huber_loss", eq(T.as_tensor(r).at(0), 0), assume_after=False)
    # scalar use
    x = E.real("x", 0)
    r0 = E.call(L + "huber_loss", x, delta)
    E.oblige("huber_loss.scalar.quadratic_zone", C.implies(x <= delta, eq(r0, Fraction(1, 2) * x * x)))
    E.oblige("huber_loss.scalar.linear_zone", C.implies(x > delta, eq(r0, Fraction(1, 2) * delta * delta + delta * (x - delta))))


def mk_mse_continuous(batch1=False, act1=False):
    def h(E):
        N, D, A = dims(E, batch1=batch1, act1=act1)
        obs = rows_tensor(E, "obs", (N,), D)
        act = rows_tensor(E, "action", (N,), A)
        y = T.fresh_tensor("q_target_values", (N,), REAL)
        q = mk_net(E, "q", 1)
        p = "mse_continuous_action_value_loss"
        E.oblige("canary.pre", eq(y.at(0), 1), assume_after=False)
        out = first_call(E, p, lambda: E.call(L + p, obs, act, y, q), batch1)
        if out is None:
            return
        loss, qmean = out
        pred = col0(net_call(E, q, cat(obs, act)))
        if scalar_shape(E, f"{p}.loss_is_scalar", loss):
            E.oblige(f"{p}.loss_is_mse", eq(loss, T.mean(sq(pred - y))))
            E.oblige(f"{p}.aux.q_mean", eq(qmean, T.mean(pred)))
            E.oblige(f"canary.{p}", eq(loss, 0), assume_after=False)
        grad_obligations(E, p, loss, ["q"], [])

    return h


def mk_mse_discrete(batch1=False):
    def h(E):
        N, D, A = dims(E, batch1=batch1, discrete=True)
        obs, act, _rew, _nobs, _term = discrete_batch(E, N, D, A)
        y = T.fresh_tensor("q_target_values", (N,), REAL)
        q = mk_net(E, "q", A)
        p = "mse_discrete_action_value_loss"
        E.oblige("canary.pre", eq(y.at(0), 1), assume_after=False)
        out = first_call(E, p, lambda: E.call(L + p, obs, act, y, q), batch1)
        if out is None:
            return
        loss, qmean = out
        pred = pick(net_call(E, q, obs), act, N)
        if scalar_shape(E, f"{p}.loss_is_scalar", loss):
            E.oblige(f"{p}.loss_is_mse", eq(loss, T.mean(sq(pred - y))))
            E.oblige(f"{p}.aux.q_mean", eq(qmean, T.mean(pred)))
            E.oblige(f"canary.{p}", eq(loss, 0), assume_after=False)
        grad_obligations(E, p, loss, ["q"], [])

    return h


def masked_mse_spec(pred, tgt, mask):
    """documented masked MSE for predictions/targets (n_samples, n_features) and
    mask (n_samples,): mean over all entries of m_i * (p_id - t_id)^2"""
    N, F = pred.shape
    one = T.dim_is_one(N)  # a size-1 batch axis is addressed with index 0 (as broadcasting does)
    return T.mean(T.Tensor((N, F), lambda i, d: mask.at(0 if one else i) * sq(pred.at(0 if one else i, d) - tgt.at(0 if one else i, d)), REAL))


def mk_masked_mse(batch1=False, feat1=False):
    def h(E):
        N = 1 if batch1 else E.dim("N")
        F = 1 if feat1 else E.dim("n_features")
        pred = T.fresh_tensor("predictions", (N, F), REAL, gdeps=frozenset(["encoder"]))
        tgt = T.fresh_tensor("targets", (N, F), REAL)
        mask = T.fresh_tensor("mask", (N,), REAL)
        p = "masked_mse_loss"
        E.oblige("canary.pre", eq(mask.at(0), 1), assume_after=False)
        out = first_call(E, p, lambda: E.call(L + p, pred, tgt, mask), batch1)
        if out is None:
            return
        if scalar_shape(E, f"{p}.loss_is_scalar", out):
            E.oblige(f"{p}.masked_mean_of_squared_errors", eq(out, masked_mse_spec(pred, tgt, mask)))
            E.oblige(f"canary.{p}", eq(out, 0), assume_after=False)
            # masked-out samples (m_i == 0) contribute nothing: two prediction
            # arrays that agree on every unmasked row give the same loss
            pred2 = T.fresh_tensor("predictions_other", (N, F), REAL)
            E.st.assume_forall([INT, INT], lambda i, d: z3.Implies(C.as_real(mask.at(i)) != 0, C.as_real(pred2.at(i, d)) == C.as_real(pred.at(i, d))),
                               "agree_on_unmasked")
            out2 = E.call(L + p, pred2, tgt, mask)
            E.oblige(f"{p}.masked_rows_do_not_contribute", eq(out, out2))
            E.oblige(f"canary.{p}.two_copy", eq(out2, 0), assume_after=False)

    return h


def mk_double_qnet(batch1=False):
    def h(E):
        N = 1 if batch1 else E.dim("N")
        D = E.dim("D_in")
        x = rows_tensor(E, "obs_act", (N,), D)
        q, q1, q2 = mk_double(E, "q")
        v = E.call(q, x)
        a, b = net_call(E, q1, x), net_call(E, q2, x)
        E.oblige("canary.double_qnet", eq(T.as_tensor(v).at(0, 0), a.at(0, 0)), assume_after=False)
        oblige_tensor_eq(E, "ContinuousClippedDoubleQNet.call_is_min_of_both", v, T.tmin(a, b))
        m = E.call(E.getattr(q, "mean"), x)
        oblige_tensor_eq(E, "ContinuousClippedDoubleQNet.mean_is_average_of_both", m, (a + b) / 2)
        E.oblige("ContinuousClippedDoubleQNet.min_le_mean", C.compare("<=", T.as_tensor(v).at(0, 0), T.as_tensor(m).at(0, 0)))

    return h


TASKS += [
    Task("_mse_clipped_double_q_loss", mk_clipped_double()),
    Task("_mse_clipped_double_q_loss[N=1]", mk_clipped_double(batch1=True), allow_raise=LOUD),
    Task("_mse_clipped_double_q_loss[D_act=1]", mk_clipped_double(act1=True)),
    Task("huber_loss", h_huber),
    Task("mse_continuous_action_value_loss", mk_mse_continuous()),
    Task("mse_continuous_action_value_loss[N=1]", mk_mse_continuous(batch1=True), allow_raise=LOUD),
    Task("mse_continuous_action_value_loss[D_act=1]", mk_mse_continuous(act1=True)),
    Task("mse_discrete_action_value_loss", mk_mse_discrete()),
    Task("mse_discrete_action_value_loss[N=1]", mk_mse_discrete(batch1=True), allow_raise=LOUD),
    Task("masked_mse_loss", mk_masked_mse()),
    Task("masked_mse_loss[N=1]", mk_masked_mse(batch1=True), allow_raise=LOUD),
    Task("masked_mse_loss[n_features=1]", mk_masked_mse(feat1=True)),
    Task("ContinuousClippedDoubleQNet", mk_double_qnet()),
    Task("ContinuousClippedDoubleQNet[N=1]", mk_double_qnet(batch1=True)),
]


# ------------------------------------------------------------------------ TD7
SALE = "rl_blox.blox.embedding.sale."
TD7 = "rl_blox.algorithm.td7."
AVG_L1 = "rl_blox.blox.function_approximator.norm.avg_l1_norm"


def setup_rowwise_norm(shared):
    """avg_l1_norm is abstracted by its contract 'a function of each row' (its
    defining formula is proved by the task avg_l1_norm below)"""
    from pyvc.lib.ext_losses import rowwise_fn

    shared.stubs[AVG_L1] = lambda E, x, eps=None: rowwise_fn(E, "avg_l1_norm", x)


def h_avg_l1_norm(E):
    """supports the stub: AvgL1Norm(x)_id = x_id / max(mean_j |x_ij|, eps) - each output row is a function of the same input row"""
    N, F = E.dim("N"), E.dim("n_features")
    x = T.fresh_tensor("x", (N, F), REAL)
    eps = E.real("eps")
    E.assume(eps > 0)
    r = E.call(AVG_L1, x, eps)
    denom = T.tmax(T.mean(T.tabs(x), 1), eps)  # per row i: max(1/F sum_j |x_ij|, eps)
    oblige_tensor_eq(E, "avg_l1_norm.rowwise_definition", r, T.Tensor((N, F), lambda i, d: x.at(i, d) / denom.at(i), REAL))
    E.oblige("canary.avg_l1_norm", eq(T.as_tensor(r).at(0, 0), 0), assume_after=False)


def mk_sale(E, name, Z):
    """real SALE module over uninterpreted encoders f (state -> Z) and g ((zs, a) -> Z)"""
    f = mk_net(E, f"{name}.f", Z)
    g = mk_net(E, f"{name}.g", Z)
    return E.new_obj(SALE + "SALE", name=name, _state_embedding=f, state_action_embedding=g), f, g


def mk_critic_sale(E, name, H):
    """real CriticSALE module: Q(s, a, zsa, zs) = q_net(cat(AvgL1Norm(q0(sa)), zsa, zs))"""
    qn = mk_net(E, f"{name}.q_net", 1)
    q0 = mk_net(E, f"{name}.q0", H)
    return E.new_obj(SALE + "CriticSALE", name=name, q_net=qn, q0=q0)


def mk_double_sale(E, name, H):
    s = "" if name == "critic" else "_target"
    c1, c2 = mk_critic_sale(E, f"q1{s}", H), mk_critic_sale(E, f"q2{s}", H)
    return E.new_obj(DQ, name=name, q1=c1, q2=c2), c1, c2


def leafs(E, *mods):
    from pyvc.lib.nnx_model import leaf_nets

    out = []
    for m in mods:
        out += [n.name for n in leaf_nets(m)]
    return out


def mk_sum_of_qnet_losses(batch1=False, act1=False):
    def h(E):
        N, D, A = dims(E, batch1=batch1, act1=act1)
        Z, H = E.dim("Z"), E.dim("H")
        obs = rows_tensor(E, "obs", (N,), D)
        act = rows_tensor(E, "action", (N,), A)
        zsa = rows_tensor(E, "zsa", (N,), Z)
        zs = rows_tensor(E, "zs", (N,), Z)
        y = T.fresh_tensor("q_target", (N,), REAL)
        delta = E.real("min_priority")
        E.assume(delta > 0)
        critic, c1, c2 = mk_double_sale(E, "critic", H)
        p = "_sum_of_qnet_losses"
        E.oblige("canary.pre", eq(y.at(0), 1), assume_after=False)
        out = first_call(E, p, lambda: E.call(TD7 + p, obs, act, zsa, zs, y, delta, critic), batch1)
        if out is None:
            return
        loss, tderr = out
        xa = cat(obs, act)
        p1 = col0(E.call(c1, xa, zsa=zsa, zs=zs))
        p2 = col0(E.call(c2, xa, zsa=zsa, zs=zs))
        if scalar_shape(E, f"{p}.loss_is_scalar", loss):
            E.oblige(f"{p}.loss_is_sum_of_huber_regressions", eq(loss, T.mean(huber(p1 - y, delta)) + T.mean(huber(p2 - y, delta))))
            E.oblige(f"canary.{p}", eq(loss, 0), assume_after=False)
        oblige_tensor_eq(E, f"{p}.aux.max_abs_td_error", tderr, T.tmax(T.tabs(p1 - y), T.tabs(p2 - y)))
        grad_obligations(E, p, loss, leafs(E, critic), [])

    return h


def mk_td7_update_critic(batch1=False, act1=False):
    def h(E):
        N, D, A = dims(E, batch1=batch1, act1=act1)
        Z, H = E.dim("Z"), E.dim("H")
        obs, act, rew, nobs, term = continuous_batch(E, N, D, A)
        nact = rows_tensor(E, "next_action", (N,), A)
        gamma = E.real("gamma", 0, 1)
        delta = E.real("min_priority")
        E.assume(delta > 0)
        q_min, q_max = E.real("q_min"), E.real("q_max")
        emb, _, _ = mk_sale(E, "fixed_embedding", Z)
        embt, _, _ = mk_sale(E, "fixed_embedding_target", Z)
        critic, c1, c2 = mk_double_sale(E, "critic", H)
        critict, c1t, c2t = mk_double_sale(E, "critic_target", H)
        opt = mk_optimizer(E, "critic_optimizer", critic)
        p = "td7_update_critic"
        # specification terms are built on the pre-state (the update changes the critic's parameters)
        zsa, zs = E.call(emb, obs, act)
        nzsa, nzs = E.call(embt, nobs, nact)
        xn = cat(nobs, nact)
        boot = T.clip(T.tmin(col0(E.call(c1t, xn, zsa=nzsa, zs=nzs)), col0(E.call(c2t, xn, zsa=nzsa, zs=nzs))), q_min, q_max)
        y = td_target(rew, term, gamma, boot)
        xa = cat(obs, act)
        p1 = col0(E.call(c1, xa, zsa=zsa, zs=zs))
        p2 = col0(E.call(c2, xa, zsa=zsa, zs=zs))
        frozen = {n: E.heap[n].fields["$params"] for n in leafs(E, emb, embt, critict)}
        E.oblige("canary.pre", eq(gamma, Fraction(1, 2)), assume_after=False)
        out = first_call(E, p, lambda: E.call(TD7 + p, emb, embt, critic, critict, opt, gamma, obs, act, nobs, nact, rew, term, delta, q_min, q_max), batch1)
        if out is None:
            return
        loss, tderr, y_out = out
        oblige_tensor_eq(E, f"{p}.target_is_clipped_double_q_td_target", y_out, y)
        if scalar_shape(E, f"{p}.loss_is_scalar", loss):
            E.oblige(f"{p}.loss_is_sum_of_huber_regressions", eq(loss, T.mean(huber(p1 - y, delta)) + T.mean(huber(p2 - y, delta))))
            E.oblige(f"canary.{p}", eq(loss, 0), assume_after=False)
        oblige_tensor_eq(E, f"{p}.aux.max_abs_td_error", tderr, T.tmax(T.tabs(p1 - y), T.tabs(p2 - y)))
        # gradient: the target is built outside the differentiated function; the
        # differentiation is with respect to the online critic only, and exactly
        # that gradient is applied to exactly that module
        g = E.st.ghost.get("last_grad")
        ups = E.st.ghost.get("opt_updates", [])
        if g is not None and g.wrt is critic and set(leafs(E, critic)) <= set(g.gdeps):
            E.st.ok(f"{p}.grad.differentiates_online_critic_only")
        else:
            E.st.fail(f"{p}.grad.differentiates_online_critic_only", f"argnums selects {getattr(getattr(g, 'wrt', None), 'name', None)}")
        if len(ups) == 1 and ups[0]["model"] is critic and ups[0]["grads"] is g and ups[0]["opt"] is opt:
            E.st.ok(f"{p}.grad.applied_to_online_critic")
        else:
            E.st.fail(f"{p}.grad.applied_to_online_critic", "optimizer update does not apply the critic gradient to the critic")
        if all(E.heap[n].fields["$params"] is v for n, v in frozen.items()):
            E.st.ok(f"{p}.targets_and_embeddings_unchanged")
        else:
            E.st.fail(f"{p}.targets_and_embeddings_unchanged", "a target / embedding parameter tree was written")
        # ---- corollary: terminated transitions carry no bootstrap term
        all_terminated(E, term)
        oblige_tensor_eq(E, f"{p}.terminated_no_bootstrap", y_out, rew)
        E.oblige(f"canary.{p}.terminated", eq(T.as_tensor(y_out).at(0), 0), assume_after=False)

    return h


TASKS += [
    Task("avg_l1_norm", h_avg_l1_norm),
    Task("_sum_of_qnet_losses", mk_sum_of_qnet_losses(), setup=setup_rowwise_norm),
    Task("_sum_of_qnet_losses[N=1]", mk_sum_of_qnet_losses(batch1=True), setup=setup_rowwise_norm, allow_raise=LOUD),
    Task("_sum_of_qnet_losses[D_act=1]", mk_sum_of_qnet_losses(act1=True), setup=setup_rowwise_norm),
    Task("td7_update_critic", mk_td7_update_critic(), setup=setup_rowwise_norm),
    Task("td7_update_critic[N=1]", mk_td7_update_critic(batch1=True), setup=setup_rowwise_norm, allow_raise=LOUD),
    Task("td7_update_critic[D_act=1]", mk_td7_update_critic(act1=True), setup=setup_rowwise_norm),
]


# ----------------------------------------------------------------------- MR.Q
MRQ = "rl_blox.algorithm.mrq."
MBE = "rl_blox.blox.embedding.model_based_encoder."
NSTEP = "rl_blox.blox.return_estimates.discounted_n_step_return"


def nstep_contract(E, reward, terminated, gamma):
    """contract of discounted_n_step_return (its docstring; proved in C07):
    returns (R^n, disc), one value per sub-trajectory, each a function of that
    row of rewards / flags and of gamma; disc_i == 0 when row i contains a
    termination flag ('This is zero when the episode terminated')."""
    from pyvc.lib.nnx_model import ensure_rows

    reward, terminated = T.as_tensor(reward), T.as_tensor(terminated)
    if reward.ndim != 2 or terminated.ndim != 2 or not all(T.dim_eq(a, b) for a, b in zip(reward.shape, terminated.shape)):
        raise T.ShapeError(f"discounted_n_step_return: reward {reward.shape}, terminated {terminated.shape}")
    rr, tr = ensure_rows(E, reward), ensure_rows(E, terminated)
    g = C.as_real(gamma)
    fR = C.uf("nstep_return", C.ROW, C.ROW, REAL, REAL)
    fD = C.uf("nstep_discount", C.ROW, C.ROW, REAL, REAL)
    N, H = reward.shape
    if not getattr(terminated, "_nstep_clause", False):
        terminated._nstep_clause = True
        E.st.assume_forall([INT, INT], lambda i, t: z3.Implies(z3.And(i >= 0, i < T.dim_z(N), t >= 0, t < T.dim_z(H), C.as_int(terminated.at(i, t)) == 1),
                                                               fD(rr(i), tr(i), g) == 0), "nstep.discount_zero_after_termination")
    return (T.Tensor((N,), lambda i: Sym(fR(rr(i), tr(i), g)), REAL), T.Tensor((N,), lambda i: Sym(fD(rr(i), tr(i), g)), REAL))


def setup_mrq(shared):
    shared.stubs[NSTEP] = nstep_contract


def mk_encoder(E, name, Zs, Za, Zsa, n_model_out, act_last):
    """real ModelBasedEncoder over uninterpreted layers; the activation
    hyper-parameter is an arbitrary row-wise map"""
    from pyvc.lib.ext_losses import rowwise_builtin

    return E.new_obj(MBE + "ModelBasedEncoder", name=name,
                     zs=mk_net(E, f"{name}.zs", Zs), za=mk_net(E, f"{name}.za", Za), zsa=mk_net(E, f"{name}.zsa", Zsa),
                     model=mk_net(E, f"{name}.model", n_model_out), zs_dim=Zs, activation=rowwise_builtin("activation"),
                     zs_layer_norm=mk_net(E, f"{name}.zs_layer_norm", Zs), encoder_activation_in_last_layer=act_last)


def flags01_2d(E, name, N, H):
    t = T.fresh_tensor(name, (N, H), INT)
    E.st.assume_forall([INT, INT], lambda i, k: z3.Or(C.as_int(t.at(i, k)) == 0, C.as_int(t.at(i, k)) == 1), f"{name}.01")
    return t


def mk_mrq(batch1=False, act1=False, inline_horizon=None):
    def h(E):
        short_timeouts()
        N, D, A = dims(E, batch1=batch1, act1=act1)
        H = inline_horizon if inline_horizon is not None else E.dim("horizon", 1)
        Zs, Za, Zsa = E.dim("zs_dim"), E.dim("za_dim"), E.dim("zsa_dim")
        obs = rows_tensor(E, "obs", (N,), D)
        act = rows_tensor(E, "action", (N,), A)
        nobs = tag_bootstrap_input(rows_tensor(E, "next_obs", (N,), D), "next_obs")
        nact = tag_bootstrap_input(rows_tensor(E, "next_action", (N,), A), "next_action")
        rew = T.fresh_tensor("reward", (N, H), REAL)
        term = flags01_2d(E, "terminated", N, H)
        extra = T.fresh_tensor("truncated", (N, H), INT)
        gamma = E.real("gamma", 0, 1)
        s, s_t = E.real("reward_scale"), E.real("target_reward_scale")
        E.assume(s > 0)
        act_last = E.branch(E.bool("encoder_activation_in_last_layer"))
        n_out = E.dim("n_model_outputs")
        enc = mk_encoder(E, "encoder", Zs, Za, Zsa, n_out, act_last)
        enct = mk_encoder(E, "encoder_target", Zs, Za, Zsa, n_out, act_last)
        q, q1, q2 = mk_double(E, "q")
        qt, q1t, q2t = mk_double(E, "q_target")
        p = "mrq_loss"

        def run(nobs_):
            return E.call(MRQ + p, q, qt, enc, enct, nact, (obs, act, rew, nobs_, term, extra), gamma, s, s_t)

        E.oblige("canary.pre", eq(gamma, Fraction(1, 2)), assume_after=False)
        out = first_call(E, p, lambda: run(nobs), batch1)
        if out is None:
            return
        loss, (zs_out, qmean, tderr) = out
        # ---- documented n-step target  y_i = (R^n_i + disc_i * min(Q1', Q2')(zsa'_i) * s_target) / s
        if inline_horizon is None:
            Rn, disc = nstep_contract(E, rew, term, gamma)
        else:
            # R^n = sum_t gamma^t r_t truncated at the first termination; disc = gamma^n prod_t (1 - term_t)
            Rn, disc, alive = 0, 1, 1
            for t in range(inline_horizon):
                r_t = T.Tensor((N,), (lambda t: (lambda i: rew.at(i, t)))(t), REAL)
                d_t = T.Tensor((N,), (lambda t: (lambda i: term.at(i, t)))(t), INT)
                Rn = Rn + alive * r_t
                alive = alive * gamma * (1 - d_t)
            disc = alive
        nzs = E.call(E.getattr(enct, "encode_zs"), nobs)
        nzsa = E.call(E.getattr(enct, "encode_zsa"), nzs, nact)
        boot = clipped_min(E, q1t, q2t, nzsa)
        y = (Rn + disc * boot * s_t) / s
        zs = E.call(E.getattr(enc, "encode_zs"), obs)
        zsa = E.call(E.getattr(enc, "encode_zsa"), zs, act)
        p1, p2 = col0(net_call(E, q1, zsa)), col0(net_call(E, q2, zsa))
        if scalar_shape(E, f"{p}.loss_is_scalar", loss):
            E.oblige(f"{p}.loss_is_sum_of_huber_regressions_onto_nstep_target", eq(loss, T.mean(huber(p1 - y, 1)) + T.mean(huber(p2 - y, 1))))
            E.oblige(f"{p}.aux.q_mean", eq(qmean, T.mean(T.tmin(p1, p2))))
            E.oblige(f"canary.{p}", eq(loss, 0), assume_after=False)
        oblige_tensor_eq(E, f"{p}.aux.max_abs_td_error", tderr, T.tmax(T.tabs(p1 - y), T.tabs(p2 - y)))
        oblige_tensor_eq(E, f"{p}.aux.zs", zs_out, zs)
        grad_obligations(E, p, loss, ["q1", "q2"], ["q1_target", "q2_target", "next_obs", "next_action"] + leafs(E, enct))
        # ---- corollary: a sub-trajectory containing a termination carries no bootstrap term
        tau = z3.Function("tau", INT, INT)
        E.st.assume_forall([INT], lambda i: z3.And(tau(i) >= 0, tau(i) < T.dim_z(H), C.as_int(term.at(i, tau(i))) == 1), "all_rows_terminate")
        nobs2 = tag_bootstrap_input(rows_tensor(E, "next_obs_other", (N,), D), "next_obs")
        loss2 = run(nobs2)[0]
        if not isinstance(loss, T.Tensor) and not isinstance(loss2, T.Tensor):
            E.oblige(f"{p}.terminated_no_bootstrap", eq(loss, loss2))
            E.oblige(f"canary.{p}.terminated", eq(loss2, 0), assume_after=False)

    return h


TASKS += [
    Task("mrq_loss", mk_mrq(), setup=setup_mrq),
    Task("mrq_loss[N=1]", mk_mrq(batch1=True), setup=setup_mrq, allow_raise=LOUD),
    Task("mrq_loss[D_act=1]", mk_mrq(act1=True), setup=setup_mrq),
    Task("mrq_loss[n-step return inlined, horizon=2]", mk_mrq(inline_horizon=2), bounded="n-step horizon == 2 (discounted_n_step_return inlined instead of its C07 contract)"),
]


# ----------------------------------------------------- representation losses
def mk_sale_loss(batch1=False, act1=False):
    def h(E):
        N, D, A = dims(E, batch1=batch1, act1=act1)
        Z = E.dim("Z")
        obs = rows_tensor(E, "obs", (N,), D)
        act = rows_tensor(E, "action", (N,), A)
        nobs = tag_bootstrap_input(rows_tensor(E, "next_obs", (N,), D), "next_obs")
        emb, f, g = mk_sale(E, "embedding", Z)
        p = "state_action_embedding_loss"
        E.oblige("canary.pre", eq(obs.at(0, 0), 1), assume_after=False)
        out = first_call(E, p, lambda: E.call(SALE + p, emb, obs, act, nobs), batch1)
        if out is None:
            return
        # documented: L = mean over the batch (and embedding components) of (z^{s_i a_i} - sg(z^{s'_i}))^2
        zsa, _zs = E.call(emb, obs, act)
        zsp = E.call(E.getattr(emb, "state_embedding"), nobs)
        if scalar_shape(E, f"{p}.loss_is_scalar", out):
            E.oblige(f"{p}.loss_is_mse_between_zsa_and_next_zs", eq(out, T.mean(sq(zsa - zsp))))
            E.oblige(f"canary.{p}", eq(out, 0), assume_after=False)
        no_grad_through(E, f"{p}.grad.target_embedding_is_gradient_stopped", out, ["next_obs"])
        gd = C.gdeps_of(out)
        if {f.name, g.name} <= set(gd):
            E.st.ok(f"{p}.grad.trains_both_encoders")
        else:
            E.st.fail(f"{p}.grad.trains_both_encoders", f"gdeps {sorted(gd)}")

    return h


TASKS += [
    Task("state_action_embedding_loss", mk_sale_loss(), setup=setup_rowwise_norm),
    Task("state_action_embedding_loss[N=1]", mk_sale_loss(batch1=True), setup=setup_rowwise_norm, allow_raise=LOUD),
    Task("state_action_embedding_loss[D_act=1]", mk_sale_loss(act1=True), setup=setup_rowwise_norm),
]


PRE = "rl_blox.blox.preprocessing."


def ce_contract(E, bins, logits, target):
    """contract of two_hot_cross_entropy_loss (docstring): one CE value per
    sample, a function of (bins, that sample's logits, that sample's target)"""
    from pyvc.lib.nnx_model import ensure_rows

    bins, logits, target = T.as_tensor(bins), T.as_tensor(logits), T.as_tensor(target)
    if bins.ndim != 1 or logits.ndim != 2 or target.ndim != 1 or not T.dim_eq(logits.shape[0], target.shape[0]):
        raise T.ShapeError(f"two_hot_cross_entropy_loss: bins {bins.shape}, logits {logits.shape}, target {target.shape}")
    br, lr = ensure_rows(E, bins), ensure_rows(E, logits)
    f = C.uf("two_hot_ce", C.ROW, C.ROW, REAL, REAL)
    return T.Tensor((logits.shape[0],), lambda i: Sym(f(br(), lr(i), C.as_real(target.at(i)))), REAL, logits.gdeps)


def setup_encoder(shared):
    shared.stubs[PRE + "two_hot_cross_entropy_loss"] = ce_contract

    def observe(E, fn, args, kwargs):
        # precondition of masked_mse_loss at every call site: predictions and targets of
        # equal shape (n_samples, ...features), one mask value per sample (n_samples,).
        # (The docstring names the 2-D case (n_samples, n_features); since repo commit
        # fa2305c the function applies the per-sample mask to any feature rank, so the
        # 1-D calls of the encoder loss are within its contract - what they compute is
        # checked by the value obligations below, which FAIL on the pre-fix tree.)
        if getattr(fn, "qualname", None) == L + "masked_mse_loss" and E.st.ghost.get("in_encoder_loss"):
            pr, tg, mk = [T.as_tensor(a) for a in (list(args) + [kwargs.get(k) for k in ("predictions", "targets", "mask")][len(args):])]
            ok = (pr.ndim >= 1 and pr.ndim == tg.ndim and all(T.dim_eq(a, b) for a, b in zip(pr.shape, tg.shape))
                  and mk.ndim == 1 and T.dim_eq(pr.shape[0], mk.shape[0]))
            n = E.st.ghost["mmse_calls"] = E.st.ghost.get("mmse_calls", 0) + 1
            which = ("dynamics", "reward_mse", "done")[(n - 1) % 3]
            name = f"model_based_encoder_loss.call[masked_mse_loss#{which}].pre.one_mask_value_per_sample"
            if ok:
                E.st.ok(name)
            else:
                E.st.fail(name, f"masked_mse_loss needs predictions/targets of equal shape (n_samples, ...) and mask (n_samples,); called with {pr.shape}, {tg.shape}, {mk.shape}")
        return None

    shared.observers.append(observe)


def short_timeouts():
    """the proofs of these tasks take well under a second per query; a refutation on
    the concrete-size re-run is a huge nonlinear query - cap the solvers so that a
    violation is reported (failed / undecided) within the task budget instead of a
    task timeout (per-task process, no effect on other tasks)"""
    from pyvc import state

    state.Z3_TIMEOUT_MS = min(state.Z3_TIMEOUT_MS, 8000)
    state.run_cvc5.__defaults__ = (min(state.CVC5_TIMEOUT_S, 8),)


def mk_encoder_loss(horizon, batch1=False, act1=False):
    def h(E):
        from pyvc.core import NamedTuple, NamedTupleType
        from pyvc.lib.jax_model import nn_softmax

        short_timeouts()
        E.st.ghost["hashcons"] = {}
        N, D, A = dims(E, batch1=batch1, act1=act1)
        H = horizon
        Zs, Za, Zsa, B = E.dim("zs_dim"), E.dim("za_dim"), E.dim("zsa_dim"), E.dim("n_bins")
        obs = rows_tensor(E, "obs", (N, H), D)
        act = rows_tensor(E, "action", (N, H), A)
        nobs = tag_bootstrap_input(rows_tensor(E, "next_obs", (N, H), D), "next_obs")
        rew = T.fresh_tensor("reward", (N, H), REAL)
        term = flags01_2d(E, "terminated", N, H)
        trunc = T.fresh_tensor("truncated", (N, H), INT)
        batch = NamedTuple(NamedTupleType("Batch", ["observation", "action", "reward", "next_observation", "terminated", "truncated"]),
                           [obs, act, rew, nobs, term, trunc])
        bins = T.fresh_tensor("the_bins", (B,), REAL)
        wd, wr, wt = E.real("dynamics_weight"), E.real("reward_weight"), E.real("done_weight")
        env_term = E.branch(E.bool("environment_terminates"))
        norm_tgt = E.branch(E.bool("normalize_targets"))
        n_out = B + Zs + 1
        enc = mk_encoder(E, "encoder", Zs, Za, Zsa, n_out, False)
        enct = mk_encoder(E, "encoder_target", Zs, Za, Zsa, n_out, False)
        p = "model_based_encoder_loss"
        E.oblige("canary.pre", eq(wd, 1), assume_after=False)
        E.st.ghost["in_encoder_loss"] = True
        out = first_call(E, p, lambda: E.call(MBE + p, enc, enct, bins, batch, H, wd, wr, wt, env_term, norm_tgt), batch1)
        E.st.ghost["in_encoder_loss"] = False
        if out is None:
            return
        total, (dyn, rl, dl, rmse) = out
        # ---- documented unrolled model (docstring) with termination masking:
        # m_0 = 1, m_{t+1} = m_t (1 - term_t); z^0 = f(o_0); (d^t, z^t, r^t) = model_head(z^{t-1}, a^{t-1})
        at = lambda x, t: T.index(x, (slice(None), t))  # noqa: E731
        m = T.full((N,), 1, INT)
        z = E.call(E.getattr(enc, "encode_zs"), at(obs, 0))
        s_dyn = s_rew = s_done = s_rmse = 0
        for t in range(H):
            d_hat, z, r_logits = E.call(E.getattr(enc, "model_head"), z, at(act, t))
            tgt_fn = E.getattr(enct, "encode_zs") if norm_tgt else enct.fields["zs"]
            z_tgt = E.call(tgt_fn, at(nobs, t))
            mm = m
            one = T.dim_is_one(N)
            ii = (lambda i: 0) if one else (lambda i: i)
            s_dyn = s_dyn + T.mean(T.Tensor((N, Zs), (lambda mm, z, z_tgt: lambda i, d: mm.at(ii(i)) * sq(z.at(ii(i), d) - z_tgt.at(ii(i), d)))(mm, z, z_tgt), REAL))
            ce = ce_contract(E, bins, r_logits, at(rew, t))
            s_rew = s_rew + T.mean(ce * mm)
            if env_term:
                s_done = s_done + T.mean(mm * sq(d_hat - at(term, t)))
            r_hat = T.reduce(nn_softmax(E, r_logits) * bins, "sum", -1)  # two_hot_decoding(bins, softmax(logits))
            s_rmse = s_rmse + T.mean(mm * sq(r_hat - at(rew, t)))
            m = m * (1 - at(term, t))
        ok = all(scalar_shape(E, f"{p}.{nm}_is_scalar", v) for nm, v in (("loss", total), ("dynamics_loss", dyn), ("reward_loss", rl), ("done_loss", dl), ("reward_mse", rmse)))
        if ok:
            E.oblige(f"{p}.aux.dynamics_loss_is_masked_mse_to_target_latents", eq(dyn, s_dyn), assume_after=False)
            E.oblige(f"{p}.aux.reward_loss_is_masked_mean_two_hot_ce", eq(rl, s_rew), assume_after=False)
            E.oblige(f"{p}.aux.done_loss_is_masked_mse_of_termination_flag", eq(dl, s_done), assume_after=False)
            E.oblige(f"{p}.aux.reward_mse_is_masked_mse_of_decoded_reward", eq(rmse, s_rmse), assume_after=False)
            E.oblige(f"{p}.loss_is_weighted_sum_over_horizon", eq(total, wd * s_dyn + wr * s_rew + wt * s_done), assume_after=False)
            E.oblige(f"{p}.loss_is_weighted_sum_of_its_components", eq(total, wd * dyn + wr * rl + wt * dl), assume_after=False)
            E.oblige(f"canary.{p}", eq(total, 0), assume_after=False)
        gd = C.gdeps_of(total)
        no_grad_through(E, f"{p}.grad.targets_are_gradient_stopped", total, leafs(E, enct) + ["next_obs"])
        missing = [n for n in leafs(E, enc) if n not in gd]
        if missing:
            E.st.fail(f"{p}.grad.trains_the_encoder", f"no differentiable dependence on {missing}")
        else:
            E.st.ok(f"{p}.grad.trains_the_encoder")

    return h


TASKS += [
    Task("model_based_encoder_loss[horizon=2]", mk_encoder_loss(2), setup=setup_encoder, bounded="encoder_horizon == 2 (nnx.scan unrolled exactly; horizon <= 3 stand-in for the unbounded fold)"),
    Task("model_based_encoder_loss[horizon=3]", mk_encoder_loss(3), setup=setup_encoder, bounded="encoder_horizon == 3 (nnx.scan unrolled exactly; horizon <= 3 stand-in for the unbounded fold)"),
    Task("model_based_encoder_loss[horizon=2,D_act=1]", mk_encoder_loss(2, act1=True), setup=setup_encoder, bounded="encoder_horizon == 2"),
    Task("model_based_encoder_loss[horizon=2,N=1]", mk_encoder_loss(2, batch1=True), setup=setup_encoder, allow_raise=LOUD, bounded="encoder_horizon == 2"),
]

TRUSTED = [
    "stub: pyvc.lib.ext_policy_stub StubStochasticPolicy (policy.sample / log_probability are uninterpreted row-wise functions of (params, obs row, key+batch position | action row))",
    "stub: pyvc.lib.ext_losses.rowwise_fn for avg_l1_norm (its defining formula is proved by task avg_l1_norm) and for the encoder's activation hyper-parameter",
    "stub: discounted_n_step_return by its docstring contract (C07) in the mrq_loss tasks; inlined for horizon 2 in the bounded task",
    "stub: two_hot_cross_entropy_loss by its docstring contract (one CE value per sample, a function of bins / that sample's logits / that sample's target) in the encoder-loss tasks",
    "model: flax.nnx.scan unrolled exactly for a concrete length (pyvc.lib.ext_losses)",
    "rule: Sum congruence (pyvc.tensor.close_sums, lemmas/SumLemmas.lean PyvcSum.sum_congr_range); hash-consing of syntactically identical sums / rows is its solver-free special case",
]
ASSUMPTIONS = [
    "floats are reals (no rounding, overflow, NaN); numerical agreement to float tolerance is what replay checks, not what is proved",
    "networks (MLP / LayerNormMLP / nnx.Linear / LayerNorm) are uninterpreted ROW-WISE functions of their parameters: output row b depends on input row b only (no BatchNorm / Dropout in rl_blox)",
    "a row is determined by its components (row extensionality): tensors with identical element terms share their row function",
    "batch_order_invariance: every loss is proved equal to a mean / sum over the batch index i of an integrand that mentions only index-i data (rows i of the batch arrays, network applications to them); invariance under a permutation of the batch is then Finset `Equiv.sum_comp` (lemmas/SumLemmas.lean) - no separate obligation.  For sac_loss the sampled noise is a function of (key, batch position), so the invariance is jointly in (batch, noise).",
    "jax.lax.stop_gradient is the identity on values and clears the differentiable-dependency ghost; gradient obligations are statements about that ghost (gdeps): 'zero gradient w.r.t. X' == X is not in gdeps(loss).  Bootstrap inputs (next_obs, next_action) are tagged as differentiable sources so that a missing stop_gradient on a path that uses only online networks is still observable.",
    "scenarios: generic = all dimensions distinct symbols >= 2 (batch N, observation D_obs, action D_act / number of discrete actions, embedding sizes); degenerate = N == 1 (documented value or an exception, never a different value), D_act == 1; gamma in [0,1]; min_priority > 0; reward_scale > 0; alpha, clipping range, loss weights arbitrary reals",
    "termination flags are 0/1 integers; discrete actions are integers in [0, n_actions)",
    "optax 0.2.8: squared_error raises on unequal shapes (utils.check_shapes_equal, also for () vs (1,)); huber_loss broadcasts",
    "td7_update_critic: the specification terms are evaluated on the pre-state; SALE and CriticSALE are the real classes over uninterpreted layers",
    "model_based_encoder_loss: bounded stand-in, encoder_horizon in {2, 3} (the nnx.scan over the horizon is unrolled exactly); masking m_0 = 1, m_{t+1} = m_t (1 - terminated_t) as in the docstring/comment and DESIGN C03/C07",
]
NOT_COVERED = [
    "model_based_encoder_loss for an arbitrary (symbolic) horizon: proved for horizon 2 and 3 only (labelled bounded)",
    "update_model_based_encoder / update_sale / update_critic_and_policy wrappers (C05's subject)",
    "two_hot_cross_entropy_loss, two_hot_encoding internals and discounted_n_step_return (contracts used here; C18 / C07)",
    "concrete policy heads (GaussianTanhPolicy ...) inside sac_loss: the policy is the StochasticPolicyBase interface (C13)",
    "ddqn_per_loss with a scalar is_ratio (default 1.0) is covered only through the tensor-weight scenario",
]
REPLAY = {"": "c03_losses"}
EXPLANATION = (
    "Each loss is executed symbolically on a batch of symbolic size with uninterpreted networks and proved equal to the regression "
    "written from its docstring (target y = r + (1-t) gamma bootstrap; mean of squared / Huber / importance-weighted errors; aux outputs); "
    "the no-bootstrap corollary is a 2-copy proof (second run with another next_obs under 'all terminated'), gradient claims are "
    "checked on the differentiable-dependency ghost."
)
