"""C04 - sampled subtrajectories are contiguous single-episode runs.

SubtrajectoryReplayBuffer.__init__/add_sample/sample_batch/_sample_idx (and the
prioritized variant's add_sample/_sample_idx) against a representation invariant
stated in "log space" (DESIGN 5, C04): g = number of rows ever written, row a
lives in slot a mod N while g-len <= a < g; immutable ghost functions per row:
E(a) episode id, T(a) 1-based time in the episode, K(a) kind (0 normal,
1 terminated, 2 truncated, 3 successor row), R_k(a) the stored payload of field
k, L(a) length of the valid prefix of the window starting at row a.
Every public operation is proved to preserve the invariant for symbolic capacity
N > H, symbolic horizon H >= 1 and any history; sample_batch's postcondition
(the property's four clauses and the no-intermediate view) follows from it.
"""
import z3

from pyvc import state as ST
from pyvc.state import SLOT
from pyvc import core as C
from pyvc import tensor as T
from pyvc.core import BOOL, INT, REAL, VAL, NamedTupleType, Sym, band, bnot, bor, implies
from pyvc.lib.np_model import cast_fn, to_sort
from pyvc.runner import Task

PROPERTY = "C04"
LEVEL = "proof"
RB = "rl_blox.blox.replay_buffer."
KEYS = ["observation", "action", "reward", "next_observation", "terminated", "truncated"]
DT = {"observation": "float", "action": "float", "reward": "float", "next_observation": "float", "terminated": "int", "truncated": "int"}

Ef = C.uf("E_row", INT, INT)
Tf = C.uf("T_row", INT, INT)
Kf = C.uf("K_row", INT, INT)
Lf = C.uf("L_row", INT, INT)
NORMAL, TERM, TRUNC, SUCC = 0, 1, 2, 3


def Rf(k):
    return C.uf(f"R_{k}", INT, VAL)


class S:
    """symbolic buffer state + ghosts"""


def make_state(E, cls="SubtrajectoryReplayBuffer", tag="", full=None):
    s = S()
    s.N, s.H = E.int("N"), E.int("H", 1)
    s.g, s.len, s.ets, s.cur = E.int("g", 0), E.int("len"), E.int("ets", 0), E.int("cur_episode")
    if full is True:
        s.len = s.N  # buffer full: current_len IS the capacity
    ST.SLOT_N["N"] = s.N.z
    s.ins = Sym(SLOT(s.g.z))  # insert_idx == g mod N (slot of the next row)
    E.assume(s.N > s.H)
    if full is False:
        E.assume(s.g < s.N)
    s.arrs = {}
    for k in KEYS:
        a = E.new_arr(f"buffer[{k}]", s.N, VAL)
        a.dtype = DT[k]
        a.payload_shape = ()
        s.arrs[k] = a
    s.mask = E.new_arr("mask_", s.N, INT)
    s.obj = E.new_obj(RB + cls, name="rb", buffer=dict(s.arrs), Batch=NamedTupleType("Batch", KEYS), buffer_size=s.N, current_len=s.len,
                      insert_idx=s.ins, episode_timesteps=s.ets, environment_terminates=E.bool("env_terminates"), horizon=s.H, mask_=s.mask)
    assume_wf(E, s, s.g, s.ets, s.cur, {k: s.arrs[k].data for k in KEYS}, s.mask.data, s.ins, s.len)
    return s


def live(a, g, ln):
    return z3.And(a >= g - ln, a < g)


def wf_scalars(N, H, g, ins, ln, ets):
    return z3.And(N > H, H >= 1, g >= 0, ins == SLOT(g), ln == z3.If(g < N, g, N), ets >= 0, ets <= g)


def wf_facts(N, H, g, ins, ln, ets, cur, datas, mask):
    """list of (name, sorts, fn) - the quantified conjuncts of WF"""
    N, H, g, ins, ln, ets, cur = [C.to_z3(x) for x in (N, H, g, ins, ln, ets, cur)]
    m = lambda a: z3.Select(mask, SLOT(a))  # noqa: E731
    out = []
    # slot(a) = a mod N: injective on every window of N consecutive rows, identity on [0, N)
    out.append(("WF.slot.injective", [INT, INT], lambda a, b: z3.Implies(z3.And(a - b < N, b - a < N, SLOT(a) == SLOT(b)), a == b), ("slot", "slot")))
    out.append(("WF.slot.identity", [INT], lambda a: z3.Implies(z3.And(a >= 0, a < N), SLOT(a) == a)))
    out.append(("WF.slot.aligned", [INT], lambda q: z3.Implies(z3.And(q >= 0, q < N), z3.And(SLOT(g - SLOT(g) + q) == q, SLOT(g - SLOT(g) - N + q) == q))))
    out.append(("WF.mask01", [INT], lambda s: z3.Or(z3.Select(mask, s) == 0, z3.Select(mask, s) == 1)))
    out.append(("WF.mask_only_on_written_slots", [INT], lambda s: z3.Implies(z3.And(s >= 0, s < N, z3.Select(mask, s) != 0), s < ln)))
    out.append(("WF.tail", [INT], lambda a: z3.Implies(z3.And(a >= g - ets, a < g), z3.And(Ef(a) == cur, Tf(a) == a - (g - ets) + 1, Kf(a) == NORMAL))))
    out.append(("WF.tail_mask", [INT], lambda a: z3.Implies(z3.And(a >= g - z3.If(ets < H, ets, H), a < g), m(a) == 0)))
    out.append(("WF.range", [INT], lambda a: z3.Implies(z3.And(live(a, g, ln), m(a) == 1), z3.And(
        Lf(a) >= 1, Lf(a) <= H, a + Lf(a) <= g,
        z3.Or(Kf(a + Lf(a) - 1) == NORMAL, Kf(a + Lf(a) - 1) == TERM),
        z3.Implies(Lf(a) < H, Kf(a + Lf(a) - 1) == TERM)))))
    out.append(("WF.window", [INT, INT], lambda a, j: z3.Implies(z3.And(live(a, g, ln), m(a) == 1, j >= 0, j < Lf(a)), z3.And(
        Ef(a + j) == Ef(a), Tf(a + j) == Tf(a) + j, z3.Implies(j < Lf(a) - 1, Kf(a + j) == NORMAL))), ("L_row", None)))
    for k in KEYS:
        out.append((f"WF.data[{k}]", [INT], lambda a, k=k: z3.Implies(live(a, g, ln), z3.Select(datas[k], SLOT(a)) == Rf(k)(a))))
    return out


def assume_wf(E, s, g, ets, cur, datas, mask, ins, ln):
    E.assume(Sym(wf_scalars(C.to_z3(s.N), C.to_z3(s.H), C.to_z3(g), C.to_z3(ins), C.to_z3(ln), C.to_z3(ets))))
    for name, sorts, fn, *trig in wf_facts(s.N, s.H, g, ins, ln, ets, cur, datas, mask):
        E.st.assume_forall(sorts, fn, name, triggers=trig[0] if trig else None)


MOD = ["WF."]
# which invariant conjuncts each preserved conjunct needs (keeps the queries small)
USING = {
    "WF.mask01": ["WF.mask01", "fancy", "-lemma"],
    "WF.mask_only_on_written_slots": ["WF.mask_only_on_written_slots", "fancy", "WF.slot.identity", "-lemma"],
    "WF.tail": ["WF.tail"],
    "WF.tail_mask": ["WF.tail_mask", "WF.mask01"],
    "WF.range": ["WF.range", "WF.tail", "WF.tail_mask", "WF.mask01"],
    "WF.window": ["WF.window", "WF.range", "WF.tail", "WF.tail_mask", "WF.mask01"],
    "WF.data": ["WF.data"],
}


def oblige_wf(E, prefix, s, g2, ets2, cur2, hist_using, only=None):
    o = s.obj.fields
    ins2, len2 = o["insert_idx"], o["current_len"]
    datas = {k: o["buffer"][k].data for k in KEYS}
    mask = o["mask_"].data
    E.oblige(f"{prefix}.wf.scalars", Sym(wf_scalars(C.to_z3(s.N), C.to_z3(s.H), C.to_z3(g2), C.to_z3(ins2), C.to_z3(len2), C.to_z3(ets2))), using=[])
    E.oblige(f"{prefix}.wf.episode_timesteps", C.compare("==", o["episode_timesteps"], ets2), using=[])
    for name, sorts, fn, *_trig in wf_facts(s.N, s.H, g2, ins2, len2, ets2, cur2, datas, mask):
        if only is not None and not any(name.startswith(o) for o in only):
            continue
        if name.startswith("WF.slot."):
            continue  # facts about slot(), independent of the buffer state (lemma task)
        use = USING.get(name.split("[")[0], MOD)
        if "-lemma" in use:
            use = [u for u in use if u != "-lemma"]  # proved from the store semantics directly
        else:
            use = use + hist_using + ["WF.slot"]
        if name.startswith("WF.data"):
            use = [name, "WF.slot"] + hist_using  # the data arrays are written directly: only this key's facts
        E.st.oblige_forall(f"{prefix}.{name.replace('WF.', 'wf.')}", sorts, fn, hint="a", using=use)


# ------------------------------------------------------------------ tasks
def h_slot_lemmas(E):
    """the facts about slot(a) = a mod N that the ring-index normalisation and
    the invariant use, proved on the real `mod` for symbolic N >= 1"""
    N, a, b, c, q = [E.int(n).z for n in ("N", "a", "b", "c", "q")]
    E.assume(Sym(N >= 1))
    E.oblige("slot.range", Sym(z3.And(a % N >= 0, a % N < N)), assume_after=False)
    from pyvc.runner import lean_backed
    lean_backed(E, "slot.shift", "SlotLemmas.lean", "slot_shift")  # ((a mod N) + c) mod N == (a + c) mod N: Int.emod_add_emod
    E.oblige("slot.injective_within_capacity", Sym(z3.Implies(z3.And(a - b < N, b - a < N, a % N == b % N), a == b)), assume_after=False)
    E.oblige("slot.identity_below_capacity", Sym(z3.Implies(z3.And(a >= 0, a < N), a % N == a)), assume_after=False)
    E.oblige("slot.aligned", Sym(z3.Implies(z3.And(q >= 0, q < N), z3.And((a - a % N + q) % N == q, (a - a % N - N + q) % N == q))), assume_after=False)
    E.oblige("canary.slot", Sym(a % N == a), assume_after=False)


def h_init(E):
    N, H = E.int("N"), E.int("H", 1)
    E.assume(N > H)
    o = E.call(RB + "SubtrajectoryReplayBuffer", N, H)
    f = o.fields
    E.oblige("init.empty", band(C.compare("==", f["current_len"], 0), C.compare("==", f["insert_idx"], 0), C.compare("==", f["episode_timesteps"], 0),
                                 C.compare("==", f["horizon"], H), C.compare("==", f["buffer_size"], N)))
    md = f["mask_"].data
    E.st.oblige_forall("init.no_valid_start", [INT], lambda s: z3.Select(md, s) == 0, hint="s")
    (E.st.ok if list(f["buffer"].keys()) == KEYS else E.st.fail)("init.keys", *([] if list(f["buffer"].keys()) == KEYS else [str(list(f["buffer"].keys()))]))
    E.oblige("canary.init", C.compare("==", f["current_len"], 1), assume_after=False)


GROUPS = {
    "mask": ["WF.mask01", "WF.mask_only", "WF.tail"],
    "windows": ["WF.range", "WF.window"],
    "data": ["WF.data"],
}


def mk_add(cls, kind_case=None, full_wf=True, mark_case=None, group=None):
    def h(E):
        s = make_state(E, cls)
        if mark_case is True:
            E.assume(s.ets + 1 > s.H)   # the row H steps back becomes a valid start
        elif mark_case is False:
            E.assume(s.ets + 1 <= s.H)
        if cls.endswith("PER"):
            from .C08 import make_pb
            pb, pr, maxp = make_pb(E, s.N, s.len)
            s.obj.fields["priority"] = pb
        E.assume(s.g >= 1)  # arrays allocated (the first addition is the init task's)
        g = s.g.z
        # the transition handed to add_sample is row g of the history
        term, trunc = E.bool("terminated"), E.bool("truncated")
        if kind_case == "normal":
            E.assume(band(bnot(term), bnot(trunc)))
        elif kind_case == "terminated":
            E.assume(band(term, bnot(trunc)))
        elif kind_case == "truncated":
            E.assume(band(trunc, bnot(term)))
        elif kind_case == "terminated+truncated":
            E.assume(band(trunc, term))
        smp = {k: E.val(f"s_{k}") for k in KEYS[:4]}
        smp["terminated"], smp["truncated"] = term, trunc
        kind = z3.If(trunc.z, TRUNC, z3.If(term.z, TERM, NORMAL))
        E.assume(Sym(z3.And(Kf(g) == kind, Ef(g) == s.cur.z, Tf(g) == s.ets.z + 1)))
        for k in KEYS:
            E.assume(Sym(Rf(k)(g) == cast_fn(DT[k])(to_sort(smp[k], VAL))))
        done = z3.Or(term.z, trunc.z)
        # successor row g+1 (only written when the episode ends)
        E.assume(Sym(z3.Implies(done, z3.And(Kf(g + 1) == SUCC))))
        for k in KEYS:
            src = smp["next_observation"] if k == "observation" else (C.frac_of(0.0) if k == "reward" else smp[k])
            E.assume(Sym(z3.Implies(done, Rf(k)(g + 1) == cast_fn(DT[k])(to_sort(src, VAL)))))
        # ghost L of the rows that become valid starts now
        H, ets1 = s.H.z, s.ets.z + 1
        mm = z3.If(ets1 < H, ets1, H)
        E.assume(Sym(z3.Implies(ets1 > H, Lf(g - H) == H)), name="hist.L")
        E.st.assume_forall([INT], lambda a: z3.Implies(z3.And(term.z, z3.Not(trunc.z), a >= g - mm + 1, a <= g), Lf(a) == g - a + 1), "hist.L")
        mask_before = s.mask.data  # NDArr objects are mutated in place: keep the old contents
        ret = E.call(E.getattr(s.obj, "add_sample"), **smp)
        g2 = Sym(z3.If(done, g + 2, g + 1))
        ets2 = Sym(z3.If(done, 0, ets1))
        cur2 = Sym(z3.If(done, s.cur.z + 1, s.cur.z))
        # lemma ladder: what the mask looks like afterwards, slot by slot (from
        # the store semantics + slot injectivity only), then the invariant from that
        N = s.N.z
        mask0, mask2 = mask_before, s.obj.fields["mask_"].data
        len2 = C.to_z3(s.obj.fields["current_len"])
        mark = ets1 > H  # the row H steps back becomes a valid start
        v = z3.If(trunc.z, 0, 1)
        SU = ["fancy", "WF.slot"]
        live2 = lambda a: z3.And(a >= C.to_z3(g2) - len2, a < C.to_z3(g2))  # noqa: E731
        need_lemmas = full_wf and group in (None, "mask", "windows")
        if need_lemmas:
            E.oblige("add.lemma.new_row_not_a_start", Sym(z3.Implies(z3.Not(done), z3.Select(mask2, SLOT(g)) == 0)), using=SU)
            E.oblige("add.lemma.row_H_back_becomes_start", Sym(z3.Implies(z3.And(z3.Not(done), mark), z3.Select(mask2, SLOT(g - H)) == 1)), using=SU)
            E.st.oblige_forall("add.lemma.other_rows_keep_mask", [INT], lambda a: z3.Implies(
                z3.And(z3.Not(done), live2(a), a != g, z3.Not(z3.And(mark, a == g - H))), z3.Select(mask2, SLOT(a)) == z3.Select(mask0, SLOT(a))), hint="a", using=SU)
            E.oblige("add.lemma.successor_row_not_a_start", Sym(z3.Implies(done, z3.Select(mask2, SLOT(g + 1)) == 0)), using=SU)
            E.st.oblige_forall("add.lemma.last_rows_of_ended_episode", [INT], lambda a: z3.Implies(
                z3.And(done, a >= g - mm + 1, a <= g), z3.Select(mask2, SLOT(a)) == v), hint="a", using=SU)
            E.st.oblige_forall("add.lemma.older_rows_keep_mask", [INT], lambda a: z3.Implies(
                z3.And(done, live2(a), a <= g - mm), z3.Select(mask2, SLOT(a)) == z3.If(z3.And(mark, a == g - H), 1, z3.Select(mask0, SLOT(a)))), hint="a", using=SU)
        # the prioritized subclass only appends the priority bookkeeping to the base class's add_sample
        # (proved in full by the base-class tasks): its quick tasks re-prove the scalar part only
        only = GROUPS[group] if group else None
        if cls.endswith("PER") and not full_wf:
            only = ["WF.mask01"]
        oblige_wf(E, "add", s, g2, ets2, cur2, ["hist.", "add.lemma."], only=only)
        if cls.endswith("PER"):
            from .C08 import oblige_pwf
            oblige_pwf(E, "add.pwf", pb, s.obj.fields["current_len"])
            new = pb.fields["priority"].data
            E.oblige("add.new_rows_get_max_priority", Sym(z3.And(z3.Select(new, SLOT(g)) == maxp.z, z3.Implies(done, z3.Select(new, SLOT(g + 1)) == maxp.z))))
        E.oblige("canary.add", C.compare("==", s.obj.fields["current_len"], s.len), assume_after=False)
        E.cover("end")
    return h


def mk_sample(cls, intermediate, full=True):
    def h(E):
        s = make_state(E, cls, full=full)
        E.assume(s.g >= 1)
        if cls.endswith("PER"):
            from .C08 import make_pb
            pb, pr, maxp = make_pb(E, s.N, s.len)
            s.obj.fields["priority"] = pb
        B, h_ = E.int("batch_size", 1), E.int("horizon", 1)
        E.assume(h_ <= s.H)
        rng = E.shared.lib.funcs["numpy.random.default_rng"].fn(E, E.int("seed"))
        _record_starts(E, cls)
        batch = E.call(E.getattr(s.obj, "sample_batch"), B, h_, intermediate, rng)
        two_d = [t for t in E.st.ghost.get("gather_indices", []) if isinstance(t, T.Tensor) and t.ndim == 2]
        if two_d:
            E.st.ghost["subtraj_indices"] = two_d[0]
        N, g, ln, ins, Hh = s.N.z, s.g.z, s.len.z, s.ins.z, s.H.z
        md = s.mask.data
        starts = E.st.ghost.get("subtraj_starts")
        if starts is None:
            E.st.fail("sample.start_slots_identified", "no start indices recorded")
            return
        slot = lambda b: C.as_int(starts.at(b))  # noqa: E731
        row = lambda b: z3.If(slot(b) < ins, g - ins + slot(b), g - ins - N + slot(b))  # noqa: E731
        inb = lambda b: z3.And(b >= 0, b < B.z)  # noqa: E731
        US = ["WF.mask", "WF.slot", "nonzero", "integers.range", "sampling.", "searchsorted", "cumsum", "PWF"]
        if cls.endswith("PER"):
            # the prioritized start indices obey C08's interval law (valid, unmasked, inside the filled region)
            from .C08 import sampling_law
            unit, cs_t = E.st.ghost.get("last_uniform_unit"), (E.st.ghost.get("cumsums") or [None])[0]
            pdata = s.obj.fields["priority"].fields["priority"].data
            weight = lambda i: z3.Select(pdata, i) * z3.ToReal(z3.Select(md, i))  # noqa: E731
            # requires a valid start to exist (otherwise sampling rejects: see C08 all-masked task)
            sampling_law(E, "sampling", starts, s.len, weight, B, unit, cs_t.cs, cs_t.cs(ln - 1), using=["searchsorted", "cumsum", "uniform", "PWF", "WF.mask01"])
        E.st.oblige_forall("sample.starts_are_valid_live_rows", [INT], lambda b: z3.Implies(inb(b), z3.And(
            slot(b) >= 0, slot(b) < ln, z3.Select(md, slot(b)) == 1, live(row(b), g, ln), SLOT(row(b)) == slot(b))), hint="b", using=US)
        Lb = lambda b: Lf(row(b))  # noqa: E731
        pre = lambda b, t: z3.And(inb(b), t >= 0, t < h_.z, t < Lb(b))  # noqa: E731
        SS = ["sample.starts"]
        E.st.oblige_forall("sample.prefix_never_crosses_write_position", [INT], lambda b: z3.Implies(inb(b), z3.And(Lb(b) >= 1, row(b) + Lb(b) <= g)), hint="b", using=SS + ["WF.range"])
        E.st.oblige_forall("sample.prefix_is_one_episode_in_order", [INT, INT], lambda b, t: z3.Implies(pre(b, t), z3.And(
            Ef(row(b) + t) == Ef(row(b)), Tf(row(b) + t) == Tf(row(b)) + t)), hint="b", using=SS + ["WF.window"])
        E.st.oblige_forall("sample.prefix_has_no_truncated_step", [INT, INT], lambda b, t: z3.Implies(pre(b, t), z3.And(
            Kf(row(b) + t) != TRUNC, Kf(row(b) + t) != SUCC, z3.Implies(t < Lb(b) - 1, Kf(row(b) + t) == NORMAL))), hint="b", using=SS + ["WF.window", "WF.range"])
        E.st.oblige_forall("sample.window_shorter_than_horizon_ends_terminated", [INT], lambda b: z3.Implies(z3.And(inb(b), Lb(b) < h_.z), Kf(row(b) + Lb(b) - 1) == TERM), hint="b", using=SS + ["WF.range"])

        def data_ob(name, k, elem, when, target_row):
            """Skolemised by hand so that the start slot can be replaced by slot(row) (equal by the starts lemma)"""
            b0, t0 = E.st.fresh("b", INT), E.st.fresh("t", INT)
            goal = z3.Implies(when(b0, t0), C.to_z3(elem(b0, t0)) == Rf(k)(target_row(b0, t0)))
            goal = z3.substitute(goal, (slot(b0), SLOT(row(b0))))
            E.st.oblige(name, Sym(goal), assume_after=False, extra_pool=[b0, t0, row(b0)], using=SS + [f"WF.data[{k}]", "WF.range", "WF.slot.identity"])

        if intermediate:
            for k in KEYS:
                t_k = batch.get(k)
                ok = isinstance(t_k, T.Tensor) and t_k.ndim == 2 and T.dim_eq(t_k.shape[0], B) and T.dim_eq(t_k.shape[1], h_)
                (E.st.ok if ok else E.st.fail)(f"sample.shape[{k}]", *([] if ok else [str(getattr(t_k, "shape", t_k))]))
                if ok:
                    data_ob(f"sample.prefix_rows_are_the_stored_rows[{k}]", k, lambda b, t, t_k=t_k: t_k.at(b, t), pre, lambda b, t: row(b) + t)
        else:
            shapes = {"observation": 1, "action": 1, "next_observation": 1, "reward": 2, "terminated": 2, "truncated": 2}
            for k in KEYS:
                t_k = batch.get(k)
                ok = isinstance(t_k, T.Tensor) and t_k.ndim == shapes[k]
                (E.st.ok if ok else E.st.fail)(f"reduced.shape[{k}]", *([] if ok else [str(getattr(t_k, "shape", t_k))]))
                if not ok:
                    continue
                if k in ("observation", "action"):
                    data_ob(f"reduced.first_step[{k}]", k, lambda b, t, t_k=t_k: t_k.at(b), lambda b, t: inb(b), lambda b, t: row(b))
                elif k == "next_observation":
                    data_ob("reduced.last_step_successor[next_observation]", k, lambda b, t, t_k=t_k: t_k.at(b), lambda b, t: z3.And(inb(b), h_.z <= Lb(b)), lambda b, t: row(b) + h_.z - 1)
                else:
                    data_ob(f"reduced.per_step[{k}]", k, lambda b, t, t_k=t_k: t_k.at(b, t), pre, lambda b, t: row(b) + t)
        idx = E.st.ghost.get("subtraj_indices")
        if idx is not None:
            E.st.oblige_forall("sample.every_index_is_a_written_slot", [INT, INT], lambda b, t: z3.Implies(z3.And(inb(b), t >= 0, t < h_.z), z3.And(C.as_int(idx.at(b, t)) >= 0, C.as_int(idx.at(b, t)) < ln)), hint="b", using=SS)
        else:
            E.st.fail("sample.every_index_is_a_written_slot", "index matrix not recorded")
        E.oblige("canary.sample", Sym(slot(0) == 0), assume_after=False)
        E.cover("end")
    return h


def _record_starts(E, cls):
    """ghost: remember what the real _sample_idx returned (the start slots)"""
    real = E.getattr(E.resolve(RB + cls), "_sample_idx")

    def wrapper(E, *a, **k):
        r = E.call_closure(real, list(a), dict(k))
        E.st.ghost["subtraj_starts"] = r
        return r

    E.shared.stubs[real.qualname] = wrapper


def h_sample_no_valid_start(E):
    """no valid start (all masked): sampling rejects loudly"""
    s = make_state(E)
    md = s.mask.data
    E.st.assume_forall([INT], lambda q: z3.Select(md, q) == 0, "none_valid")
    rng = E.shared.lib.funcs["numpy.random.default_rng"].fn(E, 0)
    kind, r = E.call_catch(E.getattr(s.obj, "sample_batch"), E.int("batch_size", 1), 1, True, rng)
    (E.st.ok if kind == "raise" else E.st.fail)("sample.no_valid_start_rejected", *([] if kind == "raise" else ["a batch was returned although no valid start exists"]))


TASKS = [
    Task("lemma", h_slot_lemmas),
    Task("init", h_init),
] + [
    Task(f"add_sample[{kind},{'long' if mark else 'short'}-episode,{grp}]", mk_add("SubtrajectoryReplayBuffer", kind, mark_case=mark, group=grp))
    for kind in ("normal", "terminated", "truncated", "terminated+truncated") for mark in (True, False) for grp in ("mask", "windows", "data")
] + [
    Task("sample_batch[intermediate,full]", mk_sample("SubtrajectoryReplayBuffer", True, True), allow_raise={"ValueError"}),
    Task("sample_batch[intermediate,filling]", mk_sample("SubtrajectoryReplayBuffer", True, False), allow_raise={"ValueError"}),
    Task("sample_batch[reduced,full]", mk_sample("SubtrajectoryReplayBuffer", False, True), allow_raise={"ValueError"}),
    Task("sample_batch[reduced,filling]", mk_sample("SubtrajectoryReplayBuffer", False, False), allow_raise={"ValueError"}),
    Task("sample_batch[no-valid-start]", h_sample_no_valid_start),
] + [
    Task(f"PER.add_sample[{kind}]", mk_add("SubtrajectoryReplayBufferPER", kind, full_wf=False)) for kind in ("normal", "terminated", "truncated")
] + [
    Task(f"PER.add_sample[{kind},full-invariant]", mk_add("SubtrajectoryReplayBufferPER", kind), tier="thorough") for kind in ("normal", "terminated", "truncated")
] + [
    Task("PER.sample_batch[intermediate,full]", mk_sample("SubtrajectoryReplayBufferPER", True, True), allow_raise={"ValueError"}),
    Task("PER.sample_batch[intermediate,filling]", mk_sample("SubtrajectoryReplayBufferPER", True, False), allow_raise={"ValueError"}),
]
TRUSTED = ["np.nonzero returns exactly the non-zero positions in ascending order"]
ASSUMPTIONS = [
    "capacity > storage horizon >= 1 (the property's quantifier); sampling horizon <= storage horizon (train_mrq passes encoder_horizon, q_horizon <= max of both)",
    "ghost history functions E/T/K/R/L are definitional: the row appended by add_sample is row g of the history",
]
NOT_COVERED = ["the part of a window after its first terminated step is only required to read written slots (how the statement is read; C07's masking consumers rely on exactly that)"]
REPLAY = {"": "c04_subtraj"}
