"""C08 - prioritized replay samples proportionally and tracks priorities correctly.

Functions under contract: PriorityBuffer.__init__/initialize_priority/
prioritized_sampling/update_priority/reset_max_priority, LAP.add_sample/
sample_batch/update_priority/reset_max_priority, PrioritizedReplayBuffer.
prioritized_sampling_stratified/sample_batch/compute_importance_ratio,
SubtrajectoryReplayBufferPER._sample_idx (masked sampling), lap_priority,
per_priority, MultiTaskReplayBuffer.update_priority/reset_max_priority (which task's
buffer an update / a reset reaches; modular, contracts/multitask.py).

Sampling law (DESIGN 5, C08): with w_i = priority_i * mask_i, c = cumsum(w),
S = c[len-1] > 0, every uniform variate u in (0,1) is mapped to the index i with
c[i-1] < u*S <= c[i]; hence 0 <= i < len, w_i > 0 and the set of variates mapped
to i is an interval of length w_i / S - the exact statement that "index i is
drawn with probability p_i / sum p".
"""
import z3

from pyvc import core as C
from pyvc import tensor as T
from pyvc.core import INT, REAL, VAL, Sym, band, bnot, bor, iff, implies
from pyvc.runner import Task

from . import buffers as B
from .buffers import RB

PROPERTY = "C08"
LEVEL = "proof"


def rng_of(E):
    return E.shared.lib.funcs["numpy.random.default_rng"].fn(E, E.int("seed"))


def make_pb(E, N, ln, name="pb"):
    """PriorityBuffer in a state satisfying PWF(len): 0 < priority_i <= max_priority for i < len"""
    pr = E.new_arr(f"{name}.priority", N, REAL)
    maxp = E.real(f"{name}.max_priority")
    B0 = E.int("B_prev", 0)
    prev = T.fresh_tensor("sampled_prev", (B0,), INT)
    pb = E.new_obj(RB + "PriorityBuffer", name=name, max_priority=maxp, priority=pr, sampled_indices=prev)
    data = pr.data
    E.st.assume_forall([INT], lambda i: z3.Implies(z3.And(i >= 0, i < C.to_z3(ln)), z3.And(z3.Select(data, i) > 0, z3.Select(data, i) <= maxp.z)), "PWF")
    E.assume(maxp > 0)
    return pb, pr, maxp


def oblige_pwf(E, name, pb, ln):
    data = pb.fields["priority"].data
    maxp = C.to_z3(pb.fields["max_priority"])
    E.st.oblige_forall(name, [INT], lambda i: z3.Implies(z3.And(i >= 0, i < C.to_z3(ln)), z3.And(z3.Select(data, i) > 0, z3.Select(data, i) <= maxp)), hint="i")


# ------------------------------------------------------------ PriorityBuffer
def h_pb_init(E):
    N = E.int("N", 1)
    pb = E.call(RB + "PriorityBuffer", N)
    E.oblige("init.max_priority_is_one", C.compare("==", pb.fields["max_priority"], 1))
    E.oblige("init.capacity", C.compare("==", E.shared.lib.builtins["len"].fn(E, pb.fields["priority"]), N))
    oblige_pwf(E, "init.pwf_empty", pb, 0)
    E.oblige("canary.init", C.compare("==", pb.fields["max_priority"], 2), assume_after=False)


def sampling_law(E, prefix, idx, ln, weight, Bsz, unit, cs, S, using=None):
    """interval law for every drawn position q"""
    lnz = C.to_z3(ln)

    def goal(q):
        i = C.as_int(idx.at(q))
        u = C.as_real(unit.at(q))
        lo = z3.If(i >= 1, cs(i - 1), z3.RealVal(0))
        return z3.Implies(z3.And(q >= 0, q < C.to_z3(Bsz)),
                          z3.And(i >= 0, i < lnz, weight(i) > 0, lo < u * S, u * S <= cs(i)))

    E.st.oblige_forall(f"{prefix}.interval_law", [INT], goal, hint="q", using=using)


def mk_pb_sampling(masked):
    def h(E):
        N = E.int("N", 1)
        ln = E.int("len", 1)
        E.assume(ln <= N)
        pb, pr, maxp = make_pb(E, N, ln)
        bs = E.int("batch_size", 1)
        rng = rng_of(E)
        data = pr.data
        mask = None
        if masked:
            mask = E.new_arr("mask", N, INT)
            md = mask.data
            E.st.assume_forall([INT], lambda i: z3.Or(z3.Select(md, i) == 0, z3.Select(md, i) == 1), "mask01")
            weight = lambda i: z3.Select(data, i) * z3.ToReal(z3.Select(md, i))  # noqa: E731
            # requires: some valid (unmasked) entry in the filled region
            v0 = E.int("valid_start")
            E.assume(band(v0 >= 0, v0 < ln, Sym(z3.Select(md, v0.z) == 1)))
        else:
            weight = lambda i: z3.Select(data, i)  # noqa: E731
        args = [ln, bs, rng] + ([mask] if masked else [])
        idx = E.call(E.getattr(pb, "prioritized_sampling"), *args)
        unit = E.st.ghost.get("last_uniform_unit")
        cs_t = E.st.ghost.get("last_cumsum")
        if unit is None or cs_t is None or not isinstance(idx, T.Tensor):
            E.st.fail("sampling.uses_cumsum_and_uniform", "sampler did not draw uniforms against a cumulative sum")
            return
        cs = cs_t.cs
        S = cs(C.to_z3(ln) - 1)
        if not (idx.ndim == 1 and T.dim_eq(idx.shape[0], bs)):
            E.st.fail("sampling.batch_shape", str(idx.shape))
        else:
            E.st.ok("sampling.batch_shape")
        # the cumulative sum is over exactly the weights of the filled region
        E.st.oblige_forall("sampling.cumsum_of_weights", [INT], lambda i: z3.Implies(z3.And(i >= 0, i < C.to_z3(ln)), C.as_real(cs_t.cumsum_of.at(i)) == weight(i)), hint="i")
        sampling_law(E, "sampling", idx, ln, weight, bs, unit, cs, S)
        # ghost last_batch: the indices remembered for the next priority update are the returned ones
        si = pb.fields["sampled_indices"]
        E.st.oblige_forall("sampling.remembers_batch", [INT], lambda q: z3.Implies(z3.And(q >= 0, q < C.to_z3(bs)), C.as_int(si.at(q)) == C.as_int(idx.at(q))), hint="q") if isinstance(si, T.Tensor) and T.dim_eq(si.shape[0], bs) else E.st.fail("sampling.remembers_batch", "sampled_indices not set to the drawn batch")
        E.oblige("canary.always_index0", Sym(C.as_int(idx.at(0)) == 0), assume_after=False)
        E.cover("end")
    return h


def h_pb_sampling_all_masked(E):
    """total weight 0 (everything masked): no valid entry exists, so the sampler
    must reject loudly rather than hand out a masked index"""
    N = E.int("N", 1)
    ln = E.int("len", 1)
    E.assume(ln <= N)
    pb, pr, maxp = make_pb(E, N, ln)
    mask = E.new_arr("mask", N, INT)
    md = mask.data
    E.st.assume_forall([INT], lambda i: z3.Implies(z3.And(i >= 0, i < ln.z), z3.Select(md, i) == 0), "all_masked")
    kind, r = E.call_catch(E.getattr(pb, "prioritized_sampling"), ln, E.int("batch_size", 1), rng_of(E), mask)
    if kind == "raise":
        E.st.ok("sampling.all_masked_rejected")
    else:
        E.st.fail("sampling.all_masked_rejected", "prioritized_sampling returned indices although every entry is masked out")


def h_pb_update(E):
    N = E.int("N", 1)
    ln = E.int("len", 1)
    E.assume(ln <= N)
    pb, pr, maxp = make_pb(E, N, ln)
    bs = E.int("batch_size", 1)
    idx = T.fresh_tensor("last_batch", (bs,), INT)
    E.st.assume_forall([INT], lambda q: z3.Implies(z3.And(q >= 0, q < bs.z), z3.And(C.as_int(idx.at(q)) >= 0, C.as_int(idx.at(q)) < ln.z)), "last_batch.range")
    pb.fields["sampled_indices"] = idx
    p = T.fresh_tensor("new_priority", (bs,), REAL)
    E.st.assume_forall([INT], lambda q: z3.Implies(z3.And(q >= 0, q < bs.z), C.as_real(p.at(q)) > 0), "new_priority.positive")
    old = pr.data
    E.call(E.getattr(pb, "update_priority"), p)
    new = pb.fields["priority"].data
    maxp2 = C.to_z3(pb.fields["max_priority"])
    # every position of the last sampled batch holds one of the values supplied for that index
    wq = z3.Function("wq", INT, INT)
    E.st.oblige_forall("update.batch_entries_set", [INT], lambda q: z3.Implies(
        z3.And(q >= 0, q < bs.z),
        z3.Exists([z3.Int("q2")], z3.And(z3.Int("q2") >= 0, z3.Int("q2") < bs.z, C.as_int(idx.at(z3.Int("q2"))) == C.as_int(idx.at(q)),
                                         z3.Select(new, C.as_int(idx.at(q))) == C.as_real(p.at(z3.Int("q2")))))), hint="q")
    E.st.oblige_forall("update.frame_other_slots", [INT], lambda s: z3.Or(z3.Select(new, s) == z3.Select(old, s),
                       z3.Exists([z3.Int("q3")], z3.And(z3.Int("q3") >= 0, z3.Int("q3") < bs.z, C.as_int(idx.at(z3.Int("q3"))) == s))), hint="s")
    E.st.oblige_forall("update.max_dominates_supplied", [INT], lambda q: z3.Implies(z3.And(q >= 0, q < bs.z), maxp2 >= C.as_real(p.at(q))), hint="q")
    E.oblige("update.max_never_decreases", Sym(maxp2 >= maxp.z))
    oblige_pwf(E, "update.pwf", pb, ln)
    E.oblige("canary.max_unchanged", Sym(maxp2 == maxp.z), assume_after=False)
    E.cover("end")


def h_pb_reset(E):
    N = E.int("N", 1)
    ln = E.int("len", 0)
    E.assume(ln <= N)
    pb, pr, maxp = make_pb(E, N, ln)
    E.call(E.getattr(pb, "reset_max_priority"), ln)
    maxp2 = C.to_z3(pb.fields["max_priority"])
    data = pr.data
    E.st.oblige_forall("reset.max_is_upper_bound", [INT], lambda i: z3.Implies(z3.And(i >= 0, i < ln.z), z3.Select(data, i) <= maxp2), hint="i")
    wit = E.st.ghost.get("last_max_witness")
    E.oblige("reset.max_is_attained", implies(ln >= 1, Sym(z3.Exists([z3.Int("i0")], z3.And(z3.Int("i0") >= 0, z3.Int("i0") < ln.z, z3.Select(data, z3.Int("i0")) == maxp2)))))
    E.oblige("reset.empty_unchanged", implies(ln == 0, Sym(maxp2 == maxp.z)))
    oblige_pwf(E, "reset.pwf", pb, ln)
    E.oblige("canary.reset", Sym(maxp2 == maxp.z), assume_after=False)


# ---------------------------------------------------------------- LAP / PER
def lap_state(E, cls):
    v = B.make_replay_buffer(E, cls)
    ln = v.obj.fields["current_len"]
    pb, pr, maxp = make_pb(E, v.N, ln)
    v.obj.fields["priority"] = pb
    return v, pb, pr, maxp


def mk_lap_add(cls):
    def h(E):
        v, pb, pr, maxp = lap_state(E, cls)
        s = {k: E.val(f"s_{k}") for k in v.keys}
        ins0 = v.obj.fields["insert_idx"]
        E.call(E.getattr(v.obj, "add_sample"), **s)
        new = pb.fields["priority"].data
        E.oblige("add.new_entry_gets_max_priority", Sym(z3.Select(new, C.to_z3(ins0)) == maxp.z))
        E.oblige("add.max_unchanged", Sym(C.to_z3(pb.fields["max_priority"]) == maxp.z))
        oblige_pwf(E, "add.pwf", pb, v.obj.fields["current_len"])
        B.oblige_wf(E, "add", v, v.n + 1, B.extended_history(v, v.n, s))
        E.oblige("canary.add", Sym(z3.Select(new, C.to_z3(ins0)) == 0), assume_after=False)
        E.cover("end")
    return h


def mk_lap_sample(cls, part=None):
    """part: None = everything; 'law' = sampling law + rows + remembered batch; 'importance' = importance weights
    (the two halves run as separate tasks in parallel; the importance half re-establishes the law it builds on)"""
    def h(E):
        from .C02 import _row_is_stored

        v, pb, pr, maxp = lap_state(E, cls)
        bs = E.int("batch_size", 1)
        rng = rng_of(E)
        ln = v.obj.fields["current_len"]
        data = pr.data
        kw = {}
        if cls == "PrioritizedReplayBuffer":
            beta = E.real("beta", 0, 1)
            out = E.call(E.getattr(v.obj, "sample_batch"), bs, rng, beta)
            batch, ratio = out
        else:
            batch = E.call(E.getattr(v.obj, "sample_batch"), bs, rng)
            ratio = None
        unit = E.st.ghost.get("last_uniform_unit")
        cs_t = (E.st.ghost.get("cumsums") or [None])[0]  # the sampling distribution (first cumulative sum of the call)
        idx = E.st.ghost.get("last_searchsorted")
        if unit is None or cs_t is None or idx is None:
            E.st.fail("sample.uses_cumsum_and_uniform", "no proportional draw recorded")
            return
        cs = cs_t.cs
        S = cs(C.to_z3(ln) - 1)
        weight = lambda i: z3.Select(data, i)  # noqa: E731
        E.st.oblige_forall("sample.cumsum_of_priorities", [INT], lambda i: z3.Implies(z3.And(i >= 0, i < C.to_z3(ln)), C.as_real(cs_t.cumsum_of.at(i)) == weight(i)), hint="i")
        if cls == "PrioritizedReplayBuffer":
            # stratified: draw q comes from segment [q/B, (q+1)/B) of the unit interval
            strat = E.st.ghost.get("last_uniform_bounds")
            lo_t, hi_t = strat
            seg = S / z3.ToReal(bs.z)
            E.st.oblige_forall("sample.stratified_segments", [INT], lambda q: z3.Implies(z3.And(q >= 0, q < bs.z), z3.And(C.as_real(lo_t.at(q)) == z3.ToReal(q) * seg, C.as_real(hi_t.at(q)) == (z3.ToReal(q) + 1) * seg)), hint="q")
            # interval law on the point drawn: c[i-1] < x_q <= c[i], 0 < x_q < S
            pts = E.st.ghost.get("last_uniform_points")

            E.oblige("sample.total_priority_positive", Sym(S > 0))
            E.st.oblige_forall("sample.points_inside_total", [INT], lambda q: z3.Implies(z3.And(q >= 0, q < bs.z), z3.And(C.as_real(pts.at(q)) > 0, C.as_real(pts.at(q)) < S)), hint="q", using=["uniform.unit", "uniform.def"])

            def goal(q):
                i = C.as_int(idx.at(q))
                x = C.as_real(pts.at(q))
                lo = z3.If(i >= 1, cs(i - 1), z3.RealVal(0))
                return z3.Implies(z3.And(q >= 0, q < bs.z), z3.And(i >= 0, i < C.to_z3(ln), weight(i) > 0, lo < x, x <= cs(i)))
            E.st.oblige_forall("sample.interval_law", [INT], goal, hint="q", using=["searchsorted", "cumsum", "PWF", "sample.points_inside_total"])
        else:
            sampling_law(E, "sample", idx, ln, weight, bs, unit, cs, S)
        if part != "importance":
            # lemma: every drawn position is a written slot (all the row clause needs from the interval law)
            E.st.oblige_forall("sample.lemma.index_in_written_range", [INT], lambda q: z3.Implies(z3.And(q >= 0, q < bs.z), z3.And(C.as_int(idx.at(q)) >= 0, C.as_int(idx.at(q)) < C.to_z3(ln))),
                               hint="q", using=["sample.interval_law"])
            _row_is_stored(E, "sample", v, batch, idx, bs, using=["WF.data", "sample.lemma.index_in_written_range"])
        si = pb.fields["sampled_indices"]
        if isinstance(si, T.Tensor) and si.ndim == 1 and T.dim_eq(si.shape[0], bs):
            E.st.oblige_forall("sample.remembers_batch_for_update", [INT], lambda q: z3.Implies(z3.And(q >= 0, q < bs.z), C.as_int(si.at(q)) == C.as_int(idx.at(q))), hint="q")
        else:
            E.st.fail("sample.remembers_batch_for_update", "the indices of the sampled batch are not the ones update_priority will write to")
        if ratio is not None and part != "law":
            from pyvc.lib.np_model import cumsum_monotone

            rz = lambda q: C.as_real(ratio.at(q))  # noqa: E731
            pq = lambda q: z3.Select(data, C.as_int(idx.at(q)))  # noqa: E731
            inb = lambda q: z3.And(q >= 0, q < bs.z)  # noqa: E731
            U = ["max.", "importance.", "PWF", "sample.interval_law"]
            # lemma ladder towards the three clauses below; it follows the documented computation (cumulative sum of the
            # sampled priorities, maximum over the un-normalised weights).  Code that computes the ratio differently
            # simply gets no lemmas: the clauses themselves are stated on the returned ratio only.
            cums = E.st.ghost.get("cumsums", [])
            maxes = [nd for nd in E.st.sums if nd.kind == "max"]
            if len(cums) >= 2 and maxes:
                cs2 = cums[1]  # cumulative sum of the sampled priorities
                cumsum_monotone(E, cs2, name="importance.sum_monotone")
                E.oblige("importance.sum_of_sampled_priorities_positive", Sym(cs2.cs(bs.z - 1) > 0), using=["cumsum.step", "importance.sum_monotone", "PWF", "sample.interval_law"])
                mxn = maxes[-1]  # max over the un-normalised weights
                wq = lambda q: mxn.body(q)  # noqa: E731
                E.st.oblige_forall("importance.lemma.weights_positive", [INT], lambda q: z3.Implies(inb(q), wq(q) > 0), hint="q", using=U)
                E.st.oblige_forall("importance.lemma.weights_ordered_by_priority", [INT, INT], lambda q, r: z3.Implies(z3.And(inb(q), inb(r), pq(q) <= pq(r)), wq(q) >= wq(r)), hint="q", using=["importance.sum", "PWF", "sample.interval_law"])
                E.oblige("importance.lemma.max_weight_positive", Sym(mxn.vf() > 0), using=U)
            else:
                E.st.notes.append("importance weights: the code does not follow the documented computation (cumsum / batch max); clauses stated without the lemma ladder")
            E.st.oblige_forall("importance.in_unit_interval", [INT], lambda q: z3.Implies(inb(q), z3.And(rz(q) > 0, rz(q) <= 1)), hint="q", using=U)
            E.oblige("importance.max_is_one", Sym(z3.Exists([z3.Int("qm")], z3.And(inb(z3.Int("qm")), rz(z3.Int("qm")) == 1))), using=U)
            E.st.oblige_forall("importance.non_increasing_in_priority", [INT, INT], lambda q, r: z3.Implies(z3.And(inb(q), inb(r), pq(q) <= pq(r)), rz(q) >= rz(r)), hint="q", using=U)
        E.oblige("canary.sample", Sym(C.as_int(idx.at(0)) == 0), assume_after=False)
        E.cover("end")
    return h


def mk_lap_update(cls):
    def h(E):
        v, pb, pr, maxp = lap_state(E, cls)
        bs = E.int("batch_size", 1)
        ln = v.obj.fields["current_len"]
        idx = T.fresh_tensor("last_batch", (bs,), INT)
        E.st.assume_forall([INT], lambda q: z3.Implies(z3.And(q >= 0, q < bs.z), z3.And(C.as_int(idx.at(q)) >= 0, C.as_int(idx.at(q)) < C.to_z3(ln))), "last_batch.range")
        pb.fields["sampled_indices"] = idx
        p = T.fresh_tensor("new_priority", (bs,), REAL)
        E.st.assume_forall([INT], lambda q: z3.Implies(z3.And(q >= 0, q < bs.z), C.as_real(p.at(q)) > 0), "new_priority.positive")
        old = pr.data
        bufs = {k: v.arrs[k].data for k in v.keys}
        E.call(E.getattr(v.obj, "update_priority"), p)
        new = pb.fields["priority"].data
        E.st.oblige_forall("update.batch_entries_set", [INT], lambda q: z3.Implies(
            z3.And(q >= 0, q < bs.z),
            z3.Exists([z3.Int("q2")], z3.And(z3.Int("q2") >= 0, z3.Int("q2") < bs.z, C.as_int(idx.at(z3.Int("q2"))) == C.as_int(idx.at(q)),
                                             z3.Select(new, C.as_int(idx.at(q))) == C.as_real(p.at(z3.Int("q2")))))), hint="q")
        if all(z3.eq(bufs[k], v.obj.fields["buffer"][k].data) for k in v.keys):
            E.st.ok("update.frame_transitions_untouched")
        else:
            E.st.fail("update.frame_transitions_untouched", "update_priority wrote to the stored transitions")
        oblige_pwf(E, "update.pwf", pb, ln)
        E.call(E.getattr(v.obj, "reset_max_priority"))
        oblige_pwf(E, "reset.pwf", pb, ln)
        m2 = C.to_z3(pb.fields["max_priority"])
        E.oblige("reset.max_is_attained", Sym(z3.Exists([z3.Int("i0")], z3.And(z3.Int("i0") >= 0, z3.Int("i0") < C.to_z3(ln), z3.Select(pb.fields["priority"].data, z3.Int("i0")) == m2))))
        E.oblige("canary.upd", Sym(m2 == maxp.z), assume_after=False)
    return h


# ------------------------------------------------------- priority functions
def h_lap_priority(E):
    n = E.int("n", 1)
    d = T.fresh_tensor("abs_td_error", (n,), REAL)
    E.st.assume_forall([INT], lambda i: C.as_real(d.at(i)) >= 0, "abs.nonneg")
    pmin = E.real("min_priority")
    alpha = E.real("alpha")
    E.assume(band(pmin > 0, alpha > 0, alpha <= 1))
    p = E.call(RB + "lap_priority", d, pmin, alpha)
    inb = lambda i: z3.And(i >= 0, i < n.z)  # noqa: E731
    E.st.oblige_forall("lap.positive", [INT], lambda i: z3.Implies(inb(i), C.as_real(p.at(i)) > 0), hint="i")
    E.st.oblige_forall("lap.nondecreasing_in_abs_error", [INT, INT], lambda i, j: z3.Implies(z3.And(inb(i), inb(j), C.as_real(d.at(i)) <= C.as_real(d.at(j))), C.as_real(p.at(i)) <= C.as_real(p.at(j))), hint="i")
    powf = C.uf("pow", REAL, REAL, REAL)
    E.st.oblige_forall("lap.formula", [INT], lambda i: z3.Implies(inb(i), C.as_real(p.at(i)) == powf(z3.If(C.as_real(d.at(i)) >= pmin.z, C.as_real(d.at(i)), pmin.z), alpha.z)), hint="i")
    E.oblige("canary.lap", Sym(C.as_real(p.at(0)) == 1), assume_after=False)


def h_per_priority(E):
    n = E.int("n", 1)
    d = T.fresh_tensor("abs_td_error", (n,), REAL)
    E.st.assume_forall([INT], lambda i: C.as_real(d.at(i)) >= 0, "abs.nonneg")
    eps = E.real("epsilon")
    alpha = E.real("alpha")
    E.assume(band(eps > 0, alpha > 0, alpha <= 1))
    p = E.call(RB + "per_priority", d, alpha, eps)
    inb = lambda i: z3.And(i >= 0, i < n.z)  # noqa: E731
    E.st.oblige_forall("per.positive", [INT], lambda i: z3.Implies(inb(i), C.as_real(p.at(i)) > 0), hint="i")
    E.st.oblige_forall("per.nondecreasing_in_abs_error", [INT, INT], lambda i, j: z3.Implies(z3.And(inb(i), inb(j), C.as_real(d.at(i)) <= C.as_real(d.at(j))), C.as_real(p.at(i)) <= C.as_real(p.at(j))), hint="i")
    E.oblige("canary.per", Sym(C.as_real(p.at(0)) == 1), assume_after=False)


TASKS = [
    Task("PriorityBuffer.init", h_pb_init),
    Task("PriorityBuffer.prioritized_sampling", mk_pb_sampling(False)),
    Task("PriorityBuffer.prioritized_sampling[masked]", mk_pb_sampling(True)),
    Task("PriorityBuffer.prioritized_sampling[all-masked]", h_pb_sampling_all_masked),
    Task("PriorityBuffer.update_priority", h_pb_update),
    Task("PriorityBuffer.reset_max_priority", h_pb_reset),
    Task("LAP.add_sample", mk_lap_add("LAP")),
    Task("LAP.sample_batch", mk_lap_sample("LAP")),
    Task("LAP.update_priority", mk_lap_update("LAP")),
    Task("PrioritizedReplayBuffer.add_sample", mk_lap_add("PrioritizedReplayBuffer")),
    Task("PrioritizedReplayBuffer.sample_batch", mk_lap_sample("PrioritizedReplayBuffer", "law")),
    Task("PrioritizedReplayBuffer.sample_batch[importance]", mk_lap_sample("PrioritizedReplayBuffer", "importance")),
    Task("PrioritizedReplayBuffer.update_priority", mk_lap_update("PrioritizedReplayBuffer")),
    Task("lap_priority", h_lap_priority),
    Task("per_priority", h_per_priority),
]

TRUSTED = [
    "lemma cumsum_mono (lemmas/SumLemmas.lean): cumulative sums of non-negative terms are non-decreasing",
    "real power function: positive on positive base, monotone in the base (non-decreasing for exponent >= 0, non-increasing for <= 0)",
]
ASSUMPTIONS = [
    "reals for floats: u*S is exact (in floats u<1 keeps u*S<=S); 'probability p_i/sum p' is proved as the interval law c[i-1] < u*S <= c[i] for every variate u in (0,1)",
    "uniform variates lie in the open interval (0,1) (the property's quantifier; Generator.uniform can return exactly 0 with probability 2^-53)",
    "new priorities passed to update_priority are positive (established by lap_priority / per_priority, proved here)",
]
NOT_COVERED = ["empirical frequencies under a concrete generator (replaced by the interval law)"]
REPLAY = {"": "c08_priority"}

# ---- multi-task wrapper (modular: per-task buffers are contract stubs, see contracts/multitask.py)
from . import multitask as _MTM  # noqa: E402
from .multitask import TASKS_C08 as _MT  # noqa: E402

TASKS = TASKS + _MT
ASSUMPTIONS = ASSUMPTIONS + _MTM.ASSUMPTIONS
NOT_COVERED = NOT_COVERED + _MTM.NOT_COVERED
REPLAY = dict(REPLAY, **_MTM.REPLAY_C08)
