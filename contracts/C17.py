"""C17 - PETS model: ensemble consistency, bootstraps and plan evaluation.

Functions under contract (real source, interpreted from /repo):
  rl_blox.blox.probabilistic_ensemble: constrained_param, GaussianMLPEnsemble.__init__
      (nested safe_log_var / forward / make_model), min_log_var, max_log_var, __call__,
      aggregate, base_predict, base_distribution, gaussian_nll, bootstrap,
      gaussian_ensemble_loss, train_epoch (+ batch_update), train_ensemble
  rl_blox.blox.function_approximator.gaussian_mlp.GaussianMLP.__init__ / __call__
  rl_blox.algorithm.pets: ts_inf, evaluate_plans
  rl_blox.algorithm.pets_reward_models: pendulum_reward, norm_angle

Modular structure.  The member network GaussianMLP is verified against its
contract in the tasks `gaussian_mlp[...]` (two heads of n_outputs columns each,
applied row by row) and replaced by that contract everywhere else: one
uninterpreted row-wise function  F(theta, row)  with the mean head in columns
[0, D) and the raw log-variance head in columns [D, 2D).  The ensemble's real
__init__ is executed (the vmapped constructor, the nested safe_log_var / forward
closures and their nnx.vmap in_axes are the code under test); the stacked
parameter tree theta with  member(theta, i)  = parameters of member i is the
assumed nnx contract of pyvc/lib/ext_ensemble.py.

Specification (DESIGN 5, C17; from the property statement and docstrings):
  lo_d = -20 + 20 sigmoid(raw_lo_d),  hi_d = -4 + 9 sigmoid(raw_hi_d)
  slv(l, d) = lo_d + softplus(hi_d - softplus(hi_d - l) - lo_d)
  means[i,n,d]    = F(member(theta,i), x_n)_d
  log_vars[i,n,d] = slv(F(member(theta,i), x_n)_{D+d}, d)
"""
from fractions import Fraction

import z3

from pyvc import core as C
from pyvc import tensor as T
from pyvc.core import INT, KEY, REAL, ROW, Builtin, Sym, band, implies
from pyvc.lib.ext_ensemble import member
from pyvc.lib.nnx_model import apply_fn
from pyvc.runner import Task

from .nets import comp, ensure_rows, mk_net, mk_optimizer, net_call, oblige_tensor_eq, rows_tensor

PROPERTY = "C17"
LEVEL = "proof"
PE = "rl_blox.blox.probabilistic_ensemble."
GM = "rl_blox.blox.function_approximator.gaussian_mlp.GaussianMLP"
PETS = "rl_blox.algorithm.pets."
RM = "rl_blox.algorithm.pets_reward_models."

HALF = Fraction(1, 2)


def inb(i, n):
    return z3.And(C.to_z3(i) >= 0, C.to_z3(i) < C.to_z3(n))


def zr(v):
    return C.as_real(v)


def same_shape(t, dims):
    return isinstance(t, T.Tensor) and t.ndim == len(dims) and all(T.dim_eq(a, T.norm_dim(b)) for a, b in zip(t.shape, dims))


def same_shape_sem(E, t, dims):
    """dimension-wise equality, decided under the path condition where it is not syntactic"""
    if not (isinstance(t, T.Tensor) and t.ndim == len(dims)):
        return False
    for a, b in zip(t.shape, dims):
        if T.dim_eq(a, T.norm_dim(b)):
            continue
        if isinstance(a, int) and isinstance(b, int):
            return False
        if E.may(C.compare("!=", a, b)):
            return False
    return True


def shape_is(E, name, t, dims, what=""):
    if same_shape_sem(E, t, dims):
        E.st.ok(name)
        return True
    E.st.fail(name, f"{what} shape {getattr(t, 'shape', type(t).__name__)} but the property requires {tuple(dims)}")
    return False


# ---------------------------------------------------------------------------
# member network contract (stub) and ensemble construction
# ---------------------------------------------------------------------------
def member_stub(shared):
    """GaussianMLP replaced by its contract (verified by the gaussian_mlp tasks)"""

    def init(E, self, shared_head=None, n_features=None, n_outputs=None, hidden_nodes=None, activation=None, rngs=None):
        self.fields["shared_head"] = shared_head
        self.fields["n_outputs"] = n_outputs
        self.fields["member_net"] = mk_net(E, "member", (n_outputs, n_outputs))

    def call(E, self, x):
        net = self.fields["member_net"]
        if net.fields.get("$stacked") is not None:
            raise C.Unsupported("stacked GaussianMLP applied without vmap")
        return net_call(E, net, x)

    shared.stubs[GM + ".__init__"] = init
    shared.stubs[GM + ".__call__"] = call


class Ens:
    """real GaussianMLPEnsemble (real __init__) with arbitrary trained parameter values + its specification"""

    def __init__(self, E, D, n_ens=None, n_features=None):
        self.E = E
        self.D = D
        self.K = n_ens if n_ens is not None else E.dim("n_ensemble")
        self.F = n_features if n_features is not None else E.dim("n_features")
        rngs = E.shared.lib.funcs["flax.nnx.Rngs"].fn(E, 0)
        self.obj = E.call(PE + "GaussianMLPEnsemble", self.K, False, self.F, D, [8, 8], "relu", rngs)
        # parameters after training are arbitrary
        self.raw_lo = T.fresh_tensor("raw_min_log_var", (D,), REAL)
        self.raw_hi = T.fresh_tensor("raw_max_log_var", (D,), REAL)
        self.obj.fields["raw_min_log_var"] = self.raw_lo
        self.obj.fields["raw_max_log_var"] = self.raw_hi
        self.net = self.obj.fields["ensemble"].fields["member_net"]
        self.theta = self.net.fields["$params"].z
        self.Fn = apply_fn(self.net.fields["$F"])

    # -- specification ------------------------------------------------------
    def lo(self, d):
        return -20 + 20 * T.scalar_fn("sigmoid", self.raw_lo.at(d))

    def hi(self, d):
        return -4 + 9 * T.scalar_fn("sigmoid", self.raw_hi.at(d))

    def slv(self, l, d):
        lo, hi = self.lo(d), self.hi(d)
        return lo + T.scalar_fn("softplus", hi - T.scalar_fn("softplus", hi - l) - lo)

    def out_row(self, i, row):
        return self.Fn(member(self.theta, C.to_z3(i)), row)

    def mean(self, i, row, d):
        return Sym(comp(self.out_row(i, row), C.to_z3(d)))

    def raw_lv(self, i, row, d):
        return Sym(comp(self.out_row(i, row), C.to_z3(C.binop("+", self.D, d))))

    def log_var(self, i, row, d):
        return self.slv(self.raw_lv(i, row, d), d)

    def means_t(self, rowfn, N):
        """specified joint means as a tensor (n_ensemble, N, D)"""
        return T.Tensor((self.K, N, self.D), lambda i, n, d: self.mean(i, rowfn(i, n), d), REAL)

    def log_vars_t(self, rowfn, N):
        """specified joint log-variances (tensor-level formula, bounds broadcast over the output axis)"""
        raw = T.Tensor((self.K, N, self.D), lambda i, n, d: self.raw_lv(i, rowfn(i, n), d), REAL)
        lo = -20 + 20 * T.tfn("sigmoid", self.raw_lo)
        hi = -4 + 9 * T.tfn("sigmoid", self.raw_hi)
        return lo + T.tfn("softplus", hi - T.tfn("softplus", hi - raw) - lo)

    def method(self, name):
        return self.E.getattr(self.obj, name)


def forall_eq(E, name, got, want_fn, dims):
    """got[idx] == want_fn(*idx) for all idx within dims (got must have exactly these dims)"""
    E.st.oblige_forall(name, [INT] * len(dims),
                       lambda *i: z3.Implies(z3.And(*[inb(i[k], dims[k]) for k in range(len(dims))]),
                                             zr(got.at(*i)) == zr(want_fn(*i))), hint="i", using=[])


# ---------------------------------------------------------------------------
# __call__ : joint forward pass
# ---------------------------------------------------------------------------
def mk_call(rank, D1=False):
    def h(E):
        D = 1 if D1 else E.dim("n_outputs")
        en = Ens(E, D)
        N = E.dim("n_samples")
        if rank == 2:
            x = rows_tensor(E, "x", (N,), en.F)
            row = lambda i, n: x.rows(n)  # noqa: E731
        else:
            x = rows_tensor(E, "x", (en.K, N), en.F)
            row = lambda i, n: x.rows(i, n)  # noqa: E731
        means, log_vars = E.call(en.obj, x)
        dims = (en.K, N, D)
        if same_shape(means, dims) and same_shape(log_vars, dims):
            E.oblige("canary.call", Sym(zr(means.at(0, 0, 0)) == zr(log_vars.at(0, 0, 0))), assume_after=False, using=[])
        if shape_is(E, "post.means_shape", means, dims, "means"):
            forall_eq(E, "post.means_are_member_means", means, lambda i, n, d: en.mean(i, row(i, n), d), dims)
        if shape_is(E, "post.log_vars_shape", log_vars, dims, "log_vars"):
            forall_eq(E, "post.log_vars_are_soft_bounded_member_log_vars", log_vars, lambda i, n, d: en.log_var(i, row(i, n), d), dims)
            lv = lambda i: zr(log_vars.at(*i))  # noqa: E731
            rng = lambda i: z3.And(*[inb(i[k], dims[k]) for k in range(3)])  # noqa: E731
            E.st.oblige_forall("post.log_var_above_learned_min", [INT] * 3, lambda *i: z3.Implies(rng(i), lv(i) > zr(en.lo(i[2]))), hint="i", using=[])
            # soft upper bound: lo + softplus(hi - lo)  (<= max(lo, hi) + ln 2)
            E.st.oblige_forall("post.log_var_below_soft_max", [INT] * 3,
                               lambda *i: z3.Implies(rng(i), lv(i) < zr(en.lo(i[2]) + T.scalar_fn("softplus", en.hi(i[2]) - en.lo(i[2])))), hint="i", using=[])
            E.st.oblige_forall("post.log_var_within_max_plus_ln2", [INT] * 3,
                               lambda *i: z3.Implies(rng(i), lv(i) < zr(C.smax(en.lo(i[2]), en.hi(i[2])) + Fraction(7, 10))), hint="i", using=[])
            E.st.oblige_forall("post.log_var_absolute_range", [INT] * 3, lambda *i: z3.Implies(rng(i), z3.And(lv(i) > -20, lv(i) < Fraction(57, 10))), hint="i", using=[])
    return h


def h_call_rank1(E):
    """documented: inputs of rank other than 2 / 3 are rejected with ValueError"""
    en = Ens(E, E.dim("n_outputs"))
    x = rows_tensor(E, "x", (), en.F)
    kind, r = E.call_catch(en.obj, x)
    if kind == "raise" and r.exc_type == "ValueError":
        E.st.ok("post.rank1_rejected_with_ValueError")
    else:
        E.st.fail("post.rank1_rejected_with_ValueError", f"{kind}: {r}")
    E.oblige("canary.rank1", Sym(z3.BoolVal(kind != "raise")), assume_after=False)


# ---------------------------------------------------------------------------
# base_predict / base_distribution : member i == slice i of the joint pass
# ---------------------------------------------------------------------------
def _member_scenario(E, rank, D1):
    D = 1 if D1 else E.dim("n_outputs")
    en = Ens(E, D)
    i = E.int("i", 0)
    E.assume(i < en.K)
    if rank == 2:
        N = E.dim("n_samples")
        x = rows_tensor(E, "x", (N,), en.F)
        batch = (N,)
        joint_in = x
    else:
        x = rows_tensor(E, "x", (), en.F)
        batch = ()
        joint_in = T.expand_dims(x, 0)  # the joint forward pass of a single vector: a batch of one
    means, log_vars = E.call(en.obj, joint_in)
    # slice i of the joint forward pass
    if rank == 2:
        ref_mean = T.index(means, (i,))
        ref_lv = T.index(log_vars, (i,))
    else:
        ref_mean = T.index(means, (i, 0))
        ref_lv = T.index(log_vars, (i, 0))
    return en, i, x, batch, D, ref_mean, ref_lv


def mk_base_predict(rank, D1):
    def h(E):
        en, i, x, batch, D, ref_mean, ref_lv = _member_scenario(E, rank, D1)
        dims = tuple(batch) + (D,)
        kind, r = E.call_catch(en.method("base_predict"), x, i)
        E.oblige("canary.base_predict", Sym(zr(ref_mean.at(*([0] * len(dims)))) == 0), assume_after=False)
        if kind == "raise":
            E.st.fail("post.accepts_input", f"base_predict raises {r.exc_type}: {r.msg} for x of shape {x.shape}")
            return
        E.st.ok("post.accepts_input")
        mean, var = r
        if shape_is(E, "post.mean_shape", mean, dims, "mean"):
            forall_eq(E, "post.mean_is_slice_of_joint_pass", mean, lambda *j: ref_mean.at(*j), dims)
        # "one variance per output dimension": the variance has the shape of the mean
        if shape_is(E, "post.var_shape", var, dims, "variance"):
            forall_eq(E, "post.var_is_exp_of_joint_log_var", var, lambda *j: T.scalar_fn("exp", ref_lv.at(*j)), dims)
    return h


def mk_base_distribution(rank, D1):
    def h(E):
        en, i, x, batch, D, ref_mean, ref_lv = _member_scenario(E, rank, D1)
        dims = tuple(batch) + (D,)
        kind, r = E.call_catch(en.method("base_distribution"), x, i)
        E.oblige("canary.base_distribution", Sym(zr(ref_mean.at(*([0] * len(dims)))) == 0), assume_after=False)
        if kind == "raise":
            E.st.fail("post.accepts_input", f"base_distribution raises {r.exc_type}: {r.msg} for x of shape {x.shape}")
            return
        E.st.ok("post.accepts_input")
        if not (isinstance(r, C.Obj) and r.cls == "tfp.MultivariateNormalDiag"):
            E.st.fail("post.is_diagonal_gaussian", f"returned {r!r}")
            return
        E.st.ok("post.is_diagonal_gaussian")
        loc, std = r.fields["loc"], r.fields["scale"]
        if shape_is(E, "post.loc_shape", loc, dims, "loc"):
            forall_eq(E, "post.loc_is_slice_of_joint_pass", loc, lambda *j: ref_mean.at(*j), dims)
        # one standard deviation per output dimension
        if shape_is(E, "post.std_shape", std, dims, "scale_diag"):
            forall_eq(E, "post.std_is_exp_half_joint_log_var", std, lambda *j: T.scalar_fn("exp", HALF * ref_lv.at(*j)), dims)
        full = T.broadcast_shapes(loc.shape, std.shape)
        if len(full) == len(dims) and all(T.dim_eq(a, T.norm_dim(b)) for a, b in zip(full, dims)):
            E.st.ok("post.batch_and_event_shape")
        else:
            E.st.fail("post.batch_and_event_shape", f"batch_shape {full[:-1]} event_shape {full[-1:]}; required batch {tuple(batch)} event ({D},)")
    return h


# ---------------------------------------------------------------------------
# aggregate : law of total variance
# ---------------------------------------------------------------------------
def mk_aggregate(D1):
    def h(E):
        D = 1 if D1 else E.dim("n_outputs")
        en = Ens(E, D)
        N = E.dim("n_samples")
        x = rows_tensor(E, "x", (N,), en.F)
        mean, var = E.call(en.method("aggregate"), x)
        M = en.means_t(lambda i, n: x.rows(n), N)
        V = T.tfn("exp", en.log_vars_t(lambda i, n: x.rows(n), N))
        mbar = T.mean(M, axis=0)
        dev = M - T.expand_dims(T.as_tensor(mbar), 0)
        want_var = T.mean(V, axis=0) + T.mean(dev * dev, axis=0)
        if same_shape(var, (N, D)):
            E.oblige("canary.aggregate", Sym(zr(var.at(0, 0)) == 0), assume_after=False)
        if shape_is(E, "post.mean_shape", mean, (N, D), "mean"):
            oblige_tensor_eq(E, "post.mean_is_average_of_member_means", mean, mbar)
        if shape_is(E, "post.var_shape", var, (N, D), "var"):
            oblige_tensor_eq(E, "post.var_is_mean_variance_plus_variance_of_means", var, want_var)
    return h


# ---------------------------------------------------------------------------
# gaussian_nll closed form
# ---------------------------------------------------------------------------
def mk_nll(rank):
    def h(E):
        N, D = E.dim("n_samples"), E.dim("n_outputs")
        shape = (N, D) if rank == 2 else (E.dim("n_ensemble"), N, D)
        mu = T.fresh_tensor("mean_pred", shape, REAL)
        lv = T.fresh_tensor("log_var_pred", shape, REAL)
        Y = T.fresh_tensor("Y", shape, REAL)
        nll = E.call(PE + "gaussian_nll", mu, lv, Y)
        if isinstance(nll, T.Tensor):
            E.st.fail("post.scalar", f"nll has shape {nll.shape}")
            return
        E.st.ok("post.scalar")
        want = T.mean(HALF * (Y - mu) * (Y - mu) * T.tfn("exp", -lv)) + HALF * T.mean(lv)
        E.oblige("canary.nll", C.compare("==", nll, 0), assume_after=False)
        E.oblige("post.closed_form", C.compare("==", nll, want))
    return h


def h_nll_shape_mismatch(E):
    """chex precondition: predictions and targets of different shapes are rejected"""
    N, D = E.dim("n_samples"), E.dim("n_outputs")
    mu = T.fresh_tensor("mean_pred", (N, D), REAL)
    lv = T.fresh_tensor("log_var_pred", (N, D), REAL)
    Y = T.fresh_tensor("Y", (N,), REAL)
    kind, r = E.call_catch(PE + "gaussian_nll", mu, lv, Y)
    if kind == "raise":
        E.st.ok("post.mismatched_targets_rejected")
    else:
        E.st.fail("post.mismatched_targets_rejected", "silently broadcast")
    E.oblige("canary.nll_shape", Sym(z3.BoolVal(kind != "raise")), assume_after=False)


# ---------------------------------------------------------------------------
# gaussian_ensemble_loss : NLL over all members + 0.01 * boundary penalty
# ---------------------------------------------------------------------------
def h_ensemble_loss(E):
    D = E.dim("n_outputs")
    en = Ens(E, D)
    B = E.dim("batch_size")
    X = rows_tensor(E, "X", (en.K, B), en.F)  # one mini-batch per member (as built by train_epoch)
    Y = T.fresh_tensor("Y", (en.K, B, D), REAL)
    loss = E.call(PE + "gaussian_ensemble_loss", en.obj, X, Y)
    if isinstance(loss, T.Tensor):
        E.st.fail("post.scalar", f"loss has shape {loss.shape}")
        return
    E.st.ok("post.scalar")
    row = lambda i, n: X.rows(i, n)  # noqa: E731
    M, LV = en.means_t(row, B), en.log_vars_t(row, B)
    nll = T.mean(HALF * (Y - M) * (Y - M) * T.tfn("exp", -LV)) + HALF * T.mean(LV)
    lo = -20 + 20 * T.tfn("sigmoid", en.raw_lo)
    hi = -4 + 9 * T.tfn("sigmoid", en.raw_hi)
    want = nll + Fraction(1, 100) * (T.reduce(hi, "sum") - T.reduce(lo, "sum"))
    E.oblige("canary.ensemble_loss", C.compare("==", loss, 0), assume_after=False)
    E.oblige("post.nll_of_member_predictions_on_own_rows_plus_boundary_penalty", C.compare("==", loss, want))


# ---------------------------------------------------------------------------
# bootstrap : index matrix
# ---------------------------------------------------------------------------
def h_bootstrap(E):
    K = E.dim("n_ensemble")
    n = E.int("n_samples", 1)
    ts = E.real("train_size")
    E.assume(band(ts > 0, ts <= 1))
    key = E.val("key", KEY)
    idx = E.call(PE + "bootstrap", K, ts, n, key)
    if not (isinstance(idx, T.Tensor) and idx.ndim == 2 and idx.sort == INT):
        E.st.fail("post.index_matrix", f"returned {idx!r}")
        return
    E.st.ok("post.index_matrix")
    E.oblige("canary.bootstrap", Sym(C.as_int(idx.at(0, 0)) == 0), assume_after=False)
    m = idx.shape[1]
    E.oblige("post.rows_is_n_ensemble", C.compare("==", idx.shape[0], K))
    mz, prod = C.to_z3(m), ts.z * z3.ToReal(n.z)
    E.oblige("post.cols_is_floor_train_size_times_n", Sym(z3.And(z3.ToReal(mz) <= prod, prod < z3.ToReal(mz) + 1)))
    E.oblige("post.cols_at_most_n", Sym(z3.And(mz >= 0, mz <= n.z)))
    E.st.oblige_forall("post.indices_in_range", [INT, INT], lambda e, c: z3.Implies(z3.And(inb(e, K), inb(c, m)), z3.And(C.as_int(idx.at(e, c)) >= 0, C.as_int(idx.at(e, c)) < n.z)), hint="e")


# ---------------------------------------------------------------------------
# evaluate_plans
# ---------------------------------------------------------------------------
def h_evaluate_plans(E):
    H = E.dim("plan_horizon", 1)  # declared first: the concrete confirmation sizes are then pairwise different (H=1, S=3, P=4)
    S, P = E.dim("n_samples"), E.dim("n_particles")
    A, D = E.dim("n_act"), E.dim("n_obs")
    actions = rows_tensor(E, "actions", (S, H), A)
    traj = rows_tensor(E, "trajectories", (S, P, T.norm_dim(C.binop("+", H, 1))), D)
    rew = C.uf("reward_model", ROW, ROW, REAL)
    seen = []

    def reward_model(E, acts, obs):
        acts, obs = T.as_tensor(acts), T.as_tensor(obs)
        seen.append((acts, obs))
        batch = T.broadcast_shapes(acts.shape[:-1], obs.shape[:-1])
        if acts.rows is None or obs.rows is None or acts.ndim != obs.ndim:
            raise C.Unsupported("reward model applied to tensors without row structure")
        return T.Tensor(batch, lambda *b: Sym(rew(acts.rows(*b), obs.rows(*b))), REAL)

    out = E.call(PETS + "evaluate_plans", actions, traj, Builtin("reward_model", reward_model))
    if len(seen) == 1:
        a, o = seen[0]
        ok = same_shape(a, (S, P, H, A)) and same_shape(o, (S, P, H, D))
        (E.st.ok if ok else (lambda nm: E.st.fail(nm, f"reward model called with shapes {a.shape}, {o.shape}")))("post.reward_model_sees_horizon_steps_of_every_particle")
    else:
        E.st.fail("post.reward_model_sees_horizon_steps_of_every_particle", f"{len(seen)} calls")
    if not shape_is(E, "post.shape_is_n_samples", out, (S,), "expected_returns"):
        return
    E.oblige("canary.evaluate_plans", Sym(zr(out.at(0)) == 0), assume_after=False)
    R = T.Tensor((S, P, H), lambda s, p, t: Sym(rew(actions.rows(s, t), traj.rows(s, p, t))), REAL)
    want = T.mean(T.reduce(R, "sum", 2), axis=1)
    oblige_tensor_eq(E, "post.particle_mean_of_summed_rewards", out, want)


# ---------------------------------------------------------------------------
# pendulum_reward / norm_angle
# ---------------------------------------------------------------------------
def _pi():
    from pyvc.lib.jax_model import PI
    return Sym(PI)


def norm_spec(a):
    """documented angle normalisation ((a + pi) mod 2 pi) - pi"""
    return C.binop("-", C.binop("%", C.binop("+", a, _pi()), C.binop("*", 2, _pi())), _pi())


def mk_pendulum_closed(batch_rank):
    def h(E):
        batch = tuple(E.dim(f"B{k}") for k in range(batch_rank))
        act = T.fresh_tensor("act", batch + (1,), REAL)
        obs = T.fresh_tensor("obs", batch + (3,), REAL)
        r = E.call(RM + "pendulum_reward", act, obs)

        def want(*b):
            cth, thdot, u = obs.at(*b, 0), obs.at(*b, 2), act.at(*b, 0)
            theta = T.scalar_fn("arccos", C.smin(C.smax(cth, -1), 1))
            uc = C.smin(C.smax(u, -2), 2)
            nt = norm_spec(theta)
            return -(nt * nt + Fraction(1, 10) * thdot * thdot + Fraction(1, 1000) * uc * uc)

        if batch_rank == 0:
            if isinstance(r, T.Tensor):
                E.st.fail("post.shape", f"reward has shape {r.shape}")
                return
            E.st.ok("post.shape")
            E.oblige("canary.pendulum", C.compare("==", r, 0), assume_after=False)
            E.oblige("post.closed_form", C.compare("==", r, want()))
            E.oblige("post.non_positive", C.compare("<=", r, 0))
            return
        if not shape_is(E, "post.shape", r, batch, "reward"):
            return
        E.oblige("canary.pendulum", Sym(zr(r.at(*([0] * batch_rank))) == 0), assume_after=False, using=[])
        forall_eq(E, "post.closed_form", r, want, batch)
        E.st.oblige_forall("post.non_positive", [INT] * batch_rank, lambda *b: z3.Implies(z3.And(*[inb(b[k], batch[k]) for k in range(batch_rank)]), zr(r.at(*b)) <= 0), hint="b", using=[])
    return h


def h_pendulum_gym(E):
    """agreement with Gymnasium's documented Pendulum-v1 reward
        r = -(angle_normalize(th)^2 + 0.1 thdot^2 + 0.001 clip(u, -2, 2)^2),  obs = (cos th, sin th, thdot)
    for every physical angle th (the sign of th is not recoverable from cos th; the cost is even in th)."""
    pi = _pi()
    E.assume(band(pi > Fraction(31415, 10000), pi < Fraction(31416, 10000)))
    th, thdot, u = E.real("theta"), E.real("theta_dot"), E.real("torque")
    cth, sth = T.scalar_fn("cos", th), T.scalar_fn("sin", th)
    obs = T.from_list([cth, sth, thdot])
    act = T.from_list([u])
    an = norm_spec(th)  # Gymnasium angle_normalize(th) in [-pi, pi)
    # trigonometric lemma (assumed): the principal value arccos(cos th) is |angle_normalize(th)|
    E.assume(C.compare("==", T.scalar_fn("arccos", cth), C.sabs(an)))
    r = E.call(RM + "pendulum_reward", act, obs)
    uc = C.smin(C.smax(u, -2), 2)
    gym = -(an * an + Fraction(1, 10) * thdot * thdot + Fraction(1, 1000) * uc * uc)
    E.oblige("canary.pendulum_gym", C.compare("==", r, 0), assume_after=False)
    E.oblige("post.equals_gymnasium_reward", C.compare("==", r, gym))
    # evenness in theta: the mirrored state (-th: same cos, opposite sin) gets the same reward
    obs_m = T.from_list([cth, -sth, thdot])
    r_m = E.call(RM + "pendulum_reward", act, obs_m)
    E.oblige("post.even_in_theta", C.compare("==", r_m, r))


def h_norm_angle(E):
    pi = _pi()
    E.assume(band(pi > Fraction(31415, 10000), pi < Fraction(31416, 10000)))
    a = E.real("angle")
    r = E.call(RM + "norm_angle", a)
    E.oblige("canary.norm_angle", r == 0, assume_after=False)
    E.oblige("post.range", band(r >= -pi, r < pi))
    E.oblige("post.identity_on_principal_range", implies(band(a >= -pi, a < pi), r == a))
    E.oblige("post.congruent_mod_2pi", C.compare("==", r, norm_spec(a)))


# ---------------------------------------------------------------------------
# GaussianMLP against the member contract used above
# ---------------------------------------------------------------------------
def mk_gaussian_mlp(shared_head, hidden, rank):
    def h(E):
        Fd, D = E.dim("n_features"), E.dim("n_outputs")
        rngs = E.shared.lib.funcs["flax.nnx.Rngs"].fn(E, 0)
        net = E.call(GM, shared_head, Fd, D, list(hidden), "relu", rngs)
        N = E.dim("n_samples")
        batch = (N,) if rank == 2 else ()
        x = rows_tensor(E, "x", batch, Fd)
        out = E.call(net, x)
        if not (isinstance(out, tuple) and len(out) == 2):
            E.st.fail("post.returns_mean_and_log_var", f"returned {out!r}")
            return
        E.st.ok("post.returns_mean_and_log_var")
        mean, log_var = out
        E.oblige("canary.gaussian_mlp", Sym(zr(T.as_tensor(mean).at(*([0] * (len(batch) + 1)))) == 0), assume_after=False)
        shape_is(E, "post.mean_shape", mean, batch + (D,), "mean")
        shape_is(E, "post.log_var_shape", log_var, batch + (D,), "log_var")
        n_lin = len(E.getattr(net, "hidden_layers")) + len(E.getattr(net, "output_layers"))
        E.oblige("post.layer_count", Sym(z3.BoolVal(n_lin == len(hidden) + (1 if shared_head else 2))))
    return h


# ---------------------------------------------------------------------------
# ts_inf : trajectory sampling with one bootstrap member per particle
# ---------------------------------------------------------------------------
def decorated(E, qualname):
    """module-level function with its REAL decorators applied (jit is the identity;
    partial(jax.vmap, in_axes=...) is evaluated from the source)"""
    from pyvc.interp import Frame

    cl = E.resolve(qualname)
    fr = Frame(f"{cl.module.name}.<module>", cl.module)
    v = cl
    for d in reversed(cl.node.decorator_list):
        v = E.call_value(E.eval(d, fr), [v], {})
    return v


def mk_ts_inf(H, D, A):
    """bounded stand-in: concrete plan horizon H, observation size D, action size A
    (python loop over the horizon; rows with a concrete feature count);
    numbers of samples / particles / ensemble members symbolic"""
    def h(E):
        S, P = E.dim("n_samples"), E.dim("n_particles")
        en = Ens(E, D, n_features=D + A)
        keys = T.fresh_tensor("keys", (S, P), KEY)
        midx = T.fresh_tensor("model_idx", (P,), INT)
        E.st.assume_forall([INT], lambda p: z3.Implies(inb(p, P), z3.And(C.as_int(midx.at(p)) >= 0, C.as_int(midx.at(p)) < C.to_z3(en.K))), "model_idx.range")
        acts = T.fresh_tensor("acts", (S, H, A), REAL)
        obs0 = T.fresh_tensor("obs", (D,), REAL)
        fn = decorated(E, PETS + "ts_inf")
        traj = E.call(fn, keys, midx, acts, obs0, en.obj)
        if not shape_is(E, "post.shape", traj, (S, P, H + 1, D), "trajectories"):
            return
        E.oblige("canary.ts_inf", Sym(zr(traj.at(0, 0, 1, 0)) == zr(obs0.at(0))), assume_after=False, using=[])
        forall_eq(E, "post.starts_at_current_observation", T.index(traj, (slice(None), slice(None), 0)), lambda s, p, d: obs0.at(d), (S, P, D))
        from pyvc.lib.jax_model import split_l
        dists = E.st.ghost.get("tfp_dists", [])
        rank2_noise = bool(dists) and len(T.broadcast_shapes(dists[-1].fields["loc"].shape, dists[-1].fields["scale"].shape)) == 2
        n1 = C.uf("rand_normal1", KEY, INT, REAL)
        n2 = C.uf("tfp_mvn_noise2", KEY, INT, INT, REAL)
        ctor = C.uf(f"rowof{D + A}", *([REAL] * (D + A) + [ROW]))
        for t in range(H):
            def step(s, p, d, t=t):
                o_t = [zr(traj.at(s, p, t, j)) for j in range(D)]
                a_t = [zr(acts.at(s, t, j)) for j in range(A)]
                row = ctor(*(o_t + a_t))                      # model input (obs_t, act_t)
                i = midx.at(p)                                # the particle's own member, the same at every step
                key_t = split_l(C.to_z3(keys.at(s, p)), z3.IntVal(t))   # step key: split(key, H)[t]
                eps = n2(key_t, z3.IntVal(0), d) if rank2_noise else n1(key_t, d)   # standard-normal draw of this step
                sample = en.mean(i, row, d) + T.scalar_fn("exp", HALF * en.log_var(i, row, d)) * Sym(eps)
                return z3.Implies(z3.And(inb(s, S), inb(p, P), inb(d, D)),
                                  zr(traj.at(s, p, t + 1, d)) == zr(traj.at(s, p, t, d)) + zr(sample))
            E.st.oblige_forall(f"post.step{t}_adds_sample_of_own_member", [INT] * 3, step, hint="s", using=["model_idx"])
    return h


# ---------------------------------------------------------------------------
# train_epoch (+ batch_update) : every batch trains member e on row e of the index tensor
# ---------------------------------------------------------------------------
def loss_observer(E, fn, args, kwargs):
    if getattr(fn, "qualname", None) == PE + "gaussian_ensemble_loss" and not E.st.ghost.get("c17_in_obs"):
        E.st.ghost["c17_in_obs"] = True
        try:
            v = E._call(fn, args, kwargs)
        finally:
            E.st.ghost["c17_in_obs"] = False
        E.st.ghost.setdefault("c17_loss_calls", []).append(dict(args=list(args), value=v))
        return (v,)
    return None


def setup_train_epoch(shared):
    member_stub(shared)
    shared.observers.append(loss_observer)


def h_train_epoch(E):
    D = E.dim("n_outputs")
    en = Ens(E, D)
    opt = mk_optimizer(E, "optimizer", en.obj)
    n = E.dim("n_data", 1)
    NB, BS = E.dim("n_batches", 1), E.dim("batch_size", 1)
    X = rows_tensor(E, "X", (n,), en.F)
    Y = T.fresh_tensor("Y", (n, D), REAL)
    idx = T.fresh_tensor("indices", (NB, en.K, BS), INT)
    iz = lambda k, e, b: C.as_int(idx.at(k, e, b))  # noqa: E731
    E.st.assume_forall([INT] * 3, lambda k, e, b: z3.And(iz(k, e, b) >= 0, iz(k, e, b) < C.to_z3(n)), "indices.range")
    res = E.call(PE + "train_epoch", en.obj, opt, X, Y, idx)
    E.oblige("canary.train_epoch", C.compare("==", res, 0), assume_after=False, using=[])
    calls = E.st.ghost.get("c17_loss_calls", [])
    scans = E.st.ghost.get("scans", [])
    if len(calls) != 1 or len(scans) != 1:
        E.st.fail("post.one_loss_evaluation_per_batch", f"{len(calls)} loss evaluations in {len(scans)} scans for the generic batch")
        return
    E.st.ok("post.one_loss_evaluation_per_batch")
    k = scans[0]["k"]  # generic batch number, 0 <= k < n_batches
    if T.dim_eq(T.norm_dim(scans[0]["length"]), NB):
        E.st.ok("post.iterates_over_all_batches")
    else:
        E.st.fail("post.iterates_over_all_batches", f"scan length {scans[0]['length']}")
    if isinstance(res, T.Tensor):
        E.st.fail("post.returns_mean_batch_loss", f"shape {res.shape}")
    else:
        lk = C.to_z3(calls[0]["value"])
        losses = T.Tensor((NB,), lambda j: Sym(z3.substitute(lk, (k.z, C.to_z3(j)))), REAL)
        E.oblige("post.returns_mean_batch_loss", C.compare("==", res, T.mean(losses)), using=[])
    model, Xb, Yb = calls[0]["args"]
    (E.st.ok if model is en.obj else (lambda nm: E.st.fail(nm, "another model")))("post.loss_of_the_trained_model")
    rng = lambda e, b: z3.And(inb(e, en.K), inb(b, BS))  # noqa: E731
    if shape_is(E, "post.batch_inputs_shape", Xb, (en.K, BS, en.F), "X[batch]"):
        rows = ensure_rows(E, Xb)
        E.st.oblige_forall("post.member_e_trains_on_inputs_of_row_e", [INT, INT], lambda e, b: z3.Implies(rng(e, b), rows(e, b) == X.rows(iz(k.z, e, b))), hint="e", using=["indices"])
    if shape_is(E, "post.batch_targets_shape", Yb, (en.K, BS, D), "Y[batch]"):
        E.st.oblige_forall("post.member_e_trains_on_targets_of_row_e", [INT, INT, INT],
                           lambda e, b, d: z3.Implies(z3.And(rng(e, b), inb(d, D)), zr(Yb.at(e, b, d)) == zr(Y.at(Sym(iz(k.z, e, b)), d))), hint="e", using=["indices"])
    ups = E.st.ghost.get("opt_updates", [])
    ok = len(ups) == 1 and ups[0]["opt"] is opt and ups[0]["model"] is en.obj and getattr(ups[0]["grads"], "wrt", None) is en.obj \
        and C.to_z3(getattr(ups[0]["grads"], "value", 0)).eq(C.to_z3(calls[0]["value"]))
    (E.st.ok if ok else (lambda nm: E.st.fail(nm, f"{len(ups)} optimizer updates / wrong model or gradient")))("post.one_update_with_gradient_of_that_loss")


def h_train_epoch_wrong_members(E):
    """documented precondition: indices.shape[1] == n_ensemble (chex assertion)"""
    D = E.dim("n_outputs")
    en = Ens(E, D)
    opt = mk_optimizer(E, "optimizer", en.obj)
    n = E.dim("n_data", 1)
    X = rows_tensor(E, "X", (n,), en.F)
    Y = T.fresh_tensor("Y", (n, D), REAL)
    idx = T.fresh_tensor("indices", (E.dim("n_batches", 1), E.dim("other_size"), E.dim("batch_size", 1)), INT)
    kind, r = E.call_catch(PE + "train_epoch", en.obj, opt, X, Y, idx)
    (E.st.ok if kind == "raise" else (lambda nm: E.st.fail(nm, "accepted")))("post.member_axis_mismatch_rejected")
    E.oblige("canary.train_epoch_pre", Sym(z3.BoolVal(kind != "raise")), assume_after=False)


# ---------------------------------------------------------------------------
# train_ensemble : bootstrap once, joint shuffle per epoch, per-member batching
# ---------------------------------------------------------------------------
def epoch_obligations(E, ep):
    """the index tensor handed to the epoch trainer (checked at every call of train_epoch)"""
    g = E.st.ghost
    en, opt, X, Y, m, BS, boot = (g["c17_ctx"][k] for k in ("en", "opt", "X", "Y", "m", "BS", "boot"))
    idx, perm = ep["indices"], ep["perm"]
    same = ep["model"] is en.obj and ep["optimizer"] is opt and ep["X"] is X and ep["Y"] is Y
    (E.st.ok if same else (lambda nm: E.st.fail(nm, "different model / data")))("epoch.trains_the_given_model_on_the_given_data")
    if not (isinstance(idx, T.Tensor) and idx.ndim == 3 and perm is not None and perm["src"] is boot and perm["axis"] == 1):
        E.st.fail("epoch.indices_are_batched_joint_shuffle_of_bootstrap", f"indices {idx!r}, permutation {perm}")
        return
    E.st.ok("epoch.indices_are_batched_joint_shuffle_of_bootstrap")
    prev = g.setdefault("c17_perm_keys", [])
    fresh = all(not C.to_z3(perm["key"]).eq(C.to_z3(k0)) for k0 in prev)
    prev.append(perm["key"])
    (E.st.ok if fresh else (lambda nm: E.st.fail(nm, "shuffle key reused")))("epoch.fresh_shuffle_key")
    mz, bz = C.to_z3(m), C.to_z3(BS)
    NB = idx.shape[0]
    nbz = C.to_z3(NB)
    E.oblige("epoch.n_batches_is_floor_of_sample_size_over_batch_size", Sym(z3.And(nbz * bz <= mz, mz < (nbz + 1) * bz)), using=[])
    # C05: an epoch over at least one full batch of samples does train (the optimizer is stepped at least once)
    E.oblige("epoch.at_least_one_batch_when_samples_cover_a_batch", Sym(z3.Implies(mz >= bz, nbz >= 1)), using=[])
    if not shape_is(E, "epoch.index_shape_is_batches_members_batchsize", idx, (NB, en.K, BS), "indices"):
        return
    E.oblige("canary.epoch", Sym(C.as_int(idx.at(0, 0, 0)) == 0), assume_after=False, using=[])
    pi = perm["pi"]
    col = lambda k, b: b * nbz + k  # noqa: E731  position in the shuffled row: (b, k) -> b * n_batches + k
    rng = lambda k, e, b: z3.And(inb(k, NB), inb(e, en.K), inb(b, BS))  # noqa: E731
    # member e, batch k, slot b reads ITS OWN bootstrap row e at a valid column
    E.st.oblige_forall("epoch.member_e_only_sees_own_bootstrap_row", [INT] * 3,
                       lambda k, e, b: z3.Implies(rng(k, e, b), z3.And(col(k, b) >= 0, col(k, b) < mz,
                                                                        C.as_int(idx.at(k, e, b)) == C.as_int(boot.at(e, Sym(pi(col(k, b))))))),
                       hint="k", using=["perm"])
    # ... and no column of that row twice in one epoch
    E.st.oblige_forall("epoch.each_bootstrap_column_at_most_once", [INT] * 4,
                       lambda k, b, k2, b2: z3.Implies(z3.And(inb(k, NB), inb(b, BS), inb(k2, NB), inb(b2, BS), z3.Or(k != k2, b != b2)),
                                                        pi(col(k, b)) != pi(col(k2, b2))),
                       hint="k", using=["perm"])


def setup_train_ensemble(shared):
    member_stub(shared)

    def bootstrap_stub(E, n_ensemble, train_size, n_samples, key):
        """contract of bootstrap (task `bootstrap`): (n_ensemble, m) indices in [0, n_samples)"""
        g = E.st.ghost
        m = g["c17_ctx"]["m"]
        boot = T.fresh_tensor("bootstrap_indices", (n_ensemble, m), INT)
        E.st.assume_forall([INT, INT], lambda e, c: z3.And(C.as_int(boot.at(e, c)) >= 0, C.as_int(boot.at(e, c)) < C.as_int(n_samples)), "boot.range")
        g.setdefault("c17_boot_calls", []).append(dict(args=(n_ensemble, train_size, n_samples, key), boot=boot))
        g["c17_ctx"]["boot"] = boot
        return boot

    def train_epoch_stub(E, model, optimizer, X, Y, indices):
        loss = E.st.fresh_sym("epoch_loss", REAL)
        ep = dict(model=model, optimizer=optimizer, X=X, Y=Y, indices=indices, perm=E.st.ghost.get("perms", [None])[-1], loss=loss)
        E.st.ghost.setdefault("c17_epochs", []).append(ep)
        epoch_obligations(E, ep)
        return loss

    shared.stubs[PE + "bootstrap"] = bootstrap_stub
    shared.stubs[PE + "train_epoch"] = train_epoch_stub


def mk_train_ensemble(n_epochs):
    """n_epochs: python int (loop unrolled) or None (symbolic number of epochs: the
    loop is cut and its body verified for a generic epoch with arbitrary key)"""
    def h(E):
        D = E.dim("n_outputs")
        en = Ens(E, D)
        opt = mk_optimizer(E, "optimizer", en.obj)
        BS = E.dim("batch_size", 1)  # declared before the data sizes: concrete confirmation sizes have batch_size < n_bootstrapped
        n = E.dim("n_data", 1)
        X = rows_tensor(E, "X", (n,), en.F)
        Y = T.fresh_tensor("Y", (n, D), REAL)
        m = E.dim("n_bootstrapped", 1)
        E.st.ghost["c17_ctx"] = dict(en=en, opt=opt, X=X, Y=Y, m=m, BS=BS, boot=None)
        ts = E.real("train_size")
        key = E.val("key", KEY)
        ne = n_epochs if n_epochs is not None else E.int("n_epochs", 1)
        loss = E.call(PE + "train_ensemble", en.obj, opt, ts, X, Y, ne, BS, key)
        g = E.st.ghost
        bc = g.get("c17_boot_calls", [])
        ok = len(bc) == 1 and T.dim_eq(T.norm_dim(bc[0]["args"][0]), en.K) and bc[0]["args"][1] is ts and T.dim_eq(T.norm_dim(bc[0]["args"][2]), n)
        (E.st.ok if ok else (lambda nm: E.st.fail(nm, f"{len(bc)} bootstrap calls / wrong arguments")))("post.bootstraps_once_for_all_members_from_the_data_set")
        if n_epochs is None:
            return
        eps = g.get("c17_epochs", [])
        (E.st.ok if len(eps) == n_epochs else (lambda nm: E.st.fail(nm, f"{len(eps)} passes for {n_epochs} epochs")))("post.one_training_pass_per_epoch")
        ok = bool(eps) and isinstance(loss, Sym) and C.to_z3(loss).eq(C.to_z3(eps[-1]["loss"]))
        (E.st.ok if ok else (lambda nm: E.st.fail(nm, str(loss))))("post.returns_last_epoch_loss")
    return h


TASKS = [
    Task("call[rank2,D]", mk_call(2), setup=member_stub),
    Task("call[rank2,D=1]", mk_call(2, True), setup=member_stub),
    Task("call[rank3,D]", mk_call(3), setup=member_stub),
    Task("call[rank1]", h_call_rank1, setup=member_stub),
    Task("base_predict[rank2,D]", mk_base_predict(2, False), setup=member_stub),
    Task("base_predict[rank2,D=1]", mk_base_predict(2, True), setup=member_stub),
    Task("base_predict[rank1,D]", mk_base_predict(1, False), setup=member_stub),
    Task("base_predict[rank1,D=1]", mk_base_predict(1, True), setup=member_stub),
    Task("base_distribution[rank2,D]", mk_base_distribution(2, False), setup=member_stub),
    Task("base_distribution[rank2,D=1]", mk_base_distribution(2, True), setup=member_stub),
    Task("base_distribution[rank1,D]", mk_base_distribution(1, False), setup=member_stub),
    Task("base_distribution[rank1,D=1]", mk_base_distribution(1, True), setup=member_stub),
    Task("aggregate[D]", mk_aggregate(False), setup=member_stub),
    Task("aggregate[D=1]", mk_aggregate(True), setup=member_stub),
    Task("gaussian_nll[rank2]", mk_nll(2)),
    Task("gaussian_nll[rank3]", mk_nll(3)),
    Task("gaussian_nll[shape_mismatch]", h_nll_shape_mismatch),
    Task("gaussian_ensemble_loss", h_ensemble_loss, setup=member_stub),
    Task("bootstrap", h_bootstrap),
    Task("train_epoch", h_train_epoch, setup=setup_train_epoch),
    Task("train_epoch[member_axis_mismatch]", h_train_epoch_wrong_members, setup=setup_train_epoch),
    Task("train_ensemble", mk_train_ensemble(None), setup=setup_train_ensemble),
    Task("train_ensemble[2 epochs]", mk_train_ensemble(2), setup=setup_train_ensemble, bounded="n_epochs = 2 (loop unrolled: one pass per epoch, last loss returned)"),
    Task("evaluate_plans", h_evaluate_plans),
    Task("pendulum_reward[batch1]", mk_pendulum_closed(1)),
    Task("pendulum_reward[batch3]", mk_pendulum_closed(3)),
    Task("pendulum_reward[single]", mk_pendulum_closed(0)),
    Task("pendulum_reward[gymnasium]", h_pendulum_gym),
    Task("norm_angle", h_norm_angle),
    Task("ts_inf[H=2,obs=2,act=1]", mk_ts_inf(2, 2, 1), setup=member_stub, bounded="plan_horizon = 2, observation size 2, action size 1"),
    Task("gaussian_mlp[separate_heads,rank2]", mk_gaussian_mlp(False, [16, 16], 2)),
    Task("gaussian_mlp[shared_head,rank2]", mk_gaussian_mlp(True, [16], 2)),
    Task("gaussian_mlp[separate_heads,rank1]", mk_gaussian_mlp(False, [], 1)),
]

REPLAY = {
    "call": "c17_pets", "base_predict": "c17_pets", "base_distribution": "c17_pets", "aggregate": "c17_pets",
    "gaussian_nll": "c17_pets", "gaussian_ensemble_loss": "c17_pets", "bootstrap": "c17_pets", "train_epoch": "c17_pets",
    "train_ensemble": "c17_pets", "evaluate_plans": "c17_pets", "ts_inf": "c17_pets", "pendulum_reward": "c17_pets", "norm_angle": "c17_pets",
}

EXPLANATION = (
    "The real GaussianMLPEnsemble.__init__ is executed symbolically (vmapped constructor, nested safe_log_var / forward closures "
    "and their nnx.vmap in_axes); members are one uninterpreted row-wise function F(member(theta, i), row). Expected violations on the "
    "unchanged tree (genuine defects, reproduced natively by replay/drivers/c17_pets.py): base_predict applies the DOUBLE vmap "
    "_safe_log_var to a rank-2 log-variance slice -> variance of shape (n, d, d) instead of (n, d), and raises ValueError for a single "
    "input vector; base_distribution applies the single vmap _safe_log_var_i to a rank-1 log-variance -> scale_diag of shape (d, d), "
    "batch_shape (d,) for a single vector; ts_inf (which calls base_distribution with a single vector and keeps sample[0]) therefore "
    "perturbs EVERY observation component with the standard deviation derived from the raw log-variance of output 0."
)

TRUSTED = [
    "pyvc/lib/ext_ensemble.py: stacked nnx modules (vmapped constructor, nnx.vmap over a module = per-member slice, nnx.split / "
    "jax.tree.map(x[i]) / nnx.merge = member i with jnp clamping), jax.random.choice(shape) / permutation(axis) models, "
    "nnx.scan generic-iteration model, reshape(.., B, -1) / transpose(list) / jnp.split, real floor-division model",
    "pyvc/lib/ext_tfp.py: MultivariateNormalDiag(loc, scale_diag) batch/event shapes and sample = loc + scale * key-determined noise",
    "member network contract: GaussianMLP == uninterpreted row-wise function with heads [0,D) (mean) and [D,2D) (raw log-variance); "
    "its shape clauses are checked by the gaussian_mlp[...] tasks, row-wise independence is the assumption of pyvc/lib/nnx_model.py",
    "pyvc/tensor.py AXIOMS: softplus(x) > 0, softplus(x) > x, softplus(x) < max(x, 0) + 7/10 (ln 2 < 0.7), strict monotonicity; "
    "sigmoid in (0, 1); exp > 0",
]

ASSUMPTIONS = [
    "floats are reals: 'finite' log-variances is the statement lo_d < log_var < max(lo_d, hi_d) + ln 2 with -20 < lo_d < 0, -4 < hi_d < 5 "
    "(no overflow / NaN modelling, so 'extreme raw log-variances' are covered as arbitrary reals only)",
    "trained parameter values (theta, raw_min_log_var, raw_max_log_var) are arbitrary; n_ensemble, batch, feature and output sizes are symbolic "
    "(>= 2; output size 1 and single vectors are separate scenarios)",
    "pendulum_reward[gymnasium]: trigonometric lemma arccos(cos th) == |angle_normalize(th)| (principal value), cos in [-1, 1], "
    "3.1415 < pi < 3.1416; Gymnasium's reward is its DOCUMENTED formula -(angle_normalize(th)^2 + 0.1 thdot^2 + 0.001 clip(u,-2,2)^2)",
    "nnx.scan in train_epoch: generic iteration with arbitrary carried state (the step relation between iterations is not asserted)",
    "train_ensemble: bootstrap and train_epoch are replaced by their contracts (tasks `bootstrap`, `train_epoch`); the joint shuffle is an "
    "arbitrary bijection of the bootstrap columns determined by the epoch key",
    "ts_inf: the standard-normal draw of step t is the noise term of the sample drawn with key split(key, H)[t] (any key-determined noise "
    "that does not depend on the model is accepted as witness)",
]

NOT_COVERED = [
    "GaussianMLP internals beyond shapes and layer counts (hidden layers + activation are abstracted to the row-wise member function F); "
    "row-wise independence of nnx.Linear / activations is assumed, not proved",
    "ts_inf only as bounded stand-in (plan_horizon 2, observation size 2, action size 1; samples / particles / members symbolic)",
    "equality with the Pendulum simulator beyond its documented reward formula (dynamics, float32 rounding); checked natively on 146 states by the replay driver",
    "statistical properties of bootstrap / shuffling (uniformity, independence) - only ranges, shapes and the injective column map",
    "optimizer arithmetic (optax) and the values of the gradients in train_epoch; restore_checkpoint",
    "floating-point overflow of exp / softplus for extreme raw log-variances",
]
