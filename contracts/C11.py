"""C11 - step budget, episode discipline and step accounting are exact.

Loop-level obligations for every training routine (contracts/loops.py):
step.pre (never step an ended episode, never exceed the remaining budget),
post.budget, post.episodes, post.accounting (reported count == start + executed
on every exit path), update.pre (documented warm-up condition) - proved with
inductive invariants for all budgets, starts, episode patterns.
Scheduler / selector part (contracts/C11_sched.py): the multi-task schedulers'
per-task step totals sum to the steps executed within the budget (train_st is a
parameter with the per-routine contract proved above), task ids are valid,
selection and feedback alternate, discounted UCB plays every arm initially and
an arg-max of discounted mean + exploration bonus afterwards.
"""
from . import C11_sched as _sched
from . import loops

PROPERTY = "C11"
LEVEL = "proof"
TASKS = loops.tasks_for({"C11"}) + _sched.TASKS
TRUSTED = ["Gymnasium Env API contract (reset/step typestate, pyvc/lib/gym_model.py)"] + loops.EXTRA_TRUSTED + list(_sched.TRUSTED)
ASSUMPTIONS = ["update routines are identified by the call sites of the (stubbed) train-step / actor-update / temperature-update functions"] + loops.EXTRA_ASSUMPTIONS + list(_sched.ASSUMPTIONS)
NOT_COVERED = [] + loops.EXTRA_NOT_COVERED + list(_sched.NOT_COVERED)
REPLAY = dict(loops.REPLAY, **_sched.REPLAY)  # loops_native (replay-buffer family) / loops_extra_native (tabular, on-policy collectors, rollout helper)
