"""C11 - step budget, episode discipline and step accounting are exact.

Loop-level obligations for every training routine (contracts/loops.py):
step.pre (never step an ended episode, never exceed the remaining budget),
post.budget, post.episodes, post.accounting (reported count == start + executed
on every exit path), update.pre (documented warm-up condition) - proved with
inductive invariants for all budgets, starts, episode patterns.
"""
from . import loops

PROPERTY = "C11"
LEVEL = "proof"
TASKS = loops.tasks_for({"C11"})
TRUSTED = ["Gymnasium Env API contract (reset/step typestate, pyvc/lib/gym_model.py)"] + loops.EXTRA_TRUSTED
ASSUMPTIONS = ["update routines are identified by the call sites of the (stubbed) train-step / actor-update / temperature-update functions"] + loops.EXTRA_ASSUMPTIONS
NOT_COVERED = [] + loops.EXTRA_NOT_COVERED
REPLAY = loops.REPLAY  # loops_native (replay-buffer family) / loops_extra_native (tabular, on-policy collectors, rollout helper)
