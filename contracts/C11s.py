"""temporary wrapper to run the scheduler part of C11 on its own (./check C11s)"""
import os

from .C11_sched import TASKS as _ALL, REPLAY, TRUSTED, ASSUMPTIONS, NOT_COVERED  # noqa: F401

PROPERTY = "C11"
LEVEL = "proof"
_only = os.environ.get("C11S_ONLY")
TASKS = [t for t in _ALL if not _only or any(p in t.name for p in _only.split(","))]
