"""C05 - each update routine changes only the component it trains.

Every parameter-update routine is executed symbolically on module / optimizer
heap objects (pyvc/lib/nnx_model.py): leaf networks carry a ghost parameter
term, optimizers a ghost state term and the ghost binding `wrt` to the module
they were created for.  Postconditions (from the property text / docstrings):

  frame      every module and optimizer outside the documented trained set has
             the identical parameter / state term afterwards (bit-identical);
  trains     every leaf of the documented component has a new parameter term
             produced by the documented optimizer's step;
  binding    each optimizer.update(model, grads) is called on the optimizer's own
             module with the gradient taken w.r.t. that same object (argnums);
  purity     evaluating the differentiated loss writes no module / optimizer.

The differentiated loss functions themselves are replaced by a pure stub here
(their values / gradient structure are C03 and C12); the stub's purity is what
those properties' tasks establish for the named losses.
"""
import z3

from pyvc import core as C
from pyvc.core import Anything, NamedTuple, Obj, Sym
from pyvc.lib.nnx_model import frame_scan, leaf_nets, mk_net, mk_optimizer
from pyvc.runner import Task

PROPERTY = "C05"
LEVEL = "proof"
A = "rl_blox.algorithm."
B = "rl_blox.blox."


class LossOut(tuple):
    gdeps = frozenset()


def loss_stub(E, fn, args, kwargs, has_aux):
    """pure stand-in for a differentiated loss: a fresh real depending
    (differentiably) on every network reachable from its arguments"""
    deps = set()
    for a in list(args) + list(kwargs.values()):
        for n in leaf_nets(a):
            deps.add(n.name)
    v = Sym(E.st.fresh("loss", C.REAL), frozenset(deps))
    E.st.ghost.setdefault("loss_calls", []).append(getattr(fn, "qualname", str(fn)))
    if has_aux:
        return (v, Anything("aux"))
    return v


def setup(shared):
    shared.loss_stub = loss_stub
    shared.lib.funcs["flax.nnx.scan"] = C.Builtin("flax.nnx.scan", frame_scan)


def wrapper(E, cls, name, **parts):
    return E.new_obj(cls, name=name, **parts)


def double_q(E, name):
    return wrapper(E, B + "double_qnet.ContinuousClippedDoubleQNet", name, q1=mk_net(E, name + ".q1", 1), q2=mk_net(E, name + ".q2", 1))


def snapshot(mods, opts):
    return ({k: [(n.name, n.fields["$params"].z) for n in leaf_nets(m)] for k, m in mods.items()},
            {k: o.fields["$state"].z for k, o in opts.items()})


def check_frame(E, mods, opts, before, trained, trained_opts, extra=None):
    pm, po = before
    for k, m in mods.items():
        now = [(n.name, n.fields["$params"].z) for n in leaf_nets(m)]
        changed = [a[0] for a, b in zip(pm[k], now) if not z3.eq(a[1], b[1])]
        if k in trained:
            unchanged = [a[0] for a, b in zip(pm[k], now) if z3.eq(a[1], b[1])]
            (E.st.ok if not unchanged and now else E.st.fail)(f"trains.every_leaf_of[{k}]", *([] if not unchanged and now else [f"leaves not updated: {unchanged}"]))
        else:
            (E.st.ok if not changed else E.st.fail)(f"frame.bit_identical[{k}]", *([] if not changed else [f"parameters of {changed} were written"]))
    for k, o in opts.items():
        same = z3.eq(po[k], o.fields["$state"].z)
        if k in trained_opts:
            (E.st.ok if not same else E.st.fail)(f"trains.optimizer_state_advances[{k}]", *([] if not same else ["optimizer state not advanced"]))
        else:
            (E.st.ok if same else E.st.fail)(f"frame.optimizer_untouched[{k}]", *([] if same else ["optimizer state was written"]))
    # binding: optimizer.update(model, grads) with model == optimizer's module == object differentiated
    ups = E.st.ghost.get("opt_updates", [])
    for i, u in enumerate(ups):
        opt, model, g = u["opt"], u["model"], u["grads"]
        oname = opt.name
        ok_wrt = opt.fields["$wrt"] is model
        (E.st.ok if ok_wrt else E.st.fail)(f"binding.optimizer_updates_its_own_module[{oname}#{i}]", *([] if ok_wrt else [f"{oname} was created for {getattr(opt.fields['$wrt'], 'name', None)} but updates {getattr(model, 'name', model)}"]))
        gw = getattr(g, "wrt", None)
        ok_g = gw is model
        (E.st.ok if ok_g else E.st.fail)(f"binding.gradient_taken_wrt_updated_module[{oname}#{i}]", *([] if ok_g else [f"gradient w.r.t. {getattr(gw, 'name', gw)} applied to {getattr(model, 'name', model)}"]))
        if gw is not None:
            dep = set(getattr(g, "gdeps", ())) & {n.name for n in leaf_nets(model)}
            (E.st.ok if dep else E.st.fail)(f"binding.loss_depends_on_updated_module[{oname}#{i}]", *([] if dep else ["the differentiated loss does not depend on the updated module (zero gradient)"]))
    imp = E.st.ghost.get("impure_grad", [])
    (E.st.ok if not imp else E.st.fail)("purity.loss_evaluation_writes_nothing", *([] if not imp else [str(imp)]))
    n_up = len(ups)
    E.oblige("canary.no_update_happened", C.compare("==", n_up, 0), assume_after=False)


def X(name="x"):
    return Anything(name)


# ---------------------------------------------------------------- routines
def h_train_step_with_loss(E):
    q, qt, pt = mk_net(E, "q", E.int("A", 1)), mk_net(E, "q_target", E.int("At", 1)), mk_net(E, "policy_target", E.int("Ap", 1))
    opt = mk_optimizer(E, "optimizer", q)
    mods, opts = dict(q=q, q_target=qt, policy_target=pt), dict(optimizer=opt)
    b = snapshot(mods, opts)
    loss = E.resolve(B + "losses.ddpg_loss")
    E.call(A + "dqn.train_step_with_loss", loss, opt, q, qt, pt, X("batch"), E.real("gamma", 0, 1))
    check_frame(E, mods, opts, b, {"q"}, {"optimizer"})


def h_ddpg_update_actor(E):
    policy, q = mk_net(E, "policy", E.int("A", 1)), mk_net(E, "q", 1)
    popt, qopt = mk_optimizer(E, "policy_optimizer", policy), mk_optimizer(E, "q_optimizer", q)
    mods, opts = dict(policy=policy, q=q), dict(policy_optimizer=popt, q_optimizer=qopt)
    b = snapshot(mods, opts)
    E.call(A + "ddpg.ddpg_update_actor", policy, popt, q, X("obs"))
    check_frame(E, mods, opts, b, {"policy"}, {"policy_optimizer"})


def h_sac_update_actor(E):
    policy, q = mk_net(E, "policy", (E.int("A", 1), E.int("A2", 1))), double_q(E, "q")
    popt, qopt = mk_optimizer(E, "policy_optimizer", policy), mk_optimizer(E, "q_optimizer", q)
    mods, opts = dict(policy=policy, q=q), dict(policy_optimizer=popt, q_optimizer=qopt)
    b = snapshot(mods, opts)
    E.call(A + "sac.sac_update_actor", policy, popt, q, X("key"), X("obs"), X("alpha"))
    check_frame(E, mods, opts, b, {"policy"}, {"policy_optimizer"})


def h_entropy(E):
    policy, q = mk_net(E, "policy", 2), double_q(E, "q")
    log_alpha = mk_net(E, "log_alpha", 1)
    aopt, popt = mk_optimizer(E, "alpha_optimizer", log_alpha), mk_optimizer(E, "policy_optimizer", policy)
    mods, opts = dict(policy=policy, q=q, log_alpha=log_alpha), dict(alpha_optimizer=aopt, policy_optimizer=popt)
    ec = E.new_obj(A + "sac.EntropyControl", name="entropy_control", autotune=True, target_entropy=E.real("H"), _alpha=log_alpha, alpha_=X("alpha"), optimizer=aopt)
    b = snapshot(mods, opts)
    E.call(E.getattr(ec, "update"), policy, X("obs"), X("key"))
    check_frame(E, mods, opts, b, {"log_alpha"}, {"alpha_optimizer"})


def h_entropy_fixed(E):
    """autotune off: the temperature update changes nothing at all"""
    policy = mk_net(E, "policy", 2)
    popt = mk_optimizer(E, "policy_optimizer", policy)
    mods, opts = dict(policy=policy), dict(policy_optimizer=popt)
    ec = E.new_obj(A + "sac.EntropyControl", name="entropy_control", autotune=False, target_entropy=E.real("H"), alpha_=E.real("alpha"), optimizer=None)
    b = snapshot(mods, opts)
    E.call(E.getattr(ec, "update"), policy, X("obs"), X("key"))
    pm, po = b
    same = all(z3.eq(a[1], n.fields["$params"].z) for a, n in zip(pm["policy"], leaf_nets(policy))) and z3.eq(po["policy_optimizer"], popt.fields["$state"].z)
    (E.st.ok if same else E.st.fail)("frame.fixed_temperature_update_is_noop", *([] if same else ["something was written"]))
    E.oblige("canary.fixed", C.compare("==", 1, 0), assume_after=False)


def sale_policy(E, name):
    return E.new_obj(A + "td7.DeterministicSALEPolicy", name=name, embedding=mk_net(E, name + ".embedding", (E.int("z1", 1), E.int("z2", 1))), actor=mk_net(E, name + ".actor", E.int("Aact", 1))) if False else None


def h_td7_critic(E):
    fe, fet = mk_net(E, "fixed_embedding", (4, 4)), mk_net(E, "fixed_embedding_target", (4, 4))
    critic, ct = double_q(E, "critic"), double_q(E, "critic_target")
    copt = mk_optimizer(E, "critic_optimizer", critic)
    mods, opts = dict(fixed_embedding=fe, fixed_embedding_target=fet, critic=critic, critic_target=ct), dict(critic_optimizer=copt)
    b = snapshot(mods, opts)
    E.call(A + "td7.td7_update_critic", fe, fet, critic, ct, copt, E.real("gamma", 0, 1), X("o"), X("a"), X("o2"), X("a2"), X("r"), X("t"), E.real("pmin", 0), X("qmin"), X("qmax"))
    check_frame(E, mods, opts, b, {"critic"}, {"critic_optimizer"})


def h_td7_actor(E):
    emb, actor, critic = mk_net(E, "embedding", (4, 4)), mk_net(E, "actor", 2), double_q(E, "critic")
    policy = E.new_obj("rl_blox.blox.embedding.sale.DeterministicSALEPolicy", name="policy", embedding=emb, actor=actor)
    aopt, copt = mk_optimizer(E, "actor_optimizer", actor), mk_optimizer(E, "critic_optimizer", critic)
    mods, opts = dict(embedding=emb, actor=actor, critic=critic), dict(actor_optimizer=aopt, critic_optimizer=copt)
    b = snapshot(mods, opts)
    E.call(A + "td7.td7_update_actor", policy, aopt, critic, X("obs"))
    check_frame(E, mods, opts, b, {"actor"}, {"actor_optimizer"})


def h_mrq(E):
    q, qt = double_q(E, "q"), double_q(E, "q_target")
    policy, enc, enct = mk_net(E, "policy", 2), mk_net(E, "encoder", 8), mk_net(E, "encoder_target", 8)
    qopt, popt, eopt = mk_optimizer(E, "q_optimizer", q), mk_optimizer(E, "policy_optimizer", policy), mk_optimizer(E, "encoder_optimizer", enc)
    mods, opts = dict(q=q, q_target=qt, policy=policy, encoder=enc, encoder_target=enct), dict(q_optimizer=qopt, policy_optimizer=popt, encoder_optimizer=eopt)
    b = snapshot(mods, opts)
    E.call(A + "mrq.update_critic_and_policy", q, qt, qopt, policy, popt, enc, enct, E.real("gamma", 0, 1), E.real("aw", 0), X("next_action"), X("batch"), X("rs"), X("trs"))
    check_frame(E, mods, opts, b, {"q", "policy"}, {"q_optimizer", "policy_optimizer"})


def h_sale(E):
    emb, actor, critic = mk_net(E, "embedding", (4, 4)), mk_net(E, "actor", 2), double_q(E, "critic")
    eopt, aopt = mk_optimizer(E, "embedding_optimizer", emb), mk_optimizer(E, "actor_optimizer", actor)
    mods, opts = dict(embedding=emb, actor=actor, critic=critic), dict(embedding_optimizer=eopt, actor_optimizer=aopt)
    b = snapshot(mods, opts)
    E.call(B + "embedding.sale.update_sale", emb, eopt, X("o"), X("a"), X("o2"))
    check_frame(E, mods, opts, b, {"embedding"}, {"embedding_optimizer"})


def h_encoder(E):
    enc, enct, q = mk_net(E, "encoder", 8), mk_net(E, "encoder_target", 8), double_q(E, "q")
    eopt, qopt = mk_optimizer(E, "encoder_optimizer", enc), mk_optimizer(E, "q_optimizer", q)
    mods, opts = dict(encoder=enc, encoder_target=enct, q=q), dict(encoder_optimizer=eopt, q_optimizer=qopt)
    b = snapshot(mods, opts)
    E.call(B + "embedding.model_based_encoder.update_model_based_encoder", enc, enct, eopt, X("bins"), 2, E.real("dw", 0), E.real("rw", 0), E.real("dnw", 0), 2, 4, False, X("batches"), True)
    check_frame(E, mods, opts, b, {"encoder"}, {"encoder_optimizer"})


def h_ppo(E):
    actor, critic = mk_net(E, "actor", 2), mk_net(E, "critic", 1)
    aopt, copt = mk_optimizer(E, "optimizer_actor", actor), mk_optimizer(E, "optimizer_critic", critic)
    mods, opts = dict(actor=actor, critic=critic), dict(optimizer_actor=aopt, optimizer_critic=copt)
    b = snapshot(mods, opts)
    E.shared.stubs[B + "gae.compute_gae"] = lambda E, *a, **k: (Anything("advs"), Anything("returns"))
    actor_pol = E.new_obj("stub.Policy", name="actor_policy") if False else None
    E.call(A + "ppo.update_ppo", _policy_like(E, actor), critic, aopt, copt, X("o"), X("a"), X("r"), X("t"), X("nv"), 2)
    check_frame(E, mods, opts, b, {"actor", "critic"}, {"optimizer_actor", "optimizer_critic"})


def _policy_like(E, net):
    """a leaf network that also answers the StochasticPolicyBase methods"""
    net.fields["$policy_methods"] = True
    return net


def mk_pg(qual, call):
    def h(E):
        policy, vf = _policy_like(E, mk_net(E, "policy", 2)), mk_net(E, "value_function", 1)
        popt, vopt = mk_optimizer(E, "policy_optimizer", policy), mk_optimizer(E, "value_function_optimizer", vf)
        mods, opts = dict(policy=policy, value_function=vf), dict(policy_optimizer=popt, value_function_optimizer=vopt)
        b = snapshot(mods, opts)
        trained, topts = call(E, policy, popt, vf, vopt)
        check_frame(E, mods, opts, b, trained, topts)
    return h


h_a2c = mk_pg("a2c", lambda E, p, po, v, vo: (E.call(A + "a2c.train_policy_a2c", p, po, 2, X("o"), X("a"), X("adv")), ({"policy"}, {"policy_optimizer"}))[1])
h_reinforce_policy = mk_pg("reinforce", lambda E, p, po, v, vo: (E.call(A + "reinforce.train_policy_reinforce", p, po, 2, v, X("o"), X("a"), X("ret"), X("gd")), ({"policy"}, {"policy_optimizer"}))[1])
h_reinforce_value = mk_pg("reinforce-v", lambda E, p, po, v, vo: (E.call(A + "reinforce.train_value_function", v, vo, 2, X("o"), X("ret")), ({"value_function"}, {"value_function_optimizer"}))[1])
h_ac = mk_pg("ac", lambda E, p, po, v, vo: (E.call(A + "actor_critic.train_policy_actor_critic", p, po, 2, v, X("o"), X("a"), X("o2"), X("r"), X("gd"), E.real("gamma", 0, 1)), ({"policy"}, {"policy_optimizer"}))[1])


def h_ensemble(E):
    model = mk_net(E, "model", (2, 2))
    model.fields["n_ensemble"] = 3
    other = mk_net(E, "other", 1)
    opt = mk_optimizer(E, "optimizer", model)
    mods, opts = dict(model=model, other=other), dict(optimizer=opt)
    b = snapshot(mods, opts)
    E.shared.lib.funcs["chex.assert_axis_dimension"] = C.Builtin("chex.assert_axis_dimension", lambda E, *a, **k: None)
    E.shared.lib.funcs["chex.assert_equal_shape_prefix"] = C.Builtin("chex.assert_equal_shape_prefix", lambda E, *a, **k: None)
    E.call(B + "probabilistic_ensemble.train_epoch", model, opt, X("X"), X("Y"), X("indices"))
    check_frame(E, mods, opts, b, {"model"}, {"optimizer"})


def T_(name, h):
    return Task(name, h, setup=setup)


TASKS = [
    T_("dqn.train_step_with_loss", h_train_step_with_loss),
    T_("ddpg.ddpg_update_actor", h_ddpg_update_actor),
    T_("sac.sac_update_actor", h_sac_update_actor),
    T_("sac.EntropyControl.update[autotune]", h_entropy),
    T_("sac.EntropyControl.update[fixed]", h_entropy_fixed),
    T_("td7.td7_update_critic", h_td7_critic),
    T_("td7.td7_update_actor", h_td7_actor),
    T_("mrq.update_critic_and_policy", h_mrq),
    T_("sale.update_sale", h_sale),
    T_("model_based_encoder.update_model_based_encoder", h_encoder),
    T_("ppo.update_ppo", h_ppo),
    T_("a2c.train_policy_a2c", h_a2c),
    T_("reinforce.train_policy_reinforce", h_reinforce_policy),
    T_("reinforce.train_value_function", h_reinforce_value),
    T_("actor_critic.train_policy_actor_critic", h_ac),
    T_("probabilistic_ensemble.train_epoch", h_ensemble),
]

TRUSTED = [
    "nnx.value_and_grad(f, argnums)(*args) is pure and differentiates w.r.t. args[argnums]",
    "nnx.Optimizer.update(model, grads) writes exactly `model` and the optimizer; a non-zero gradient changes the parameters (first-order optimizers)",
    "nnx.jit propagates in-place module updates (documented purpose)",
    "nnx.scan carries the same objects through every iteration (frame of one generic iteration == frame of the scan)",
]
ASSUMPTIONS = [
    "the differentiated loss functions are replaced by a pure stub in this property's tasks (their values and gradient structure are C03 / C12)",
    "modules hold no hidden mutable state (no Dropout / BatchNorm / RngStream layers are constructed in rl_blox: checked by the C09 effect pass)",
]
NOT_COVERED = ["magnitude of the parameter change"]

REPLAY = {"": "c05_frames", "train_ensemble": "c17_pets", "train_td7": "loops_native", "train_mrq": "loops_native"}

# "An update with a non-zero gradient does change the trained component" for the PETS ensemble also needs
# train_ensemble to hand at least one batch to train_epoch (whose frame and update are proved above): that is
# C17's contract of train_ensemble (n_batches == floor(m / batch_size), >= 1 when the samples cover one batch).
from .C17 import TASKS as _C17_TASKS  # noqa: E402

TASKS = TASKS + [t for t in _C17_TASKS if t.name.startswith("train_ensemble")]

# "aliasing between modules" (the property's own example): the update routines above are proved on DISTINCT modules; that
# train_td7 - the one routine that builds wrapper objects around its components - hands pairwise distinct online / fixed /
# target modules to its training iteration is an obligation of its loop contract (contracts/loops.py, _td7_train_step)
from . import loops as _loops  # noqa: E402

TASKS = TASKS + _loops.td7_tasks({"C05"})
