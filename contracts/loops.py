"""Training-loop contracts shared by C01, C06, C11 (and loop-level parts of C10/C13/C15).

Each train_* routine is verified MODULARLY: the environment is the Gymnasium
typestate contract (pyvc/lib/gym_model.py), replay buffers / networks /
optimizers / update routines are replaced by contract stubs that (a) check
their call-site preconditions against ghost state and (b) record ghost events.
The loop itself - the real AST - is cut at its head with an inductive
invariant found by Houdini from sort-based templates (DESIGN 3.4), so the
proof is for any number of steps and any termination/truncation pattern.
"""
import ast

import z3

from pyvc import core as C
from pyvc import tensor as T
from pyvc.core import BOOL, INT, REAL, VAL, Anything, Builtin, NamedTuple, Obj, Opaque, Partial, Sym, band, bnot, bor, iff, implies
from pyvc.interp import LoopSpec
from pyvc.lib import LIB
from pyvc.lib.gym_model import mk_env
from pyvc.lib.nnx_model import mk_optimizer
from pyvc.runner import Task

ALG = "rl_blox.algorithm."
STUB_MODULE = "stub.Module"
STUB_BUFFER = "stub.ReplayBuffer"
STUB_LOGGER = "stub.Logger"


# ------------------------------------------------------------------ stubs
@LIB.cls(STUB_MODULE)
def _stub_module(E, obj, name):
    if name.startswith("__") and name not in ("__call__",):
        return NotImplemented
    if name == "__call__":
        return Builtin("stub.Module.__call__", lambda E, *a, **k: Anything("net-output"))
    if name == "sample":
        def sample(E, obs, key=None, *a, **k):
            ck = E.shared.checker
            ck.act(E, obs, "policy.sample")
            return ck.policy_action(E, obj)
        return Builtin("stub.policy.sample", sample)
    # sub-modules are created lazily and cached (encoder, policy, model, ...)
    if name not in obj.fields:
        child = Obj(STUB_MODULE, {}, name=f"{obj.name}.{name}")
        E.register(child)
        obj.fields[name] = child
    return obj.fields[name]


LIB.class_bases[STUB_MODULE] = ["flax.nnx.Module"]


def mk_stub_module(E, name):
    o = Obj(STUB_MODULE, {}, name=name)
    E.register(o)
    return o


@LIB.cls(STUB_BUFFER)
def _stub_buffer(E, obj, name):
    ck = E.shared.checker
    if name == "add_sample":
        def add(E, **kw):
            ck.store(E, kw)
            E.log_write(obj.name, "$n")
            obj.fields["$n"] = C.binop("+", obj.fields["$n"], 1)
            return [Anything("slot")]
        return Builtin("stub.buffer.add_sample", add)
    if name == "sample_batch":
        def sample(E, *a, **k):
            ck.event(E, "buffer.sample")
            return Anything("batch")
        return Builtin("stub.buffer.sample_batch", sample)
    if name in ("update_priority", "reset_max_priority", "select_task"):
        return Builtin(f"stub.buffer.{name}", lambda E, *a, **k: ck.event(E, f"buffer.{name}"))
    if name == "reward_scale":
        return Builtin("stub.buffer.reward_scale", lambda E, *a, **k: Anything("reward_scale"))
    if name == "environment_terminates":
        return Anything("environment_terminates")
    return NotImplemented


def _stub_len(E, v):
    if isinstance(v, Obj) and v.cls == STUB_BUFFER:
        return v.fields["$n"]
    return NotImplemented


LIB.len_handlers.insert(0, _stub_len)


@LIB.cls(STUB_LOGGER)
def _stub_logger(E, obj, name):
    if name.startswith("__"):
        return NotImplemented
    return Builtin(f"stub.logger.{name}", lambda E, *a, **k: None)


# ---------------------------------------------------------------- checker
CHOSEN_FOR = C.uf("chosen_for", VAL, VAL)  # ghost: the observation a policy / planner action was chosen for
IS_POLICY_ACTION = C.uf("is_policy_action", VAL, BOOL)  # ghost: produced by a policy / planner call (not a random sample)


def _as_val(a):
    from pyvc.lib.np_model import to_sort

    try:
        return to_sort(a, VAL) if isinstance(a, Sym) else None
    except C.Unsupported:
        return None


class Checker:
    """States the call-site obligations of one training routine.  `kinds`
    selects which property's obligations are emitted in this run."""

    def __init__(self, cfg, kinds):
        self.cfg = cfg
        self.kinds = set(kinds)

    # ghost quantities ---------------------------------------------------
    def env(self, E):
        return E.heap["env"]

    def executed(self, E):
        f = self.env(E).fields
        return C.binop("-", f["$nsteps"], f["$n0"])

    def step_index(self, E):
        """index (global step count) of the step executed most recently"""
        return C.binop("-", C.binop("+", E.shared.s0, self.executed(E)), 1)

    def event(self, E, what, **kw):
        E.st.ghost.setdefault("events", []).append((what, kw))
        return Anything(what)

    # C01 ---------------------------------------------------------------
    def act(self, E, obs, where):
        E.st.ghost["last_act_obs"] = obs  # the observation the policy call that follows is conditioned on
        if "C01" in self.kinds:
            f = self.env(E).fields
            if isinstance(obs, Sym) and obs.z.sort() == VAL:
                E.oblige(f"act.pre.conditioned_on_current_observation[{where}]", C.compare("==", obs, f["$cur"]))
            else:
                E.st.fail(f"act.pre.conditioned_on_current_observation[{where}]", f"policy conditioned on {obs!r}")
        if "C11" in self.kinds:
            pass

    def note_action(self, E, a):
        """ghost: action `a` was produced by a policy / planner call conditioned on the observation noted by act()"""
        obs = E.st.ghost.get("last_act_obs")
        az, oz = _as_val(a), _as_val(obs)
        if az is not None:
            E.st.assume(IS_POLICY_ACTION(az))
            if oz is not None:
                E.st.assume(CHOSEN_FOR(az) == oz)

    def policy_action(self, E, policy=None):
        a = E.st.fresh_sym("policy_action", VAL)
        self.note_action(E, a)
        E.st.ghost.setdefault("in_bounds_actions", []).append(a)
        E.st.ghost.setdefault("policy_actions", []).append(a)
        return a

    def store(self, E, kw, site=None, need=None, term_required=None):
        """site: label of the store site when a routine has several; need / term_required:
        fields the record type must carry (defaults: cfg.store_need / cfg.store_term, else the
        replay-buffer transition)"""
        if "C01" not in self.kinds:
            return
        sfx = f"[{site}]" if site else ""
        f = self.env(E).fields
        name = f["$name"]
        from pyvc.lib.gym_model import env_funcs

        fn = env_funcs(name)
        n1 = C.to_z3(C.binop("-", f["$nsteps"], 1))
        E.oblige(f"store.pre.after_a_step{sfx}", C.compare(">=", self.executed(E), 1))
        want = {
            "observation": f["$before"], "obs": f["$before"],
            "action": f["$action"], "actions": f["$action"], "act": f["$action"],
            "reward": Sym(fn["REW"](n1)), "rewards": Sym(fn["REW"](n1)),
            "next_observation": Sym(fn["OBS"](n1)), "next_obs": Sym(fn["OBS"](n1)),
            "termination": Sym(fn["TERM"](n1)), "terminated": Sym(fn["TERM"](n1)), "terminations": Sym(fn["TERM"](n1)),
            "truncated": Sym(fn["TRUNC"](n1)), "truncations": Sym(fn["TRUNC"](n1)),
        }
        if need is None:
            need = getattr(self.cfg, "store_need", None) or {"observation", "action", "reward", "next_observation"}
        if term_required is None:
            term_required = getattr(self.cfg, "store_term", True)
        have = set()
        for k, v in kw.items():
            if k not in want:
                E.st.fail(f"store.pre.known_field[{k}]{sfx}", "unexpected field")
                continue
            canon = {"obs": "observation", "actions": "action", "act": "action", "rewards": "reward", "next_obs": "next_observation"}.get(k, k)
            have.add(canon)
            w = want[k]
            if isinstance(v, Anything) or isinstance(w, Anything):
                E.st.fail(f"store.pre.{canon}{sfx}", f"stored value {v!r}")
                continue
            try:
                eq = same_value(v, w)
            except C.Unsupported as e:
                E.st.fail(f"store.pre.{canon}{sfx}", str(e))
                continue
            E.oblige(f"store.pre.{canon}_is_what_the_step_produced{sfx}", eq)
        for k in sorted(set(need) - have):
            E.st.fail(f"store.pre.{k}_present{sfx}", "transition stored without this field")
        if term_required and not ({"termination", "terminated", "terminations"} & set(kw)):
            E.st.fail(f"store.pre.termination_flag_present{sfx}", "transition stored without termination flag")

    # C11 ---------------------------------------------------------------
    def update(self, E, what):
        self.event(E, "update", which=what)
        if "C11" in self.kinds and self.cfg.warmup is not None:
            s = self.step_index(E)
            E.oblige(f"update.pre.warmup_met[{what}]", self.cfg.warmup(E, s))

    def target_update(self, E, kind, net, target, tau=None):
        self.event(E, "target_update", kind=kind, net=net, target=target, tau=tau)
        if "C06" not in self.kinds:
            return
        env = self.env(E)
        role = self.role_of(E, net)
        tn = f"target_of[{role}]"
        if net is target:
            E.st.fail(f"target.disjoint_storage[{role}]", "target network is the online network object")
        else:
            E.st.ok(f"target.disjoint_storage[{role}]")
        doc = (self.cfg.cadence or {}).get(role)
        if doc is None:
            E.st.fail(f"target.only_documented_targets_change[{role}]", f"undocumented target update from {_nm(net)} into {_nm(target)}")
            return
        want_target = E.st.ghost.get("targets", {}).get(role)
        if want_target is not None and target is not want_target:
            E.st.fail(f"target.update_args_online_then_target[{role}]", f"update writes {_nm(target)}, documented target is {_nm(want_target)}")
        else:
            E.st.ghost.setdefault("targets", {})[role] = target
            E.st.ok(f"target.update_args_online_then_target[{role}]")
        if doc["kind"] != kind:
            E.st.fail(f"target.rule[{role}]", f"{kind} update where a {doc['kind']} update is documented")
        elif kind == "soft":
            want_tau = E.st.ghost["args"].get("tau")
            same = tau is want_tau or (isinstance(tau, Sym) and isinstance(want_tau, Sym) and z3.eq(tau.z, want_tau.z))
            (E.st.ok if same else E.st.fail)(f"target.rule[{role}]", *([] if same else [f"tau argument {tau!r}"]))
        else:
            E.st.ok(f"target.rule[{role}]")
        key = f"$tu[{role}]"
        E.log_write(env.name, key)
        env.fields[key] = C.binop("+", env.fields.get(key, 0), 1)

    def role_of(self, E, net):
        for k, v in E.st.ghost["args"].items():
            if v is net:
                return k
        # TD7: the online SALE policy is the wrapper around the online actor
        if isinstance(net, Obj) and not isinstance(net.cls, str) and net.cls.qualname.endswith("DeterministicSALEPolicy"):
            if net.fields.get("actor") is E.st.ghost["args"].get("actor"):
                return "policy"
        # sub-modules / wrappers: by object name
        return _nm(net)

    def expected_target_updates(self, E):
        """ghost: called once per environment step (right after it); adds the
        documented number of target updates for this step"""
        if "C06" not in self.kinds or not self.cfg.cadence:
            return
        env = self.env(E)
        s = self.step_index(E)
        for role, doc in self.cfg.cadence.items():
            key = f"$tx[{role}]"
            cond = doc["when"](E, s)
            times = doc.get("times", lambda E: 1)(E)
            E.log_write(env.name, key)
            env.fields[key] = C.binop("+", env.fields.get(key, 0), C.ite(cond, times, 0))


def _nm(o):
    return getattr(o, "name", repr(o))


def same_value(v, w):
    """equality modulo the value-preserving casts of DESIGN 4.2"""
    vz, wz = C.to_z3(v), C.to_z3(w)
    if vz.sort() == wz.sort():
        return Sym(vz == wz)
    from pyvc.lib.np_model import to_sort

    return Sym(to_sort(v, VAL) == to_sort(w, VAL))


# ------------------------------------------------------------ env hooks
def env_hook(E, kind, **kw):
    ck = E.shared.checker
    if kind == "space.sample":
        az = _as_val(kw.get("action"))
        if az is not None:
            E.st.assume(z3.Not(IS_POLICY_ACTION(az)))  # a uniform random action is not conditioned on any observation
        return
    if kind == "step.post":
        ck.expected_target_updates(E)
        return
    if kind == "reset" and "C15" in ck.kinds and ck.cfg.fn == "train_td7" and E.st.ghost.get("args", {}).get("use_checkpoints") is True:
        # C15 "none lost": the episode that just ended (this reset follows it) was handed to the assessment if its last
        # step was taken once learning had started - whether it was terminated or truncated
        env = kw["env"].fields
        ls = E.st.ghost["args"]["learning_starts"]
        ended_after_warmup = band(C.compare(">=", ck.executed(E), 1), C.compare(">=", ck.step_index(E), ls))
        E.oblige("assess.every_episode_ending_after_warmup_is_assessed",
                 implies(ended_after_warmup, C.compare("==", env.get("$assessed_ndone", -1), env["$ndone"])))
        return
    if kind == "step.pre":
        env = kw["env"]
        if "C01" in ck.kinds:
            # "the observation the acting policy is conditioned on is that same current observation": the action that is
            # EXECUTED now was chosen for the observation that is current now (not for one from before a reset)
            a = kw["action"]
            az = _as_val(a)
            # stated for actions whose provenance is a plain symbol: the result of a policy / planner stub, a random
            # sample, or a loop-carried variable (havocked at the loop head: then the invariant candidate
            # "chosen for the current observation if it is a policy action" has to carry it); derived terms
            # (int(action), clipped / converted actions) are the subject of C10 / C13
            if az is not None and isinstance(a, Sym) and z3.is_const(a.z) and a.z.decl().kind() == z3.Z3_OP_UNINTERPRETED:
                E.oblige("step.pre.executed_action_was_chosen_for_the_current_observation",
                         Sym(z3.Implies(IS_POLICY_ACTION(az), CHOSEN_FOR(az) == _as_val(env.fields["$cur"]))))
        if "C11" in ck.kinds:
            E.oblige("step.pre.episode_running", C.mk(C.as_bool(env.fields["$alive"])) if not isinstance(env.fields["$alive"], bool) else env.fields["$alive"])
        if "C11" in ck.kinds and E.shared.budget is not None:
            # never more steps than the remaining budget
            # not assumed after a failure: a routine that oversteps must also fail post.budget
            E.oblige("step.pre.within_budget", C.compare("<", ck.executed(E), E.shared.budget), assume_after=False)
        if "C10" in ck.kinds and not ck.cfg.discrete:
            a = kw["action"]
            known = E.st.ghost.get("in_bounds_actions", [])
            if any(a is k or (isinstance(a, Sym) and isinstance(k, Sym) and z3.eq(a.z, k.z)) for k in known):
                E.st.ok("step.pre.action_from_bounded_source")
            else:
                E.st.fail("step.pre.action_from_bounded_source", f"action {a!r} is neither action_space.sample() nor the output of a bounds-respecting sampler")
        if "C13" in ck.kinds and getattr(ck.cfg, "c13_step", None) is not None:
            ck.cfg.c13_step(E, ck, kw["action"])


# -------------------------------------------------------------- configs
class Cfg:
    def __init__(self, module, fn, discrete, counter="global_step", ret="global_step", episodes=True,
                 warmup=None, stubs=None, scen=None, pairs=None, loop=0, concrete=None, extra_loops=None,
                 budget_from_zero=False, note=None, cadence=None, cands_extra=None):
        self.module = module
        self.fn = fn
        self.qual = f"{ALG}{module}.{fn}"
        self.discrete = discrete
        self.counter = counter  # parameter holding the starting step count (None: starts at 0)
        self.ret = ret  # field of the result holding the reported count (None: not reported)
        self.episodes = episodes
        self.warmup = warmup
        self.stubs = stubs or {}
        self.scen = scen or {}
        self.pairs = pairs
        self.loop = loop
        self.concrete = concrete or {}
        self.extra_loops = extra_loops or {}
        self.budget_from_zero = budget_from_zero
        self.cadence = cadence
        self.cands_extra = cands_extra

    def pair_names(self, E):
        out = set()
        for a, b in self.pairs or ():
            out.add((a, b))
        return out


def _sig(E, qual):
    cl = E.resolve(qual)
    a = cl.node.args
    return [p.arg for p in a.posonlyargs + a.args + a.kwonlyargs], cl


INT_GE1 = {"batch_size", "gradient_steps", "policy_delay", "target_delay", "update_frequency", "target_update_frequency",
           "target_network_delay", "buffer_size", "n_particles", "n_samples", "n_opt_iter", "n_steps_per_iteration",
           "max_episodes_when_checkpointing", "encoder_horizon", "q_horizon", "n_planning_steps", "n_samples_per_update"}
INT_GE0 = {"learning_starts", "learning_starts_gradient_steps", "steps_before_checkpointing", "seed"}
REAL01 = {"gamma", "tau", "reset_weight", "epsilon", "per_beta"}
REALPOS = {"exploration_noise", "target_policy_noise", "noise_clip", "lap_alpha", "lap_min_priority", "per_alpha", "alpha",
           "entropy_learning_rate", "learning_rate", "dynamics_weight", "reward_weight", "done_weight", "activation_weight", "variance"}
MODULES = {"q_net", "policy", "q", "actor", "critic", "embedding", "policy_with_encoder", "dynamics_model", "value_function"}
TARGETS = {"q_target_net", "policy_target", "q_target", "actor_target", "critic_target", "policy_with_encoder_target"}


def build_args(E, cfg, scen):
    names, cl = _sig(E, cfg.qual)
    args = {}
    roles = {}
    for p in names:
        if p in scen:
            v = scen[p]
            if callable(v) and not isinstance(v, (Obj,)):
                v = v(E)
            args[p] = v
        elif p in cfg.concrete:
            args[p] = cfg.concrete[p]
        elif p == "env":
            args[p] = mk_env(E, "env", discrete=cfg.discrete, alive=None)
        elif p in MODULES:
            args[p] = mk_stub_module(E, p)
        elif p in TARGETS:
            args[p] = None
        elif p.endswith("optimizer"):
            args[p] = mk_optimizer(E, p, None)
        elif p == "replay_buffer":
            o = Obj(STUB_BUFFER, {"$n": E.int("buffer.len0", 0)}, name="replay_buffer")
            E.register(o)
            args[p] = o
        elif p in ("logger", "bar", "entropy_control", "covariance", "n_visits"):
            args[p] = None
        elif p == "progress_bar":
            args[p] = False
        elif p == "total_timesteps":
            args[p] = E.int("total_timesteps", 0)
        elif p == "total_episodes":
            args[p] = None
        elif p == "global_step":
            args[p] = E.int("global_step", 0)
        elif p in INT_GE1:
            args[p] = E.int(p, 1)
        elif p in INT_GE0:
            args[p] = E.int(p, 0)
        elif p in REAL01:
            args[p] = E.real(p, 0, 1)
        elif p in REALPOS:
            args[p] = E.real(p, 0)
        elif p in ("autotune", "use_checkpoints", "init_with_previous_plan", "normalize_targets", "active"):
            args[p] = False
        else:
            args[p] = Anything(p)
    return args, names


# candidate invariants (Houdini) for the interaction loop ---------------------
def make_cands(cfg):
    def cand(L):
        E = L.E
        env = E.heap["env"].fields
        executed = C.binop("-", env["$nsteps"], env["$n0"])
        done = C.binop("-", env["$ndone"], E.shared.done0)
        out = []
        alive = env["$alive"]
        out.append(("env.alive", alive if not isinstance(alive, bool) else C.mk(z3.BoolVal(alive))))
        def B(x):
            return x if isinstance(x, Sym) else C.Sym(z3.BoolVal(bool(x)))

        for k, v in list(L.frame.vars.items()):
            if isinstance(v, Sym) and v.z.sort() == VAL:
                out.append((f"{k}==env.cur", C.compare("==", v, env["$cur"])))
                # a loop-carried action: either not a policy action, or one chosen for the observation that is current
                out.append((f"{k}:chosen_for_current_observation_if_policy_action", Sym(z3.Implies(IS_POLICY_ACTION(v.z), CHOSEN_FOR(v.z) == C.to_z3(env["$cur"])))))
            is_int = (isinstance(v, Sym) and v.z.sort() == INT) or (isinstance(v, int) and not isinstance(v, bool))
            if is_int and k in L.entry and isinstance(L.entry[k], (int, Sym)) and not isinstance(L.entry[k], bool):
                e0 = L.entry[k]
                if isinstance(e0, Sym) and e0.z.sort() != INT:
                    continue
                for d in (-1, 0, 1):
                    out.append((f"{k}==entry+executed{d:+d}", B(C.compare("==", v, C.binop("+", C.binop("+", e0, executed), d)))))
                out.append((f"{k}==entry+episodes_done", B(C.compare("==", v, C.binop("+", e0, done)))))
        if L.it is not None:
            out.append(("it==lo+executed", B(C.compare("==", L.it, C.binop("+", L.lo, executed)))))
        out.append(("executed>=0", B(C.compare(">=", executed, 0))))
        out.append(("episodes_done>=0", B(C.compare(">=", done, 0))))
        te = E.shared.total_episodes
        if te is not None:
            out.append(("episodes_done<total_episodes", B(C.compare("<", done, te))))
        if E.shared.budget is not None:
            out.append(("executed<=budget", B(C.compare("<=", executed, E.shared.budget))))
        for k, v in list(L.frame.vars.items()):
            if (isinstance(v, Sym) and v.z.sort() == INT) or (isinstance(v, int) and not isinstance(v, bool)):
                out.append((f"{k}==episode_length", B(C.compare("==", v, env["$eplen"]))))
            if (isinstance(v, Sym) and v.z.sort() == REAL) or isinstance(v, C.Fraction):
                out.append((f"{k}==episode_return", B(C.compare("==", v, env["$epret"]))))
        if cfg.cands_extra is not None:
            for nm, z in cfg.cands_extra(L, executed):
                out.append((nm, B(z)))
        if "C06" in E.shared.checker.kinds:
            for role in (cfg.cadence or {}):
                out.append((f"target_updates[{role}]==documented", B(C.compare("==", env.get(f"$tu[{role}]", 0), env.get(f"$tx[{role}]", 0)))))
        return out
    return cand


def loop_ordinal_containing_call(shared, qualname, callee):
    """syntactic ordinal (as the executor numbers them) of the innermost loop of
    `qualname` whose body calls `callee` - robust to renamed loop variables"""
    from pyvc.interp import _loop_ordinals

    mod, fn = qualname.rsplit(".", 1)
    mi = shared.loader.load_module(mod)
    node = [n for n in mi.tree.body if isinstance(n, ast.FunctionDef) and n.name == fn][0]
    ords = _loop_ordinals(node)
    best = None
    for n in ast.walk(node):
        if isinstance(n, (ast.For, ast.While)) and id(n) in ords:
            calls = [c for c in ast.walk(n) if isinstance(c, ast.Call) and ((isinstance(c.func, ast.Name) and c.func.id == callee) or (isinstance(c.func, ast.Attribute) and c.func.attr == callee))]
            if calls:
                inner = [m for m in ast.walk(n) if m is not n and isinstance(m, (ast.For, ast.While)) and any(c in ast.walk(m) for c in calls)]
                if not inner:
                    best = ords[id(n)]
    return best


# ----------------------------------------------------------- task builder
def loop_task(cfg: Cfg, kinds, scen_name="", scen=None, with_logger=False):
    scen = dict(cfg.scen, **(scen or {}))

    def setup(shared):
        shared.checker = Checker(cfg, kinds)
        shared.env_hooks = [env_hook]
        shared.roles = {}
        shared.loop_specs[(cfg.qual, cfg.loop)] = LoopSpec(cand=make_cands(cfg))
        for (q, o), spec in cfg.extra_loops.items():
            if isinstance(o, str):
                o = loop_ordinal_containing_call(shared, q, o)
            shared.loop_specs[(q, o)] = spec
        shared.stubs.update(common_stubs())
        shared.stubs.update(cfg.stubs)
        shared.s0 = 0
        shared.budget = None
        shared.total_episodes = None
        shared.done0 = 0
        if cfg.setup_extra is not None:
            cfg.setup_extra(shared)

    def harness(E):
        args, names = build_args(E, cfg, scen)
        if with_logger and "logger" in names:
            lg = Obj(STUB_LOGGER, {}, name="logger")
            E.register(lg)
            args["logger"] = lg
        env = args["env"]
        sh = E.shared
        sh.s0 = args.get(cfg.counter, 0) if cfg.counter else 0
        total = args.get("total_timesteps")
        sh.budget = None
        if total is not None and not isinstance(total, Anything):
            sh.budget = C.smax(0, C.binop("-", total, sh.s0))
        sh.total_episodes = args.get("total_episodes") if cfg.episodes else None
        sh.done0 = env.fields["$ndone"]
        ck = sh.checker
        for role in (cfg.cadence or {}):
            env.fields[f"$tu[{role}]"] = 0
            env.fields[f"$tx[{role}]"] = 0
        env.fields["$trained"] = 0
        env.fields["$released"] = 0
        E.st.ghost["epoch0"] = 0
        if cfg.fn == "train_td7":
            E.st.ghost["epoch0"] = C.smax(0, C.binop("-", sh.s0, args["learning_starts"]))
        if cfg.pre is not None:
            cfg.pre(E, ck, args)
        result = E.call(cfg.qual, **args)
        executed = ck.executed(E)
        done = C.binop("-", env.fields["$ndone"], sh.done0)
        if "C11" in kinds:
            if sh.budget is not None:
                E.oblige("post.budget.steps_within_remaining_budget", C.compare("<=", executed, sh.budget))
            if sh.total_episodes is not None:
                E.oblige("post.episodes.stops_at_requested_episodes", C.compare("<=", done, sh.total_episodes))
            if cfg.ret is not None:
                got = result.get(cfg.ret) if isinstance(result, NamedTuple) else None
                if got is None:
                    E.st.fail("post.accounting.reported_count", "no step count returned")
                else:
                    E.oblige("post.accounting.reported_equals_start_plus_executed", C.compare("==", got, C.binop("+", sh.s0, executed)))
            E.oblige("canary.c11.no_steps_executed", C.compare("==", executed, 0), assume_after=False)
        if "C01" in kinds:
            E.oblige("canary.c01.cur_is_initial", C.compare("==", env.fields["$nsteps"], env.fields["$n0"]), assume_after=False)
        if "C06" in kinds:
            for role in (cfg.cadence or {}):
                E.oblige(f"target.cadence.changes_exactly_at_documented_points[{role}]",
                         C.compare("==", env.fields.get(f"$tu[{role}]", 0), env.fields.get(f"$tx[{role}]", 0)))
                E.oblige(f"canary.c06.never_updated[{role}]", C.compare("==", env.fields.get(f"$tu[{role}]", 0), 0), assume_after=False)
        if cfg.post is not None:
            cfg.post(E, ck, args, result, kinds)
        E.cover("end")

    nm = cfg.fn + (f"[{scen_name}]" if scen_name else "") + ("[logger]" if with_logger else "")
    return Task(nm, harness, setup=setup)


Cfg.post = None
Cfg.setup_extra = None  # setup_extra(shared): additional hooks / loop specs of one routine
Cfg.pre = None  # pre(E, ck, args): ghost initialisation right before the routine is called


# ------------------------------------------------------------ common stubs
def common_stubs():
    def train_step_with_loss(E, loss, optimizer, q, *a, **k):
        E.shared.checker.update(E, "critic")
        return Anything("loss-values")

    def greedy_policy(E, q_net, obs):
        ck = E.shared.checker
        ck.act(E, obs, "greedy_policy")
        a = E.st.fresh_sym("greedy_action", INT)
        ck.note_action(E, a)
        E.st.ghost.setdefault("greedy_actions", []).append((a, q_net, obs))
        return a

    def linear_schedule(E, total_timesteps, start=1, end=C.frac_of(0.1), fraction=C.frac_of(0.1)):
        return T.fresh_tensor("schedule", (total_timesteps,), REAL, is_input=False)

    def hard_update(E, net, target):
        E.shared.checker.target_update(E, "hard", net, target)

    def soft_update(E, net, target, tau):
        E.shared.checker.target_update(E, "soft", net, target, tau)

    def make_sample_actions(E, action_space, exploration_noise):
        def sampler(E, policy, obs, key):
            ck = E.shared.checker
            ck.act(E, obs, "sample_actions")
            return ck.policy_action(E, policy)
        return Builtin("stub.sample_actions", sampler)

    def make_sample_target_actions(E, action_space, noise, noise_clip):
        return Builtin("stub.sample_target_actions", lambda E, *a, **k: Anything("target-actions"))

    def actor_update(what):
        def f(E, *a, **k):
            E.shared.checker.update(E, what)
            return Anything(f"{what}-loss")
        return f

    def opaque(name):
        return lambda E, *a, **k: Anything(name)

    B = "rl_blox.blox."
    return {
        ALG + "dqn.train_step_with_loss": train_step_with_loss,
        B + "q_policy.greedy_policy": greedy_policy,
        B + "schedules.linear_schedule": linear_schedule,
        B + "target_net.hard_target_net_update": hard_update,
        B + "target_net.soft_target_net_update": soft_update,
        ALG + "ddpg.make_sample_actions": make_sample_actions,
        ALG + "td3.make_sample_target_actions": make_sample_target_actions,
        ALG + "ddpg.ddpg_update_actor": actor_update("actor"),
        ALG + "sac.sac_update_actor": actor_update("actor"),
        B + "replay_buffer.lap_priority": opaque("priority"),
        B + "replay_buffer.per_priority": opaque("priority"),
    }


# --------------------------------------------------------------- registry
def warm_ge(param):
    return lambda E, s: C.compare(">=", s, E.shared_args[param]) if False else None


def _w_ge(param):
    def w(E, s):
        return C.compare(">=", s, E.st.ghost["args"][param])
    return w


def _w_gt(param):
    def w(E, s):
        return C.compare(">", s, E.st.ghost["args"][param])
    return w


_orig_build = build_args


def build_args(E, cfg, scen):  # noqa: F811
    args, names = _orig_build(E, cfg, scen)
    E.st.ghost["args"] = args
    return args, names


def entropy_control_stub(E, *a, **k):
    o = Obj("stub.EntropyControl", {"alpha_": Anything("alpha")}, name="entropy_control")
    E.register(o)
    return o


@LIB.cls("stub.EntropyControl")
def _stub_ec(E, obj, name):
    if name == "update":
        def upd(E, *a, **k):
            E.shared.checker.update(E, "temperature")
            return Anything("exploration-loss")
        return Builtin("stub.EntropyControl.update", upd)
    return NotImplemented


CONFIGS = {}


def _arg(E, n):
    return E.st.ghost["args"][n]


def cad_dqn_family():
    when = lambda E, s: band(C.compare(">", s, _arg(E, "batch_size")), C.compare("==", C.binop("%", s, _arg(E, "target_update_frequency")), 0))  # noqa: E731
    return {"q_net": dict(kind="hard", when=when)}


def cad_every_gradient_step():
    when = lambda E, s: C.compare(">=", s, _arg(E, "learning_starts"))  # noqa: E731
    times = lambda E: _arg(E, "gradient_steps")  # noqa: E731
    return {"policy": dict(kind="soft", when=when, times=times), "q": dict(kind="soft", when=when, times=times)}


def cad_policy_delay():
    when = lambda E, s: band(C.compare(">=", s, _arg(E, "learning_starts")), C.compare("==", C.binop("%", s, _arg(E, "policy_delay")), 0))  # noqa: E731
    times = lambda E: _arg(E, "gradient_steps")  # noqa: E731
    return {"policy": dict(kind="soft", when=when, times=times), "q": dict(kind="soft", when=when, times=times)}


def cad_sac():
    when = lambda E, s: band(C.compare(">=", s, _arg(E, "learning_starts")), C.compare("==", C.binop("%", s, _arg(E, "target_network_delay")), 0))  # noqa: E731
    return {"q": dict(kind="soft", when=when)}


def cad_mrq():
    def when(E, s):
        ls, s0, td = _arg(E, "learning_starts"), E.shared.s0, _arg(E, "target_delay")
        epoch0 = C.smax(0, C.binop("-", s0, ls))
        first = C.smax(s0, ls)
        epoch = C.binop("+", epoch0, C.binop("+", C.binop("-", s, first), 1))
        return band(C.compare(">=", s, ls), C.compare("==", C.binop("%", epoch, td), 0))
    return {"policy_with_encoder": dict(kind="hard", when=when), "q": dict(kind="hard", when=when)}


def reg(cfg):
    CONFIGS[cfg.fn] = cfg
    return cfg


reg(Cfg("dqn", "train_dqn", True, episodes=False, warmup=_w_gt("batch_size")))
reg(Cfg("nature_dqn", "train_nature_dqn", True, warmup=_w_gt("batch_size"), cadence=cad_dqn_family()))
reg(Cfg("ddqn", "train_ddqn", True, warmup=_w_gt("batch_size"), cadence=cad_dqn_family()))
reg(Cfg("per", "train_ddqn_per", True, ret=None, warmup=_w_gt("batch_size"), cadence=cad_dqn_family()))
reg(Cfg("ddpg", "train_ddpg", False, ret="steps_trained", warmup=_w_ge("learning_starts"), cadence=cad_every_gradient_step()))
reg(Cfg("td3", "train_td3", False, warmup=_w_ge("learning_starts"), cadence=cad_policy_delay()))
reg(Cfg("td3_lap", "train_td3_lap", False, episodes=False, warmup=_w_ge("learning_starts"), cadence=cad_policy_delay()))
reg(Cfg("sac", "train_sac", False, warmup=_w_ge("learning_starts"), cadence=cad_sac(),
        stubs={ALG + "sac.EntropyControl": entropy_control_stub}))



def _td7_train_step(E, *a, **k):
    ck = E.shared.checker
    ck.update(E, "td7-train-step")
    env = ck.env(E)
    E.log_write(env.name, "$trained")
    env.fields["$trained"] = C.binop("+", env.fields.get("$trained", 0), 1)
    if {"C05", "C06"} & ck.kinds:
        # wiring of train_td7: the online, fixed and target components handed to the training iteration are pairwise
        # DISTINCT module objects - otherwise an update of one component silently changes another (aliasing), whatever
        # the update routines themselves do
        names_w, _ = _sig(E, ALG + "td7._train_step")
        get = lambda n: (a[names_w.index(n)] if names_w.index(n) < len(a) else k.get(n))  # noqa: E731
        pol, polt = get("policy"), get("policy_target")
        parts = {"embedding": get("embedding"), "critic": get("critic"), "critic_target": get("critic_target")}
        for nm, p_ in (("policy", pol), ("policy_target", polt)):
            if isinstance(p_, Obj):
                parts[f"{nm}.actor"] = p_.fields.get("actor")
                parts[f"{nm}.embedding"] = p_.fields.get("embedding")
        keys = sorted(parts)
        shared_pairs = [(x, y) for i, x in enumerate(keys) for y in keys[i + 1:] if parts[x] is not None and parts[x] is parts[y]]
        if shared_pairs:
            E.st.fail("wiring.online_fixed_and_target_modules_are_distinct_objects", f"the same module object is used as {shared_pairs}")
        else:
            E.st.ok("wiring.online_fixed_and_target_modules_are_distinct_objects")
    if "C15" in ck.kinds:
        # the epoch handed to the training iteration counts released iterations
        names, cl = _sig(E, ALG + "td7._train_step")
        epoch = a[names.index("epoch")] if len(a) > names.index("epoch") else k.get("epoch")
        E.oblige("release.epoch_counts_training_iterations", C.compare("==", epoch, C.binop("+", E.st.ghost["epoch0"], env.fields["$trained"])))
    return Anything("metrics-epochs")


def _assess_stub(E, checkpoint_state, steps_per_episode, episode_return, epoch, *a, **k):
    """contract of assess_performance_and_checkpoint proved in C15: returns
    (update_checkpoint, training_steps) with training_steps >= 0"""
    ck = E.shared.checker
    env = ck.env(E)
    if "C15" in ck.kinds:
        E.oblige("assess.pre.called_when_episode_ended", C.unop("not", env.fields["$alive"]) if not isinstance(env.fields["$alive"], bool) else (not env.fields["$alive"]))
        E.oblige("assess.pre.steps_of_the_episode_that_just_ended", C.compare("==", steps_per_episode, env.fields["$eplen"]))
        E.oblige("assess.pre.return_of_the_episode_that_just_ended", C.compare("==", episode_return, env.fields["$epret"]))
        E.oblige("assess.pre.epoch_is_training_iteration_count", C.compare("==", epoch, C.binop("+", E.st.ghost["epoch0"], env.fields.get("$trained", 0))))
    # ghost: ordinal of the episode assessed most recently (checked at the following reset: every episode that ends
    # once learning has started - terminated OR truncated - is assessed, so none of its steps is lost)
    E.log_write(env.name, "$assessed_ndone")
    env.fields["$assessed_ndone"] = env.fields["$ndone"]
    upd = E.st.fresh_sym("update_checkpoint", BOOL)
    tr = E.st.fresh_sym("training_steps", INT)
    E.assume(tr >= 0)
    for key, inc in (("$released", tr), ("$tx[policy]", C.ite(upd, 1, 0))):
        E.log_write(env.name, key)
        env.fields[key] = C.binop("+", env.fields.get(key, 0), inc)
    return (upd, tr)


def _td7_role(E, net):
    return None


def _td7_inner(L):
    """released training iterations: for delayed_train_step_idx in range(1, training_steps + 1)"""
    E = L.E
    env = E.heap["env"].fields
    e0 = L.heap_entry["env"]
    done = C.binop("-", L.it, L.lo)
    out = [("trained==entry+iterations", C.compare("==", env.get("$trained", 0), C.binop("+", e0.get("$trained", 0), done)))]
    if "epoch" in L.entry:
        out.append(("epoch==entry+iterations", C.compare("==", L["epoch"], C.binop("+", L.entry["epoch"], done))))
    return out


def _td7_cands(L, executed):
    E = L.E
    env = E.heap["env"].fields
    out = [("trained==released", C.compare("==", env.get("$trained", 0), env.get("$released", 0)))]
    if "epoch" in L.entry and "epoch" in L.frame.vars:
        out.append(("epoch==epoch0+trained", C.compare("==", L["epoch"], C.binop("+", L.entry["epoch"], env.get("$trained", 0)))))
    return out


def _td7_post(E, ck, args, result, kinds):
    env = ck.env(E).fields
    if "C15" in kinds:
        E.oblige("release.training_iterations_equal_released_steps", C.compare("==", env.get("$trained", 0), env.get("$released", 0)))
        E.oblige("canary.c15.nothing_trained", C.compare("==", env.get("$trained", 0), 0), assume_after=False)


TD7 = reg(Cfg("td7", "train_td7", False, warmup=_w_ge("learning_starts"), cands_extra=_td7_cands,
              cadence={"policy": dict(kind="hard", when=lambda E, s: False)},
              extra_loops={(ALG + "td7.train_td7", "_train_step"): LoopSpec(inv=_td7_inner)},
              stubs={ALG + "td7._train_step": _td7_train_step, "rl_blox.blox.checkpointing.assess_performance_and_checkpoint": _assess_stub}))
TD7.post = _td7_post


def _upd(what):
    def f(E, *a, **k):
        E.shared.checker.update(E, what)
        return Anything(what)
    return f


def _mrq_cands(L, executed):
    E = L.E
    ls, s0 = _arg(E, "learning_starts"), E.shared.s0
    if "epoch" not in L.frame.vars or "epoch" not in L.entry:
        return []
    step = C.binop("+", s0, executed)
    trained = C.smax(0, C.binop("-", step, C.smax(s0, ls)))
    return [("epoch==epoch0+training_iterations", C.compare("==", L["epoch"], C.binop("+", L.entry["epoch"], trained)))]


def _mrq_wiring(what, qual, online, separate):
    """contract stub of an MR.Q update routine as called from train_mrq (C05 / C06: module wiring): the routine is
    handed the ONLINE components it is documented to train (`online`: parameter -> path below the routine's arguments)
    and its target parameters are objects separate from them (`separate`: pairs of parameters)"""
    def f(E, *a, **k):
        ck = E.shared.checker
        ck.update(E, what)
        if {"C05", "C06"} & ck.kinds:
            names, _ = _sig(E, qual)
            kw = dict(k)
            for n, v in zip(names, a):
                kw[n] = v
            args = E.st.ghost["args"]
            for par, path in online.items():
                want = args.get(path[0])
                for attr in path[1:]:
                    want = want.fields.get(attr) if isinstance(want, Obj) else None
                ok = want is not None and kw.get(par) is want
                (E.st.ok if ok else (lambda nm: E.st.fail(nm, f"{what}: parameter {par!r} is {_nm(kw.get(par))}, the online component is {'.'.join(path)}")))(
                    f"wiring.{what}.trains_the_online_component[{par}]")
            for x, y in separate:
                ok = kw.get(x) is not None and kw.get(x) is not kw.get(y)
                (E.st.ok if ok else (lambda nm: E.st.fail(nm, f"{what}: {x} and {y} are the same object")))(f"wiring.{what}.target_is_a_separate_object[{y}]")
        return Anything(what)
    return f


reg(Cfg("mrq", "train_mrq", False, warmup=_w_ge("learning_starts"), cadence=cad_mrq(), cands_extra=_mrq_cands,
        stubs={"rl_blox.blox.embedding.model_based_encoder.update_model_based_encoder":
               _mrq_wiring("encoder", "rl_blox.blox.embedding.model_based_encoder.update_model_based_encoder",
                           {"encoder": ("policy_with_encoder", "encoder")}, [("encoder", "encoder_target")]),
               ALG + "mrq.update_critic_and_policy":
               _mrq_wiring("critic-and-policy", ALG + "mrq.update_critic_and_policy",
                           {"q": ("q",), "policy": ("policy_with_encoder", "policy"), "encoder": ("policy_with_encoder", "encoder")},
                           [("q", "q_target"), ("encoder", "encoder_target")])}))


def _mpc_action(E, config, state, optimize_fn, obs):
    ck = E.shared.checker
    ck.act(E, obs, "mpc_action")
    return ck.policy_action(E)


def _pets_warm(E, s):
    ck = E.shared.checker
    return C.compare(">=", ck.executed(E), E.st.ghost["args"]["learning_starts"])


reg(Cfg("pets", "train_pets", False, counter=None, ret=None, episodes=False, warmup=_pets_warm, concrete={"plan_horizon": 2},
        stubs={ALG + "pets._init_mpc_optimizer_cem": lambda E, *a, **k: (Anything("sample_fn"), Anything("update_fn")),
               ALG + "pets._pets_optimize": lambda E, *a, **k: Anything("plan"),
               ALG + "pets.mpc_action": _mpc_action,
               ALG + "pets.update_dynamics_model": _upd("dynamics-model")}))


def td7_tasks(kinds):
    out = []
    if kinds == {"C05"}:
        return [loop_task(TD7, kinds, "wiring", {}), loop_task(CONFIGS["train_mrq"], kinds, "wiring", {})]
    if "C06" in kinds or "C15" in kinds:
        out.append(loop_task(TD7, kinds, "use_checkpoints", {"use_checkpoints": True}))
        out.append(loop_task(TD7, kinds, "use_checkpoints,episode-limit", {"use_checkpoints": True, "total_episodes": lambda E: E.int("total_episodes", 1)}))
    if "C06" in kinds:
        out.append(Task("td7._train_step", h_td7_train_step, setup=_td7_step_setup))
    return out


def _td7_step_setup(shared):
    shared.checker = Checker(Cfg("td7", "_train_step", False), {"C06"})
    shared.env_hooks = []
    seq = []

    def hard(E, net, target):
        E.st.ghost.setdefault("hard_updates", []).append((net, target))

    def upd(name, n=1):
        return lambda E, *a, **k: (Anything(name) if n == 1 else tuple(Anything(f"{name}{i}") for i in range(n)))

    shared.stubs.update({
        "rl_blox.blox.target_net.hard_target_net_update": hard,
        "rl_blox.blox.embedding.sale.update_sale": upd("embedding-loss"),
        ALG + "td7.td7_update_critic": upd("critic", 3),
        ALG + "td7.td7_update_actor": upd("actor-loss"),
        "rl_blox.blox.replay_buffer.lap_priority": upd("priority"),
    })


def h_td7_train_step(E):
    """TD7's training iteration: the four target copies happen iff epoch %
    target_delay == 0, by hard copy, in the documented order (targets take the
    online / fixed values before the fixed embedding takes the new embedding)"""
    mod = lambda n: mk_stub_module(E, n)  # noqa: E731
    embedding, critic, critic_target = mod("embedding"), mod("critic"), mod("critic_target")
    policy, policy_target = mod("policy"), mod("policy_target")
    for p in (policy, policy_target):
        E.getattr(p, "actor")
        E.getattr(p, "embedding")
    vcs = E.call(ALG + "td7.ValueClippingState")
    rb = Obj(STUB_BUFFER, {"$n": E.int("buffer.len0", 1)}, name="replay_buffer")
    E.register(rb)
    epoch = E.int("epoch", 1)
    target_delay = E.int("target_delay", 1)
    policy_delay = E.int("policy_delay", 1)
    E.call(ALG + "td7._train_step", Anything("sample_target_actions"), embedding, mk_optimizer(E, "embedding_optimizer", embedding), critic, critic_target,
           mk_optimizer(E, "critic_optimizer", critic), policy, policy_target, mk_optimizer(E, "actor_optimizer", policy.fields["actor"]), vcs, rb, epoch,
           Anything("key"), Anything("rng"), E.real("gamma", 0, 1), E.int("batch_size", 1), policy_delay, target_delay, E.real("lap_alpha", 0), E.real("lap_min_priority", 0))
    seq = E.st.ghost.get("hard_updates", [])
    due = E.branch(C.compare("==", epoch % target_delay, 0))
    want = [(policy.fields["actor"], policy_target.fields["actor"]), (critic, critic_target),
            (policy.fields["embedding"], policy_target.fields["embedding"]), (embedding, policy.fields["embedding"])]
    if due:
        ok = len(seq) == 4 and set((id(a), id(b)) for a, b in seq) == set((id(a), id(b)) for a, b in want)
        (E.st.ok if ok else E.st.fail)("td7.targets_copied_at_target_delay", *([] if ok else [f"{[( _nm(a), _nm(b)) for a, b in seq]}"]))
        if ok:
            order = [(id(a), id(b)) for a, b in seq]
            i_ft = order.index((id(want[2][0]), id(want[2][1])))
            i_f = order.index((id(want[3][0]), id(want[3][1])))
            (E.st.ok if i_ft < i_f else E.st.fail)("td7.fixed_target_takes_fixed_before_fixed_takes_embedding", *([] if i_ft < i_f else ["order reversed"]))
    else:
        (E.st.ok if not seq else E.st.fail)("td7.no_target_change_between_update_points", *([] if not seq else [f"{len(seq)} copies off schedule"]))
    E.oblige("canary.td7step", C.compare("==", epoch, 0), assume_after=False)


def tasks_for(kinds, names=None):
    out = []
    for fn, cfg in CONFIGS.items():
        if names and fn not in names:
            continue
        if "C06" in kinds:
            if not cfg.cadence or fn == "train_td7":
                continue
            # the inner gradient-step loop is unrolled for 1 and 2 gradient steps
            out.append(loop_task(cfg, kinds, "gradient_steps=1", {"gradient_steps": 1}))
            out.append(loop_task(cfg, kinds, "gradient_steps=2", {"gradient_steps": 2}))
            continue
        out.append(loop_task(cfg, kinds))
        if cfg.episodes:
            out.append(loop_task(cfg, kinds, "episode-limit", {"total_episodes": lambda E: E.int("total_episodes", 1)}))
    # tabular loops, on-policy collectors, rollout helper (contracts/loops_extra.py)
    out.extend(loops_extra.extra_tasks(kinds, names))
    return out


def c13_loop_tasks():
    """C13, last sentence: value-based training loops act greedily on their current
    estimates except with the configured / scheduled exploration probability"""
    return loops_extra.c13_tasks()


from . import loops_extra  # noqa: E402  (registers nothing in CONFIGS; needs everything above)

# replay drivers by obligation prefix (the runner takes the last matching prefix)
REPLAY = {"": "loops_native"}
REPLAY.update(loops_extra.REPLAY)
EXTRA_TRUSTED, EXTRA_ASSUMPTIONS, EXTRA_NOT_COVERED = loops_extra.TRUSTED, loops_extra.ASSUMPTIONS, loops_extra.NOT_COVERED
