"""C13 - policy heads: sampling, log-probability and entropy describe one distribution.

Functions under contract (real source, interpreted):
  rl_blox.blox.function_approximator.policy_head.GaussianTanhPolicy.__init__/__call__/sample/log_probability/entropy
  rl_blox.blox.function_approximator.policy_head.GaussianPolicy.__init__/__call__/sample/log_probability/entropy
  rl_blox.blox.function_approximator.policy_head.SoftmaxPolicy.__init__/__call__/logits/sample/log_probability/entropy
  rl_blox.blox.q_policy.greedy_policy
  rl_blox.blox.value_policy.greedy_policy / epsilon_greedy_policy
(the epsilon-greedy branches inside the train_* loops: contracts/loops, not here)

Postconditions are transcribed from the property statement (DESIGN 5, C13):
spec parameters of a Gaussian head for observation o
   mu(o)    = net(o).mean            (tanh head: tanh(net(o).mean) * (high-low)/2 + (high+low)/2)
   sigma(o) = exp(clip(0.5 * net(o).log_var, -20, 2))
and, with the SAME (mu, sigma) terms in all three,
   sample(o, key)          == mu + sigma * z(key)      z: standard noise, a function of key and index only
   log_probability(o, a)   == sum_d [ -log sigma_d - 0.5 log(2 pi) - 0.5 ((a_d - mu_d)/sigma_d)^2 ]
   entropy(o)[..., d]      == 0.5 log(2 pi e) + log sigma_d
softmax head: p = policy(o): p_k >= 0, sum_k p_k == 1, p_k * exp(l_j) == p_j * exp(l_k);
   log_probability(o, a) == log p_a;  entropy == - sum_k p_k log p_k;  sample in [0, n);
   the Categorical is built from the network's logits in all three methods.
Definedness: every method returns (no exception) and has the documented shape
for an unbatched observation, batch size 1, 2, generic N, action dimension 1 and
generic - one Task per (head, shape scenario).
Greedy: the result a* satisfies 0 <= a* < n and Q[a*] >= Q[a] for all a;
epsilon-greedy: epsilon == 0 => the greedy action; epsilon == 1 => the result
does not depend on the Q-table (two tables, same key).
"""
from fractions import Fraction

import z3

from pyvc import core as C
from pyvc import tensor as T
from pyvc.core import INT, KEY, REAL, Sym, band, bnot, bor, implies
from pyvc.lib import LIB
from pyvc.lib.ext_spaces import mk_box
from pyvc.lib.jax_model import PI
from pyvc.lib.nnx_model import mk_net, net_call, rows_tensor
from pyvc.runner import Task

PROPERTY = "C13"
LEVEL = "proof"
PH = "rl_blox.blox.function_approximator.policy_head."
HALF = Fraction(1, 2)


# ------------------------------------------------------------------ helpers
def scenario(E, batch, act1):
    """dims of one shape scenario.  D_obs is created first so that the
    concrete confirmation run uses D_obs=2, N=3, D_act=4 (pairwise distinct)."""
    D = E.dim("D_obs")
    if batch == "N":
        bs = (E.dim("N"),)
    elif batch == 0:
        bs = ()
    else:
        bs = (batch,)
    A = 1 if act1 else E.dim("D_act")
    return D, bs, A


def in_range(idx, shape):
    cs = [z3.And(C.to_z3(i) >= 0, C.to_z3(i) < T.dim_z(d)) for i, d in zip(idx, shape)]
    return z3.And(*cs) if cs else z3.BoolVal(True)


def shape_of(v):
    return T.as_tensor(v).shape if not isinstance(v, (tuple, list)) else None


def same_shape(a, b):
    return len(a) == len(b) and all(T.dim_eq(T.norm_dim(x), T.norm_dim(y)) for x, y in zip(a, b))


def call_defined(E, name, fn, *args):
    """definedness obligation `<name>.defined`: the call returns (no python exception)"""
    tag, r = E.call_catch(fn, *args)
    if tag == "raise":
        E.st.fail(f"{name}.defined", f"raises {r.exc_type}: {r.msg}")
        return None, False
    E.st.ok(f"{name}.defined")
    return r, True


def forall_eq(E, name, got, want, rel="=="):
    """elementwise `got rel want` with the required shape (= shape of `want`);
    nothing is assumed afterwards (a failed clause must not mask later ones)"""
    if isinstance(got, (tuple, list)):
        E.st.fail(name, f"result is a {type(got).__name__} of length {len(got)}, an array of shape {T.as_tensor(want).shape} is required")
        return
    got, want = T.as_tensor(got), T.as_tensor(want)
    if not same_shape(got.shape, want.shape):
        E.st.fail(name, f"shape {got.shape}, required {want.shape}")
        return
    n = want.ndim
    sks = [E.st.fresh(f"i{k}", INT) for k in range(n)]
    goal = z3.Implies(in_range(sks, want.shape), C.as_bool(C.compare(rel, got.at(*sks), want.at(*sks))))
    E.st.oblige(name, goal, assume_after=False, extra_pool=sks)


def new_dists(E, k0):
    return E.st.ghost.get("tfp_dists", [])[k0:]


def n_dists(E):
    return len(E.st.ghost.get("tfp_dists", []))


def log_2pi_half():
    return C.binop("*", HALF, T.tfn("log", C.binop("*", 2, Sym(PI))))


def log_2pie_half():
    return C.binop("*", HALF, T.tfn("log", C.binop("*", C.binop("*", 2, Sym(PI)), T.tfn("exp", 1))))


def jax_normal(E, key, shape):
    """the term jax.random.normal(key, shape) of the jax model"""
    return LIB.funcs["jax.random.normal"].fn(E, key, tuple(shape))


# ------------------------------------------------------------ Gaussian heads
def gauss_spec(E, kind, net, obs, box):
    y, lv = net_call(E, net, obs)
    if kind == "tanh":
        low, high = box.fields["low"], box.fields["high"]
        mu = T.tfn("tanh", y) * ((high - low) / 2) + (high + low) / 2
    else:
        mu = y
    sigma = T.tfn("exp", T.clip(HALF * lv, -20, 2))
    return T.as_tensor(mu), T.as_tensor(sigma)


def mk_gauss_head(E, kind, name, A):
    net = mk_net(E, name, (A, A))  # GaussianMLP: (mean, log_var), each batch_shape + (A,)
    if kind == "tanh":
        box = mk_box(E, f"{name}_action_space", A)
        pol = E.call(PH + "GaussianTanhPolicy", net, box)
    else:
        box = None
        pol = E.call(PH + "GaussianPolicy", net)
    return net, box, pol


def dist_params_clause(E, name, k0, mu, sigma):
    ds = new_dists(E, k0)
    for j, d in enumerate(ds):
        tag = name if len(ds) == 1 else f"{name}#{j}"
        loc, scale = d.fields.get("loc"), d.fields.get("scale")
        if loc is None or scale is None or not same_shape(loc.shape, mu.shape) or not same_shape(scale.shape, sigma.shape):
            E.st.fail(f"{tag}.distribution_built_from_mu_sigma",
                      f"distribution parameters of shape {getattr(loc, 'shape', None)} / {getattr(scale, 'shape', None)}, (mu, sigma) have shape {mu.shape}")
            continue
        forall_eq(E, f"{tag}.distribution_loc_is_mu", loc, mu)
        forall_eq(E, f"{tag}.distribution_scale_is_sigma", scale, sigma)


def h_gauss(kind, batch, act1):
    def h(E):
        D, bs, A = scenario(E, batch, act1)
        obs = rows_tensor(E, "obs", bs, D)
        act = T.fresh_tensor("action", bs + (A,), REAL)
        key = E.val("key", KEY)
        net, box, pol = mk_gauss_head(E, kind, "net", A)
        mu, sigma = gauss_spec(E, kind, net, obs, box)
        want_shape = bs + (A,)

        # ---- __call__
        r, ok = call_defined(E, "call", pol, obs)
        if ok:
            if kind == "tanh":
                if isinstance(r, tuple) and len(r) == 2:
                    forall_eq(E, "call.mean_is_tanh_scaled_mu", r[0], mu)
                    forall_eq(E, "call.std_is_exp_clipped_half_logvar", r[1], sigma)
                    low, high = box.fields["low"], box.fields["high"]
                    forall_eq(E, "call.mean_ge_action_low", r[0], T.as_tensor(low) + T.full(want_shape, Fraction(0)), rel=">=")
                    forall_eq(E, "call.mean_le_action_high", r[0], T.as_tensor(high) + T.full(want_shape, Fraction(0)), rel="<=")
                    forall_eq(E, "call.std_positive", r[1], T.full(want_shape, Fraction(0)), rel=">")
                else:
                    E.st.fail("call.returns_mean_and_std", f"result {r!r}")
            else:
                forall_eq(E, "call.is_mean", r, mu)

        # ---- sample
        s, ok = call_defined(E, "sample", E.getattr(pol, "sample"), obs, key)
        if ok:
            # the head's standard noise z(key): jax.random.normal(key, shape) where the head draws it
            # itself (tanh head), the library's key-determined noise where tfp draws (ext_tfp)
            if kind == "tanh" or len(want_shape) == 1:
                z = jax_normal(E, key, want_shape)
            else:
                from pyvc.lib.ext_tfp import _noise

                z = _noise("tfp_mvn_noise", key, want_shape)
            forall_eq(E, "sample.is_mu_plus_sigma_times_key_noise", s, mu + sigma * z)
            # standardised-noise invariance: a second head with other parameters, other observations, same key
            net2, box2, pol2 = mk_gauss_head(E, kind, "net_b", A)
            obs2 = rows_tensor(E, "obs_b", bs, D)
            mu2, sigma2 = gauss_spec(E, kind, net2, obs2, box2)
            s2, ok2 = call_defined(E, "sample.second_head", E.getattr(pol2, "sample"), obs2, key)
            if ok2 and same_shape(T.as_tensor(s).shape, want_shape) and same_shape(T.as_tensor(s2).shape, want_shape):
                forall_eq(E, "sample.noise_independent_of_mu_sigma", (T.as_tensor(s) - mu) * sigma2, (T.as_tensor(s2) - mu2) * sigma)

        # ---- log_probability
        k0 = n_dists(E)
        lp, ok = call_defined(E, "log_probability", E.getattr(pol, "log_probability"), obs, act)
        if ok:
            term = -T.tfn("log", sigma) - log_2pi_half() - HALF * ((act - mu) / sigma) ** 2
            forall_eq(E, "log_probability.is_diagonal_gaussian_log_density", lp, T.reduce(term, "sum", -1))
            dist_params_clause(E, "log_probability", k0, mu, sigma)

        # ---- entropy
        k0 = n_dists(E)
        en, ok = call_defined(E, "entropy", E.getattr(pol, "entropy"), obs)
        if ok:
            forall_eq(E, "entropy.per_dimension_closed_form", en, log_2pie_half() + T.tfn("log", sigma))
            dist_params_clause(E, "entropy", k0, mu, sigma)

        # ---- canaries
        forall_eq(E, "canary.sigma_is_one", sigma, T.full(want_shape, Fraction(1)))
        if lp is not None and not isinstance(lp, (tuple, list)):
            lpt = T.as_tensor(lp)
            E.oblige("canary.log_probability_is_zero", C.compare("==", lpt.at(*([0] * lpt.ndim)), 0), assume_after=False)
    return h


# -------------------------------------------------------------- softmax head
def log_observer(E, fn, args, kwargs):
    """records every jnp.log executed by the code under contract whose operand is a softmax output"""
    if isinstance(fn, C.Builtin) and fn.name in ("jax.numpy.log", "numpy.log") and not E.st.ghost.get("in_spec"):
        if args and getattr(args[0], "from_softmax", False):
            E.st.ghost.setdefault("log_of_softmax", []).append(args[0])
    return None


def setup_softmax(shared):
    shared.observers.append(log_observer)


def h_softmax(batch, act1):
    def h(E):
        D, bs, K = scenario(E, batch, act1)
        obs = rows_tensor(E, "obs", bs, D)
        key = E.val("key", KEY)
        if bs:
            act = T.fresh_tensor("action", bs, INT)
            E.st.assume_forall([INT] * len(bs), lambda *i: z3.And(C.as_int(act.at(*i)) >= 0, C.as_int(act.at(*i)) < T.dim_z(K)), "action.range")
        else:
            act = E.int("action", 0)
            E.assume(C.compare("<", act, K))
        net = mk_net(E, "net", K)
        pol = E.call(PH + "SoftmaxPolicy", net)
        L = net_call(E, net, obs)  # the network's logits, batch_shape + (K,)
        nb = len(bs)

        def logits_clause(name, k0):
            ds = new_dists(E, k0)
            if not ds:
                E.st.fail(f"{name}.categorical_built_from_net_logits", "no Categorical distribution was constructed")
            for j, d in enumerate(ds):
                tag = name if len(ds) == 1 else f"{name}#{j}"
                if "logits" not in d.fields:
                    E.st.fail(f"{tag}.categorical_built_from_net_logits", f"distribution {d!r}")
                else:
                    forall_eq(E, f"{tag}.categorical_built_from_net_logits", d.fields["logits"], L)

        # ---- logits
        lg, ok = call_defined(E, "logits", E.getattr(pol, "logits"), obs)
        if ok:
            forall_eq(E, "logits.is_net_output", lg, L)

        # ---- __call__: action probabilities
        p, ok = call_defined(E, "call", pol, obs)
        p_ok = False
        if ok:
            forall_eq(E, "call.probabilities_nonnegative", p, T.full(L.shape, Fraction(0)), rel=">=")
            p_ok = not isinstance(p, (tuple, list)) and same_shape(T.as_tensor(p).shape, L.shape)
            if p_ok:
                p = T.as_tensor(p)
                forall_eq(E, "call.probabilities_sum_to_one", T.reduce(p, "sum", -1), T.full(bs, Fraction(1)))
                # p_k / p_j == exp(l_k) / exp(l_j)
                sks = [E.st.fresh(f"b{k}", INT) for k in range(nb)] + [E.st.fresh("k", INT), E.st.fresh("j", INT)]
                b, k, j = sks[:nb], sks[nb], sks[nb + 1]
                goal = z3.Implies(z3.And(in_range(b + [k], L.shape), in_range(b + [j], L.shape)),
                                  C.as_real(p.at(*b, k)) * C.as_real(T.scalar_fn("exp", L.at(*b, j))) == C.as_real(p.at(*b, j)) * C.as_real(T.scalar_fn("exp", L.at(*b, k))))
                E.st.oblige("call.probabilities_proportional_to_exp_logits", goal, assume_after=False, extra_pool=sks)

        # ---- sample
        k0 = n_dists(E)
        s, ok = call_defined(E, "sample", E.getattr(pol, "sample"), obs, key)
        if ok:
            if isinstance(s, (tuple, list)) or T.as_tensor(s).sort != INT:
                E.st.fail("sample.is_integer_action", f"result {s!r}")
            else:
                forall_eq(E, "sample.action_ge_0", s, T.full(bs, 0, INT), rel=">=")
                forall_eq(E, "sample.action_lt_n", s, T.full(bs, K if isinstance(K, int) else K, INT), rel="<")
            logits_clause("sample", k0)

        # ---- log_probability
        k0 = n_dists(E)
        lp, ok = call_defined(E, "log_probability", E.getattr(pol, "log_probability"), obs, act)
        if ok:
            if p_ok:
                want = T.Tensor(bs, lambda *i: T.scalar_fn("log", p.at(*i, act.at(*i) if nb else act)), REAL)
                forall_eq(E, "log_probability.is_log_of_selected_probability", lp, T.unwrap0(want))
            logits_clause("log_probability", k0)

        # ---- entropy
        # exp / log are uninterpreted: the two identities that relate softmax and log_softmax of the SAME logits are
        # supplied as facts (Lean: lemmas/SumLemmas.lean c13_log_of_softmax, c13_exp_of_log_softmax; both need S > 0, which
        # is the softmax model's denominator fact), so that an entropy written through log_softmax meets the same spec
        exL = T.tfn("exp", L)
        SL = T.reduce_axis(exL, L.ndim - 1, "sum")
        s_at = (lambda *b: SL.at(*b)) if isinstance(SL, T.Tensor) else (lambda *b: SL)

        def _id1(*i):
            b, kk = i[:-1], i[-1]
            return z3.Implies(z3.And(in_range(list(i), L.shape), C.as_real(s_at(*b)) > 0),
                              C.as_real(T.scalar_fn("log", C.binop("/", exL.at(*b, kk), s_at(*b))))
                              == C.as_real(C.binop("-", L.at(*b, kk), T.scalar_fn("log", s_at(*b)))))

        def _id2(*i):
            b, kk = i[:-1], i[-1]
            return z3.Implies(z3.And(in_range(list(i), L.shape), C.as_real(s_at(*b)) > 0),
                              C.as_real(T.scalar_fn("exp", C.binop("-", L.at(*b, kk), T.scalar_fn("log", s_at(*b)))))
                              == C.as_real(C.binop("/", exL.at(*b, kk), s_at(*b))))

        E.st.assume_forall([INT] * L.ndim, _id1, "explog.log_of_softmax")
        E.st.assume_forall([INT] * L.ndim, _id2, "explog.exp_of_log_softmax")
        k0 = n_dists(E)
        h0 = len(E.st.ghost.get("log_of_softmax", []))
        en, ok = call_defined(E, "entropy", E.getattr(pol, "entropy"), obs)
        if ok:
            value_ok = False
            if p_ok:
                forall_eq(E, "entropy.is_minus_sum_p_log_p", en, -T.as_tensor(T.reduce(p * T.tfn("log", p), "sum", -1)))
                value_ok = any(r.name == "entropy.is_minus_sum_p_log_p" and r.verdict == "discharged" for r in E.st.results[-2:])
            # float-hazard precondition of log (machine arithmetic is otherwise treated as real): the code under contract
            # must not apply jnp.log to a softmax OUTPUT - in float32 that output is >= 0, not > 0, and 0 * log 0 = NaN.
            # (tfp's Categorical.entropy and jax.nn.log_softmax work on the logits and satisfy it.)
            hz = E.st.ghost.get("log_of_softmax", [])[h0:]
            if hz:
                E.st.fail("entropy.log_argument_cannot_underflow",
                          f"jnp.log applied to a softmax output ({len(hz)} site(s)): a probability that underflows to 0 in float32 "
                          "makes 0 * log 0 = NaN; in real arithmetic the value obligation still holds")
            else:
                E.st.ok("entropy.log_argument_cannot_underflow", backend="structural")
            # the entropy describes the policy's own distribution: EITHER it is the entropy of a Categorical built from the
            # network's logits (library contract), OR no distribution object is involved and the value obligation above
            # (entropy == -sum p log p of the probabilities __call__ returns) has been discharged
            if new_dists(E, k0) or value_ok is not True:
                logits_clause("entropy", k0)
            else:
                E.st.ok("entropy.categorical_built_from_net_logits", backend="structural")

        # ---- canaries
        if p_ok:
            z = [0] * p.ndim
            E.oblige("canary.first_probability_is_half", C.compare("==", p.at(*z), HALF), assume_after=False)
        if lp is not None and not isinstance(lp, (tuple, list)):
            lpt = T.as_tensor(lp)
            E.oblige("canary.log_probability_is_minus_one", C.compare("==", lpt.at(*([0] * lpt.ndim)), -1), assume_after=False)
    return h


# ------------------------------------------------------------------- greedy
def maximiser_clauses(E, name, a, q_row, n):
    """a is an index into q_row (length n) with q_row[a] >= q_row[k] for all k"""
    if isinstance(a, T.Tensor):
        if not a.size_is_one():
            E.st.fail(f"{name}.is_single_action", f"shape {a.shape}")
            return
        a = a.item()
    E.oblige(f"{name}.action_in_range", band(C.compare(">=", a, 0), C.compare("<", a, n)), assume_after=False)
    k = E.st.fresh("k", INT)
    goal = z3.Implies(z3.And(k >= 0, k < T.dim_z(n)), C.as_real(q_row.at(a)) >= C.as_real(q_row.at(Sym(k))))
    E.st.oblige(f"{name}.is_maximiser", goal, assume_after=False, extra_pool=[k, C.to_z3(a)])


def h_greedy_qnet(act1):
    def h(E):
        D = E.dim("D_obs")
        A = 1 if act1 else E.dim("n_actions")
        obs = rows_tensor(E, "obs", (), D)
        q = mk_net(E, "q", A)
        a, ok = call_defined(E, "greedy", "rl_blox.blox.q_policy.greedy_policy", q, obs)
        if ok:
            qv = net_call(E, q, obs)  # Q(obs, .), shape (A,)
            maximiser_clauses(E, "greedy", a, qv, A)
            if not isinstance(a, T.Tensor):
                E.oblige("canary.greedy_is_action_0", C.compare("==", a, 0) if not act1 else C.compare("==", a, 1), assume_after=False)
    return h


def _table(E, name, S, A):
    return T.fresh_tensor(name, (S, A), REAL)


def h_greedy_table(act1):
    def h(E):
        S = E.dim("n_states", 1)
        A = 1 if act1 else E.dim("n_actions")
        qt = _table(E, "q_table", S, A)
        s = E.int("observation", 0)
        E.assume(C.compare("<", s, S))
        a, ok = call_defined(E, "greedy", "rl_blox.blox.value_policy.greedy_policy", qt, s)
        if ok:
            maximiser_clauses(E, "greedy", a, T.index(qt, s), A)
            if not isinstance(a, T.Tensor):
                E.oblige("canary.greedy_is_action_0", C.compare("==", a, 0) if not act1 else C.compare("==", a, 1), assume_after=False)
    return h


def h_eps_greedy(E):
    VP = "rl_blox.blox.value_policy."
    S = E.dim("n_states", 1)
    A = E.dim("n_actions")
    qt = _table(E, "q_table", S, A)
    qt2 = _table(E, "q_table_b", S, A)
    s = E.int("observation", 0)
    E.assume(C.compare("<", s, S))
    key = E.val("key", KEY)
    eps = E.real("epsilon", 0, 1)
    a, ok = call_defined(E, "eps_greedy", VP + "epsilon_greedy_policy", qt, s, eps, key)
    if not ok:
        return
    g = E.call(VP + "greedy_policy", qt, s)
    row = T.index(qt, s)
    E.oblige("eps_greedy.action_in_range", band(C.compare(">=", a, 0), C.compare("<", a, A)), assume_after=False)
    E.oblige("eps_greedy.epsilon_0_is_greedy", implies(C.compare("==", eps, 0), C.compare("==", a, g)), assume_after=False)
    # the documented roll: uniform(subkey) with key, subkey = split(key)
    subkey = LIB.funcs["jax.random.split"].fn(E, key)[1]
    roll = LIB.funcs["jax.random.uniform"].fn(E, subkey)
    k = E.st.fresh("k", INT)
    E.st.oblige("eps_greedy.greedy_unless_roll_below_epsilon",
                z3.Implies(z3.And(C.as_real(roll) >= C.as_real(eps), k >= 0, k < T.dim_z(A)), C.as_real(row.at(a)) >= C.as_real(row.at(Sym(k)))),
                assume_after=False, extra_pool=[k, C.to_z3(a)])
    # epsilon == 1: two different tables, same key, same observation -> same action
    a2, ok2 = call_defined(E, "eps_greedy.second_table", VP + "epsilon_greedy_policy", qt2, s, eps, key)
    if ok2:
        E.oblige("eps_greedy.epsilon_1_ignores_values", implies(C.compare("==", eps, 1), C.compare("==", a, a2)), assume_after=False)
        E.oblige("canary.always_ignores_values", C.compare("==", a, a2), assume_after=False)
    E.oblige("canary.eps_greedy_always_greedy", C.compare("==", a, g), assume_after=False)


# -------------------------------------------------------------------- tasks
SCENARIOS = [("obs1", 0), ("batch1", 1), ("batch2", 2), ("batchN", "N")]

TASKS = []
for _kind, _cls in (("tanh", "GaussianTanhPolicy"), ("plain", "GaussianPolicy")):
    for _sn, _b in SCENARIOS:
        for _a1 in (False, True):
            TASKS.append(Task(f"{_cls}.{_sn}.{'act1' if _a1 else 'actA'}", h_gauss(_kind, _b, _a1)))
for _sn, _b in SCENARIOS:
    for _a1 in (False, True):
        TASKS.append(Task(f"SoftmaxPolicy.{_sn}.{'n1' if _a1 else 'nK'}", h_softmax(_b, _a1), setup=setup_softmax))
TASKS += [
    Task("q_policy.greedy.nA", h_greedy_qnet(False)),
    Task("q_policy.greedy.n1", h_greedy_qnet(True)),
    Task("value_policy.greedy.nA", h_greedy_table(False)),
    Task("value_policy.greedy.n1", h_greedy_table(True)),
    Task("value_policy.epsilon_greedy", h_eps_greedy),
]

TRUSTED = [
    "tfp closed forms (pyvc/lib/ext_tfp.py): Normal.entropy/log_prob/sample, MultivariateNormalDiag.log_prob/entropy/sample, Categorical.log_prob/entropy/sample",
    "softmax lemmas for a symbolic number of actions (jax_model.softmax_last): sum_k exp(l_k) > 0, sum_k softmax(l)_k == 1",
    "real-analysis facts about the uninterpreted exp/log/tanh (tensor.AXIOMS), incl. log(exp t) = t, log(a/b) = log a - log b",
    "networks are row-wise functions of (parameters, observation row); GaussianMLP returns (mean, log_var) of shape batch_shape + (A,) each",
    "reals for floats (exp(-20) > 0: no underflow of the clipped standard deviation)",
    "jit wrappers (nnx.jit / jax.jit) are semantics-preserving",
]
ASSUMPTIONS = [
    "discrete actions passed to log_probability lie in [0, n); observations index the Q-table in range",
    "action_space is a well-formed 1-D Box (low <= high) for the tanh head",
    "shape scenarios: unbatched observation (D,), batch 1, 2 and generic N >= 2; action dimension / number of actions 1 and generic >= 2; actions have the observation's batch shape",
]
NOT_COVERED = [
    "distributional correctness of the samplers' noise (library): only 'function of key and index, independent of mu/sigma' and range facts",
    "the relation between tfp's event-major MultivariateNormalDiag noise and jax.random.normal(key, mean.shape) (the inline comment in GaussianPolicy.sample claims equality; natively false for N, A >= 2; not part of the property)",
    "value_policy.make_q_table (environment-space plumbing) and tuple observations of multi-dimensional tabular spaces",
    "epsilon-greedy branches of the train_* loops (contracts for the training loops)",
]
REPLAY = {
    "GaussianTanhPolicy.": "c13_heads",
    "GaussianPolicy.": "c13_heads",
    "SoftmaxPolicy.": "c13_heads",
    "q_policy.": "c13_heads",
    "value_policy.": "c13_heads",
}


# loop clause: value-based training loops act greedily on their current estimates except with the
# configured / scheduled exploration probability (training-loop machinery, contracts/loops.py)
from . import loops as _loops  # noqa: E402

TASKS += _loops.c13_loop_tasks()
REPLAY["train_"] = "loops_native"
