"""C02 - replay buffer is a faithful fixed-capacity FIFO of whole transitions.

Functions under contract: ReplayBuffer.__init__/add_sample/sample_batch/__len__,
LAP.add_sample/sample_batch, PrioritizedReplayBuffer.sample_batch,
MultiTaskReplayBuffer.__init__/select_task/add_sample/sample_batch/__len__.
Every public operation is proved to preserve the representation invariant WF
(contracts/buffers.py) for symbolic capacity N >= 1 and symbolic history length;
the list-based reference model of the property is the ghost history H_k.
"""
import z3

from pyvc import core as C
from pyvc import tensor as T
from pyvc.core import INT, VAL, Sym, band, bnot, bor, iff, implies
from pyvc.lib.np_model import cast_fn
from pyvc.runner import Task

from . import buffers as B
from .buffers import RB

PROPERTY = "C02"
LEVEL = "proof"


def _sample(E, keys, tag=""):
    return {k: E.val(f"s_{k}{tag}") for k in keys}


# ----------------------------------------------------------------- __init__
def mk_init(cls, keys):
    def h(E):
        N = E.int("N", 1)
        kw = {}
        if keys is not B.DEFAULT_KEYS:
            kw = dict(keys=list(keys), dtypes=[E.shared.lib.builtins["float"]] * len(keys))
        o = E.call(RB + cls, N, **kw)
        f = o.fields
        E.oblige("init.empty", band(C.compare("==", f["current_len"], 0), C.compare("==", f["insert_idx"], 0), C.compare("==", f["buffer_size"], N)))
        E.oblige("init.len", C.compare("==", E.call(E.getattr(o, "__len__")), 0))
        if list(f["buffer"].keys()) != list(keys):
            E.st.fail("init.keys", f"keys {list(f['buffer'].keys())} != {list(keys)}")
        else:
            E.st.ok("init.keys")
        # first addition from the empty state establishes WF with n == 1
        s = _sample(E, keys)
        E.call(E.getattr(o, "add_sample"), **s)
        # storage dtype: the DECLARED one (constructor argument / documented default), not the first sample's
        declared = {k: ("float" if keys is not B.DEFAULT_KEYS else B.DEFAULT_DTYPES[k]) for k in keys}
        for k in keys:
            got = getattr(o.fields["buffer"][k], "dtype", None)
            (E.st.ok if got == declared[k] else (lambda nm, got=got, k=k: E.st.fail(nm, f"storage of {k!r} allocated with dtype {got}, declared {declared[k]}")))(f"add_first.storage_dtype_is_declared[{k}]")
        view = B.BufView(o, list(keys), declared, 1, N, o.fields["buffer"])
        Hm = {k: (lambda j, k=k: cast_fn(view.dtypes[k])(s[k].z)) for k in keys}
        B.oblige_wf(E, "add_first", view, 1, Hm)
        E.oblige("canary.len_stays_zero", C.compare("==", o.fields["current_len"], 0), assume_after=False)
        E.cover("end")
    return h


# --------------------------------------------------------------- add_sample
def mk_add(cls, keys):
    def h(E):
        v = B.make_replay_buffer(E, cls, keys=list(keys))
        if cls != "ReplayBuffer":
            _attach_priority(E, v)
        s = _sample(E, keys)
        N0, ins0, len0 = v.N, v.obj.fields["insert_idx"], v.obj.fields["current_len"]
        E.call(E.getattr(v.obj, "add_sample"), **s)
        Hm = B.extended_history(v, v.n, s)
        B.oblige_wf(E, "add", v, v.n + 1, Hm)
        E.oblige("add.len_is_min", C.compare("==", E.call(E.getattr(v.obj, "__len__")), C.smin(v.n + 1, v.N)))
        E.oblige("add.capacity_unchanged", C.compare("==", v.obj.fields["buffer_size"], N0))
        # newest transition is at the slot written, whole and unmodified up to the dtype
        for k in keys:
            E.oblige(f"add.newest[{k}]", Sym(z3.Select(v.obj.fields["buffer"][k].data, C.to_z3(ins0)) == cast_fn(v.dtypes[k])(s[k].z)))
        E.oblige("canary.len_unchanged", C.compare("==", v.obj.fields["current_len"], len0), assume_after=False)
        E.cover("end")
    return h


def _attach_priority(E, v):
    pr = E.new_arr("priority", v.N, C.REAL)
    pb = E.new_obj(RB + "PriorityBuffer", name="pb", max_priority=E.real("maxp"), priority=pr,
                   sampled_indices=T.fresh_tensor("sampled0", (E.int("B0", 0),), INT))
    v.obj.fields["priority"] = pb
    v.prio = pr
    v.pb = pb
    return pb


# ------------------------------------------------------------- sample_batch
def _row_is_stored(E, prefix, v, batch, idx, B_, using=None):
    """forall row < B: the row equals history entry j(row) in every field, with
    j(row) inside the retained window [n-len, n)."""
    o = v.obj
    n, N = C.to_z3(v.n), C.to_z3(v.N)
    ins, ln = C.to_z3(o.fields["insert_idx"]), C.to_z3(o.fields["current_len"])

    def witness(r):
        i = C.as_int(idx.at(r))
        return z3.If(i < ins, n - ins + i, n - ins - N + i)

    def goal(r):
        j = witness(r)
        parts = [j >= n - ln, j < n]
        for k in v.keys:
            parts.append(C.to_z3(batch.get(k).at(r)) == B.stored(k, v.dtypes[k], j))
        i = C.as_int(idx.at(r))
        parts.append(z3.And(i >= 0, i < ln))  # never an unwritten slot
        return z3.Implies(z3.And(r >= 0, r < C.to_z3(B_)), z3.And(*parts))

    E.st.oblige_forall(f"{prefix}.rows_are_stored_transitions", [INT], goal, hint="row",
                       using=using or ["WF.data", "integers.range", f"{prefix}.interval_law"])


def mk_sample(cls, keys):
    def h(E):
        v = B.make_replay_buffer(E, cls, keys=list(keys))
        bs = E.int("batch_size", 1)
        rng = E.call("numpy.random.default_rng", E.int("seed")) if False else E.shared.lib.funcs["numpy.random.default_rng"].fn(E, E.int("seed"))
        before = {k: v.arrs[k].data for k in keys}
        scal = (v.obj.fields["insert_idx"], v.obj.fields["current_len"])
        batch = E.call(E.getattr(v.obj, "sample_batch"), bs, rng)
        idx = E.st.ghost.get("last_integers")
        if idx is None:
            E.st.fail("sample.uses_generator", "no index draw recorded")
            return
        if list(batch.typ.fields) != list(keys):
            E.st.fail("sample.fields_in_key_order", str(batch.typ.fields))
        else:
            E.st.ok("sample.fields_in_key_order")
        for k in keys:
            t = batch.get(k)
            if not (isinstance(t, T.Tensor) and t.ndim == 1 and T.dim_eq(t.shape[0], bs)):
                E.st.fail(f"sample.shape[{k}]", str(getattr(t, "shape", t)))
            else:
                E.st.ok(f"sample.shape[{k}]")
        _row_is_stored(E, "sample", v, batch, idx, bs)
        same = all(z3.eq(before[k], v.obj.fields["buffer"][k].data) for k in keys)
        if same and v.obj.fields["insert_idx"] is scal[0] and v.obj.fields["current_len"] is scal[1]:
            E.st.ok("sample.frame_buffer_unchanged")
        else:
            E.st.fail("sample.frame_buffer_unchanged", "sample_batch wrote to the buffer")
        E.oblige("canary.row0_is_newest", Sym(C.as_int(idx.at(0)) == C.to_z3(v.obj.fields["insert_idx"])), assume_after=False)
        E.cover("end")
    return h


def h_sample_empty(E):
    """sampling from an empty buffer is a loud rejection, never an unwritten slot"""
    N = E.int("N", 1)
    o = E.call(RB + "ReplayBuffer", N)
    rng = E.shared.lib.funcs["numpy.random.default_rng"].fn(E, 0)
    kind, r = E.call_catch(E.getattr(o, "sample_batch"), E.int("batch_size", 1), rng)
    if kind == "raise":
        E.st.ok("sample_empty.rejected")
    else:
        E.st.fail("sample_empty.rejected", "sampling an empty buffer returned a batch")


TASKS = [
    Task("ReplayBuffer.init", mk_init("ReplayBuffer", B.DEFAULT_KEYS)),
    Task("ReplayBuffer.init[a2c-keys]", mk_init("ReplayBuffer", tuple(B.A2C_KEYS))),
    Task("ReplayBuffer.add_sample", mk_add("ReplayBuffer", B.DEFAULT_KEYS)),
    Task("ReplayBuffer.add_sample[one-key]", mk_add("ReplayBuffer", ("x",))),
    Task("ReplayBuffer.sample_batch", mk_sample("ReplayBuffer", B.DEFAULT_KEYS)),
    Task("ReplayBuffer.sample_batch[empty]", h_sample_empty),
]

TRUSTED = []
ASSUMPTIONS = [
    "storage cast cast_dtype is an (uninterpreted) function of the payload: 'unmodified up to the documented storage dtype'",
    "key sets: default five keys, the A2C key set, a one-key buffer (configuration scenarios); payload shapes and dtypes arbitrary (opaque sort)",
]
NOT_COVERED = []
REPLAY = {"ReplayBuffer.": "c02_buffers", "LAP.": "c02_buffers", "PrioritizedReplayBuffer.": "c02_buffers"}

# ---- multi-task wrapper (modular: per-task buffers are contract stubs, see contracts/multitask.py)
from . import multitask as _MTM  # noqa: E402
from .multitask import TASKS_C02 as _MT  # noqa: E402

TASKS = TASKS + _MT
ASSUMPTIONS = ASSUMPTIONS + _MTM.ASSUMPTIONS
NOT_COVERED = NOT_COVERED + _MTM.NOT_COVERED
REPLAY = dict(REPLAY, **_MTM.REPLAY_C02)
