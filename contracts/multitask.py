"""MultiTaskReplayBuffer (rl_blox/blox/replay_buffer.py) - the multi-task clauses of C02 and C08.

Property text (fixed):
  C02  "In the multi-task buffer, additions go only to the selected task and each
        batch comes from a single task that already has data."
  C08  "... a priority update sets exactly the transitions of the most recently
        sampled batch to the supplied values ... for LAP, PER, the prioritized
        subtrajectory buffer and their multi-task wrapper"

MODULAR verification.  The wrapper owns a python list of per-task buffers and only
delegates; what the per-task operations do is proved by the other C02 / C08 tasks
(ReplayBuffer / LAP / PrioritizedReplayBuffer / PriorityBuffer).  Here every per-task
buffer is a CONTRACT STUB object (class tag `contracts.multitask.TaskBuffer`) with

  ghost fields   $n  number of transitions the buffer has received (symbolic, >= 0)
                 $N  its capacity (symbolic, >= 1)
  add_sample(*a, **k)        records the call;  $n := $n + 1
  sample_batch(*a, **k)      raises ValueError when $n == 0 (C02 `sample_batch[empty]`), otherwise records
                             the call and returns a fresh opaque batch
  update_priority(p)         records the call (C08 `*.update_priority`: writes the priorities of ITS last batch)
  reset_max_priority()       records the call (C08 `*.reset_max_priority`)
  reward_scale(eps)          records the call, returns a fresh real
  len(buffer)                min($n, $N)                      (C02 `add.len_is_min`)

Every call is appended to `E.st.ghost["mt_calls"]` as (stub object, method, args, kwargs, result).
The REAL methods of MultiTaskReplayBuffer are interpreted on top of these stubs and the
obligations are stated over the recorded calls and over the wrapper's fields.

Representation invariant of the wrapper (pre and post of every public operation):

  INV   active_buffers == { t in [0, n_tasks) | buffer t has received >= 1 add_sample }
        i.e. for every t:  t in active_buffers  <=>  $n_t > 0
  J     (C08) sampled_task_idx, once set, is the index of the buffer whose sample_batch produced
        the most recent batch: set by sample_batch, changed by no other operation.

`__init__` establishes INV (no adds, empty set) with independent per-task buffers (checked on REAL
ReplayBuffer copies: writing to one leaves the storage of every other one untouched); select_task,
add_sample, sample_batch, __len__, reward_scale, update_priority, reset_max_priority preserve it.

Bound: the number of tasks is the length of a python list, hence concrete: n_tasks in {1, 2, 3}
(explored on separate paths).  Everything else is symbolic: selected task, previously sampled
task, the requested task id (any integer), per-task counts and capacities, all call arguments;
the set `active_buffers` ranges over ALL subsets of the task ids consistent with INV.
"""
import z3

from pyvc import core as C
from pyvc import tensor as T
from pyvc.core import INT, REAL, Builtin, NDArr, Obj, PyRaise, Sym, band, bnot, bor, implies
from pyvc.lib import LIB
from pyvc.lib.ext_sched import choose
from pyvc.runner import Task

from . import buffers as B
from .buffers import RB

MT = RB + "MultiTaskReplayBuffer"
STUB = "contracts.multitask.TaskBuffer"
MAX_TASKS = 3
BOUND = ("n_tasks in {1, 2, 3} (python list of per-task buffers; every subset of active tasks); "
         "task ids, per-task counts / capacities and all arguments symbolic")


# ------------------------------------------------------------------ per-task contract stub
def calls_of(E):
    return E.st.ghost.setdefault("mt_calls", [])


@LIB.cls(STUB)
def _stub_attr(E, obj, name):
    f = obj.fields

    def rec(args, kwargs, result=None):
        calls_of(E).append((obj, name, tuple(args), dict(kwargs), result))
        return result

    if name == "add_sample":
        def add_sample(E, *a, **k):
            rec(a, k)
            f["$n"] = f["$n"] + 1
        return Builtin(f"{STUB}.add_sample", add_sample)
    if name == "sample_batch":
        def sample_batch(E, *a, **k):
            if E.st.branch(C.as_bool(C.compare("==", f["$n"], 0))):
                calls_of(E).append((obj, "sample_batch!empty", tuple(a), dict(k), None))
                raise PyRaise("ValueError", "sampling from a task buffer that holds no transition")
            return rec(a, k, E.val(f"batch_of[{f['$task']}]"))
        return Builtin(f"{STUB}.sample_batch", sample_batch)
    if name == "update_priority":
        return Builtin(f"{STUB}.update_priority", lambda E, *a, **k: rec(a, k))
    if name == "reset_max_priority":
        return Builtin(f"{STUB}.reset_max_priority", lambda E, *a, **k: rec(a, k))
    if name == "reward_scale":
        return Builtin(f"{STUB}.reward_scale", lambda E, *a, **k: rec(a, k, E.real(f"reward_scale_of[{f['$task']}]")))
    return NotImplemented


def _stub_len(E, v):
    if isinstance(v, Obj) and v.cls == STUB:
        return C.smin(v.fields["$n"], v.fields["$N"])
    return NotImplemented


LIB.len_handlers.append(_stub_len)


def _setup(shared):
    shared.sched_id_range = MAX_TASKS  # set.add(symbolic task id): exact case split over the task ids (ext_sched)


# ------------------------------------------------------------------ symbolic pre-state
class State:
    pass


def mk_state(E, sampled=True):
    """an arbitrary wrapper state satisfying INV, for n_tasks in {1,2,3}"""
    S = State()
    n = 1 + choose(E, MAX_TASKS, "n_tasks_minus_1")
    mask = choose(E, 2 ** n, "active_mask")
    S.n = n
    S.active = {t for t in range(n) if (mask >> t) & 1}
    S.bufs = []
    for t in range(n):
        cnt = E.int(f"adds[{t}]", 0)
        cap = E.int(f"capacity[{t}]", 1)
        E.assume(cnt > 0 if t in S.active else cnt == 0)  # INV
        S.bufs.append(E.new_obj(STUB, name=f"task_buffer[{t}]", **{"$n": cnt, "$N": cap, "$task": t}))
    S.sel = E.int("selected_task", 0, n - 1)
    fields = dict(buffers=list(S.bufs), selected_task=S.sel, active_buffers=set(S.active))
    S.sampled = None
    if sampled:
        S.sampled = E.int("sampled_task_idx", 0, n - 1)
        fields["sampled_task_idx"] = S.sampled
    S.mt = E.new_obj(MT, name="mt", **fields)
    S.snap = [dict(b.fields) for b in S.bufs]
    S.cnt0 = [b.fields["$n"] for b in S.bufs]
    return S


def index_of(S, obj):
    for t, b in enumerate(S.bufs):
        if b is obj:
            return t
    return None


def same(a, b):
    """syntactic identity of two interpreter values"""
    if a is b:
        return True
    if isinstance(a, Sym) and isinstance(b, Sym):
        return z3.eq(a.z, b.z)
    if isinstance(a, (int, str, bool, type(None))) and type(a) is type(b):
        return a == b
    if isinstance(a, (tuple, list)) and type(a) is type(b) and len(a) == len(b):
        return all(same(x, y) for x, y in zip(a, b))
    if isinstance(a, dict) and isinstance(b, dict) and list(a) == list(b):
        return all(same(a[k], b[k]) for k in a)
    return False


def untouched(S, t):
    b, snap = S.bufs[t], S.snap[t]
    return list(b.fields) == list(snap) and all(b.fields[k] is snap[k] for k in snap)


def check(E, name, ok, why=""):
    if ok:
        E.st.ok(name)
    else:
        E.st.fail(name, why or name)


def eq_sym(a, b):
    if not all(isinstance(x, (int, Sym)) and not isinstance(x, bool) for x in (a, b)):
        return z3.BoolVal(False)  # missing field / not an integer
    return C.as_bool(C.compare("==", a, b))


def frame_wrapper(E, prefix, S, selection=True, active=True, last_batch=True):
    """fields of the wrapper an operation must leave alone"""
    f = S.mt.fields
    bl = f.get("buffers")
    check(E, f"{prefix}.frame.buffer_list_unchanged", isinstance(bl, list) and len(bl) == S.n and all(x is y for x, y in zip(bl, S.bufs)),
          "the list of per-task buffers was replaced or reordered")
    if selection:
        E.oblige(f"{prefix}.frame.selection_unchanged", eq_sym(f.get("selected_task"), S.sel))
    if active:
        check(E, f"{prefix}.frame.active_set_unchanged", f.get("active_buffers") == S.active,
              f"active_buffers {f.get('active_buffers')} != {S.active} before the call")
    if last_batch and S.sampled is not None:
        if "sampled_task_idx" not in f:
            E.st.fail(f"{prefix}.frame.last_sampled_task_unchanged", "sampled_task_idx removed")
        else:
            E.oblige(f"{prefix}.frame.last_sampled_task_unchanged", eq_sym(f["sampled_task_idx"], S.sampled))


def oblige_inv(E, prefix, S):
    """INV in the current state:  t in active_buffers  <=>  buffer t has received data"""
    act = S.mt.fields.get("active_buffers")
    if not isinstance(act, set) or not all(isinstance(x, int) and not isinstance(x, bool) and 0 <= x < S.n for x in act):
        E.st.fail(f"{prefix}.inv.active_is_a_set_of_task_ids", f"active_buffers = {act!r}")
        return
    E.st.ok(f"{prefix}.inv.active_is_a_set_of_task_ids")
    for t, b in enumerate(S.bufs):
        cnt = b.fields["$n"]
        E.oblige(f"{prefix}.inv.active_iff_task_has_data", C.as_bool(cnt > 0 if t in act else C.compare("==", cnt, 0)))


def rng_of(E):
    return E.shared.lib.funcs["numpy.random.default_rng"].fn(E, E.int("seed"))


# ------------------------------------------------------------------ __init__ (real ReplayBuffer copies)
def _storage(o):
    """mutable storage cells of a real ReplayBuffer object"""
    cells = [o, o.fields["buffer"]]
    cells += [a for a in o.fields["buffer"].values() if isinstance(a, NDArr)]
    return cells


def h_init(E):
    n = 1 + choose(E, MAX_TASKS, "n_tasks_minus_1")
    N = E.int("N", 1)
    proto = E.call(RB + "ReplayBuffer", N)  # a fresh (empty) prototype buffer
    mt = E.call(MT, proto, n)
    f = mt.fields
    bufs = f.get("buffers")
    if not (isinstance(bufs, list) and len(bufs) == n and all(isinstance(b, Obj) and b.cls is proto.cls for b in bufs)):
        E.st.fail("init.one_buffer_per_task", f"buffers = {bufs!r} for n_tasks = {n}")
        return
    E.st.ok("init.one_buffer_per_task")
    cells = [_storage(b) for b in bufs]
    shared = [(i, j) for i in range(n) for j in range(i + 1, n) if any(x is y for x in cells[i] for y in cells[j])]
    check(E, "init.buffers_are_independent_copies", not shared, f"buffers {shared} share storage")
    for b in bufs:
        E.oblige("init.every_buffer_is_an_empty_copy", band(eq_sym(b.fields["current_len"], 0), eq_sym(b.fields["insert_idx"], 0), eq_sym(b.fields["buffer_size"], N)))
        check(E, "init.every_buffer_has_the_prototype_keys", list(b.fields["buffer"]) == list(proto.fields["buffer"]))
    E.oblige("init.selection_is_task_0", eq_sym(f.get("selected_task"), 0))
    check(E, "init.inv.no_active_task", f.get("active_buffers") == set(), f"active_buffers = {f.get('active_buffers')!r}")
    E.oblige("init.len_is_zero", eq_sym(E.call(E.getattr(mt, "__len__")), 0))
    # sampling before any addition is a loud rejection (no task has data)
    kind, _r = E.call_catch(E.getattr(mt, "sample_batch"), E.int("batch_size0", 1), rng_of(E))
    check(E, "init.sample_without_data_rejected", kind == "raise", "sample_batch returned a batch although no task has data")
    # ---- first addition: (A) without any select_task call -> task 0; (B) after select_task(t), t symbolic
    variant = choose(E, 2, "first_add_variant")
    t = 0
    if variant == 1:
        t = E.int("task_id", 0, n - 1)
        E.call(E.getattr(mt, "select_task"), t)
    before = [(b.fields["current_len"], b.fields["insert_idx"], {k: a.data for k, a in b.fields["buffer"].items()}) for b in bufs]
    s = {k: E.val(f"s_{k}") for k in B.DEFAULT_KEYS}
    E.call(E.getattr(mt, "add_sample"), **s)
    changed = []
    for j, b in enumerate(bufs):
        ln0, ins0, d0 = before[j]
        if not (b.fields["current_len"] is ln0 and b.fields["insert_idx"] is ins0 and all(z3.eq(d0[k], b.fields["buffer"][k].data) for k in d0)):
            changed.append(j)
    pfx = "first_add" if variant == 0 else "first_add_after_select"
    if len(changed) != 1:
        E.st.fail(f"{pfx}.exactly_one_task_buffer_written", f"buffers written: {changed}")
        return
    E.st.ok(f"{pfx}.exactly_one_task_buffer_written")
    k = changed[0]
    E.oblige(f"{pfx}.stored_in_selected_task", eq_sym(t, k))
    E.oblige(f"{pfx}.task_buffer_holds_one_transition", eq_sym(bufs[k].fields["current_len"], 1))
    check(E, f"{pfx}.inv.exactly_that_task_is_active", f.get("active_buffers") == {k}, f"active_buffers = {f.get('active_buffers')!r}, data went to task {k}")
    E.oblige(f"{pfx}.len_is_one", eq_sym(E.call(E.getattr(mt, "__len__")), 1))
    rng = rng_of(E)
    kind, batch = E.call_catch(E.getattr(mt, "sample_batch"), E.int("batch_size", 1), rng)
    if kind == "raise":
        E.st.fail(f"{pfx}.sample_succeeds_from_that_task", f"sample_batch raised {batch} although task {k} has data")
    else:
        E.st.ok(f"{pfx}.sample_succeeds_from_that_task")
        E.oblige(f"{pfx}.batch_comes_from_that_task", eq_sym(f.get("sampled_task_idx"), k))
    E.oblige("canary.first_add_goes_to_last_task", eq_sym(t, n - 1) if n > 1 else eq_sym(bufs[k].fields["current_len"], 0), assume_after=False)
    E.cover("end")


# ------------------------------------------------------------------ select_task
def h_select(E):
    S = mk_state(E)
    tid = E.int("task_id")  # ANY integer
    kind, r = E.call_catch(E.getattr(S.mt, "select_task"), tid)
    valid = band(tid >= 0, tid < S.n)
    if kind == "ok":
        E.oblige("select.accepts_only_valid_ids", valid)
        E.oblige("select.selects_requested_task", eq_sym(S.mt.fields.get("selected_task"), tid))
        frame_wrapper(E, "select", S, selection=False)
    else:
        E.oblige("select.rejects_only_invalid_ids", bnot(valid))
        check(E, "select.rejects_with_ValueError", r.exc_type == "ValueError", f"raised {r.exc_type}")
        frame_wrapper(E, "select.rejected", S)
    check(E, "select.no_task_buffer_touched", not calls_of(E) and all(untouched(S, t) for t in range(S.n)), f"calls {[(index_of(S, c[0]), c[1]) for c in calls_of(E)]}")
    oblige_inv(E, "select", S)
    E.oblige("canary.select_requested_id_always_valid", valid, assume_after=False)
    E.cover("end")


# ------------------------------------------------------------------ add_sample
def h_add(E):
    S = mk_state(E)
    variant = choose(E, 2, "call_variant")
    s = {k: E.val(f"s_{k}") for k in B.DEFAULT_KEYS}
    pos = (E.val("positional_arg"),) if variant else ()
    E.call(E.getattr(S.mt, "add_sample"), *pos, **s)
    calls = calls_of(E)
    if not (len(calls) == 1 and calls[0][1] == "add_sample" and index_of(S, calls[0][0]) is not None):
        E.st.fail("add.delegated_to_exactly_one_task_buffer", f"calls {[(index_of(S, c[0]), c[1]) for c in calls]}")
        return
    E.st.ok("add.delegated_to_exactly_one_task_buffer")
    obj, _m, a, kw, _r = calls[0]
    k = index_of(S, obj)
    E.oblige("add.stored_in_selected_task", eq_sym(S.sel, k))
    check(E, "add.transition_passed_unmodified", same(a, pos) and same(kw, s), f"forwarded {a} {sorted(kw)}")
    check(E, "add.frame.other_task_buffers_untouched", all(untouched(S, t) for t in range(S.n) if t != k))
    E.oblige("add.task_buffer_received_one_transition", eq_sym(obj.fields["$n"], S.cnt0[k] + 1))
    act = S.mt.fields.get("active_buffers")
    check(E, "add.selected_task_becomes_active", isinstance(act, set) and k in act, f"task {k} received data but active_buffers = {act!r}")
    check(E, "add.no_other_task_changes_activity", isinstance(act, set) and act - {k} == S.active - {k}, f"active_buffers {S.active} -> {act!r} on an addition to task {k}")
    frame_wrapper(E, "add", S, active=False)
    oblige_inv(E, "add", S)
    E.oblige("canary.add_goes_to_task_0", eq_sym(S.sel, 0) if S.n > 1 else eq_sym(obj.fields["$n"], S.cnt0[k]), assume_after=False)
    E.cover("end")


# ------------------------------------------------------------------ sample_batch
CONVENTIONS = ["(batch_size, rng)", "(batch_size, rng=rng)", "(batch_size, rng=rng, beta=beta)", "(batch_size=batch_size, rng=rng)", "(batch_size, beta, rng)"]


def sample_call(E, S, conv, tag=""):
    """returns (kind, result, rng, expected positional args, expected keyword args of the delegated call)"""
    bs = E.int(f"batch_size{tag}", 1)
    rng = rng_of(E)
    fn = E.getattr(S.mt, "sample_batch")
    if conv == 0:
        kind, r = E.call_catch(fn, bs, rng)
        return kind, r, rng, (bs,), {}
    if conv == 1:
        kind, r = E.call_catch(fn, bs, rng=rng)
        return kind, r, rng, (bs,), {}
    if conv == 2:
        beta = E.real(f"beta{tag}", 0, 1)
        kind, r = E.call_catch(fn, bs, rng=rng, beta=beta)
        return kind, r, rng, (bs,), {"beta": beta}
    if conv == 4:
        beta = E.real(f"beta{tag}", 0, 1)
        kind, r = E.call_catch(fn, bs, beta, rng)  # the generator is the LAST positional argument
        return kind, r, rng, (bs, beta), {}
    kind, r = E.call_catch(fn, batch_size=bs, rng=rng)
    return kind, r, rng, (), {"batch_size": bs}


def check_sample(E, pfx, S, kind, r, rng, xa, xk, calls, choices, active_before):
    """obligations of ONE sample_batch call; returns the index of the task sampled from (or None)"""
    if not active_before:
        check(E, f"{pfx}.no_data_rejected", kind == "raise" and not calls, "sample_batch returned a batch although no task has data")
        return None
    if kind == "raise":
        E.st.fail(f"{pfx}.succeeds_when_some_task_has_data", f"raised {r} with active tasks {active_before}; delegated calls {[(index_of(S, c[0]), c[1]) for c in calls]}")
        return None
    E.st.ok(f"{pfx}.succeeds_when_some_task_has_data")
    if not (len(calls) == 1 and calls[0][1] == "sample_batch" and index_of(S, calls[0][0]) is not None):
        E.st.fail(f"{pfx}.batch_from_exactly_one_task_buffer", f"calls {[(index_of(S, c[0]), c[1]) for c in calls]}")
        return None
    E.st.ok(f"{pfx}.batch_from_exactly_one_task_buffer")
    obj, _m, a, kw, res = calls[0]
    k = index_of(S, obj)
    check(E, f"{pfx}.task_drawn_with_callers_generator",
          len(choices) == 1 and choices[0]["rng"] is rng, f"{len(choices)} Generator.choice calls on the caller's generator expected 1")
    if len(choices) == 1:
        check(E, f"{pfx}.task_drawn_among_active_tasks", sorted(map(repr, choices[0]["candidates"])) == sorted(map(repr, active_before)),
              f"candidates {choices[0]['candidates']} != active tasks {sorted(active_before)}")
        E.oblige(f"{pfx}.batch_from_the_drawn_task", eq_sym(choices[0]["result"], k))
    check(E, f"{pfx}.sampled_task_is_active", k in active_before, f"batch taken from task {k}, active tasks {sorted(active_before)}")
    E.oblige(f"{pfx}.sampled_task_has_data", C.as_bool(S.bufs[k].fields["$n"] > 0))
    check(E, f"{pfx}.returns_that_buffers_batch", r is res or same(r, res), "the returned value is not the task buffer's batch")
    check(E, f"{pfx}.same_generator_passed_on", kw.get("rng") is rng and not any(x is rng for x in a), "the caller's generator is not passed as rng= to the task buffer")
    rest = {key: v for key, v in kw.items() if key != "rng"}
    check(E, f"{pfx}.remaining_arguments_passed_unmodified", same(tuple(a), tuple(xa)) and same(rest, xk), f"forwarded {a} {sorted(rest)} expected {xa} {sorted(xk)}")
    if "sampled_task_idx" not in S.mt.fields:
        E.st.fail(f"{pfx}.remembers_sampled_task", "sampled_task_idx not set")
    else:
        E.oblige(f"{pfx}.remembers_sampled_task", eq_sym(S.mt.fields["sampled_task_idx"], k))
    return k


def h_sample(E):
    S = mk_state(E)
    conv = choose(E, len(CONVENTIONS), "calling_convention")
    kind, r, rng, xa, xk = sample_call(E, S, conv)
    k = check_sample(E, "sample", S, kind, r, rng, xa, xk, calls_of(E), E.st.ghost.get("choice_calls", []), S.active)
    check(E, "sample.frame.task_buffers_untouched", all(untouched(S, t) for t in range(S.n)))
    frame_wrapper(E, "sample", S, last_batch=False)
    oblige_inv(E, "sample", S)
    if k is not None:
        E.oblige("canary.sample_always_task_0", eq_sym(S.mt.fields["sampled_task_idx"], 0) if S.n > 1 and len(S.active) > 1 else C.as_bool(S.bufs[k].fields["$n"] > 1), assume_after=False)
    E.cover("end")


# ------------------------------------------------------------------ __len__ / reward_scale
def h_len(E):
    S = mk_state(E)
    r = E.call(E.getattr(S.mt, "__len__"))
    total = 0
    for b in S.bufs:
        total = total + C.smin(b.fields["$n"], b.fields["$N"])
    E.oblige("len.is_sum_of_task_buffer_lengths", eq_sym(r, total))
    check(E, "len.frame.task_buffers_untouched", not calls_of(E) and all(untouched(S, t) for t in range(S.n)))
    frame_wrapper(E, "len", S)
    oblige_inv(E, "len", S)
    E.oblige("canary.len_is_first_buffer_len", eq_sym(r, C.smin(S.bufs[0].fields["$n"], S.bufs[0].fields["$N"])) if S.n > 1 else eq_sym(r, 0), assume_after=False)
    E.cover("end")


def h_reward_scale(E):
    S = mk_state(E)
    if not S.active:
        return  # no data at all: undefined (0/0); outside the clause
    eps = E.real("eps")
    r = E.call(E.getattr(S.mt, "reward_scale"), eps)
    calls = calls_of(E)
    asked = [index_of(S, c[0]) for c in calls]
    check(E, "reward_scale.asks_every_nonempty_task_once", all(c[1] == "reward_scale" for c in calls) and sorted(asked) == sorted(S.active), f"asked {asked}, tasks with data {sorted(S.active)}")
    check(E, "reward_scale.same_eps", all(same(c[2], (eps,)) and not c[3] or (not c[2] and same(c[3], {"eps": eps})) for c in calls))
    num, den = 0, 0
    for c in calls:
        ln = C.smin(c[0].fields["$n"], c[0].fields["$N"])
        num = num + c[4] * ln
        den = den + ln
    E.oblige("reward_scale.is_length_weighted_mean", C.as_bool(C.compare("==", r * den, num)))
    check(E, "reward_scale.frame.task_buffers_untouched", all(untouched(S, t) for t in range(S.n)))
    frame_wrapper(E, "reward_scale", S)
    E.oblige("canary.reward_scale_zero", C.as_bool(C.compare("==", r, 0)), assume_after=False)
    E.cover("end")


# ------------------------------------------------------------------ C08: update_priority / reset_max_priority
def fresh_priority(E, tag=""):
    bs = E.int(f"n_priorities{tag}", 1)
    return T.fresh_tensor(f"new_priority{tag}", (bs,), REAL)


def h_update(E):
    S = mk_state(E)
    p = fresh_priority(E)
    E.call(E.getattr(S.mt, "update_priority"), p)
    calls = calls_of(E)
    if not (len(calls) == 1 and calls[0][1] == "update_priority" and index_of(S, calls[0][0]) is not None):
        E.st.fail("update.delegated_to_exactly_one_task_buffer", f"calls {[(index_of(S, c[0]), c[1]) for c in calls]}")
        return
    E.st.ok("update.delegated_to_exactly_one_task_buffer")
    obj, _m, a, kw, _r = calls[0]
    k = index_of(S, obj)
    E.oblige("update.goes_to_task_of_last_sampled_batch", eq_sym(S.sampled, k))
    check(E, "update.supplied_priorities_passed_unmodified", (same(a, (p,)) and not kw) or (not a and same(kw, {"priority": p})), f"forwarded {a} {sorted(kw)}")
    check(E, "update.frame.other_task_buffers_untouched", all(untouched(S, t) for t in range(S.n) if t != k))
    frame_wrapper(E, "update", S)
    oblige_inv(E, "update", S)
    E.oblige("canary.update_goes_to_selected_task", eq_sym(S.sel, k) if S.n > 1 else eq_sym(S.sampled, 1), assume_after=False)
    E.cover("end")


def h_reset(E):
    S = mk_state(E)
    E.call(E.getattr(S.mt, "reset_max_priority"))
    calls = calls_of(E)
    who = [index_of(S, c[0]) for c in calls]
    check(E, "reset.every_task_buffer_recomputes_its_maximum", all(t in who for t in range(S.n)), f"reset_max_priority reached tasks {who} of {S.n}")
    check(E, "reset.once_per_task_and_nothing_else", sorted(who) == list(range(S.n)) and all(c[1] == "reset_max_priority" and not c[2] and not c[3] for c in calls),
          f"calls {[(index_of(S, c[0]), c[1]) for c in calls]}")
    frame_wrapper(E, "reset", S)
    oblige_inv(E, "reset", S)
    E.oblige("canary.reset_some_count_changed", bor(*[bnot(eq_sym(b.fields["$n"], S.cnt0[t])) for t, b in enumerate(S.bufs)]), assume_after=False)
    E.cover("end")


def h_history(E):
    """sample ; [select_task(t) ; add_sample] ; [sample] ; update_priority(p): the update reaches exactly the buffer
    that produced the MOST RECENT batch, whatever was selected / added in between (no assumption about
    sampled_task_idx: the wrapper starts in a state that has never been sampled)."""
    S = mk_state(E, sampled=False)
    if not S.active:
        return  # nothing can be sampled: covered by sample.no_data_rejected
    variant = choose(E, 3, "history_variant")
    c0 = len(calls_of(E))
    kind, r, rng, xa, xk = sample_call(E, S, 0, tag="_1")
    k1 = check_sample(E, "history.sample1", S, kind, r, rng, xa, xk, calls_of(E)[c0:], E.st.ghost.get("choice_calls", []), S.active)
    if k1 is None:
        return
    last = k1
    if variant >= 1:
        t2 = E.int("task_id", 0, S.n - 1)
        E.call(E.getattr(S.mt, "select_task"), t2)
        E.call(E.getattr(S.mt, "add_sample"), **{k: E.val(f"s_{k}") for k in B.DEFAULT_KEYS})
    if variant == 2:
        act = set(S.mt.fields["active_buffers"])
        c1, ch1 = len(calls_of(E)), len(E.st.ghost.get("choice_calls", []))
        kind, r, rng, xa, xk = sample_call(E, S, 1, tag="_2")
        k2 = check_sample(E, "history.sample2", S, kind, r, rng, xa, xk, calls_of(E)[c1:], E.st.ghost.get("choice_calls", [])[ch1:], act)
        if k2 is None:
            return
        last = k2
    p = fresh_priority(E)
    c2 = len(calls_of(E))
    snap = [dict(b.fields) for b in S.bufs]
    E.call(E.getattr(S.mt, "update_priority"), p)
    new = calls_of(E)[c2:]
    check(E, "history.update_reaches_exactly_the_buffer_of_the_last_batch",
          len(new) == 1 and new[0][1] == "update_priority" and new[0][0] is S.bufs[last],
          f"last batch came from task {last}; update_priority calls {[(index_of(S, c[0]), c[1]) for c in new]}")
    check(E, "history.update_passes_supplied_priorities", len(new) == 1 and same(new[0][2], (p,)) and not new[0][3])
    check(E, "history.update_leaves_task_counts_alone", all(list(b.fields) == list(sn) and all(b.fields[key] is sn[key] for key in sn) for b, sn in zip(S.bufs, snap)))
    oblige_inv(E, "history", S)
    E.oblige("canary.history_last_batch_from_task_0", Sym(z3.BoolVal(last == 0)) if S.n > 1 else Sym(z3.BoolVal(False)), assume_after=False)
    E.cover("end")


def _T(name, h, **kw):
    return Task("MultiTaskReplayBuffer." + name, h, setup=_setup, bounded=BOUND, **kw)


TASKS_C02 = [
    _T("init", h_init),
    _T("select_task", h_select),
    _T("add_sample", h_add),
    _T("sample_batch", h_sample),
    _T("len", h_len),
    _T("reward_scale", h_reward_scale),
]

TASKS_C08 = [
    _T("update_priority", h_update),
    _T("reset_max_priority", h_reset),
    _T("update_after_history", h_history),
]

ASSUMPTIONS = [
    "multi-task wrapper: per-task buffers are contract stubs (add_sample / sample_batch / update_priority / reset_max_priority / reward_scale / len) whose own "
    "behaviour is what the ReplayBuffer / LAP / PrioritizedReplayBuffer / PriorityBuffer tasks of C02 and C08 prove; the prototype handed to __init__ is a fresh (empty) buffer",
    "numpy Generator.choice(list, size=1)[0] returns an element of the list (pyvc/lib/ext_choice.py)",
]
NOT_COVERED = [
    "MultiTaskReplayBuffer.update_priority before any sample_batch (no 'most recently sampled batch' exists; the real code raises AttributeError) and reward_scale when no task has data (0/0)",
    "MultiTaskReplayBuffer with more than 3 tasks (python list length; bounded stand-in) and the environment_terminates property",
    "MultiTaskReplayBuffer.sample_batch(batch_size, rng, key=value): positional rng together with further keyword arguments is rejected with ValueError('No rng provided.') - a loud rejection, not under contract",
]
REPLAY_C02 = {"MultiTaskReplayBuffer.": "c02_buffers"}
REPLAY_C08 = {"MultiTaskReplayBuffer.": "c08_priority"}
