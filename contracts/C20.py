"""C20 - loggers record faithfully and checkpoint exactly at interval crossings.

Functions under contract (rl_blox/logging/logger.py, checkpointer.py):
  MemoryLogger.*            StandardLogger.start_new_episode / stop_episode / record_stat /
  get_stat / define_checkpoint_frequency / record_epoch (+ __init__, _save_checkpoint)
  LoggerList.*              OrbaxCheckpointer.start_new_episode / stop_episode /
  define_checkpoint_frequency / record_epoch / _save_checkpoint (+ __init__, save_model)

Abstract state (the list-based reference model of the property statement):
per key k a history H_k of records (value, episode, step, time).  The concrete
state `stats[k]`, `stats_loc[k]` IS that history: python lists of SYMBOLIC
length n_k (pyvc/lib/ext_symlist.py: length term + one z3 array per tuple
component).  Class invariant LWF: keys(stats) == keys(stats_loc) and
|stats[k]| == |stats_loc[k]| for every key.

Every public operation is proved against a pre/post contract for an ARBITRARY
state satisfying LWF (arbitrary history length, arbitrary counters), and
preserves LWF; together with the __init__ lemmas this is the induction over
all call histories.  Cadence: proved for symbolic interval f >= 1 and symbolic
non-decreasing steps; the history lemma over two consecutive calls shows that
no crossing is lost and none is counted twice.
Cross-check of the symbolic-length list model: the record / retrieve contracts
are also proved with ordinary python lists holding a bounded history of two
symbolic records ("python-list-of-2" tasks) and with the empty history of a new
key ("new-key" tasks, python lists created by the real code).
Postconditions are transcribed from the property statement (DESIGN 5, C20).
"""
import z3

from pyvc import core as C
from pyvc import tensor as T
from pyvc.core import INT, REAL, VAL, Builtin, Obj, PyRaise, Sym, Unsupported, band, bnot, bor, iff, implies, ite
from pyvc.lib import LIB
from pyvc.lib.ext_logging import input_str, new_checkpointer
from pyvc.lib.ext_symlist import SymList, fresh_symlist
from pyvc.lib.nnx_model import StateVal, mk_net
from pyvc.lib.np_model import to_sort
from pyvc.runner import Task

PROPERTY = "C20"
LEVEL = "proof"
Q = "rl_blox.logging.logger."
QC = "rl_blox.logging.checkpointer."

KEY = "return"  # the key the call is about
OTHER = "loss"  # a second key, always present: frame conditions
EPLEN = "episode_length"
LOC_SORTS = [INT, INT, REAL]
X_KEYS = ["episode", "step", "time"]


# ============================================================== helpers
def OB(E, name, z, **kw):
    """obligation that is NOT assumed afterwards: the clauses are independent, and a
    failed clause must not make later ones (or the canaries) vacuous"""
    kw.setdefault("assume_after", False)
    E.oblige(name, z, **kw)


def _wallclock_observer(E, fn, args, kwargs):
    """time.time() stays an unconstrained real; its reads are logged so that a
    contract can name 'the wall-clock value read during this call'."""
    if isinstance(fn, Builtin) and fn.name == "time.time":
        s = E.st.fresh_sym("wallclock", REAL)
        E.st.ghost.setdefault("wallclock", []).append(s)
        E.shared.lib.used.add("time.time")
        return (s,)
    return None


def setup(shared):
    shared.observers.append(_wallclock_observer)


def _history(E, k, tag="", concrete=None):
    """arbitrary history of key k: values and locations of one common symbolic length (LWF);
    `concrete=m`: bounded cross-check with ordinary python lists of length m holding symbolic records"""
    if concrete is not None:
        vals = [E.val(f"h{j}.value[{k}]{tag}") for j in range(concrete)]
        locs = [(E.int(f"h{j}.episode[{k}]{tag}"), E.int(f"h{j}.step[{k}]{tag}"), E.real(f"h{j}.time[{k}]{tag}")) for j in range(concrete)]
        return concrete, vals, locs
    n = E.int(f"n[{k}]{tag}", 0)
    vals = fresh_symlist(E, f"stats[{k}]{tag}", [VAL], length=n)
    locs = fresh_symlist(E, f"stats_loc[{k}]{tag}", LOC_SORTS, is_tuple=True, length=n)
    return n, vals, locs


def mk_logger(E, cls, keys=(KEY, OTHER), tag="", share=None, concrete=None):
    """logger object of class `cls` in an arbitrary LWF state.  `share`: another
    logger built by this function - the new one gets the SAME abstract state
    (equal counters, equal histories, disjoint storage)."""
    f = {}
    if share is None:
        f["_n_episodes"] = E.int(f"n_episodes{tag}")
        f["n_steps"] = E.int(f"n_steps{tag}")
        f["start_time"] = E.real(f"start_time{tag}")
        hist = {k: _history(E, k, tag, concrete if k != OTHER else None) for k in keys}
    else:
        sf = share.fields
        f["_n_episodes"], f["n_steps"] = sf["_n_episodes"], sf["n_steps"]
        f["start_time"] = E.real(f"start_time{tag}")
        hist = {k: (sf["stats"][k].len_sym(), sf["stats"][k].copy(f"stats[{k}]{tag}"), sf["stats_loc"][k].copy(f"stats_loc[{k}]{tag}")) for k in keys}
    f["env_name"] = input_str(E, f"env_name{tag}")
    f["algorithm_name"] = input_str(E, f"algorithm_name{tag}")
    f["hparams"] = None
    f["stats"] = {k: hist[k][1] for k in keys}
    f["stats_loc"] = {k: hist[k][2] for k in keys}
    if cls == "StandardLogger":
        f["checkpoint_dir"] = input_str(E, f"checkpoint_dir{tag}")
        f["verbose"] = E.int(f"verbose{tag}")
        f["lpad_keys"] = E.int(f"lpad_keys{tag}", 0)
        f["epoch_loc"] = {}
        f["epoch"] = {}
        f["checkpointer"] = None
        f["checkpoint_frequencies"] = {}
        f["checkpoint_path"] = {}
    o = E.new_obj(Q + cls, name=f"logger{tag}", **f)
    o.hist = hist
    return o


def mk_orbax(E, tag=""):
    f = dict(checkpoint_dir=input_str(E, f"checkpoint_dir{tag}"), verbose=E.int(f"verbose{tag}"),
             env_name=input_str(E, f"env_name{tag}"), algorithm_name=input_str(E, f"algorithm_name{tag}"),
             start_time=E.real(f"start_time{tag}"), _n_episodes=E.int(f"n_episodes{tag}"), n_steps=E.int(f"n_steps{tag}"),
             lpad_keys=E.int(f"lpad_keys{tag}", 0), epoch={}, last_step={}, checkpointer=new_checkpointer(E, f"checkpointer{tag}"),
             checkpoint_frequencies={}, checkpoint_path={})
    return E.new_obj(QC + "OrbaxCheckpointer", name=f"orbax{tag}", **f)


def configure(E, o, key, tag="", epoch_known=True, orbax=True):
    """key configured for checkpointing with symbolic interval f >= 1 (and, Orbax: previous step `last`);
    arbitrary list of earlier checkpoint paths"""
    f = E.int(f"interval[{key}]{tag}", 1)
    o.fields["checkpoint_frequencies"][key] = f
    o.fields["checkpoint_path"][key] = fresh_symlist(E, f"checkpoint_path[{key}]{tag}", [VAL])
    e = None
    if epoch_known:
        e = E.int(f"epoch[{key}]{tag}", 0)
        o.fields["epoch"][key] = e
        if not orbax:
            o.fields["epoch_loc"][key] = fresh_symlist(E, f"epoch_loc[{key}]{tag}", LOC_SORTS, is_tuple=True, length=e)
    last = None
    if orbax:
        last = E.int(f"last_step[{key}]{tag}")
        o.fields["last_step"][key] = last
    elif o.fields["checkpointer"] is None:
        o.fields["checkpointer"] = new_checkpointer(E, f"checkpointer{tag}")
    return f, e, last


# ---- snapshots / frame conditions ------------------------------------
def snap_value(v):
    if isinstance(v, SymList):
        return ("symlist", v, v.snapshot())
    if isinstance(v, dict):
        return ("dict", v, {k: snap_value(x) for k, x in v.items()})
    if isinstance(v, list):
        return ("list", v, list(v))
    return ("val", v, None)


def snap(o):
    return {k: snap_value(v) for k, v in o.fields.items()}


def _same(E, name, new, old):
    if isinstance(new, (Sym, int, bool)) and isinstance(old, (Sym, int, bool)) and not (isinstance(new, bool) != isinstance(old, bool)):
        OB(E, name, C.compare("==", new, old))
    elif new is old or (isinstance(new, str) and new == old):
        E.st.ok(name)
    else:
        try:
            OB(E, name, C.compare("==", new, old))
        except (Unsupported, PyRaise, z3.Z3Exception):
            E.st.fail(name, f"{old!r} replaced by {new!r}")


def _frame_value(E, name, new, s, allowed, loc):
    kind, ref, data = s
    if loc in allowed:
        return
    if kind == "val":
        _same(E, name, new, ref)
    elif kind == "symlist":
        if new is not ref:
            E.st.fail(name, "list object replaced")
            return
        ln, cols = new.snapshot()
        if z3.eq(ln, data[0]) and all(z3.eq(a, b) for a, b in zip(cols, data[1])):
            E.st.ok(name)
        else:
            OB(E, name, Sym(z3.And(ln == data[0], *[a == b for a, b in zip(cols, data[1])])))
    elif kind == "list":
        if new is ref and len(new) == len(data) and all(C.identical(a, b) if not isinstance(a, Sym) else (isinstance(b, Sym) and z3.eq(a.z, b.z)) for a, b in zip(new, data)):
            E.st.ok(name)
        else:
            E.st.fail(name, f"list changed: {data!r} -> {new!r}")
    elif kind == "dict":
        if new is not ref:
            E.st.fail(name, "dict object replaced")
            return
        added = [k for k in new if k not in data and f"{loc}[{k}]" not in allowed]
        removed = [k for k in data if k not in new]
        if added or removed:
            E.st.fail(name + ".keys", f"keys added {added} removed {removed}")
        else:
            E.st.ok(name + ".keys")
        for k, sv in data.items():
            if k in new:
                _frame_value(E, f"{name}[{k}]", new[k], sv, allowed, f"{loc}[{k}]")


def frame(E, prefix, o, before, allowed=()):
    """every location of `o` outside `allowed` ('field' or 'field[key]') holds what it held before"""
    allowed = set(allowed)
    for fld, s in before.items():
        if fld not in o.fields:
            E.st.fail(f"{prefix}.frame.{fld}", "field deleted")
            continue
        _frame_value(E, f"{prefix}.frame.{fld}", o.fields[fld], s, allowed, fld)
    extra = [k for k in o.fields if k not in before and k not in allowed]
    if extra:
        E.st.fail(f"{prefix}.frame.new_fields", str(extra))


def lwf(E, prefix, o):
    """class invariant LWF"""
    st, loc = o.fields["stats"], o.fields["stats_loc"]
    if set(st) != set(loc):
        E.st.fail(f"{prefix}.lwf.same_keys", f"{sorted(st)} vs {sorted(loc)}")
        return
    E.st.ok(f"{prefix}.lwf.same_keys")
    for k in st:
        OB(E, f"{prefix}.lwf.equal_length[{k}]", C.compare("==", _len(st[k]), _len(loc[k])))


def _len(l):
    return l.len_sym() if isinstance(l, SymList) else len(l)


def _as_val(x):
    return to_sort(x, VAL, None)


def oblige_appended(E, prefix, lst, before, comps, what):
    """lst == before ++ [comps]: one record appended at the end, existing records untouched.
    `before`: snapshot (length, cols) of a SymList or a python list copy."""
    if isinstance(lst, SymList):
        n0, cols0 = before
        OB(E, f"{prefix}.{what}.length_plus_one", Sym(lst.len_z() == n0 + 1))
        for j, (c, want) in enumerate(zip(lst.cols, comps)):
            if want is None:
                continue
            nm = f"{prefix}.{what}.appended_at_end" + (f"[{X_KEYS[j]}]" if lst.is_tuple else "")
            OB(E, nm, Sym(z3.Select(c, n0) == to_sort(want, lst.sorts[j], None)))
        cols1 = list(lst.cols)
        E.st.oblige_forall(f"{prefix}.{what}.existing_untouched", [INT],
                           lambda i: z3.Implies(z3.And(i >= 0, i < n0), z3.And(*[z3.Select(a, i) == z3.Select(b, i) for a, b in zip(cols1, cols0)])),
                           hint="i", using=[])
    else:
        if len(lst) != len(before) + 1:
            E.st.fail(f"{prefix}.{what}.length_plus_one", f"{len(before)} -> {len(lst)}")
            return
        E.st.ok(f"{prefix}.{what}.length_plus_one")
        new = lst[-1]
        if isinstance(new, tuple):
            for j, (got, want) in enumerate(zip(new, comps)):
                if want is not None:
                    _same(E, f"{prefix}.{what}.appended_at_end[{X_KEYS[j]}]", got, want)
        else:
            _same(E, f"{prefix}.{what}.appended_at_end", new, comps[0])
        if all(a is b for a, b in zip(lst[:-1], before)):
            E.st.ok(f"{prefix}.{what}.existing_untouched")
        else:
            E.st.fail(f"{prefix}.{what}.existing_untouched", "existing elements changed")


def _before(l):
    return l.snapshot() if isinstance(l, SymList) else list(l)


def symbolic_location(E, tag=""):
    """explicit or implicit episode / step / t (all 8 combinations, by forking)"""
    ep = E.int(f"episode{tag}") if E.branch(E.bool(f"episode_given{tag}")) else None
    st = E.int(f"step{tag}") if E.branch(E.bool(f"step_given{tag}")) else None
    t = E.real(f"t{tag}") if E.branch(E.bool(f"t_given{tag}")) else None
    return ep, st, t


def expected_location(E, o_before_fields, ep, st, t, n_clock_before):
    """(episode, step, time) a record must carry: the explicit argument if given,
    else the logger's counter at the time of the call; time: explicit, else the
    wall-clock read during the call minus start_time"""
    want_ep = ep if ep is not None else o_before_fields["_n_episodes"]
    want_st = st if st is not None else o_before_fields["n_steps"]
    if t is not None:
        want_t = t
    else:
        clock = E.st.ghost.get("wallclock", [])[n_clock_before:]
        want_t = (clock[-1] - o_before_fields["start_time"]) if len(clock) == 1 else None
        if len(clock) == 1:
            E.st.ok("record.time.one_clock_read")
        else:
            E.st.fail("record.time.one_clock_read", f"{len(clock)} wall-clock reads for one implicit time stamp")
    return want_ep, want_st, want_t


def _nclock(E):
    return len(E.st.ghost.get("wallclock", []))


# ============================================================== __init__
def mk_init(cls):
    def h(E):
        if cls == "MemoryLogger":
            o = E.call(Q + cls)
        elif cls == "StandardLogger":
            o = E.call(Q + cls, input_str(E, "checkpoint_dir"), E.int("verbose"))
        else:
            o = E.call(QC + cls, input_str(E, "checkpoint_dir"), E.int("verbose"))
        f = o.fields
        OB(E, "init.counters_zero", band(C.compare("==", f["_n_episodes"], 0), C.compare("==", f["n_steps"], 0)))
        OB(E, "init.n_episodes_property", C.compare("==", E.getattr(o, "n_episodes"), 0))
        empties = ["stats", "stats_loc"] if cls != "OrbaxCheckpointer" else []
        if cls != "MemoryLogger":
            empties += ["epoch", "checkpoint_frequencies", "checkpoint_path"]
        if cls == "OrbaxCheckpointer":
            empties += ["last_step"]
        bad = [k for k in empties if f.get(k) != {}]
        E.st.ok("init.no_records") if not bad else E.st.fail("init.no_records", str(bad))
        if cls != "OrbaxCheckpointer":
            lwf(E, "init", o)
        if cls == "OrbaxCheckpointer":
            ck = f.get("checkpointer")
            if isinstance(ck, Obj) and ck.fields.get("$events") == []:
                E.st.ok("init.checkpointer_idle")
            else:
                E.st.fail("init.checkpointer_idle", repr(ck))
        OB(E, "canary.init", C.compare("==", f["n_steps"], 1), assume_after=False)
        E.cover("end")
    return h


# ============================================================== record_stat
def mk_record(cls, present, concrete=None):
    def h(E):
        o = mk_logger(E, cls, keys=(KEY, OTHER) if present else (OTHER,), concrete=concrete)
        v = E.val("value")
        ep, st, t = symbolic_location(E)
        verbose = E.int("verbose_arg") if E.branch(E.bool("verbose_given")) else None
        before = snap(o)
        f0 = dict(o.fields)
        b_vals = _before(o.fields["stats"][KEY]) if present else []
        b_locs = _before(o.fields["stats_loc"][KEY]) if present else []
        nc = _nclock(E)
        E.call(E.getattr(o, "record_stat"), KEY, v, episode=ep, step=st, t=t, verbose=verbose)
        want = expected_location(E, f0, ep, st, t, nc)
        if KEY not in o.fields["stats"] or KEY not in o.fields["stats_loc"]:
            E.st.fail("record.key_present", "key missing after record_stat")
            return
        E.st.ok("record.key_present")
        oblige_appended(E, "record", o.fields["stats"][KEY], b_vals, [v], "value")
        oblige_appended(E, "record", o.fields["stats_loc"][KEY], b_locs, list(want), "location")
        lwf(E, "record", o)
        frame(E, "record", o, before, allowed={f"stats[{KEY}]", f"stats_loc[{KEY}]", "lpad_keys"})
        # canaries
        new_loc = o.fields["stats_loc"][KEY]
        got_step = Sym(z3.Select(new_loc.cols[1], b_locs[0])) if isinstance(new_loc, SymList) else new_loc[-1][1]
        OB(E, "canary.step_is_episode_counter", C.compare("==", got_step, f0["_n_episodes"]), assume_after=False)
        E.cover("end")
    return h


# ============================================================== get_stat
def mk_get(cls, x_key):
    def h(E):
        o = mk_logger(E, cls)
        before = snap(o)
        n, vals, locs = o.hist[KEY]
        V = vals.cols[0]
        xi = X_KEYS.index(x_key) if x_key is not None else 0  # documented default: 'episode'
        L = locs.cols[xi]
        x, y = E.call(E.getattr(o, "get_stat"), KEY, x_key) if x_key is not None else E.call(E.getattr(o, "get_stat"), KEY)
        for nm, a in (("x", x), ("y", y)):
            if isinstance(a, T.Tensor) and a.ndim == 1:
                OB(E, f"get.{nm}.length_is_history_length", C.compare("==", a.shape[0], n))
            else:
                E.st.fail(f"get.{nm}.length_is_history_length", f"not a 1-D array: {a!r}")
                return
        nz = C.to_z3(n)
        E.st.oblige_forall("get.y.values_in_recording_order", [INT],
                           lambda i: z3.Implies(z3.And(i >= 0, i < nz), C.to_z3(y.at(i)) == z3.Select(V, i)), hint="i", using=[])
        E.st.oblige_forall(f"get.x.{x_key or 'default'}_recorded_under", [INT],
                           lambda i: z3.Implies(z3.And(i >= 0, i < nz), C.to_z3(x.at(i)) == z3.Select(L, i)), hint="i", using=[])
        frame(E, "get", o, before)
        E.assume(n >= 1)
        OB(E, "canary.x0_is_step", Sym(C.to_z3(x.at(0)) == z3.Select(locs.cols[(xi + 1) % 3], 0)) if xi != 2 else Sym(C.to_z3(x.at(0)) == 0), assume_after=False)
        E.cover("end")
    return h


def mk_get_rejects(cls):
    def h(E):
        o = mk_logger(E, cls)
        kind, _ = E.call_catch(E.getattr(o, "get_stat"), "never recorded")
        E.st.ok("get.unknown_key_rejected") if kind == "raise" else E.st.fail("get.unknown_key_rejected", "returned data for a key that was never recorded")
        kind, _ = E.call_catch(E.getattr(o, "get_stat"), KEY, "epoch")
        E.st.ok("get.unknown_x_key_rejected") if kind == "raise" else E.st.fail("get.unknown_x_key_rejected", "returned data for an undocumented x_key")
        kind, r = E.call_catch(E.getattr(o, "get_stat"), KEY, "step")
        E.st.fail("canary.valid_rejected", "valid query accepted (as required)") if kind == "ok" else E.st.ok("canary.valid_rejected")
    return h


def mk_record_then_get(cls, present, concrete=None):
    """end to end: what was recorded is what is retrieved (value last, under the location of the call)"""
    def h(E):
        o = mk_logger(E, cls, keys=(KEY, OTHER) if present else (OTHER,), concrete=concrete)
        v = E.val("value")
        ep, st, t = symbolic_location(E)
        f0 = dict(o.fields)
        if present and concrete is None:
            n, vals, locs = o.hist[KEY]
            V0, L0 = vals.cols[0], list(locs.cols)
        elif present:
            n, vals0, locs0 = o.hist[KEY]
            vals0, locs0 = list(vals0), list(locs0)
        else:
            n, V0, L0 = 0, None, None
        nc = _nclock(E)
        E.call(E.getattr(o, "record_stat"), KEY, v, ep, st, t)
        want = expected_location(E, f0, ep, st, t, nc)
        for xi, xk in enumerate(X_KEYS):
            x, y = E.call(E.getattr(o, "get_stat"), KEY, x_key=xk)
            if not (isinstance(x, T.Tensor) and isinstance(y, T.Tensor) and x.ndim == 1 and y.ndim == 1):
                E.st.fail(f"roundtrip.{xk}.arrays", f"{x!r}, {y!r}")
                return
            OB(E, f"roundtrip.{xk}.one_more_measurement", band(C.compare("==", x.shape[0], n + 1), C.compare("==", y.shape[0], n + 1)))
            OB(E, f"roundtrip.{xk}.last_value_is_recorded_value", Sym(_as_val(y.at(n)) == _as_val(v)))
            if want[xi] is not None:
                OB(E, f"roundtrip.{xk}.last_x_is_location_of_call", C.compare("==", x.at(n), want[xi]))
            if present and concrete is not None:
                OB(E, f"roundtrip.{xk}.earlier_measurements_unchanged", band(*[band(Sym(_as_val(y.at(j)) == vals0[j].z), C.compare("==", x.at(j), locs0[j][xi])) for j in range(n)]))
            elif present:
                nz = C.to_z3(n)
                E.st.oblige_forall(f"roundtrip.{xk}.earlier_measurements_unchanged", [INT],
                                   lambda i: z3.Implies(z3.And(i >= 0, i < nz), z3.And(C.to_z3(y.at(i)) == z3.Select(V0, i), C.to_z3(x.at(i)) == z3.Select(L0[xi], i))),
                                   hint="i", using=[])
        OB(E, "canary.last_x_is_zero", C.compare("==", x.at(n), 0), assume_after=False)
        E.cover("end")
    return h


# ============================================================== episodes
def mk_start(cls):
    def h(E):
        o = mk_orbax(E) if cls == "OrbaxCheckpointer" else mk_logger(E, cls)
        before = snap(o)
        e0 = o.fields["_n_episodes"]
        E.call(E.getattr(o, "start_new_episode"))
        OB(E, "start.episode_counter_plus_one", C.compare("==", o.fields["_n_episodes"], e0 + 1))
        OB(E, "start.n_episodes_property", C.compare("==", E.getattr(o, "n_episodes"), e0 + 1))
        frame(E, "start", o, before, allowed={"_n_episodes"})
        OB(E, "canary.start", C.compare("==", o.fields["_n_episodes"], e0), assume_after=False)
        E.cover("end")
    return h


def mk_stop(cls, present=True):
    def h(E):
        orbax = cls == "OrbaxCheckpointer"
        o = mk_orbax(E) if orbax else mk_logger(E, cls, keys=(EPLEN, OTHER) if present else (OTHER,))
        before = snap(o)
        f0 = dict(o.fields)
        total = E.int("total_steps")
        if not orbax:
            b_vals = _before(o.fields["stats"][EPLEN]) if present else []
            b_locs = _before(o.fields["stats_loc"][EPLEN]) if present else []
        nc = _nclock(E)
        E.call(E.getattr(o, "stop_episode"), total)
        OB(E, "stop.step_counter_plus_total", C.compare("==", o.fields["n_steps"], f0["n_steps"] + total))
        if orbax:
            frame(E, "stop", o, before, allowed={"n_steps"})
        else:
            if EPLEN not in o.fields["stats"] or EPLEN not in o.fields["stats_loc"]:
                E.st.fail("stop.episode_length_recorded", "no episode_length entry")
                return
            E.st.ok("stop.episode_length_recorded")
            # recorded under the logger's current counters: episode counter, UPDATED step counter
            f1 = dict(f0, n_steps=f0["n_steps"] + total)
            want = expected_location(E, f1, None, None, None, nc)
            oblige_appended(E, "stop", o.fields["stats"][EPLEN], b_vals, [total], "episode_length")
            oblige_appended(E, "stop", o.fields["stats_loc"][EPLEN], b_locs, list(want), "location")
            lwf(E, "stop", o)
            frame(E, "stop", o, before, allowed={"n_steps", f"stats[{EPLEN}]", f"stats_loc[{EPLEN}]", "lpad_keys"})
        OB(E, "canary.stop", C.compare("==", o.fields["n_steps"], f0["n_steps"] + 1), assume_after=False)
        E.cover("end")
    return h


def mk_history(cls):
    """history lemma: start; record; stop(n); record - two records of one key land
    in call order under the counters current at each call"""
    def h(E):
        o = mk_logger(E, cls)
        n, vals, locs = o.hist[KEY]
        e0, s0 = o.fields["_n_episodes"], o.fields["n_steps"]
        v1, v2, total = E.val("value1"), E.val("value2"), E.int("total_steps")
        E.call(E.getattr(o, "start_new_episode"))
        E.call(E.getattr(o, "record_stat"), KEY, v1)
        E.call(E.getattr(o, "stop_episode"), total)
        E.call(E.getattr(o, "record_stat"), OTHER, E.val("value_other"))
        E.call(E.getattr(o, "record_stat"), KEY, v2)
        x, y = E.call(E.getattr(o, "get_stat"), KEY, "step")
        xe, _ = E.call(E.getattr(o, "get_stat"), KEY, "episode")
        OB(E, "history.two_more_measurements", C.compare("==", y.shape[0], n + 2))
        OB(E, "history.values_in_call_order", Sym(z3.And(C.to_z3(y.at(n)) == v1.z, C.to_z3(y.at(n + 1)) == v2.z)))
        OB(E, "history.steps_current_at_each_call", band(C.compare("==", x.at(n), s0), C.compare("==", x.at(n + 1), s0 + total)))
        OB(E, "history.episodes_current_at_each_call", band(C.compare("==", xe.at(n), e0 + 1), C.compare("==", xe.at(n + 1), e0 + 1)))
        lwf(E, "history", o)
        OB(E, "canary.history", Sym(C.to_z3(y.at(n)) == v2.z), assume_after=False)
        E.cover("end")
    return h


# ============================================================== no-op methods of MemoryLogger
def h_memory_noops(E):
    o = mk_logger(E, "MemoryLogger")
    before = snap(o)
    E.call(E.getattr(o, "define_checkpoint_frequency"), KEY, E.int("interval", 1))
    frame(E, "define_freq", o, before)
    E.call(E.getattr(o, "record_epoch"), KEY, mk_net(E, "model", 1), step=E.int("step"))
    frame(E, "record_epoch", o, before)
    if E.st.ghost.get("io_events"):
        E.st.fail("record_epoch.no_io", str(E.st.ghost.get("io_events")))
    else:
        E.st.ok("record_epoch.no_io")
    env, alg = input_str(E, "env"), input_str(E, "alg")
    hp = {"lr": E.real("lr")}
    nc = _nclock(E)
    E.call(E.getattr(o, "define_experiment"), env, alg, hp)
    f = o.fields
    ok = f["env_name"] is env and f["algorithm_name"] is alg and f["hparams"] is hp
    E.st.ok("define_experiment.stores_arguments") if ok else E.st.fail("define_experiment.stores_arguments", "arguments not stored")
    clock = E.st.ghost.get("wallclock", [])[nc:]
    if len(clock) == 1:
        OB(E, "define_experiment.start_time_is_now", C.compare("==", f["start_time"], clock[0]))
    else:
        E.st.fail("define_experiment.start_time_is_now", f"{len(clock)} clock reads")
    frame(E, "define_experiment", o, before, allowed={"env_name", "algorithm_name", "hparams", "start_time"})
    OB(E, "canary.noops", C.compare("==", f["start_time"], 0), assume_after=False)


# ============================================================== LoggerList
STUB = "pyvc.stub.RecordingLogger"


@LIB.cls(STUB)
def _stub_logger_attr(E, o, name):
    """test double for a LoggerBase member: records every call (bound to the
    parameter names of the abstract method in LoggerBase)"""
    if name == "n_episodes":
        return o.fields["$n_episodes"]
    base = E.resolve(Q + "LoggerBase")
    m = base.methods.get(name)
    if m is None:
        return NotImplemented

    def rec(E, *args, **kwargs):
        params = [a.arg for a in m.node.args.args][1:]
        if len(args) > len(params) or any(k not in params for k in kwargs) or any(p in kwargs for p in params[: len(args)]):
            raise PyRaise("TypeError", f"{name}: bad arguments")
        bound = dict(zip(params, args))
        bound.update(kwargs)
        o.fields["$calls"].append((name, bound))
        E.st.ghost.setdefault("stub_order", []).append(o)
        return None
    return Builtin(f"stub.{name}", rec)


def _stub(E, i, n_episodes):
    return E.new_obj(STUB, name=f"member{i}", **{"$calls": [], "$n_episodes": n_episodes})


def _ident(a, b):
    if isinstance(a, Sym) and isinstance(b, Sym):
        return z3.eq(a.z, b.z)
    if isinstance(a, Sym) or isinstance(b, Sym):
        return False
    if isinstance(a, (str, int, bool)) and type(a) is type(b):
        return a == b
    return a is b


def mk_list_fanout(n_members):
    """every member receives every call exactly once, with identical arguments, in list order"""
    def h(E):
        n_ep = E.int("members.n_episodes")  # members driven only through the list count the same episodes
        members = [_stub(E, i, n_ep) for i in range(n_members)]
        ll = E.call(Q + "LoggerList", list(members))
        if ll.fields.get("loggers") is None or len(ll.fields["loggers"]) != n_members or any(a is not b for a, b in zip(ll.fields["loggers"], members)):
            E.st.fail("list.init.keeps_members", repr(ll.fields.get("loggers")))
            return
        E.st.ok("list.init.keeps_members")
        OB(E, "list.n_episodes_is_members_common_counter", C.compare("==", E.getattr(ll, "n_episodes"), n_ep))
        model = mk_net(E, "model", 1)
        hp = {"gamma": E.real("gamma")}
        calls = [
            ("start_new_episode", (), {}, {}),
            ("stop_episode", (E.int("total_steps"),), {}, None),
            ("define_experiment", (input_str(E, "env"), input_str(E, "alg"), hp), {}, None),
            ("record_stat", (KEY, E.val("value")), dict(episode=E.int("episode"), step=E.int("step"), t=E.real("t"), verbose=E.int("verbose"), format_str="{0:.1f}"), None),
            ("record_stat", (OTHER, E.val("value2")), {}, dict(episode=None, step=None, t=None, verbose=None, format_str="{0:.3f}")),
            ("define_checkpoint_frequency", (KEY, E.int("interval", 1)), {}, None),
            ("record_epoch", (KEY, model), dict(step=E.int("epoch_step")), dict(episode=None, t=None)),
            ("record_epoch", (KEY, model, E.int("e2"), E.int("s2"), E.real("t2")), {}, None),
        ]
        base = E.resolve(Q + "LoggerBase")
        for ci, (name, args, kwargs, defaults) in enumerate(calls):
            for m in members:
                m.fields["$calls"].clear()
            E.st.ghost["stub_order"] = []
            E.call(E.getattr(ll, name), *args, **kwargs)
            params = [a.arg for a in base.methods[name].node.args.args][1:]
            want = dict(zip(params, args))
            want.update(kwargs)
            want.update({k: v for k, v in (defaults or {}).items() if k not in want})
            tag = f"list.{name}" + (f"#{ci}" if name in ("record_stat", "record_epoch") else "")
            bad = []
            for i, m in enumerate(members):
                cs = m.fields["$calls"]
                if len(cs) != 1 or cs[0][0] != name:
                    bad.append(f"member {i} received {[(c[0]) for c in cs]}")
                    continue
                got = cs[0][1]
                if set(got) != set(want):
                    bad.append(f"member {i}: parameters {sorted(got)} instead of {sorted(want)}")
                    continue
                for p in want:
                    if not _ident(got[p], want[p]):
                        bad.append(f"member {i}: {p}={got[p]!r} instead of {want[p]!r}")
            E.st.ok(f"{tag}.every_member_once_identical_arguments") if not bad else E.st.fail(f"{tag}.every_member_once_identical_arguments", "; ".join(bad))
            order = E.st.ghost.get("stub_order", [])
            if len(order) == n_members and all(a is b for a, b in zip(order, members)):
                E.st.ok(f"{tag}.in_list_order")
            else:
                E.st.fail(f"{tag}.in_list_order", repr(order))
        kind, _ = E.call_catch(Q + "LoggerList", [])
        E.st.ok("list.init.rejects_empty") if kind == "raise" else E.st.fail("list.init.rejects_empty", "empty logger list accepted")
        OB(E, "canary.list", C.compare("==", members[0].fields["$n_episodes"], 0), assume_after=False)
    return h


def mk_list_memory(n_members, present):
    """members with identical abstract state (what LoggerList maintains from
    construction on) hold identical records after every call, and those are
    the records a direct call would have produced"""
    def h(E):
        keys = (KEY, EPLEN, OTHER) if present else (OTHER,)
        m0 = mk_logger(E, "MemoryLogger", keys=keys, tag="#0")
        members = [m0] + [mk_logger(E, "MemoryLogger", keys=keys, tag=f"#{i}", share=m0) for i in range(1, n_members)]
        ll = E.new_obj(Q + "LoggerList", name="logger_list", loggers=list(members))
        befores = [snap(m) for m in members]
        e0, s0 = m0.fields["_n_episodes"], m0.fields["n_steps"]
        n_key = m0.hist[KEY][0] if present else 0
        n_len = m0.hist[EPLEN][0] if present else 0
        v = E.val("value")
        ep, st, t = symbolic_location(E)
        total = E.int("total_steps")
        E.call(E.getattr(ll, "start_new_episode"))
        E.call(E.getattr(ll, "record_stat"), KEY, v, episode=ep, step=st, t=t)
        E.call(E.getattr(ll, "stop_episode"), total)
        OB(E, "listmem.n_episodes", C.compare("==", E.getattr(ll, "n_episodes"), e0 + 1))
        for i, m in enumerate(members):
            f = m.fields
            OB(E, f"listmem.member_counters[{i}]", band(C.compare("==", f["_n_episodes"], e0 + 1), C.compare("==", f["n_steps"], s0 + total)))
            xs, y = E.call(E.getattr(m, "get_stat"), KEY, "step")
            xe, _ = E.call(E.getattr(m, "get_stat"), KEY, "episode")
            xt, _ = E.call(E.getattr(m, "get_stat"), KEY, "time")
            OB(E, f"listmem.member_record[{i}].one_more", C.compare("==", y.shape[0], n_key + 1))
            OB(E, f"listmem.member_record[{i}].value", Sym(_as_val(y.at(n_key)) == v.z))
            OB(E, f"listmem.member_record[{i}].episode", C.compare("==", xe.at(n_key), ep if ep is not None else e0 + 1))
            OB(E, f"listmem.member_record[{i}].step", C.compare("==", xs.at(n_key), st if st is not None else s0))
            if t is not None:
                OB(E, f"listmem.member_record[{i}].time_when_explicit", C.compare("==", xt.at(n_key), t))
            xl, yl = E.call(E.getattr(m, "get_stat"), EPLEN, "step")
            OB(E, f"listmem.member_episode_length[{i}]", band(C.compare("==", yl.shape[0], n_len + 1), Sym(_as_val(yl.at(n_len)) == _as_val(total)),
                                                                 C.compare("==", xl.at(n_len), s0 + total)))
            lwf(E, f"listmem[{i}]", m)
            frame(E, f"listmem[{i}]", m, befores[i], allowed={"_n_episodes", "n_steps", f"stats[{KEY}]", f"stats_loc[{KEY}]", f"stats[{EPLEN}]", f"stats_loc[{EPLEN}]"})
        # pairwise identical histories (value / episode / step columns; time when explicit)
        for i in range(1, n_members):
            for k in (KEY, EPLEN):
                a, b = m0.fields["stats"][k], members[i].fields["stats"][k]
                la, lb = m0.fields["stats_loc"][k], members[i].fields["stats_loc"][k]
                if isinstance(a, SymList):
                    same = z3.And(a.len_z() == b.len_z(), a.cols[0] == b.cols[0], la.cols[0] == lb.cols[0], la.cols[1] == lb.cols[1])
                    if t is not None and k == KEY:
                        same = z3.And(same, la.cols[2] == lb.cols[2])
                    OB(E, f"listmem.identical_records[{k}][0~{i}]", Sym(same))
                else:
                    ok = len(a) == len(b) == len(la) == len(lb) and all(_ident(p, q) for p, q in zip(a, b)) and all(_ident(p[0], q[0]) and _ident(p[1], q[1]) for p, q in zip(la, lb))
                    E.st.ok(f"listmem.identical_records[{k}][0~{i}]") if ok else E.st.fail(f"listmem.identical_records[{k}][0~{i}]", "members differ")
        OB(E, "canary.listmem", C.compare("==", members[-1].fields["n_steps"], s0), assume_after=False)
        E.cover("end")
    return h


# ============================================================== checkpoint cadence
def _events_since(ck, n0):
    return ck.fields["$events"][n0:]


def check_saves(E, prefix, o, key, model, ev, paths_before, expect_save):
    """`expect_save`: term.  On this path the code saved len(saves) times."""
    saves = [e for e in ev if e[0] == "save"]
    if len(saves) > 1:
        E.st.fail(f"{prefix}.at_most_one_checkpoint_per_record", f"{len(saves)} saves")
        return
    E.st.ok(f"{prefix}.at_most_one_checkpoint_per_record")
    OB(E, f"{prefix}.saves_iff_due", expect_save if saves else bnot(expect_save))
    plist = o.fields["checkpoint_path"].get(key)
    if not saves:
        if plist is None:
            E.st.ok(f"{prefix}.no_path_listed_without_save")
        else:
            kind = snap_value(plist)
            same = (z3.eq(plist.len_z(), paths_before[0]) and z3.eq(plist.cols[0], paths_before[1][0])) if isinstance(plist, SymList) else plist == paths_before
            E.st.ok(f"{prefix}.no_path_listed_without_save") if same else E.st.fail(f"{prefix}.no_path_listed_without_save", "checkpoint_path changed although nothing was saved")
        return
    _, ck, directory, state = saves[0]
    if ck is not o.fields["checkpointer"]:
        E.st.fail(f"{prefix}.saved_with_own_checkpointer", repr(ck))
    else:
        E.st.ok(f"{prefix}.saved_with_own_checkpointer")
    # the listed path is the path handed to Orbax
    oblige_appended(E, prefix, plist, paths_before, [directory], "listed_path_is_saved_path")
    # the state of the recorded function approximator was saved
    want = [("model", model.fields["$params"].z)]
    if isinstance(state, StateVal) and len(state.entries) == 1 and state.entries[0][0] == "model" and z3.eq(state.entries[0][1], want[0][1]):
        E.st.ok(f"{prefix}.saved_state_is_models_state")
    else:
        E.st.fail(f"{prefix}.saved_state_is_models_state", repr(getattr(state, "entries", state)))
    # ... and committed before the call returns (restorable by the Orbax contract)
    i = ev.index(saves[0])
    if any(e[0] == "wait" and e[1] is ck for e in ev[i + 1:]):
        E.st.ok(f"{prefix}.save_committed_before_return")
    else:
        E.st.fail(f"{prefix}.save_committed_before_return", "no wait_until_finished after save")


def mk_orbax_record(configured, epoch_known):
    def h(E):
        o = mk_orbax(E)
        configure(E, o, OTHER, tag="'")
        if configured:
            f, e, last = configure(E, o, KEY, epoch_known=epoch_known)
        else:
            f, e, last = None, None, None
            if epoch_known:
                e = E.int(f"epoch[{KEY}]", 0)
                o.fields["epoch"][KEY] = e
        model = mk_net(E, "model", 1)
        ep, st, t = symbolic_location(E)
        s = st if st is not None else o.fields["n_steps"]
        if configured:
            E.assume(s >= last)  # non-decreasing step sequence
        before = snap(o)
        ck = o.fields["checkpointer"]
        pb = _before(o.fields["checkpoint_path"][KEY]) if configured else None
        E.call(E.getattr(o, "record_epoch"), KEY, model, episode=ep, step=st, t=t)
        ev = _events_since(ck, 0)
        crossing = C.compare(">", s // f, last // f) if configured else False
        check_saves(E, "cadence", o, KEY, model, ev, pb, crossing)
        OB(E, "cadence.epoch_counted", C.compare("==", o.fields["epoch"].get(KEY, 0), (e if e is not None else 0) + 1))
        if KEY in o.fields["last_step"]:
            OB(E, "cadence.last_step_is_this_step", C.compare("==", o.fields["last_step"][KEY], s))
        else:
            E.st.fail("cadence.last_step_is_this_step", "last_step not set")
        frame(E, "cadence", o, before, allowed={f"epoch[{KEY}]", f"last_step[{KEY}]", f"checkpoint_path[{KEY}]", "lpad_keys", "checkpointer"})
        if configured:
            OB(E, "canary.saves_on_multiples_only", iff(C.compare("==", s % f, 0), crossing), assume_after=False)
        else:
            OB(E, "canary.unconfigured", C.compare("==", o.fields["last_step"].get(KEY, 1), 0), assume_after=False)
        E.cover("end")
    return h


def h_orbax_two_records(E):
    """history lemma over two consecutive records of one key, last <= s1 <= s2:
    each crossing of one or more multiples of the interval yields exactly one
    checkpoint on the record that passed it - none lost, none counted twice"""
    o = mk_orbax(E)
    o.fields["verbose"] = 0  # printing only (symbolic in the single-call tasks)
    f, e, last = configure(E, o, KEY)
    model = mk_net(E, "model", 1)
    s1, s2 = E.int("step1"), E.int("step2")
    E.assume(band(s1 >= last, s2 >= s1))
    ck = o.fields["checkpointer"]
    n0 = o.fields["checkpoint_path"][KEY].len_sym()
    E.call(E.getattr(o, "record_epoch"), KEY, model, step=s1)
    c1 = len([x for x in _events_since(ck, 0) if x[0] == "save"])
    k = len(ck.fields["$events"])
    E.call(E.getattr(o, "record_epoch"), KEY, model, step=s2)
    c2 = len([x for x in _events_since(ck, k) if x[0] == "save"])
    q0, q1, q2 = last // f, s1 // f, s2 // f
    OB(E, "cadence2.first_record", C.compare("==", c1, ite(C.compare(">", q1, q0), 1, 0)))
    OB(E, "cadence2.second_record_relative_to_first", C.compare("==", c2, ite(C.compare(">", q2, q1), 1, 0)))
    OB(E, "cadence2.no_crossing_lost", implies(C.compare(">", q2, q0), C.compare(">=", c1 + c2, 1)))
    OB(E, "cadence2.none_counted_twice", C.compare("<=", c1 + c2, q2 - q0))
    OB(E, "cadence2.repeated_step_never_saves", implies(C.compare("==", s2, s1), C.compare("==", c2, 0)))
    OB(E, "cadence2.paths_listed_equals_saves", C.compare("==", o.fields["checkpoint_path"][KEY].len_sym(), n0 + c1 + c2))
    OB(E, "cadence2.last_step", C.compare("==", o.fields["last_step"][KEY], s2))
    OB(E, "cadence2.epochs", C.compare("==", o.fields["epoch"][KEY], e + 2))
    OB(E, "canary.two_saves_impossible", C.compare("<=", c1 + c2, 1), assume_after=False)
    E.cover("end")


def h_orbax_define(E):
    o = mk_orbax(E)
    configure(E, o, OTHER, tag="'")
    before = snap(o)
    f = E.int("interval", 1)
    E.call(E.getattr(o, "define_checkpoint_frequency"), KEY, f)
    fl = o.fields
    OB(E, "define.interval_stored", C.compare("==", fl["checkpoint_frequencies"].get(KEY, 0), f))
    E.st.ok("define.no_paths_listed") if fl["checkpoint_path"].get(KEY) == [] else E.st.fail("define.no_paths_listed", repr(fl["checkpoint_path"].get(KEY)))
    OB(E, "define.previous_step_zero", C.compare("==", fl["last_step"].get(KEY, -1), 0))
    frame(E, "define", o, before, allowed={f"checkpoint_frequencies[{KEY}]", f"checkpoint_path[{KEY}]", f"last_step[{KEY}]"})
    # first record after configuration: the interval counts from step 0
    model = mk_net(E, "model", 1)
    s = E.int("step", 0)
    ck = fl["checkpointer"]
    E.call(E.getattr(o, "record_epoch"), KEY, model, step=s)
    check_saves(E, "define.first_record", o, KEY, model, _events_since(ck, 0), [], C.compare(">=", s, f))
    OB(E, "canary.define", C.compare("==", fl["last_step"].get(KEY, 1), 1), assume_after=False)
    E.cover("end")


def mk_standard_epoch(configured, epoch_known):
    def h(E):
        o = mk_logger(E, "StandardLogger")
        configure(E, o, OTHER, tag="'", orbax=False)
        if configured:
            f, e, _ = configure(E, o, KEY, epoch_known=epoch_known, orbax=False)
        else:
            f, e = None, None
            if epoch_known:
                e = E.int(f"epoch[{KEY}]", 0)
                o.fields["epoch"][KEY] = e
                o.fields["epoch_loc"][KEY] = fresh_symlist(E, f"epoch_loc[{KEY}]", LOC_SORTS, is_tuple=True, length=e)
        model = mk_net(E, "model", 1)
        ep, st, t = symbolic_location(E)
        before = snap(o)
        f0 = dict(o.fields)
        ck = o.fields["checkpointer"]
        pb = _before(o.fields["checkpoint_path"][KEY]) if configured else None
        lb = _before(o.fields["epoch_loc"][KEY]) if epoch_known else []
        nc = _nclock(E)
        E.call(E.getattr(o, "record_epoch"), KEY, model, episode=ep, step=st, t=t)
        want = expected_location(E, f0, ep, st, t, nc)
        e1 = (e if e is not None else 0) + 1
        due = C.compare("==", e1 % f, 0) if configured else False
        check_saves(E, "epoch", o, KEY, model, _events_since(ck, 0), pb, due)
        OB(E, "epoch.counted", C.compare("==", o.fields["epoch"].get(KEY, 0), e1))
        if KEY in o.fields["epoch_loc"]:
            oblige_appended(E, "epoch", o.fields["epoch_loc"][KEY], lb, list(want), "location")
        else:
            E.st.fail("epoch.location.length_plus_one", "no epoch_loc entry")
        frame(E, "epoch", o, before, allowed={f"epoch[{KEY}]", f"epoch_loc[{KEY}]", f"checkpoint_path[{KEY}]", "lpad_keys", "checkpointer"})
        if configured:
            OB(E, "canary.epoch_always_saves", due, assume_after=False)
        else:
            OB(E, "canary.epoch_unconfigured", C.compare("==", o.fields["epoch"].get(KEY, 1), 0), assume_after=False)
        E.cover("end")
    return h


def h_standard_two_epochs(E):
    """on every interval-th recorded epoch: two consecutive records save exactly
    (number of multiples of f in (e, e+2]) checkpoints"""
    o = mk_logger(E, "StandardLogger")
    f, e, _ = configure(E, o, KEY, orbax=False)
    model = mk_net(E, "model", 1)
    ck = o.fields["checkpointer"]
    n0 = o.fields["checkpoint_path"][KEY].len_sym()
    E.call(E.getattr(o, "record_epoch"), KEY, model)
    E.call(E.getattr(o, "record_epoch"), KEY, model)
    c = len([x for x in _events_since(ck, 0) if x[0] == "save"])
    OB(E, "epoch2.saves_equal_multiples_passed", C.compare("==", c, (e + 2) // f - e // f))
    OB(E, "epoch2.paths_listed_equals_saves", C.compare("==", o.fields["checkpoint_path"][KEY].len_sym(), n0 + c))
    OB(E, "canary.epoch2", C.compare("==", c, 1), assume_after=False)
    E.cover("end")


def h_standard_define(E):
    o = mk_logger(E, "StandardLogger")
    has_ck = E.branch(E.bool("checkpointer_exists"))
    if has_ck:
        o.fields["checkpointer"] = new_checkpointer(E)
    ck0 = o.fields["checkpointer"]
    before = snap(o)
    f = E.int("interval", 1)
    E.call(E.getattr(o, "define_checkpoint_frequency"), KEY, f)
    fl = o.fields
    OB(E, "define.interval_stored", C.compare("==", fl["checkpoint_frequencies"].get(KEY, 0), f))
    E.st.ok("define.no_paths_listed") if fl["checkpoint_path"].get(KEY) == [] else E.st.fail("define.no_paths_listed", repr(fl["checkpoint_path"].get(KEY)))
    ck = fl["checkpointer"]
    ok = isinstance(ck, Obj) and (ck is ck0 if has_ck else True)
    E.st.ok("define.checkpointer_available") if ok else E.st.fail("define.checkpointer_available", repr(ck))
    frame(E, "define", o, before, allowed={f"checkpoint_frequencies[{KEY}]", f"checkpoint_path[{KEY}]", "checkpointer"})
    # first f records after configuration (epoch counted from 0): exactly the f-th saves
    model = mk_net(E, "model", 1)
    E.call(E.getattr(o, "record_epoch"), KEY, model)
    check_saves(E, "define.first_record", o, KEY, model, _events_since(ck, 0), [], C.compare("==", f, 1))
    OB(E, "canary.define", C.compare("==", fl["checkpoint_frequencies"].get(KEY, 0), 1), assume_after=False)
    E.cover("end")


def h_list_mixed(E):
    """a LoggerList of a MemoryLogger, an OrbaxCheckpointer and a StandardLogger
    (the combination the deprecation note recommends): the checkpointer member
    checkpoints exactly as if it had been called directly, the recording
    members hold identical records, nobody else is disturbed"""
    mem = mk_logger(E, "MemoryLogger", tag="#mem")
    orb = mk_orbax(E, tag="#orb")
    std = mk_logger(E, "StandardLogger", tag="#std", share=mem)
    f, e, last = configure(E, orb, KEY)
    ll = E.new_obj(Q + "LoggerList", name="logger_list", loggers=[mem, orb, std])
    model = mk_net(E, "model", 1)
    s = E.int("step")
    E.assume(s >= last)
    b_mem, b_orb, b_std = snap(mem), snap(orb), snap(std)
    pb = _before(orb.fields["checkpoint_path"][KEY])
    ck = orb.fields["checkpointer"]
    E.call(E.getattr(ll, "record_epoch"), KEY, model, step=s)
    check_saves(E, "listmixed", orb, KEY, model, _events_since(ck, 0), pb, C.compare(">", s // f, last // f))
    frame(E, "listmixed.memory", mem, b_mem)
    frame(E, "listmixed.orbax", orb, b_orb, allowed={f"epoch[{KEY}]", f"last_step[{KEY}]", f"checkpoint_path[{KEY}]", "lpad_keys", "checkpointer"})
    frame(E, "listmixed.standard", std, b_std, allowed={f"epoch[{KEY}]", f"epoch_loc[{KEY}]", "lpad_keys"})
    OB(E, "canary.listmixed", C.compare("==", orb.fields["last_step"].get(KEY, 0), last), assume_after=False)
    # statistics through the same list
    b_orb = snap(orb)
    v, st, total = E.val("value"), E.int("stat_step"), E.int("total_steps")
    n = mem.hist[KEY][0]
    e0, s0 = mem.fields["_n_episodes"], mem.fields["n_steps"]
    E.call(E.getattr(ll, "start_new_episode"))
    E.call(E.getattr(ll, "record_stat"), KEY, v, step=st)
    E.call(E.getattr(ll, "stop_episode"), total)
    for nm, m in (("memory", mem), ("standard", std)):
        x, y = E.call(E.getattr(m, "get_stat"), KEY, "step")
        xe, _ = E.call(E.getattr(m, "get_stat"), KEY, "episode")
        OB(E, f"listmixed.{nm}.record", band(C.compare("==", y.shape[0], n + 1), Sym(_as_val(y.at(n)) == v.z), C.compare("==", x.at(n), st), C.compare("==", xe.at(n), e0 + 1)))
        OB(E, f"listmixed.{nm}.counters", band(C.compare("==", m.fields["_n_episodes"], e0 + 1), C.compare("==", m.fields["n_steps"], s0 + total)))
        lwf(E, f"listmixed.{nm}", m)
    OB(E, "listmixed.orbax.counters", band(C.compare("==", orb.fields["_n_episodes"], b_orb["_n_episodes"][1] + 1), C.compare("==", orb.fields["n_steps"], b_orb["n_steps"][1] + total)))
    frame(E, "listmixed.orbax.stats_do_nothing", orb, b_orb, allowed={"_n_episodes", "n_steps"})
    if _events_since(ck, 0) and len([x for x in _events_since(ck, 0) if x[0] == "save"]) > 1:
        E.st.fail("listmixed.no_checkpoint_from_statistics", "a statistics call saved a checkpoint")
    else:
        E.st.ok("listmixed.no_checkpoint_from_statistics")


def _T(name, h, **kw):
    return Task(name, h, setup=setup, **kw)


TASKS = [_T(f"{c}.init", mk_init(c)) for c in ("MemoryLogger", "StandardLogger", "OrbaxCheckpointer")]
for _c in ("MemoryLogger", "StandardLogger"):
    TASKS += [
        _T(f"{_c}.record_stat[known-key]", mk_record(_c, True)),
        _T(f"{_c}.record_stat[new-key]", mk_record(_c, False)),
        _T(f"{_c}.record_stat[known-key,python-list-of-2]", mk_record(_c, True, 2)),
        _T(f"{_c}.record_then_get[known-key,python-list-of-2]", mk_record_then_get(_c, True, 2)),
        _T(f"{_c}.get_stat[default]", mk_get(_c, None)),
        _T(f"{_c}.get_stat[episode]", mk_get(_c, "episode")),
        _T(f"{_c}.get_stat[step]", mk_get(_c, "step")),
        _T(f"{_c}.get_stat[time]", mk_get(_c, "time")),
        _T(f"{_c}.get_stat[rejects]", mk_get_rejects(_c)),
        _T(f"{_c}.record_then_get[known-key]", mk_record_then_get(_c, True)),
        _T(f"{_c}.record_then_get[new-key]", mk_record_then_get(_c, False)),
        _T(f"{_c}.start_new_episode", mk_start(_c)),
        _T(f"{_c}.stop_episode[known-key]", mk_stop(_c, True)),
        _T(f"{_c}.stop_episode[new-key]", mk_stop(_c, False)),
        _T(f"{_c}.history", mk_history(_c)),
    ]
TASKS += [
    _T("MemoryLogger.noops", h_memory_noops),
    _T("LoggerList.fanout[2]", mk_list_fanout(2)),
    _T("LoggerList.fanout[3]", mk_list_fanout(3)),
    _T("LoggerList.memory_members[2,known-key]", mk_list_memory(2, True)),
    _T("LoggerList.memory_members[3,known-key]", mk_list_memory(3, True)),
    _T("LoggerList.memory_members[2,new-key]", mk_list_memory(2, False)),
    _T("LoggerList.mixed", h_list_mixed),
    _T("OrbaxCheckpointer.start_new_episode", mk_start("OrbaxCheckpointer")),
    _T("OrbaxCheckpointer.stop_episode", mk_stop("OrbaxCheckpointer")),
    _T("OrbaxCheckpointer.define_checkpoint_frequency", h_orbax_define),
    _T("OrbaxCheckpointer.record_epoch[configured]", mk_orbax_record(True, True)),
    _T("OrbaxCheckpointer.record_epoch[configured,first-epoch]", mk_orbax_record(True, False)),
    _T("OrbaxCheckpointer.record_epoch[unconfigured]", mk_orbax_record(False, True)),
    _T("OrbaxCheckpointer.record_epoch[unconfigured,first-epoch]", mk_orbax_record(False, False)),
    _T("OrbaxCheckpointer.history2", h_orbax_two_records),
    _T("StandardLogger.define_checkpoint_frequency", h_standard_define),
    _T("StandardLogger.record_epoch[configured]", mk_standard_epoch(True, True)),
    _T("StandardLogger.record_epoch[configured,first-epoch]", mk_standard_epoch(True, False)),
    _T("StandardLogger.record_epoch[unconfigured]", mk_standard_epoch(False, True)),
    _T("StandardLogger.record_epoch[unconfigured,first-epoch]", mk_standard_epoch(False, False)),
    _T("StandardLogger.history2", h_standard_two_epochs),
]

TRUSTED = [
    "python int arithmetic is unbounded (exact); python // and % are floor division / non-negative remainder for a positive divisor",
    "symbolic-length python lists: append / len / index / map / list / numpy.asarray as documented in pyvc/lib/ext_symlist.py",
    "Orbax: a directory handed to StandardCheckpointer.save and followed by wait_until_finished is restorable (round trip: C19)",
]
ASSUMPTIONS = [
    "keys are python strings; the proofs use the representative keys 'return' (the key of the call, known or new), 'loss' (another key, "
    "for the frame conditions) and 'episode_length' - the code touches keys only through dict lookup / membership / len(key)",
    "recorded values are opaque payloads (sort Val); explicit episode / step are ints, explicit t a real (the documented parameter types)",
    "induction over call histories: every operation is proved from an ARBITRARY state satisfying the class invariant "
    "(histories of symbolic length n >= 0, arbitrary counters) to append exactly one record at the end, leave every existing record "
    "untouched and re-establish the invariant; __init__ establishes it",
    "checkpoint cadence: interval >= 1 (documented 'number of steps after which ...'), steps of one key are non-decreasing (step >= previous step)",
    "LoggerList: lists of 2 and 3 members (the fan-out loops run over the concrete member list and are unrolled; the loop body does not depend on the position); "
    "members are recording stubs (arguments compared parameter by parameter against the LoggerBase signature), MemoryLoggers, and the mixed list MemoryLogger + OrbaxCheckpointer + StandardLogger",
    "LoggerList members that record (MemoryLogger) are in identical abstract states - true from construction on when they are only driven through the list",
    "with t=None every logger stamps its own wall-clock read: time stamps of different LoggerList members are compared only for explicit t",
]
NOT_COVERED = [
    "StdoutLogger, AIMLogger (not in the property's function list); formatting of the printed lines (f-strings are opaque texts)",
    "file-system effects (os.makedirs, the bytes Orbax writes) and Orbax's rejection of an already existing directory: a second "
    "logger writing into the same directory with the same start_time/env/algorithm/key/epoch is outside the model",
    "restorability itself is the Orbax library contract (C19); here: every listed path was saved with the model's state and committed before the call returned",
]
REPLAY = {"": "c20_loggers"}
