"""Interaction loops beyond the replay-buffer family (C01 / C11 / C13 loop clause).

Same machinery as contracts/loops.py (Gymnasium typestate environment, contract
stubs that check their call-site preconditions against ghost state, loops cut
with Houdini invariants), extended to

 A. the tabular loops (train_q_learning, train_sarsa, train_double_q_learning,
    train_monte_carlo, train_dynaq): there is no replay buffer - the transition
    "kept for learning" is the argument tuple of the update call (or the rows of
    the episode arrays / planning buffers); the value table is an opaque,
    versioned payload (ghost `$table[...]` = the current estimate);
 B. the on-policy collectors (reinforce.sample_trajectories + train_reinforce /
    train_ac, a2c.collect_trajectories + train_a2c, ppo.collect_trajectories +
    train_ppo, train_cmaes);
 C. util.experiment_helper.generate_rollout.
"""
import ast
import itertools

import z3

from pyvc import core as C
from pyvc import tensor as T
from pyvc.core import BOOL, INT, REAL, VAL, Anything, Builtin, NamedTuple, Obj, Sym, band, bnot, bor, implies
from pyvc.interp import LoopSpec
from pyvc.lib import LIB
from pyvc.lib.gym_model import env_funcs, mk_env
from pyvc.runner import Task

from . import loops as L
from .loops import ALG, Cfg, _sig, loop_task

VP = "rl_blox.blox.value_policy."
EXTRA = {}  # fn -> Cfg (kept apart from loops.CONFIGS: these have no target networks / episode limits)


def xreg(cfg):
    EXTRA[cfg.fn] = cfg
    return cfg


def bind(E, qual, a, k):
    """arguments of a stubbed callee by the parameter names of its REAL signature"""
    names, _ = _sig(E, qual)
    out = dict(k)
    for n, v in zip(names, a):
        out[n] = v
    return out


def zeq(a, b):
    return isinstance(a, Sym) and isinstance(b, Sym) and z3.eq(a.z, b.z)


def B(x):
    return x if isinstance(x, Sym) else Sym(z3.BoolVal(bool(x)))


# ======================================================================
# A. tabular loops
# ======================================================================
def table_fields(E):
    env = E.heap["env"].fields
    return [k for k in env if k.startswith("$table[")]


def current_estimate(E):
    """the value table the behaviour policy has to consult: the single table, or
    the sum of the two double-Q tables (documented: 'the sum of the two Q-values')"""
    env = E.heap["env"].fields
    ks = table_fields(E)
    if len(ks) == 1:
        return env[ks[0]]
    return C.binop("+", env[ks[0]], env[ks[1]])


def tab_pre(tables):
    def pre(E, ck, args):
        env = ck.env(E)
        for t in tables:
            env.fields[f"$table[{t}]"] = args[t]
    return pre


def tab_cands(L_, executed):
    """Houdini candidates: which local holds the current estimate(s)"""
    E = L_.E
    env = E.heap["env"].fields
    ks = table_fields(E)
    vals = [(k, v) for k, v in sorted(L_.frame.vars.items()) if isinstance(v, Sym) and v.z.sort() == VAL]
    out = []
    if len(ks) == 1:
        for k, v in vals:
            out.append((f"{k}==current_table", C.compare("==", v, env[ks[0]])))
    elif len(ks) == 2:
        g1, g2 = env[ks[0]], env[ks[1]]
        for (k1, v1), (k2, v2) in itertools.combinations(vals, 2):
            out.append((f"{{{k1},{k2}}}==current_tables", bor(band(C.compare("==", v1, g1), C.compare("==", v2, g2)),
                                                               band(C.compare("==", v1, g2), C.compare("==", v2, g1)))))
    return out


def policy_stub(kind):
    def stub(E, q_table, observation, epsilon=None, key=None):
        ck = E.shared.checker
        ck.act(E, observation, f"{kind}_policy")
        a = E.st.fresh_sym(f"{kind}_action", VAL)
        ck.note_action(E, a)
        E.st.ghost.setdefault("policy_calls", []).append(dict(kind=kind, action=a, table=q_table, obs=observation, epsilon=epsilon))
        return a
    return stub


def find_policy_call(E, action):
    for rec in E.st.ghost.get("policy_calls", []):
        if zeq(rec["action"], action):
            return rec
    return None


def successor_obs(E, ck):
    f = ck.env(E).fields
    n1 = C.to_z3(C.binop("-", f["$nsteps"], 1))
    return Sym(env_funcs(f["$name"])["OBS"](n1))


def check_next_action(E, ck, next_action):
    """SARSA / Q-learning bootstrap from the action a policy picks at the SUCCESSOR observation"""
    if "C01" not in ck.kinds:
        return
    rec = find_policy_call(E, next_action)
    if rec is None:
        E.st.fail("update.pre.next_action_from_policy_at_successor_observation", f"next action {next_action!r} is not the result of a policy call")
        return
    E.oblige("update.pre.next_action_from_policy_at_successor_observation", L.same_value(rec["obs"], successor_obs(E, ck)))


def table_update(E, ck, first, second=None):
    """the update routine returns a NEW table (fresh payload) that replaces the table passed
    first; ghost `$table[..]` follows.  C13: the tables handed in are the current estimates."""
    env = ck.env(E)
    ks = table_fields(E)
    new = E.st.fresh_sym("updated_table", VAL)
    for k in ks:
        E.log_write(env.name, k)
    if len(ks) == 1:
        if "C13" in ck.kinds:
            E.oblige("update.pre.table_is_the_current_estimate", C.compare("==", first, env.fields[ks[0]]))
        env.fields[ks[0]] = new
        return new
    g1, g2 = env.fields[ks[0]], env.fields[ks[1]]
    straight = band(C.compare("==", first, g1), C.compare("==", second, g2))
    crossed = band(C.compare("==", first, g2), C.compare("==", second, g1))
    if "C13" in ck.kinds:
        E.oblige("update.pre.tables_are_the_current_estimates", bor(straight, crossed))
    env.fields[ks[0]] = C.ite(straight, new, g1)
    env.fields[ks[1]] = C.ite(straight, g2, new)
    return new


TRANSITION = ("observation", "action", "reward", "next_observation", "terminated")


def td_update_stub(qual):
    def stub(E, *a, **k):
        ck = E.shared.checker
        kw = bind(E, qual, a, k)
        ck.store(E, {f: kw[f] for f in TRANSITION if f in kw})
        if "next_action" in kw:
            check_next_action(E, ck, kw["next_action"])
        ck.update(E, "q_table")
        if "q_table1" in kw:
            return table_update(E, ck, kw["q_table1"], kw["q_table2"])
        return table_update(E, ck, kw["q_table"])
    return stub


def c13_tabular_step(E, ck, action):
    """C13 loop clause: the action passed to env.step is the epsilon-greedy policy's action for
    the CURRENT estimate and the CURRENT observation, with the configured epsilon"""
    rec = find_policy_call(E, action)
    if rec is None or rec["kind"] != "epsilon_greedy":
        E.st.fail("step.pre.action_is_epsilon_greedy_policy_action", f"action {action!r} passed to env.step is not the result of epsilon_greedy_policy")
        return
    E.st.ok("step.pre.action_is_epsilon_greedy_policy_action")
    env = ck.env(E).fields
    E.oblige("step.pre.behaviour_policy_on_current_observation", L.same_value(rec["obs"], env["$cur"]))
    E.oblige("step.pre.behaviour_policy_on_current_estimate", C.compare("==", rec["table"], current_estimate(E)))
    want = E.st.ghost["args"].get("epsilon")
    same = rec["epsilon"] is want or zeq(rec["epsilon"], want)
    (E.st.ok if same else E.st.fail)("step.pre.exploration_probability_is_configured_epsilon", *([] if same else [f"epsilon argument {rec['epsilon']!r}"]))


def tab_post(E, ck, args, result, kinds):
    if "C13" in kinds:
        E.oblige("canary.c13.no_steps_executed", C.compare("==", ck.executed(E), 0), assume_after=False)


def tab_cfg(module, fn, tables, stubs, **kw):
    scen = {t: (lambda E, t=t: E.val(t)) for t in tables}
    scen.update(kw.pop("scen", {}))
    st = {VP + "epsilon_greedy_policy": policy_stub("epsilon_greedy"), VP + "greedy_policy": policy_stub("greedy")}
    st.update(stubs)
    cfg = Cfg(module, fn, True, counter=None, ret=None, episodes=False, stubs=st, scen=scen, cands_extra=tab_cands, **kw)
    cfg.pre = tab_pre(tables)
    cfg.post = tab_post
    cfg.c13_step = c13_tabular_step
    cfg.tables = tables
    return xreg(cfg)


tab_cfg("q_learning", "train_q_learning", ["q_table"], {ALG + "q_learning._update_policy": td_update_stub(ALG + "q_learning._update_policy")})
tab_cfg("sarsa", "train_sarsa", ["q_table"], {ALG + "sarsa._update_policy": td_update_stub(ALG + "sarsa._update_policy")})
tab_cfg("double_q_learning", "train_double_q_learning", ["q_table1", "q_table2"],
        {ALG + "double_q_learning._dql_update": td_update_stub(ALG + "double_q_learning._dql_update")})


# ------------------------------------------------------------ Monte-Carlo
def hist_funcs(name):
    """ghost history of an environment: BEFORE(n) = observation the environment had last returned
    before its n-th step, ACT(n) = action passed to that step (defined, once per n, by history_hook)"""
    return dict(BEFORE=C.uf(f"BEFORE_{name}", INT, VAL), ACT=C.uf(f"ACT_{name}", INT, VAL))


def history_hook(E, kind, **kw):
    if kind != "step.pre":
        return
    from pyvc.lib.np_model import to_sort

    f = kw["env"].fields
    h = hist_funcs(f["$name"])
    n = C.to_z3(f["$nsteps"])
    E.assume(h["BEFORE"](n) == to_sort(f["$cur"], VAL))
    E.assume(h["ACT"](n) == to_sort(kw["action"], VAL))


def log_fn(E, role):
    """role of an episode array -> (z3 function of the step index, description)"""
    name = E.heap["env"].fields["$name"]
    if role == "rewards":
        return env_funcs(name)["REW"]
    return hist_funcs(name)["BEFORE" if role == "observations" else "ACT"]


def call_arg_names(shared, qual, callee_qual):
    """syntactic: for the (single) call of `callee` in `qual`, the local array each callee
    parameter is sliced from: {param: local name}  (robust to renamed locals)"""
    mod, fn = qual.rsplit(".", 1)
    mi = shared.loader.load_module(mod)
    node = [n for n in mi.tree.body if isinstance(n, ast.FunctionDef) and n.name == fn][0]
    cmod, cfn = callee_qual.rsplit(".", 1)
    cnode = [n for n in shared.loader.load_module(cmod).tree.body if isinstance(n, ast.FunctionDef) and n.name == cfn][0]
    params = [p.arg for p in cnode.args.posonlyargs + cnode.args.args]
    out = {}
    for c in ast.walk(node):
        if isinstance(c, ast.Call) and isinstance(c.func, ast.Name) and c.func.id == cfn:
            bound = dict(zip(params, c.args))
            bound.update({k.arg: k.value for k in c.keywords if k.arg})
            for p, e in bound.items():
                while isinstance(e, (ast.Subscript, ast.Call)):
                    if isinstance(e, ast.Call):
                        if not e.args:
                            break
                        e = e.args[0]  # conversion call, e.g. jnp.asarray(buf, dtype=int)
                    else:
                        e = e.value
                if isinstance(e, ast.Name):
                    out[p] = e.id
    return out


MC = ALG + "monte_carlo."
MC_ROLES = ("rewards", "observations", "actions")


def mc_qinv(L_):
    """every row written so far is the data of the step with that index:
    forall 0 <= k < executed: arr[k] == log(n0 + k)"""
    E = L_.E
    env = E.heap["env"].fields
    n0 = C.to_z3(env["$n0"])
    ex = C.to_z3(C.binop("-", env["$nsteps"], env["$n0"]))
    out = []
    for role in MC_ROLES:
        nm = E.shared.mc_arrays.get(role)
        X = L_.frame.vars.get(nm)
        if not isinstance(X, T.Tensor) or X.ndim != 1:
            continue
        log = log_fn(E, role)
        out.append((f"rows_written_are_the_data_of_their_step[{role}]", [INT],
                    lambda k, X=X, log=log: z3.Implies(z3.And(k >= 0, k < ex), C.to_z3(X.at(Sym(k))) == log(n0 + k))))
    return out


def mc_update_stub(E, *a, **k):
    ck = E.shared.checker
    kw = bind(E, MC + "update", a, k)
    env = ck.env(E).fields
    if "C01" in ck.kinds:
        alive = env["$alive"]
        E.oblige("update.pre.called_when_the_episode_has_ended", bnot(alive) if isinstance(alive, Sym) else Sym(z3.BoolVal(not alive)))
        n, ln = C.to_z3(env["$nsteps"]), C.to_z3(env["$eplen"])
        for role in MC_ROLES:
            X = kw.get(role)
            if not isinstance(X, T.Tensor) or X.ndim != 1:
                E.st.fail(f"update.pre.episode_array[{role}]", f"not a 1-d array: {X!r}")
                continue
            log = log_fn(E, role)
            E.oblige(f"update.pre.episode_array_has_episode_length[{role}]", C.compare("==", X.shape[0], env["$eplen"]))
            E.st.oblige_forall(f"update.pre.rows_are_the_steps_of_the_finished_episode[{role}]", [INT],
                               lambda j, X=X, log=log: z3.Implies(z3.And(j >= 0, j < ln), C.to_z3(X.at(Sym(j))) == log(n - ln + j)), hint="j")
    ck.update(E, "q_table")
    return (table_update(E, ck, kw["q_table"]), Anything("n_visits"))


def mc_cands(L_, executed):
    out = tab_cands(L_, executed)
    env = L_.E.heap["env"].fields
    for k, v in sorted(L_.frame.vars.items()):
        if (isinstance(v, Sym) and v.z.sort() == INT) or (isinstance(v, int) and not isinstance(v, bool)):
            out.append((f"{k}>=0", B(C.compare(">=", v, 0))))
            out.append((f"{k}+episode_length==executed", B(C.compare("==", C.binop("+", v, env["$eplen"]), executed))))
    return out


def mc_setup(shared):
    shared.jnp_empty_int_sort = VAL  # int arrays of train_monte_carlo hold int(observation) / int(action): payloads (DESIGN 4.2)
    shared.env_hooks.append(history_hook)
    shared.mc_arrays = call_arg_names(shared, MC + "train_monte_carlo", MC + "update")
    shared.loop_specs[(MC + "train_monte_carlo", 0)].qinv = mc_qinv
    shared.loop_specs[(MC + "train_monte_carlo", 0)].cand_qfacts = False


_mc = tab_cfg("monte_carlo", "train_monte_carlo", ["q_table"], {MC + "update": mc_update_stub})
_mc.cands_extra = mc_cands
_mc.setup_extra = mc_setup


# ------------------------------------------------------------------ Dyna-Q
DQ = ALG + "dynaq."
DEQUE = "collections.deque"


def _table_shape_attr(E, v, name):
    """`q_table.shape` of an opaque table payload: the symbolic (n_states, n_actions) registered by the harness"""
    if name == "shape" and isinstance(v, Sym) and v.z.sort() == VAL:
        sh = E.st.ghost.get("table_shapes", {}).get(v.z.get_id())
        if sh is not None:
            return sh
    return NotImplemented


LIB.value_attr_handlers.insert(0, _table_shape_attr)


def dq_table(E):
    q = E.val("q_table")
    E.st.ghost.setdefault("table_shapes", {})[q.z.get_id()] = (E.int("n_states", 1), E.int("n_actions", 1))
    return q


def dq_store_stub(fn_name, fields, returns):
    qual = DQ + fn_name

    def stub(E, *a, **k):
        ck = E.shared.checker
        kw = bind(E, qual, a, k)
        ck.store(E, {f: kw[f] for f in fields if f in kw}, site=fn_name, term_required=False,
                 need={"observation", "action", "next_observation"} | ({"reward"} if "reward" in fields else set()))
        if returns == "q_table":
            ck.update(E, "q_table")
            return table_update(E, ck, kw["q_table"])
        return kw[returns]
    return stub


def dq_deques(E, frame_vars):
    out = {}
    for role, nm in E.shared.dq_buffers.items():
        d = frame_vars.get(nm)
        if isinstance(d, Obj) and d.cls == DEQUE:
            out[role] = d
    return out


def dq_planning_stub(E, *a, **k):
    """planning replays (observation, action) pairs drawn from the two buffers: they must hold exactly the
    pairs visited by the last min(executed, buffer_size) steps, in order"""
    ck = E.shared.checker
    kw = bind(E, DQ + "planning", a, k)
    env = ck.env(E).fields
    if "C01" in ck.kinds:
        n = C.to_z3(env["$nsteps"])
        want_len = C.smin(ck.executed(E), E.st.ghost["args"]["buffer_size"])
        for role, logname in (("obs_buffer", "BEFORE"), ("act_buffer", "ACT")):
            X = kw.get(role)
            if not isinstance(X, T.Tensor) or X.ndim != 1:
                E.st.fail(f"planning.pre.buffer[{role}]", f"not a 1-d array: {X!r}")
                continue
            log = hist_funcs(env["$name"])[logname]
            ln = C.to_z3(X.shape[0])
            E.oblige(f"planning.pre.buffer_holds_the_last_buffer_size_steps[{role}]", C.compare("==", X.shape[0], want_len))
            E.st.oblige_forall(f"planning.pre.buffer_rows_are_the_visited_pairs[{role}]", [INT],
                               lambda j, X=X, log=log, ln=ln: z3.Implies(z3.And(j >= 0, j < ln), C.to_z3(X.at(Sym(j))) == log(n - ln + j)), hint="j")
    ck.update(E, "planning")
    return table_update(E, ck, kw["q_table"])


def dq_qinv(L_):
    """log-space invariant of the two deques: entry j of the append log is the pair visited by step j"""
    E = L_.E
    env = E.heap["env"].fields
    n0 = C.to_z3(env["$n0"])
    out = []
    for role, d in dq_deques(E, L_.frame.vars).items():
        log = hist_funcs(env["$name"])["BEFORE" if role == "obs_buffer" else "ACT"]
        g, col = C.to_z3(d.fields["$g"]), d.fields["$col"].z
        out.append((f"appended_entries_are_the_visited_pairs[{role}]", [INT],
                    lambda j, g=g, col=col, log=log: z3.Implies(z3.And(j >= 0, j < g), z3.Select(col, j) == log(n0 + j))))
    return out


def dq_cands(L_, executed):
    out = tab_cands(L_, executed)
    for role, d in dq_deques(L_.E, L_.frame.vars).items():
        out.append((f"appends[{role}]==executed", B(C.compare("==", d.fields["$g"], executed))))
    return out


def dq_setup(shared):
    shared.env_hooks.append(history_hook)
    shared.dq_buffers = {k: v for k, v in call_arg_names(shared, DQ + "train_dynaq", DQ + "planning").items() if k in ("obs_buffer", "act_buffer")}
    shared.loop_specs[(DQ + "train_dynaq", 0)].qinv = dq_qinv
    shared.loop_specs[(DQ + "train_dynaq", 0)].cand_qfacts = False


_dq = tab_cfg("dynaq", "train_dynaq", ["q_table"], {
    DQ + "q_learning_update": dq_store_stub("q_learning_update", ("obs", "act", "reward", "next_obs"), "q_table"),
    DQ + "counter_update": dq_store_stub("counter_update", ("obs", "act", "reward", "next_obs"), "counter"),
    DQ + "model_update": dq_store_stub("model_update", ("obs", "act", "next_obs"), "model"),
    DQ + "planning": dq_planning_stub,
}, scen={"q_table": dq_table})
_dq.cands_extra = dq_cands
_dq.setup_extra = dq_setup


# ======================================================================
# rollout rows kept in python lists (generate_rollout, ppo.collect_trajectories)
# ======================================================================
def rows_observer(E, fn, args, kwargs):
    """python lists that collect rollout rows: every `<list>.append(x)` in the routine under verification is a
    store site.  The list is identified by the local it is bound to (roles come from the routine's documented
    return order); ghost `$rows[role]` counts the rows appended so far, so that 'row k belongs to step k' is part
    of the obligation.  Any other mutation of such a list is reported."""
    if not isinstance(fn, Builtin) or not fn.name.startswith("list."):
        return None
    node, fr = E.cur_call if E.cur_call else (None, None)
    if node is None or fr is None or fr.qualname != E.shared.rows_fn:
        return None
    f = node.func
    if not (isinstance(f, ast.Attribute) and isinstance(f.value, ast.Name)):
        return None
    role = E.shared.rows_roles.get(f.value.id)
    if role is None:
        return None
    ck = E.shared.checker
    env = ck.env(E)
    if fn.name != "list.append":
        E.st.fail(f"rollout.rows_are_only_appended[{role}]", f"{fn.name} on the rollout list {f.value.id}")
        return None
    key = f"$rows[{role}]"
    if "C01" in ck.kinds:
        E.shared.rows_check(E, ck, role, args[0], env.fields[key])
    E.log_write(env.name, key)
    env.fields[key] = C.binop("+", env.fields[key], 1)
    return None


def return_names(shared, qual, roles):
    """syntactic: locals the (last) return statement's tuple elements are built from, by position"""
    mod, fn = qual.rsplit(".", 1)
    node = [n for n in shared.loader.load_module(mod).tree.body if isinstance(n, ast.FunctionDef) and n.name == fn][0]
    def elts(v):
        if isinstance(v, ast.Tuple):
            return v.elts
        if isinstance(v, ast.Call) and isinstance(v.func, ast.Call):  # namedtuple("T", [...])(a, b, ...)
            return v.args
        return None

    rets = [n for n in ast.walk(node) if isinstance(n, ast.Return) and n.value is not None and elts(n.value)]
    out = {}
    if rets:
        for role, e in zip(roles, elts(rets[-1].value)):
            while isinstance(e, (ast.Call, ast.Subscript, ast.Attribute)):
                if isinstance(e, ast.Call):
                    if e.args:
                        e = e.args[0]
                    elif isinstance(e.func, ast.Attribute):
                        e = e.func.value  # method call without arguments, e.g. x.squeeze()
                    else:
                        break
                else:
                    e = e.value
            if isinstance(e, ast.Name):
                out[e.id] = role
    return out


def rows_pre(E, ck, args):
    env = ck.env(E)
    for role in set(E.shared.rows_roles.values()):
        env.fields[f"$rows[{role}]"] = 0


def rows_cands(L_, executed):
    E = L_.E
    env = E.heap["env"].fields
    out = []
    for k in sorted(env):
        if k.startswith("$rows["):
            for d in (0, 1):
                out.append((f"{k[1:]}==executed{d:+d}", B(C.compare("==", env[k], C.binop("+", executed, d)))))
    bools = [(k, v) for k, v in sorted(L_.frame.vars.items()) if isinstance(v, bool) or (isinstance(v, Sym) and v.z.sort() == BOOL)]
    alive = env["$alive"]
    for (k1, v1), (k2, v2) in itertools.combinations(bools, 2):
        out.append((f"env.alive==not({k1} or {k2})", B(C.compare("==", B(alive), bnot(bor(B(v1), B(v2)))))))
    for k, v in bools:  # a single "episode over" / "running" flag
        out.append((f"env.alive==not {k}", B(C.compare("==", B(alive), bnot(B(v))))))
        out.append((f"env.alive=={k}", B(C.compare("==", B(alive), B(v)))))
    return out


# ------------------------------------------------------- C. generate_rollout
GR = "rl_blox.util.experiment_helper.generate_rollout"


def gr_rows_check(E, ck, role, x, rows_before):
    env = ck.env(E).fields
    n1 = C.to_z3(C.binop("-", env["$nsteps"], 1))
    ex = ck.executed(E)
    if role == "observations":
        # row 0 is the reset observation, row k + 1 the observation returned by step k
        E.oblige("rollout.row_is_what_the_env_produced[observations]", L.same_value(x, env["$cur"]))
        E.oblige("rollout.row_index_is_step_index[observations]", C.compare("==", rows_before, ex))
        return
    want = env["$action"] if role == "actions" else Sym(env_funcs(env["$name"])["REW"](n1))
    E.oblige(f"rollout.row_is_what_the_env_produced[{role}]", L.same_value(x, want))
    E.oblige(f"rollout.row_index_is_step_index[{role}]", C.compare("==", rows_before, C.binop("-", ex, 1)))


def gr_policy(E):
    def call(E, observation=None, key=None, **kw):
        ck = E.shared.checker
        ck.act(E, observation, "policy")
        return ck.policy_action(E)
    return Builtin("stub.rollout_policy", call)


def gr_setup(shared):
    shared.rows_fn = GR
    shared.rows_roles = return_names(shared, GR, ("observations", "actions", "rewards"))
    shared.rows_check = gr_rows_check
    shared.observers.append(rows_observer)
    shared.loop_specs[(GR, 0)].opaque_lists = True
    shared.force_cut.add((GR, 0))


def gr_post(E, ck, args, result, kinds):
    env = ck.env(E).fields
    if "C11" in kinds:
        alive = env["$alive"]
        E.oblige("post.rollout_stops_when_the_episode_has_ended", bnot(B(alive)))
    if "C01" in kinds:
        E.oblige("post.one_row_per_step[observations]", C.compare("==", env["$rows[observations]"], C.binop("+", ck.executed(E), 1)))
        for role in ("actions", "rewards"):
            E.oblige(f"post.one_row_per_step[{role}]", C.compare("==", env[f"$rows[{role}]"], ck.executed(E)))


_gr = Cfg("experiment_helper", "generate_rollout", True, counter=None, ret=None, episodes=False, scen={"policy": gr_policy}, cands_extra=rows_cands)
_gr.qual = GR
_gr.setup_extra = gr_setup
_gr.pre = rows_pre
_gr.post = gr_post
xreg(_gr)


# ======================================================================
# B. on-policy collectors
# ======================================================================
RF = ALG + "reinforce."
STUB_DATASET = "stub.EpisodeDataset"


def dataset_stub(E, *a, **k):
    """contract of reinforce.EpisodeDataset (checked against the real class in the task `EpisodeDataset`):
    a list of episode records; start_episode opens a new record, add_sample appends the row
    (observation, action, next_observation, reward) to the open record, len() is the total number of rows.
    ghost: $n rows in total, $k rows in the open record, $records, $nsteps0 = env step count at creation"""
    ck = E.shared.checker
    node, fr = E.cur_call if E.cur_call else (None, None)
    o = Obj(STUB_DATASET, {"$n": 0, "$k": 0, "$records": 0, "$nsteps0": ck.env(E).fields["$nsteps"],
                           # contents as read by train_ac (a list of records of 4-tuples): values irrelevant at loop level
                           "episodes": [[tuple(Anything(f"row.{c}") for c in ("observation", "action", "next_observation", "reward"))]]},
            name=E.alloc_name(fr, node, ":EpisodeDataset"))
    E.register(o)
    return o


@LIB.cls(STUB_DATASET)
def _stub_dataset(E, obj, name):
    ck = E.shared.checker
    f = obj.fields

    def bump(key, v):
        E.log_write(obj.name, key)
        f[key] = v

    if name == "start_episode":
        def start(E):
            env = ck.env(E).fields
            if "C01" in ck.kinds:
                # a new episode record is opened only when the open one is complete: nothing stored in it yet,
                # or the step stored last ended the environment's episode
                n1 = C.to_z3(C.binop("-", env["$nsteps"], 1))
                fn = env_funcs(env["$name"])
                ended = Sym(z3.Or(fn["TERM"](n1), fn["TRUNC"](n1)))
                E.oblige("record.start.pre.previous_record_is_a_complete_episode", bor(C.compare("==", f["$k"], 0), band(C.compare(">=", ck.executed(E), 1), ended)))
            bump("$records", C.binop("+", f["$records"], 1))
            bump("$k", 0)
        return Builtin("stub.dataset.start_episode", start)
    if name == "add_sample":
        def add(E, *a, **k):
            kw = bind(E, RF + "EpisodeDataset.add_sample", (obj,) + a, k)
            kw.pop("self", None)
            env = ck.env(E).fields
            ck.store(E, kw, term_required=False)
            if "C01" in ck.kinds:
                E.oblige("store.pre.a_record_is_open", C.compare(">=", f["$records"], 1))
                # row index inside the record == index of the step inside the environment's episode
                E.oblige("store.pre.row_belongs_to_the_current_episode_record", C.compare("==", f["$k"], C.binop("-", env["$eplen"], 1)))
            bump("$n", C.binop("+", f["$n"], 1))
            bump("$k", C.binop("+", f["$k"], 1))
        return Builtin("stub.dataset.add_sample", add)
    if name == "average_return":
        return Builtin("stub.dataset.average_return", lambda E: Anything("average_return"))
    if name == "prepare_policy_gradient_dataset":
        return Builtin("stub.dataset.prepare", lambda E, *a, **k: tuple(Anything(f"pg_dataset[{i}]") for i in range(5)))
    return NotImplemented


def _dataset_len(E, v):
    if isinstance(v, Obj) and v.cls == STUB_DATASET:
        return v.fields["$n"]
    return NotImplemented


LIB.len_handlers.insert(0, _dataset_len)


def datasets(E):
    return [o for o in E.heap.values() if isinstance(o, Obj) and o.cls == STUB_DATASET]


def st_cands(L_, executed):
    """inner collection loop: the dataset holds one row per step executed since it was created;
    the open record holds the steps of the running episode"""
    E = L_.E
    env = E.heap["env"].fields
    out = []
    for d in datasets(E):
        f = d.fields
        out.append(("len(dataset)==steps_since_creation", B(C.compare("==", f["$n"], C.binop("-", env["$nsteps"], f["$nsteps0"])))))
        out.append(("rows_in_open_record==episode_length", B(C.compare("==", f["$k"], env["$eplen"]))))
        out.append(("records>=1", B(C.compare(">=", f["$records"], 1))))
    return out


def st_setup(shared):
    from pyvc.interp import _loop_ordinals  # noqa: F401

    shared.force_cut.add((RF + "sample_trajectories", 0))  # `while True:` - cut at its head like every interaction loop


def st_post(E, ck, args, result, kinds):
    env = ck.env(E).fields
    if isinstance(result, Obj) and result.cls == STUB_DATASET:
        if "C01" in kinds:
            E.oblige("post.dataset_holds_one_row_per_executed_step", C.compare("==", result.fields["$n"], ck.executed(E)))
        if "C11" in kinds:
            E.oblige("post.collection_ends_with_a_finished_episode", bnot(B(env["$alive"])))
            E.oblige("post.collects_at_least_the_requested_steps", bor(B(args["train_after_episode"]), C.compare(">=", ck.executed(E), args["total_steps"])))
    else:
        E.st.fail("post.returns_the_dataset", f"returned {result!r}")


RF_STUBS = {RF + "EpisodeDataset": dataset_stub}
_st = Cfg("reinforce", "sample_trajectories", False, counter=None, ret=None, episodes=False, stubs=RF_STUBS, cands_extra=st_cands,
          scen={"train_after_episode": lambda E: E.bool("train_after_episode"), "total_steps": lambda E: E.int("total_steps"), "key": lambda E: Anything("key")})
_st.setup_extra = st_setup
_st.post = st_post
_st.store_need = {"observation", "action", "reward", "next_observation"}
xreg(_st)


def pg_cfg(module, fn, extra_stubs):
    """train_reinforce / train_ac: `while step < total_timesteps:` around sample_trajectories (inlined, its loop cut too)"""
    stubs = dict(RF_STUBS)
    stubs.update(extra_stubs)
    cfg = Cfg(module, fn, False, counter=None, ret=None, episodes=False, stubs=stubs,
              scen={"train_after_episode": lambda E: E.bool("train_after_episode"), "steps_per_update": lambda E: E.int("steps_per_update"),
                    "policy_gradient_steps": 1, "value_gradient_steps": 1, "value_function": lambda E: L.mk_stub_module(E, "value_function")})
    cfg.extra_loops = {(RF + "sample_trajectories", 0): LoopSpec(cand=pg_inner_cands(cfg))}
    cfg.setup_extra = st_setup
    return xreg(cfg)


def pg_inner_cands(cfg):
    def cand(L_):
        return L.make_cands(cfg)(L_)
    return cand


_opaque = lambda name: (lambda E, *a, **k: Anything(name))  # noqa: E731
_rf = pg_cfg("reinforce", "train_reinforce", {RF + "train_policy_reinforce": L._upd("policy"), RF + "train_value_function": L._upd("value_function")})
_ac = pg_cfg("actor_critic", "train_ac", {ALG + "actor_critic.train_policy_actor_critic": L._upd("policy"), RF + "train_value_function": L._upd("value_function")})
for _c in (_rf, _ac):
    _c.cands_extra = st_cands


# ------------------------------------------------------------ vector environments
from pyvc.lib.ext_vecenv import VENV, mk_vec_env, vec_funcs  # noqa: E402

RB = "rl_blox.blox.replay_buffer.ReplayBuffer"
A2C = ALG + "a2c."


class VecChecker(L.Checker):
    """call-site obligations against a vector environment (pyvc/lib/ext_vecenv.py): everything the loop handles is
    batched (one payload per step), the per-environment episode state is ghost"""

    def executed_env_steps(self, E):
        return self.env(E).fields["$total"]

    def store(self, E, kw, **opts):
        super().store(E, kw, **opts)
        if "C01" not in self.kinds:
            return
        f = self.env(E).fields
        # C01, 2nd sentence: "the first transition of a new episode starts from the reset observation, never from the
        # previous episode's final observation" - per sub-environment: the stored row of environment e must be a real
        # transition (e had a running episode when the step began), not the autoreset step that follows an episode end
        n_envs, stepped = C.to_z3(f["num_envs"]), f["$stepped"].z
        E.st.oblige_forall("store.pre.every_row_is_a_transition_within_one_episode", [INT],
                           lambda e: z3.Implies(z3.And(e >= 0, e < n_envs), z3.Select(stepped, e)), hint="e")


def vec_hook(E, kind, **kw):
    ck = E.shared.checker
    if kind != "step.pre":
        return
    f = kw["env"].fields
    if "C11" in ck.kinds:
        # a finished sub-environment is reset by the documented autoreset; what remains is: reset() came first
        E.oblige("step.pre.episode_running", B(f["$started"]))
        if E.shared.budget is not None:
            E.oblige("step.pre.within_budget", C.compare("<=", C.binop("+", f["$total"], f["num_envs"]), E.shared.budget), assume_after=False)


def vec_cands(L_):
    E = L_.E
    env = E.heap["env"].fields
    e0 = L_.heap_entry["env"]
    since = C.binop("-", env["$nsteps"], e0["$nsteps"])  # vector steps since this loop was entered
    out = [("env.started", B(env["$started"])),
           ("all_sub_environments_running", Sym(env["$alive"].z == z3.K(INT, z3.BoolVal(True)))),
           ("env_steps>=0", B(C.compare(">=", env["$total"], 0))),
           ("vector_steps>=0", B(C.compare(">=", C.binop("-", env["$nsteps"], env["$n0"]), 0)))]
    if E.shared.budget is not None:
        out.append(("env_steps<=budget", B(C.compare("<=", env["$total"], E.shared.budget))))
    if L_.it is not None:
        out.append(("it==lo+steps_in_this_loop", B(C.compare("==", L_.it, C.binop("+", L_.lo, since)))))
    for k, v in sorted(L_.frame.vars.items()):
        if isinstance(v, Sym) and v.z.sort() == VAL:
            out.append((f"{k}==env.cur", C.compare("==", v, env["$cur"])))
        is_int = (isinstance(v, Sym) and v.z.sort() == INT) or (isinstance(v, int) and not isinstance(v, bool))
        ent = L_.entry.get(k)
        if is_int and isinstance(ent, (int, Sym)) and not isinstance(ent, bool) and not (isinstance(ent, Sym) and ent.z.sort() != INT):
            out.append((f"{k}==entry+env_steps_in_this_loop", B(C.compare("==", v, C.binop("+", ent, C.binop("-", env["$total"], e0["$total"]))))))
            out.append((f"{k}==env_steps", B(C.compare("==", v, env["$total"]))))
    for k in sorted(env):
        if k.startswith("$rows[") and k in e0:
            out.append((f"{k[1:]}==entry+steps_in_this_loop", B(C.compare("==", env[k], C.binop("+", e0[k], since)))))
    for o in E.heap.values():
        if isinstance(o, Obj) and o.cls == L.STUB_BUFFER and "$n0" in o.fields:
            out.append(("len(rollout_buffer)==steps_in_this_loop", B(C.compare("==", o.fields["$n"], C.binop("+", o.fields["$n0"], since)))))
    return out


def replay_buffer_stub(E, buffer_size=None, keys=None, dtypes=None, **kw):
    """ReplayBuffer(buffer_size, keys, dtypes): the rollout buffer (its rows are checked at add_sample) or - when it
    does not hold observations - a bookkeeping buffer that is irrelevant here"""
    node, fr = E.cur_call if E.cur_call else (None, None)
    if keys is not None and not ({"obs", "observation"} & set(keys)):
        o = Obj(L.STUB_LOGGER, {"buffer": Anything("bookkeeping-buffer"), "$n": 0}, name=E.alloc_name(fr, node, ":bookkeeping"))
    else:
        o = Obj(L.STUB_BUFFER, {"$n": 0, "$n0": 0}, name=E.alloc_name(fr, node, ":rollout_buffer"))
    E.register(o)
    return o


def _bookkeeping_len(E, v):
    if isinstance(v, Obj) and v.cls == L.STUB_LOGGER and "$n" in v.fields:
        return E.st.fresh_sym("len(bookkeeping)", INT)
    return NotImplemented


LIB.len_handlers.insert(0, _bookkeeping_len)


def vec_task(name, qual, kinds, build, stubs, cut_loops, post, mode="NEXT_STEP", force_cut=(), setup_extra=None, allow_raise=None,
             n_envs=None, wrapped=None, bounded=None):
    def setup(shared):
        cfg = Cfg("a2c", name, False, counter=None, ret=None, episodes=False)
        cfg.store_need = {"observation", "action", "reward"}
        shared.checker = VecChecker(cfg, kinds)
        shared.env_hooks = [vec_hook]
        shared.roles = {}
        for key in cut_loops:
            shared.loop_specs[key] = LoopSpec(cand=vec_cands)
            shared.loop_specs[key].opaque_lists = True
        for key in force_cut:
            shared.force_cut.add(key)
        shared.stubs.update(stubs)
        shared.s0 = 0
        shared.budget = None
        shared.total_episodes = None
        shared.done0 = 0
        if setup_extra is not None:
            setup_extra(shared)

    def harness(E):
        wr = E.branch(E.bool("envs.records_episode_statistics")) if wrapped is None else wrapped
        env = mk_vec_env(E, "env", mode=mode, wrapped=wr, n_envs=n_envs)
        args = build(E, env)
        E.st.ghost["args"] = args
        ck = E.shared.checker
        total = args.get("total_timesteps")
        E.shared.budget = C.smax(0, total) if total is not None else None
        result = E.call(qual, **args)
        post(E, ck, env, args, result, kinds)
        if "C11" in kinds:
            E.oblige("canary.c11.no_steps_executed", C.compare("==", ck.executed(E), 0), assume_after=False)
        if "C01" in kinds:
            E.oblige("canary.c01.cur_is_initial", C.compare("==", env.fields["$nsteps"], env.fields["$n0"]), assume_after=False)
        E.cover("end")

    return Task(name, harness, setup=setup, allow_raise=allow_raise, bounded=bounded)


def a2c_collect_build(E, env):
    # documented precondition: last_observation is "the observation from the previous step (or reset)"
    E.assume(B(env.fields["$started"]))
    return dict(envs=env, policy=L.mk_stub_module(E, "policy"), key=Anything("key"), last_observation=env.fields["$cur"],
                steps_per_update=E.int("steps_per_update", 0), logger=None, global_step=E.int("global_step", 0))


def a2c_collect_post(E, ck, env, args, result, kinds):
    if "C11" in kinds:
        got = result[2] if isinstance(result, tuple) and len(result) == 4 else None
        if got is None:
            E.st.fail("post.accounting.reported_count", "no step count returned")
        else:
            E.oblige("post.accounting.reported_equals_start_plus_executed", C.compare("==", got, C.binop("+", args["global_step"], env.fields["$total"])))
            E.oblige("post.runs_the_requested_vector_steps", C.compare("==", ck.executed(E), args["steps_per_update"]))
    if "C01" in kinds and isinstance(result, tuple) and len(result) == 4:
        buf = result[0]
        if isinstance(buf, Obj) and buf.cls == L.STUB_BUFFER:
            E.oblige("post.rollout_holds_one_row_per_vector_step", C.compare("==", buf.fields["$n"], ck.executed(E)))
        E.oblige("post.returned_observation_is_the_current_one", L.same_value(result[1], env.fields["$cur"]))


def a2c_train_build(E, env):
    return dict(envs=env, policy=L.mk_stub_module(E, "policy"), policy_optimizer=None, value_function=L.mk_stub_module(E, "value_function"),
                value_function_optimizer=None, seed=E.int("seed", 0), policy_gradient_steps=1, value_gradient_steps=1,
                total_timesteps=E.int("total_timesteps", 0), gamma=E.real("gamma", 0, 1), gae_lambda=E.real("gae_lambda", 0, 1),
                steps_per_update=E.int("steps_per_update", 1), log_frequency=None, logger=None, progress_bar=False)


def a2c_train_post(E, ck, env, args, result, kinds):
    if "C11" in kinds:
        E.oblige("post.budget.steps_within_remaining_budget", C.compare("<=", env.fields["$total"], E.shared.budget))


A2C_STUBS = {RB: replay_buffer_stub, A2C + "prepare_a2c_batch": lambda E, *a, **k: tuple(Anything(f"batch[{i}]") for i in range(4)),
             A2C + "train_policy_a2c": L._upd("policy"), RF + "train_value_function": L._upd("value_function")}


PPO = ALG + "ppo."
PPO_ROLES = ("observation", "action", "reward", "terminated", "next_value")


def ppo_call_observer(E, fn, args, kwargs):
    """every call of ppo.collect_trajectories starts a fresh rollout: row counters restart, ghost `$call_n0`
    remembers the environment's step count at the call"""
    if isinstance(fn, C.Closure) and fn.qualname == PPO + "collect_trajectories":
        env = E.heap["env"]
        for role in PPO_ROLES:
            E.log_write(env.name, f"$rows[{role}]")
            env.fields[f"$rows[{role}]"] = 0
        E.log_write(env.name, "$call_n0")
        env.fields["$call_n0"] = env.fields["$nsteps"]
    return None


def ppo_rows_check(E, ck, role, x, rows_before):
    env = ck.env(E).fields
    if role == "next_value":
        return  # the bootstrap value of each row is C07's subject
    fn = env_funcs(env["$name"])
    n1 = C.to_z3(C.binop("-", env["$nsteps"], 1))
    want = {"observation": env["$before"], "action": env["$action"], "reward": Sym(fn["REW"](n1)), "terminated": Sym(fn["TERM"](n1))}[role]
    if isinstance(x, Anything):
        E.st.fail(f"rollout.row_is_what_the_env_produced[{role}]", f"appended {x!r}")
        return
    E.oblige(f"rollout.row_is_what_the_env_produced[{role}]", L.same_value(x, want))
    since = C.binop("-", env["$nsteps"], env["$call_n0"])
    E.oblige(f"rollout.row_index_is_step_index[{role}]", C.compare("==", rows_before, C.binop("-", since, 1)))


def ppo_setup(shared):
    shared.rows_fn = PPO + "collect_trajectories"
    shared.rows_roles = return_names(shared, PPO + "collect_trajectories", PPO_ROLES)
    shared.rows_check = ppo_rows_check
    shared.observers.append(ppo_call_observer)
    shared.observers.append(rows_observer)


def stub_logger(E):
    lg = Obj(L.STUB_LOGGER, {}, name="logger")
    E.register(lg)
    return lg


def with_logger(build):
    def b(E, env):
        args = build(E, env)
        args["logger"] = stub_logger(E)
        return args
    return b


def ppo_collect_build(E, env):
    E.assume(B(env.fields["$started"]))
    for role in PPO_ROLES:
        env.fields[f"$rows[{role}]"] = 0
    env.fields["$call_n0"] = env.fields["$nsteps"]
    # last_observation: "Last observation produced by the environment" (None: the routine resets first)
    last = env.fields["$cur"] if E.branch(E.bool("last_observation_given")) else None
    return dict(envs=env, actor=L.mk_stub_module(E, "actor"), critic=L.mk_stub_module(E, "critic"), key=Anything("key"),
                batch_size=E.int("batch_size", 0), logger=None, last_observation=last, global_step=E.int("global_step", 0))


def ppo_collect_post(E, ck, env, args, result, kinds):
    f = env.fields
    if "C01" in kinds:
        if isinstance(result, NamedTuple):
            E.oblige("post.returned_observation_is_the_current_one", L.same_value(result.get("last_observation"), f["$cur"]))
        for role in PPO_ROLES[:4]:
            E.oblige(f"post.one_row_per_vector_step[{role}]", C.compare("==", f[f"$rows[{role}]"], C.binop("-", f["$nsteps"], f["$call_n0"])))
    if "C11" in kinds:
        E.oblige("post.runs_batch_size_vector_steps", C.compare("==", C.binop("-", f["$nsteps"], f["$call_n0"]), args["batch_size"]))


def ppo_train_build(E, env):
    for role in PPO_ROLES:
        env.fields[f"$rows[{role}]"] = 0
    env.fields["$call_n0"] = env.fields["$nsteps"]
    return dict(envs=env, actor=L.mk_stub_module(E, "actor"), critic=L.mk_stub_module(E, "critic"), optimizer_actor=None, optimizer_critic=None,
                iterations=E.int("iterations", 0), epochs=1, batch_size=E.int("batch_size", 0), seed=E.int("seed", 0), logger=None, progress_bar=False)


def ppo_train_post(E, ck, env, args, result, kinds):
    pass


# reshape_batch (environment-major flattening of the collected rows) is C07's subject (post.reshape.*)
PPO_STUBS = {PPO + "update_ppo": L._upd("actor-critic"), PPO + "collect_trajectories.<locals>.reshape_batch": lambda E, batch: Anything("reshaped-batch")}


def vec_tasks(kinds):
    out = []
    # NEXT_STEP is Gymnasium's default (and what tests/test_a2c.py builds); SAME_STEP is the mode in which every
    # stored row is a real transition
    for mode in ("NEXT_STEP", "SAME_STEP"):
        out.append(vec_task(f"a2c.collect_trajectories[{mode} autoreset]", A2C + "collect_trajectories", kinds, a2c_collect_build, A2C_STUBS,
                            [(A2C + "collect_trajectories", 0)], a2c_collect_post, mode=mode))
        if mode == "NEXT_STEP" or "C01" in kinds:  # the budget clauses do not depend on the autoreset mode
            out.append(vec_task(f"train_a2c[{mode} autoreset]", A2C + "train_a2c", kinds, a2c_train_build, A2C_STUBS,
                                [(A2C + "collect_trajectories", 0), (A2C + "train_a2c", 0)], a2c_train_post, mode=mode))
    # PPO: the routine asserts SAME_STEP autoreset; logger=None (with a logger the bootstrap observation of finished
    # sub-environments is patched per environment index: proved for 2 environments in C07)
    cuts = [(PPO + "collect_trajectories", 0), (PPO + "train_ppo", 0)]
    out.append(vec_task("ppo.collect_trajectories[SAME_STEP autoreset]", PPO + "collect_trajectories", kinds, ppo_collect_build, PPO_STUBS,
                        cuts[:1], ppo_collect_post, mode="SAME_STEP", setup_extra=ppo_setup))
    out.append(vec_task("train_ppo[SAME_STEP autoreset]", PPO + "train_ppo", kinds, ppo_train_build, PPO_STUBS,
                        cuts, ppo_train_post, mode="SAME_STEP", setup_extra=ppo_setup))
    # with a logger and episode statistics in `info`: the routine patches `obs` with the final observation of every
    # finished sub-environment for the critic's bootstrap value - only there: the stored rows and the actor must see the
    # observation the environment returned (the reset observation).  The python zip / comprehension over sub-environments
    # needs a concrete environment count.
    if "C01" in kinds:
        bound = "2 parallel environments (any subset of them finishing an episode at each step)"
        out.append(vec_task("ppo.collect_trajectories[SAME_STEP autoreset,logger]", PPO + "collect_trajectories", kinds, with_logger(ppo_collect_build), PPO_STUBS,
                            cuts[:1], ppo_collect_post, mode="SAME_STEP", setup_extra=ppo_setup, n_envs=2, wrapped=True, bounded=bound))
        out.append(vec_task("train_ppo[SAME_STEP autoreset,logger]", PPO + "train_ppo", kinds, with_logger(ppo_train_build), PPO_STUBS,
                            cuts, ppo_train_post, mode="SAME_STEP", setup_extra=ppo_setup, n_envs=2, wrapped=True, bounded=bound))
    return out


def h_episode_dataset(E):
    """the REAL reinforce.EpisodeDataset satisfies the contract used by dataset_stub: start_episode opens an empty
    record at the end, add_sample appends exactly (observation, action, next_observation, reward) to the LAST record
    and leaves the other records alone, len() counts all rows (python lists of concrete length: bounded)"""
    row = lambda i: (E.val(f"o{i}"), E.val(f"a{i}"), E.val(f"n{i}"), E.real(f"r{i}"))  # noqa: E731
    r = [row(i) for i in range(4)]
    ds = E.call(RF + "EpisodeDataset")
    same = lambda x, y: isinstance(x, tuple) and len(x) == 4 and all(zeq(p, q) for p, q in zip(x, y))  # noqa: E731
    verdict = lambda name, ok: (E.st.ok if ok else E.st.fail)(name, *([] if ok else [repr(ds.fields.get("episodes"))]))  # noqa: E731
    verdict("dataset.starts_empty", ds.fields.get("episodes") == [])
    E.call(E.getattr(ds, "start_episode"))
    E.call(E.getattr(ds, "add_sample"), r[0][0], r[0][1], r[0][2], r[0][3])
    E.call(E.getattr(ds, "add_sample"), observation=r[1][0], action=r[1][1], next_observation=r[1][2], reward=r[1][3])
    E.call(E.getattr(ds, "start_episode"))
    eps = ds.fields["episodes"]
    verdict("dataset.start_episode_opens_an_empty_record_at_the_end", len(eps) == 2 and eps[1] == [] and len(eps[0]) == 2)
    E.call(E.getattr(ds, "add_sample"), *r[2])
    eps = ds.fields["episodes"]
    verdict("dataset.add_sample_appends_the_row_to_the_last_record", len(eps) == 2 and len(eps[0]) == 2 and len(eps[1]) == 1
            and same(eps[0][0], r[0]) and same(eps[0][1], r[1]) and same(eps[1][0], r[2]))
    n = LIB.builtins["len"].fn(E, ds)
    E.oblige("dataset.len_counts_all_rows", C.compare("==", n, 3))
    E.oblige("canary.dataset", C.compare("==", n, 0), assume_after=False)


# ------------------------------------------------------------------ CMA-ES
CM = ALG + "cmaes."
STUB_CMA = "stub.CMAES"
ACTING = "stub.ActingModule"


@LIB.cls(ACTING, bases=("flax.nnx.Module",))
def _acting_module(E, obj, name):
    """deterministic policy network called as policy(observation): the acting site of train_cmaes"""
    if name == "__call__":
        def call(E, observation, *a, **k):
            ck = E.shared.checker
            ck.act(E, observation, "policy")
            return ck.policy_action(E, obj)
        return Builtin("stub.ActingModule.__call__", call)
    return NotImplemented


@LIB.cls(STUB_CMA)
def _stub_cma(E, obj, name):
    """CMAESConfig / CMAESState / Population: opaque optimiser state (C16 verifies the optimiser); only the
    generation counter `it` (an unconstrained int) and n_samples_per_update (>= 1) are read by the loop"""
    if name.startswith("__"):
        return NotImplemented
    return Anything(f"cmaes.{name}")


def cma_obj(tag, **fields):
    def mk(E, *a, **k):
        node, fr = E.cur_call if E.cur_call else (None, None)
        o = Obj(STUB_CMA, {n: (v(E) if callable(v) else v) for n, v in fields.items()}, name=E.alloc_name(fr, node, f":{tag}"))
        E.register(o)
        return o
    return mk


def cma_feedback(E, config, state, population, ret, *a, **k):
    E.shared.checker.event(E, "cmaes.feedback")
    E.setfield(state, "it", E.st.fresh_sym("cmaes.it", INT))


def cma_cands(L_, executed):
    E = L_.E
    env = E.heap["env"].fields
    done = C.binop("-", env["$ndone"], E.shared.done0)
    out = []
    if L_.it is not None:
        out.append(("it==lo+episodes_done", B(C.compare("==", L_.it, C.binop("+", L_.lo, done)))))
    alive = B(env["$alive"])
    for k, v in sorted(L_.frame.vars.items()):
        if isinstance(v, bool) or (isinstance(v, Sym) and v.z.sort() == BOOL):
            out.append((f"env.alive==not {k}", B(C.compare("==", alive, bnot(B(v))))))
            in_loop = C.binop("-", env["$ndone"], L_.heap_entry["env"]["$ndone"])
            out.append((f"episodes_finished_in_this_loop==(1 if {k} else 0)", B(C.compare("==", in_loop, C.ite(B(v), 1, 0)))))
    return out


_cm = Cfg("cmaes", "train_cmaes", False, counter=None, ret=None, episodes=True, cands_extra=cma_cands,
          scen={"total_episodes": lambda E: E.int("total_episodes", 0), "n_samples_per_update": None,
                "policy": lambda E: E.register(Obj(ACTING, {}, name="policy"))},
          stubs={CM + "flat_params": lambda E, net: T.fresh_tensor("flat_params", (E.int("n_params", 1),), REAL),
                 CM + "set_params": lambda E, *a, **k: None,
                 CM + "CMAESConfig.create": cma_obj("config", n_samples_per_update=lambda E: E.int("n_samples_per_update", 1)),
                 CM + "CMAESState.create": cma_obj("state", it=lambda E: E.int("cmaes.it0", 0)),
                 CM + "Population.create": cma_obj("population"),
                 CM + "sample_population": lambda E, *a, **k: Anything("samples"),
                 CM + "get_next_parameters": lambda E, *a, **k: Anything("parameters"),
                 CM + "set_evaluation_feedback": cma_feedback,
                 CM + "is_cmaes_finished": lambda E, *a, **k: E.st.fresh_sym("cmaes_finished", BOOL),
                 CM + "update_search_distribution": L._upd("search-distribution")})
_cm.extra_loops = {(CM + "train_cmaes", 1): LoopSpec(cand=lambda L_: L.make_cands(_cm)(L_))}
_cm.setup_extra = lambda shared: shared.force_cut.add((CM + "train_cmaes", 1))  # `while not done:` cut at its head (no peeled first iteration)
xreg(_cm)


# ======================================================================
# C13 loop clause for the DQN family
# ======================================================================
DQN_FAMILY = ("train_dqn", "train_nature_dqn", "train_ddqn", "train_ddqn_per")


def uniform_observer(E, fn, args, kwargs):
    """remember what jax.random.uniform returned (the exploration rolls are drawn once, before the loop)"""
    if isinstance(fn, Builtin) and fn.name == "jax.random.uniform":
        r = fn.fn(E, *args, **kwargs)
        E.st.ghost.setdefault("uniform_draws", []).append(r)
        return (r,)
    return None


def sample_hook(E, kind, **kw):
    if kind == "space.sample":
        E.st.ghost.setdefault("space_samples", []).append(kw["action"])


def recording_schedule(E, total_timesteps, *a, **k):
    """linear_schedule(total_timesteps, ...): the epsilon schedule, one value per step (its values are C18's subject)"""
    t = T.fresh_tensor("schedule", (total_timesteps,), REAL, is_input=False)
    # the exploration schedule is the default one (start=1.0 -> end=0.1); PER builds a second schedule for beta
    if not a and "start" not in k:
        E.st.ghost.setdefault("schedules", []).append(t)
    else:
        E.st.ghost.setdefault("other_schedules", []).append(t)
    return t


def dqn_c13_setup(shared):
    if "C13" not in shared.checker.kinds:
        return
    shared.observers.append(uniform_observer)
    shared.env_hooks.append(sample_hook)
    shared.stubs["rl_blox.blox.schedules.linear_schedule"] = recording_schedule


def dqn_c13_step(E, ck, action):
    """the action passed to env.step is greedy_policy(online network, current observation) unless the step explores
    (roll_s < epsilon_s, or s < learning_starts where the routine documents a warm-up); an exploring step passes
    env.action_space.sample()"""
    env = ck.env(E).fields
    args = E.st.ghost["args"]
    s = C.binop("+", E.shared.s0, ck.executed(E))  # global index of the step about to be executed
    rolls = [t for t in E.st.ghost.get("uniform_draws", []) if isinstance(t, T.Tensor) and t.ndim == 1]
    scheds = E.st.ghost.get("schedules", [])
    if len(rolls) != 1 or len(scheds) != 1:
        E.st.fail("step.pre.exploration_rolls_and_schedule_identified", f"{len(rolls)} uniform draws, {len(scheds)} schedules")
        return
    explore = C.compare("<", rolls[0].at(s), scheds[0].at(s))
    if "learning_starts" in args:
        explore = bor(C.compare("<", s, args["learning_starts"]), explore)
    for a, q_net, obs in E.st.ghost.get("greedy_actions", []):
        if zeq(a, action):
            E.st.ok("step.pre.action_is_greedy_or_random_sample")
            E.oblige("step.pre.greedy_action_on_current_observation", L.same_value(obs, env["$cur"]))
            ok = q_net is args.get("q_net")
            (E.st.ok if ok else E.st.fail)("step.pre.greedy_action_from_current_estimate", *([] if ok else [f"greedy w.r.t. {L._nm(q_net)}"]))
            E.oblige("step.pre.greedy_unless_exploring", bnot(explore))
            return
    for a in E.st.ghost.get("space_samples", []):
        if zeq(a, action):
            E.st.ok("step.pre.action_is_greedy_or_random_sample")
            E.oblige("step.pre.random_action_only_when_exploring", explore)
            return
    E.st.fail("step.pre.action_is_greedy_or_random_sample", f"action {action!r} is neither greedy_policy(...) nor action_space.sample()")


def dqn_c13_post(E, ck, args, result, kinds):
    if "C13" in kinds:
        E.oblige("canary.c13.no_steps_executed", C.compare("==", ck.executed(E), 0), assume_after=False)


for _fn in DQN_FAMILY:
    _c = L.CONFIGS[_fn]
    _c.c13_step = dqn_c13_step
    _c.setup_extra = dqn_c13_setup
    _c.post = dqn_c13_post


# ======================================================================
# task lists
# ======================================================================
TRUSTED = [
    "Gymnasium vector API contract: batched reset/step, NEXT_STEP / SAME_STEP autoreset, RecordEpisodeStatistics info keys (pyvc/lib/ext_vecenv.py)",
    "collections.deque(maxlen) as a window over an append-only log, jnp.empty = arbitrary contents, x[None] of an opaque payload is value preserving (pyvc/lib/ext_loops.py)",
]
ASSUMPTIONS = [
    "tabular loops: value tables are opaque payloads (never inspected at loop level); the stubbed update routines return a NEW table and touch nothing else; "
    "`q_table1 + q_table2` is an uninterpreted commutative function of the two payloads; int() / float() are value-preserving casts (DESIGN 4.2)",
    "the transition 'kept for learning' by a tabular loop is the argument tuple of its update call (Monte-Carlo: the rows of the episode arrays and the slices handed to update; "
    "Dyna-Q: the arguments of q_learning_update / counter_update / model_update and the two planning buffers)",
    "rollout rows kept in python lists (generate_rollout, ppo.collect_trajectories): the lists are mutated only by the `.append` calls of the routine (any other list method on them is reported); "
    "row k is tied to step k by ghost counters; what is built from the lists afterwards (jnp.array / concat / reshape_batch) is C07's subject",
    "reinforce.EpisodeDataset is replaced by its contract inside the loops (start_episode opens a record, add_sample appends the row to the open record, len counts rows); "
    "the real class is checked against that contract in the bounded task `EpisodeDataset`",
    "vector environments: everything the loop handles is one batched payload per step; per-environment episode state is ghost; the statistics-logging block of "
    "a2c.collect_trajectories is executed with one representative finished episode (it touches nothing the obligations mention)",
    "ppo.collect_trajectories / train_ppo: symbolic number of environments with logger=None; with a logger and episode statistics in `info` (the routine then patches `obs` with the "
    "final observation of finished sub-environments for the critic's bootstrap value) as bounded tasks with 2 environments; `payload.at[i].set(x)` is an uninterpreted function of its arguments",
    "train_cmaes: the optimiser state (CMAESConfig / CMAESState / Population) is opaque; only the generation counter and n_samples_per_update >= 1 are read by the loop",
]
NOT_COVERED = [
    "train_ppo on a vector environment that is not in SAME_STEP autoreset mode (the routine asserts the mode and raises before the first step)",
    "ppo.collect_trajectories with batch_size 0 (jnp.concat of an empty list raises natively)",
    "Dyna-Q / Monte-Carlo / EpisodeDataset keep no termination flag: the obligation on the flag applies to record types that carry one",
]
REPLAY = {p: "loops_extra_native" for p in (
    "train_q_learning", "train_sarsa", "train_double_q_learning", "train_monte_carlo", "train_dynaq", "generate_rollout",
    "sample_trajectories", "train_reinforce", "train_ac", "a2c.collect_trajectories", "train_a2c", "ppo.collect_trajectories", "train_ppo")}


def extra_tasks(kinds, names=None):
    out = []
    if not ({"C01", "C11"} & set(kinds)):
        return out
    for fn, cfg in EXTRA.items():
        if names and fn not in names:
            continue
        out.append(loop_task(cfg, kinds))
    out.extend(t for t in vec_tasks(kinds) if not names or t.name in names)
    if "C01" in kinds and (not names or "EpisodeDataset" in names):
        out.append(Task("EpisodeDataset", h_episode_dataset, bounded="2 episode records, 3 rows (python lists of concrete length)"))
    return out


def c13_tasks():
    out = [loop_task(L.CONFIGS[fn], {"C13"}) for fn in DQN_FAMILY]
    for fn, cfg in EXTRA.items():
        if getattr(cfg, "c13_step", None) is not None:
            out.append(loop_task(cfg, {"C13"}))
    return out
