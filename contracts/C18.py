"""C18 - numeric building blocks: two-hot coding, robust losses, norms, schedules.

draft (under construction)
"""
import z3

from pyvc import core as C
from pyvc import tensor as T
from pyvc.core import INT, REAL, Sym, band, bnot, bor, iff, implies
from pyvc.runner import Task

PROPERTY = "C18"
LEVEL = "proof"
BL = "rl_blox.blox."


def inb(i, n):
    return z3.And(i >= 0, i < C.to_z3(n))


def shape_is(E, name, t, *dims):
    ok = isinstance(t, T.Tensor) and t.ndim == len(dims) and all(T.dim_eq(a, T.norm_dim(b)) for a, b in zip(t.shape, dims))
    if ok:
        E.st.ok(name)
    else:
        E.st.fail(name, f"shape {getattr(t, 'shape', type(t).__name__)} != {dims}")
    return ok


# ------------------------------------------------------------------- Huber
def h_huber(E):
    n = E.int("n", 1)
    a = T.fresh_tensor("abs_errors", (n,), REAL)
    E.st.assume_forall([INT], lambda i: C.as_real(a.at(i)) >= 0, "abs.nonneg")
    delta = E.real("delta")
    E.assume(delta > 0)
    r = E.call(BL + "losses.huber_loss", a, delta)
    if not shape_is(E, "huber.shape", r, n):
        return
    az = lambda i: C.as_real(a.at(i))  # noqa: E731
    rz = lambda i: C.as_real(r.at(i))  # noqa: E731
    d = delta.z
    E.st.oblige_forall("huber.quadratic_within_delta", [INT], lambda i: z3.Implies(z3.And(inb(i, n), az(i) <= d), rz(i) == az(i) * az(i) / 2), hint="i")
    E.st.oblige_forall("huber.linear_beyond_delta", [INT], lambda i: z3.Implies(z3.And(inb(i, n), az(i) > d), rz(i) == d * (az(i) - d / 2)), hint="i")
    E.oblige("canary.huber", Sym(rz(z3.IntVal(0)) == 0), assume_after=False)


TASKS = [
    Task("huber_loss", h_huber),
]

TRUSTED = []
ASSUMPTIONS = []
NOT_COVERED = []
