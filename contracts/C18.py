"""C18 - numeric building blocks: two-hot coding, robust losses, norms, schedules.

Functions under contract (real source, interpreted from /repo):
  rl_blox.blox.preprocessing.make_two_hot_bins / two_hot_encoding /
      two_hot_decoding / two_hot_cross_entropy_loss
  rl_blox.blox.losses.huber_loss / masked_mse_loss
  rl_blox.blox.function_approximator.norm.avg_l1_norm
  rl_blox.blox.schedules.linear_schedule

All postconditions are transcribed from the property statement / docstrings
(DESIGN 5, C18).  Vector lengths, bin counts, batch sizes and schedule lengths
are symbolic; floats are reals.  Sums over a symbolic axis are uninterpreted
Sum nodes related by three named rules: congruence (engine), two-point support
and scaling (pyvc/lib/ext_numeric.py; premises are obliged at every use;
statements proved in lemmas/SumLemmas.lean).
"""
import z3

from pyvc import core as C
from pyvc import tensor as T
from pyvc.core import INT, REAL, Sym, band, implies
from pyvc.lib import ext_numeric as XN
from pyvc.runner import Task

PROPERTY = "C18"
LEVEL = "proof"
BL = "rl_blox.blox."
PRE = BL + "preprocessing."
SENTINEL = 10 ** 8  # the constant two_hot_encoding uses to push non-positive differences away


def inb(i, n):
    return z3.And(i >= 0, i < C.to_z3(n))


def zr(v):
    return C.as_real(v)


def shape_is(E, name, t, *dims):
    ok = isinstance(t, T.Tensor) and t.ndim == len(dims) and all(T.dim_eq(a, T.norm_dim(b)) for a, b in zip(t.shape, dims))
    if ok:
        E.st.ok(name)
    else:
        E.st.fail(name, f"shape {getattr(t, 'shape', type(t).__name__)} != {dims}")
    return ok


# ------------------------------------------------------------------- Huber
def h_huber(E):
    """huber_loss(a, delta) per element, a = |e| >= 0, delta > 0"""
    n = E.dim("n", 1)
    a = T.fresh_tensor("abs_errors", (n,), REAL)
    E.st.assume_forall([INT], lambda i: zr(a.at(i)) >= 0, "abs.nonneg")
    delta = E.real("delta")
    E.assume(delta > 0)
    r = E.call(BL + "losses.huber_loss", a, delta)
    if not shape_is(E, "huber.shape", r, n):
        return
    az = lambda i: zr(a.at(i))  # noqa: E731
    rz = lambda i: zr(r.at(i))  # noqa: E731
    d = delta.z
    E.oblige("canary.huber", Sym(rz(z3.IntVal(0)) == 1), assume_after=False)
    E.st.oblige_forall("huber.quadratic_within_delta", [INT], lambda i: z3.Implies(z3.And(inb(i, n), az(i) <= d), rz(i) == az(i) * az(i) / 2), hint="i")
    E.st.oblige_forall("huber.linear_beyond_delta", [INT], lambda i: z3.Implies(z3.And(inb(i, n), az(i) > d), rz(i) == d * (az(i) - d / 2)), hint="i")


def h_huber_scalar(E):
    a = E.real("abs_error", 0)
    delta = E.real("delta")
    E.assume(delta > 0)
    r = E.call(BL + "losses.huber_loss", a, delta)
    E.oblige("canary.huber", r == 1, assume_after=False)
    E.oblige("huber.scalar.quadratic_within_delta", implies(a <= delta, r == a * a / 2))
    E.oblige("huber.scalar.linear_beyond_delta", implies(a > delta, r == delta * (a - delta / 2)))


# --------------------------------------------------------------- masked MSE
def _masked_inputs(E, shape, N, tag=""):
    p = T.fresh_tensor("predictions" + tag, shape, REAL)
    t = T.fresh_tensor("targets" + tag, shape, REAL)
    return p, t


def mk_mse_rank2(n_fixed=None, d_fixed=None):
    return lambda E: h_mse_rank2(E, n_fixed, d_fixed)


def h_mse_rank2(E, n_fixed=None, d_fixed=None):
    """(N, D) predictions/targets, (N,) mask:
    loss == (1/(N D)) sum_{i,d} (p_id - t_id)^2 m_i; masked rows weigh nothing"""
    N = E.dim("N") if n_fixed is None else n_fixed
    D = E.dim("D") if d_fixed is None else d_fixed
    p, t = _masked_inputs(E, (N, D), N)
    m = T.fresh_tensor("mask", (N,), REAL)
    loss = E.call(BL + "losses.masked_mse_loss", p, t, m)
    if isinstance(loss, T.Tensor):
        E.st.fail("masked_mse.scalar", f"loss has shape {loss.shape}")
        return
    E.st.ok("masked_mse.scalar")
    E.oblige("canary.mse", C.compare("==", loss, 1), assume_after=False)
    spec = T.Tensor((N, D), lambda i, d: (p.at(i, d) - t.at(i, d)) * (p.at(i, d) - t.at(i, d)) * m.at(i), REAL)
    total = T.reduce(T.reduce(spec, "sum", 1), "sum", 0)
    E.oblige("masked_mse.formula", C.compare("==", loss, C.binop("/", total, C.binop("*", N, D))))
    # two copies: the second differs from the first only inside masked rows (m_i == 0)
    p2, t2 = _masked_inputs(E, (N, D), N, "_other")
    E.st.assume_forall([INT, INT], lambda i, d: z3.Implies(zr(m.at(i)) != 0, z3.And(zr(p2.at(i, d)) == zr(p.at(i, d)), zr(t2.at(i, d)) == zr(t.at(i, d)))), "same_on_unmasked_rows")
    loss2 = E.call(BL + "losses.masked_mse_loss", p2, t2, m)
    E.oblige("masked_mse.masked_rows_do_not_contribute", C.compare("==", loss2, loss))


def h_mse_rank1(E):
    """(N,) predictions/targets with an (N,) mask (how model_based_encoder_loss
    uses it for the reward / done losses): the property demands zero weight
    for masked rows, i.e. loss == (1/N) sum_i (p_i - t_i)^2 m_i - or a loud
    rejection of the rank-1 input."""
    N = E.dim("N")
    p, t = _masked_inputs(E, (N,), N)
    m = T.fresh_tensor("mask", (N,), REAL)
    E.st.assume_forall([INT], lambda i: z3.Or(zr(m.at(i)) == 0, zr(m.at(i)) == 1), "mask01")
    kind, loss = E.call_catch(BL + "losses.masked_mse_loss", p, t, m)
    if kind == "raise":
        E.st.ok("masked_mse[rank1].formula_or_rejection")
        E.st.ok("masked_mse[rank1].masked_rows_do_not_contribute")
        return
    if isinstance(loss, T.Tensor):
        E.st.fail("masked_mse[rank1].formula_or_rejection", f"loss has shape {loss.shape}")
        return
    E.oblige("canary.mse1", C.compare("==", loss, 1), assume_after=False)
    spec = T.Tensor((N,), lambda i: (p.at(i) - t.at(i)) * (p.at(i) - t.at(i)) * m.at(i), REAL)
    total = T.reduce(spec, "sum", 0)
    E.oblige("masked_mse[rank1].formula_or_rejection", C.compare("==", loss, C.binop("/", total, N)), assume_after=False)
    p2, t2 = _masked_inputs(E, (N,), N, "_other")
    E.st.assume_forall([INT], lambda i: z3.Implies(zr(m.at(i)) != 0, z3.And(zr(p2.at(i)) == zr(p.at(i)), zr(t2.at(i)) == zr(t.at(i)))), "same_on_unmasked_rows")
    loss2 = E.call(BL + "losses.masked_mse_loss", p2, t2, m)
    E.oblige("masked_mse[rank1].masked_rows_do_not_contribute", C.compare("==", loss2, loss), assume_after=False)


# ---------------------------------------------------------------- AvgL1Norm
def mk_avg_l1(rank, n_fixed=None, d_fixed=None):
    def h(E):
        D = (E.dim("D", 1) if rank == 1 else E.dim("D")) if d_fixed is None else d_fixed
        shape = (D,) if rank == 1 else ((E.dim("N") if n_fixed is None else n_fixed), D)
        k = rank - 1
        x = T.fresh_tensor("x", shape, REAL)
        eps = E.real("eps")
        E.assume(eps > 0)
        out = E.call(BL + "function_approximator.norm.avg_l1_norm", x, eps)
        if not shape_is(E, "avg_l1.shape", out, *shape):
            return
        E.oblige("canary.avg_l1", Sym(zr(out.at(*([0] * rank))) == zr(x.at(*([0] * rank))) + 1), assume_after=False)
        guard = (lambda *ps: z3.And(*[inb(q, shape[a]) for a, q in enumerate(ps)])) if k else None
        g = lambda ps: guard(*ps) if k else z3.BoolVal(True)  # noqa: E731
        sx, node_x = XN.spec_sum(E.st, T.tabs(x), k)      # sum_d |x_d|
        so, node_o = XN.spec_sum(E.st, T.tabs(out), k)    # sum_d |out_d|
        val = lambda s, ps: zr(s.at(*ps)) if isinstance(s, T.Tensor) else zr(s)  # noqa: E731
        Dz = z3.ToReal(C.to_z3(D)) if not isinstance(D, int) else z3.RealVal(D)
        mean_x = lambda ps: val(sx, ps) / Dz  # noqa: E731
        cmax = lambda ps: z3.If(mean_x(ps) >= eps.z, mean_x(ps), eps.z)  # noqa: E731
        # documented formula: x / max(mean_d |x_d|, eps)
        E.st.oblige_forall("avg_l1.formula", [INT] * rank, lambda *v: z3.Implies(z3.And(g(v[:k]), inb(v[k], D)), zr(out.at(*v)) == zr(x.at(*v)) / cmax(v[:k])), hint="d")
        # finite for near-zero input: |out_d| <= |x_d| / eps always
        E.st.oblige_forall("avg_l1.bounded_by_x_over_eps", [INT] * rank, lambda *v: z3.Implies(z3.And(g(v[:k]), inb(v[k], D)), zr(T.tabs(out).at(*v)) <= zr(T.tabs(x).at(*v)) / eps.z), hint="d")
        # mean absolute value is one: sum_d |x_d / c| == (1/c) sum_d |x_d|   (rule sum_scale)
        XN.sum_scale(E.st, "avg_l1", node_o, node_x, lambda *ps: 1 / cmax(ps), guard=guard)
        goal = lambda *ps: z3.Implies(z3.And(g(ps), mean_x(ps) >= eps.z), val(so, ps) / Dz == 1)  # noqa: E731
        if k:
            E.st.oblige_forall("avg_l1.mean_abs_is_one", [INT] * k, goal, hint="row")
        else:
            E.oblige("avg_l1.mean_abs_is_one", Sym(goal()))
    return h


# ---------------------------------------------------------- linear_schedule
def h_schedule(E):
    total = E.int("total_timesteps", 1)
    start, end = E.real("start"), E.real("end")
    fraction = E.real("fraction")
    E.assume(band(fraction > 0, fraction <= 1))
    s = E.call(BL + "schedules.linear_schedule", total, start, end, fraction)
    if not shape_is(E, "schedule.length_is_total_timesteps", s, total):
        return
    k = z3.ToInt(z3.ToReal(total.z) * fraction.z)  # floor(total * fraction), the length of the transition
    sz = lambda t: zr(s.at(t))  # noqa: E731
    E.st.add_pool(k, k - 1, z3.IntVal(0))
    E.oblige("canary.schedule", Sym(sz(z3.IntVal(0)) == start.z + 1), assume_after=False)
    E.st.oblige_forall("schedule.end_value_after_transition", [INT], lambda t: z3.Implies(z3.And(t >= k, t < total.z), sz(t) == end.z), hint="t")
    E.oblige("schedule.starts_at_start", Sym(z3.Implies(k >= 1, sz(z3.IntVal(0)) == start.z)))
    E.st.oblige_forall("schedule.monotone", [INT], lambda t: z3.Implies(
        z3.And(t >= 0, t + 1 < total.z),
        z3.If(start.z >= end.z, sz(t) >= sz(t + 1), sz(t) <= sz(t + 1))), hint="t")
    E.st.oblige_forall("schedule.between_start_and_end", [INT], lambda t: z3.Implies(
        inb(t, total),
        z3.If(start.z >= end.z, z3.And(end.z <= sz(t), sz(t) <= start.z), z3.And(start.z <= sz(t), sz(t) <= end.z))), hint="t")


# ------------------------------------------------------------------ two-hot
def _bins(E, n, wide=False):
    """strictly increasing bin edges b_0 < ... < b_{n-1} (StrictMono: pairwise)"""
    b = T.fresh_tensor("bins", (n,), REAL)
    bz = lambda j: zr(b.at(j))  # noqa: E731
    E.st.assume_forall([INT, INT], lambda j, k: z3.Implies(z3.And(j >= 0, j < k, k < C.to_z3(n)), bz(j) < bz(k)), "bins.strictly_increasing")
    if not wide:
        E.assume(Sym(bz(C.to_z3(n) - 1) - bz(z3.IntVal(0)) < SENTINEL))
    return b, bz


def _values_in_range(E, name, B, n, bz):
    x = T.fresh_tensor(name, (B,), REAL)
    E.st.assume_forall([INT], lambda r: z3.Implies(inb(r, B), z3.And(bz(z3.IntVal(0)) <= zr(x.at(r)), zr(x.at(r)) <= bz(C.to_z3(n) - 1))), name + ".in_bin_range")
    return x


def _encode(E, b, x):
    """call the real two_hot_encoding; returns (row tensor, lower-edge witness lo(r)).
    The witness is read off the execution trace (the arg-min node of the call);
    it is only a hint: every fact about it is an obligation."""
    mark = len(E.st.sums)
    th = E.call(PRE + "two_hot_encoding", b, x)
    mins = XN.nodes_since(E.st, mark, "min")
    lo = None
    if len(mins) == 1 and mins[0].nparams == 1:
        af = mins[0].af
        lo = lambda r: af(r)  # noqa: E731
    return th, lo


def mk_two_hot(wide=False, n_fixed=None):
    """wide=False: bin range below the code's 1e8 sentinel (ASSUMPTIONS);
    wide=True: any strictly increasing bins, as the property quantifies
    ("all bin counts and exponent ranges") - run on a concrete bin count so
    that a counterexample is exact."""
    def h(E):
        n = E.dim("n_bins") if n_fixed is None else n_fixed
        B = E.dim("n_samples", 1) if n_fixed is None else 1
        nz = C.to_z3(n)
        b, bz = _bins(E, n, wide)
        x = _values_in_range(E, "x", B, n, bz)
        H = ["bins.", "x.in_bin_range"]  # the harness' quantified hypotheses
        th, lo = _encode(E, b, x)
        if not shape_is(E, "two_hot.shape", th, B, n):
            return
        tz = lambda r, j: zr(th.at(r, j))  # noqa: E731
        # an arbitrary row r0 (Skolem): every statement below is for all rows
        r0 = E.st.fresh("r", INT)
        E.st.assume(inb(r0, B))
        x0 = zr(x.at(r0))
        E.st.add_pool(r0, z3.IntVal(0), nz - 1, nz - 2)
        E.oblige("canary.two_hot", Sym(tz(r0, z3.IntVal(0)) == 7), assume_after=False, using=H)
        if isinstance(n, int):
            U = H  # concrete bin count (counterexample confirmation / bounded stand-in): reductions are unrolled exactly
        elif lo is None:
            E.st.undecided("two_hot.lemma.lower_edge_brackets_value", "no arg-min node in the trace of two_hot_encoding: no witness for the support positions")
            return
        else:
            # proof step: the chosen lower edge brackets the value
            l0 = lo(r0)
            E.st.add_pool(l0, l0 - 1, l0 + 1)
            E.oblige("two_hot.lemma.lower_edge_brackets_value", Sym(z3.And(
                l0 >= 0, l0 + 1 <= nz - 1, bz(l0) <= x0, x0 <= bz(l0 + 1), bz(l0) < bz(l0 + 1),
                z3.Implies(x0 == bz(l0), l0 == 0))), using=H + ["min"])
            U = []  # from here on the ground facts above suffice
        E.st.oblige_forall("two_hot.entries_non_negative", [INT], lambda j: z3.Implies(inb(j, n), tz(r0, j) >= 0), hint="j", using=U)
        E.st.oblige_forall("two_hot.at_most_two_adjacent_nonzero", [INT, INT], lambda j1, j2: z3.Implies(
            z3.And(inb(j1, n), inb(j2, n), tz(r0, j1) != 0, tz(r0, j2) != 0), z3.And(j1 - j2 <= 1, j2 - j1 <= 1)), hint="j", using=U)
        # sum_j row_j == 1 and sum_j row_j b_j == x  (rule sum_two_point_support at {lo, lo+1})
        s1, node1 = XN.spec_sum(E.st, th, 1)
        mark = len(E.st.sums)
        dec = E.call(PRE + "two_hot_decoding", b, th)
        nodes_dec = XN.nodes_since(E.st, mark, "sum")
        if lo is not None and not isinstance(n, int):
            XN.sum_two_point_support(E.st, "two_hot.sum", node1, lo, lambda r: lo(r) + 1, at=(r0,), using=U)
            if len(nodes_dec) == 1:
                XN.sum_two_point_support(E.st, "two_hot.decode", nodes_dec[0], lo, lambda r: lo(r) + 1, at=(r0,), using=U)
        E.oblige("two_hot.entries_sum_to_one", Sym(zr(s1.at(r0)) == 1), using=U)
        if shape_is(E, "two_hot.decoding_shape", dec, B):
            E.oblige("two_hot.decoding_returns_value", Sym(zr(dec.at(r0)) == x0), using=U)
        # exact bin edges: a single non-zero entry, at the edge itself
        e = E.st.fresh("edge", INT)
        E.st.add_pool(e)
        E.st.oblige_forall("two_hot.exact_edge_is_one_hot", [INT], lambda j: z3.Implies(
            z3.And(inb(e, n), x0 == bz(e), inb(j, n)), tz(r0, j) == z3.If(j == e, z3.RealVal(1), z3.RealVal(0))), hint="j", using=U + ["bins."])
        if all(r.verdict == "discharged" for r in E.st.results if "canary" not in r.name):
            # the lemma conclusions assumed above are consistent (only meaningful when nothing failed on this path)
            E.oblige("canary.two_hot_end", Sym(tz(r0, z3.IntVal(1)) == 7), assume_after=False, using=U)
    return h


def _stub_encoding(shared):
    """modular: inside two_hot_cross_entropy_loss the callee two_hot_encoding is
    replaced by 'returns some (n_samples, n_bins) real tensor' (its own contract
    is the task two_hot_encoding); the call arguments are recorded."""
    def stub(E, bins, x):
        bins, x = T.as_tensor(bins), T.as_tensor(x)
        enc = T.fresh_tensor("encoded_target", (x.shape[0], bins.shape[0]), REAL, is_input=False)
        E.st.ghost.setdefault("two_hot_calls", []).append((bins, x, enc))
        return enc
    shared.stubs[PRE + "two_hot_encoding"] = stub


def h_two_hot_ce(E):
    """two_hot_cross_entropy_loss(bins, logits, target)[r] == -sum_j enc[r, j] * log_softmax(logits)[r, j]
    with enc = two_hot_encoding(bins, target) and log_softmax(z)_j = z_j - log sum_k exp z_k"""
    n = E.dim("n_bins")
    B = E.dim("n_samples", 1)
    b = T.fresh_tensor("bins", (n,), REAL)
    y = T.fresh_tensor("target", (B,), REAL)
    logits = T.fresh_tensor("logits", (B, n), REAL)
    ce = E.call(PRE + "two_hot_cross_entropy_loss", b, logits, y)
    if not shape_is(E, "cross_entropy.shape", ce, B):
        return
    E.oblige("canary.ce", Sym(zr(ce.at(0)) == 1), assume_after=False)
    calls = E.st.ghost.get("two_hot_calls", [])
    if len(calls) == 1 and calls[0][0] is b and calls[0][1] is y:
        E.st.ok("cross_entropy.target_is_two_hot_encoding_of_target_values")
    else:
        E.st.fail("cross_entropy.target_is_two_hot_encoding_of_target_values", f"{len(calls)} encoding calls / other arguments")
        return
    enc = calls[0][2]
    lse = T.tfn("log", T.reduce(T.tfn("exp", logits), "sum", 1))
    logp = T.Tensor((B, n), lambda r, j: logits.at(r, j) - lse.at(r), REAL)
    spec = -T.reduce(enc * logp, "sum", 1)
    E.st.oblige_forall("cross_entropy.is_minus_sum_target_log_softmax", [INT], lambda r: z3.Implies(inb(r, B), zr(ce.at(r)) == zr(spec.at(r))), hint="r")


def h_make_bins(E):
    n = E.dim("n_bin_edges")
    lo, hi = E.real("lower_exponent"), E.real("upper_exponent")
    E.assume(lo < hi)
    b = E.call(PRE + "make_two_hot_bins", lo, hi, n)
    if not shape_is(E, "make_bins.length", b, n):
        return
    bz = lambda j: zr(b.at(j))  # noqa: E731
    E.oblige("canary.bins", Sym(bz(z3.IntVal(0)) == 1), assume_after=False)
    E.st.oblige_forall("make_bins.strictly_increasing", [INT, INT], lambda j, k: z3.Implies(z3.And(j >= 0, j < k, k < C.to_z3(n)), bz(j) < bz(k)), hint="j")


TASKS = [
    Task("huber_loss", h_huber),
    Task("huber_loss[scalar]", h_huber_scalar),
    Task("masked_mse_loss", mk_mse_rank2()),
    Task("masked_mse_loss[one-feature]", mk_mse_rank2(d_fixed=1)),
    Task("masked_mse_loss[one-sample]", mk_mse_rank2(n_fixed=1)),
    Task("masked_mse_loss[rank1]", h_mse_rank1),
    Task("avg_l1_norm", mk_avg_l1(1)),
    Task("avg_l1_norm[batch]", mk_avg_l1(2)),
    Task("avg_l1_norm[batch,one-feature]", mk_avg_l1(2, d_fixed=1)),
    Task("avg_l1_norm[batch,one-sample]", mk_avg_l1(2, n_fixed=1)),
    Task("linear_schedule", h_schedule),
    Task("two_hot_encoding", mk_two_hot()),
    Task("two_hot_encoding[4-bins]", mk_two_hot(n_fixed=4), bounded="n_bins == 4, n_samples == 1 (exact counterexamples; the unbounded proof is task two_hot_encoding)"),
    Task("two_hot_encoding[any-range,3-bins]", mk_two_hot(wide=True, n_fixed=3), bounded="n_bins == 3, n_samples == 1 (exhibits the range limit; see ASSUMPTIONS)"),
    Task("two_hot_cross_entropy_loss", h_two_hot_ce, setup=_stub_encoding),
    Task("make_two_hot_bins", h_make_bins),
]

TRUSTED = [
    "rule sum_two_point_support (pyvc/lib/ext_numeric.py; premise obliged at each use) - lemmas/SumLemmas.lean: PyvcSum.sum_two_point_support",
    "rule sum_scale (pyvc/lib/ext_numeric.py; premise obliged at each use) - lemmas/SumLemmas.lean: PyvcSum.sum_scale",
    "rule sum congruence (pyvc.tensor.close_sums) - lemmas/SumLemmas.lean: PyvcSum.sum_congr_range",
    "real exp: positive, exp(0)=1, strictly increasing; sign(x) in {-1,0,1} by the sign of x (pyvc.tensor.AXIOMS, instantiated per query)",
]
ASSUMPTIONS = [
    "reals for floats (no float32 absorption in diff - 1e8*(sign(diff)-1), no rounding at bin edges)",
    "bins strictly increasing (pairwise), n_bins >= 2, every encoded value inside [b_0, b_{n-1}]",
    "two_hot_encoding (proved tasks): b_{n-1} - b_0 < 1e8, the sentinel the code adds to non-positive differences; "
    "the property's unrestricted quantifier ('all exponent ranges') is what task two_hot_encoding[any-range,3-bins] checks - it FAILS (finding: "
    "rows become nan/-inf once the bin range reaches 1e8, e.g. make_two_hot_bins(-20, 20))",
    "huber_loss: abs_errors >= 0 (it is |e|), delta > 0; avg_l1_norm: eps > 0",
    "linear_schedule: total_timesteps >= 1, fraction in (0, 1]",
    "masked_mse_loss[rank1]: mask entries in {0, 1} (documented)",
]
NOT_COVERED = [
    "float32 rounding: values closer to a bin edge than float resolution, exp overflow for exponents > 88",
    "that the default make_two_hot_bins(-10, 10) range (2(e^10 - 1) ~ 44 051) is below the 1e8 sentinel: needs a numeric upper bound on exp(10), not part of the exp axioms",
    "call sites of masked_mse_loss with rank-1 predictions (model_based_encoder_loss: reward / done losses) belong to C03",
]
EXPLANATION = (
    "One task per function and shape scenario; symbolic lengths (n_bins >= 2, n_samples, N, D, total_timesteps). "
    "two_hot_encoding: the arg-min contract of jnp.argmin gives the bracketing edge b_lo <= x <= b_lo+1 (obligation "
    "two_hot.lemma.lower_edge_brackets_value), the row is then zero outside {lo, lo+1} and rule sum_two_point_support turns the "
    "uninterpreted sums into (1-w) + w and (1-w) b_lo + w b_lo+1. avg_l1_norm uses rule sum_scale. Failing by design of the property: "
    "masked_mse_loss[rank1] (mask[:, newaxis] broadcasts rank-1 predictions to (N, N)) and two_hot_encoding[any-range,3-bins]."
)
REPLAY = {"": "c18_numeric"}
