"""Shared builders for loss / policy contracts: symbolic batches and networks."""
import z3

from pyvc import core as C
from pyvc import tensor as T
from pyvc.core import BOOL, INT, REAL, Sym
from pyvc.lib.nnx_model import comp, ensure_rows, mk_net, mk_optimizer, net_call, rows_tensor  # noqa: F401


def scenario_dims(E, batch1=False, act1=False):
    """generic scenario: all dims distinct symbols >= 2; degenerate scenarios on request"""
    N = 1 if batch1 else E.int("N", 2)
    D = E.int("D_obs", 2)
    A = 1 if act1 else E.int("D_act", 2)
    return N, D, A


def flags01(E, name, N):
    t = T.fresh_tensor(name, (N,), INT)
    E.st.assume_forall([INT], lambda i: z3.Or(C.as_int(t.at(i)) == 0, C.as_int(t.at(i)) == 1), f"{name}.01")
    return t


def discrete_batch(E, N, D, n_actions):
    obs = rows_tensor(E, "obs", (N,), D)
    nobs = rows_tensor(E, "next_obs", (N,), D)
    act = T.fresh_tensor("action", (N,), INT)
    E.st.assume_forall([INT], lambda i: z3.And(C.as_int(act.at(i)) >= 0, C.as_int(act.at(i)) < C.to_z3(n_actions)), "action.range")
    rew = T.fresh_tensor("reward", (N,), REAL)
    term = flags01(E, "terminated", N)
    return obs, act, rew, nobs, term


def continuous_batch(E, N, D, A):
    obs = rows_tensor(E, "obs", (N,), D)
    nobs = rows_tensor(E, "next_obs", (N,), D)
    act = rows_tensor(E, "action", (N,), A)
    rew = T.fresh_tensor("reward", (N,), REAL)
    term = flags01(E, "terminated", N)
    return obs, act, rew, nobs, term


def eq_scalar(E, name, got, want):
    E.oblige(name, C.compare("==", got, want))


def oblige_tensor_eq(E, name, got, want, using=None):
    got, want = T.as_tensor(got), T.as_tensor(want)
    r = T.tensor_eq_goal(got, want)
    if r is None:
        E.st.fail(name, f"shape {got.shape} vs required {want.shape}")
        return
    sorts, fn = r
    if not sorts:
        E.oblige(name, C.Sym(fn()))
    else:
        E.st.oblige_forall(name, sorts, fn, hint="i", using=using)


def no_grad_through(E, name, value, forbidden):
    """gradient-flow ghost: `value` must not depend differentiably on any of the forbidden sources"""
    gd = C.gdeps_of(value) if not isinstance(value, T.Tensor) else value.gdeps
    bad = sorted(set(gd) & {f.name if hasattr(f, "name") else f for f in forbidden})
    if bad:
        E.st.fail(name, f"differentiable dependence on {bad}")
    else:
        E.st.ok(name)
