"""C12 - actor objectives have the documented value and gradient.

Functions under contract
  rl_blox.blox.losses: stochastic_policy_gradient_pseudo_loss,
    deterministic_policy_gradient_loss, mse_value_loss
  rl_blox.algorithm.reinforce.reinforce_gradient
  rl_blox.algorithm.actor_critic.actor_critic_policy_gradient
  rl_blox.algorithm.a2c: a2c_policy_gradient, train_policy_a2c
  rl_blox.algorithm.ppo.ppo_loss
  rl_blox.algorithm.ddpg.ddpg_update_actor
  rl_blox.algorithm.sac: sac_actor_loss, sac_update_actor, sac_exploration_loss,
    EntropyCoefficient.__call__, _update_entropy_coefficient, EntropyControl.update
  rl_blox.algorithm.td7: deterministic_policy_gradient_loss_sale, td7_update_actor
  rl_blox.algorithm.mrq.mrq_policy_loss

Every value obligation compares the REAL function (interpreted from /repo)
with the formula of the property statement / docstring written with the
same uninterpreted network and policy terms.  Gradient obligations use the
gradient-flow ghost (DESIGN 3.3):
  grad.wrt_is_<x>        the object selected by `argnums` of nnx.value_and_grad
  grad.reaches_<x>       the differentiated value depends differentiably on it
  grad.weights_constant  the weights seen INSIDE the differentiated pseudo-loss
                         do not depend differentiably on the policy
  update.*               the optimizer step is applied to that object with that gradient,
                         and no other network's parameters change
PPO: the objective restricted to the open region where no sample is clipped
equals the unclipped surrogate (=> same gradient, in particular at unchanged
parameters, r == 1); restricted to the open region where every sample is
clipped on the side its advantage favours, the policy term equals an
expression that does not mention the policy parameters (=> zero gradient).
"""
import z3

from pyvc import core as C
from pyvc import tensor as T
from pyvc.core import INT, KEY, REAL, Sym, band, iff
from pyvc.lib.ext_policy_stub import (
    flat_value_call,
    mk_flat_value_net,
    mk_policy,
    policy_entropy,
    policy_log_probability,
    policy_sample,
    sum_affine,
)
from pyvc.lib.ext_numeric import spec_sum
from pyvc.runner import Task

from .nets import *  # noqa: F401,F403
from .nets import mk_net, mk_optimizer, net_call, no_grad_through, rows_tensor  # noqa: F811

PROPERTY = "C12"
LEVEL = "proof"

LOSSES = "rl_blox.blox.losses."
TANH_POLICY = "rl_blox.blox.function_approximator.policy_head.DeterministicTanhPolicy"
PSEUDO = LOSSES + "stochastic_policy_gradient_pseudo_loss"


# ------------------------------------------------------------------ helpers
def batch_dim(E):
    """batch size: symbolic N >= 2, or the python int 1 in the degenerate batch-1 scenario"""
    return 1 if getattr(E, "c12_batch1", False) else E.dim("N")


def batch1(h):
    """same harness in the degenerate scenario batch size 1 (property: same per-sample value
    or a loud rejection - a raise is reported as a failed no_uncaught_exception unless allowed)"""
    def h1(E):
        E.c12_batch1 = True
        return h(E)
    return h1


def eq(E, name, got, want, **kw):
    if E.st.qfacts and E.st.sums and not E.st.suppress:
        # apply the Sum-congruence rule up front (the engine applies it only after a failed
        # attempt, which with quantified row facts costs a full solver timeout)
        from pyvc.state import prove

        T.close_sums(E.st, prove)
    # a refuted equation is never assumed afterwards (it would make later obligations and the
    # canary vacuous); the quantified row facts (mkrow.comp) are not needed once rows are canonical
    kw.setdefault("assume_after", False)
    kw.setdefault("using", ["sum.congr", "arg.congr", "region."])
    E.oblige(name, C.compare("==", got, want), **kw)


def freeze_stop_gradients(shared):
    """task setup: values behind jax.lax.stop_gradient are computed from frozen copies of the parameters
    (pyvc/lib/jax_model.py, stop_gradient) so that `same_gradient` can compare FUNCTIONS of the live parameters"""
    shared.sg_freeze = True


def same_gradient(E, name, impl, spec, trained):
    """the implementation's loss and the documented expression are the same FUNCTION of the trained networks'
    parameters (hence have the same gradient w.r.t. them): frozen copies of the trained networks' parameters stay
    independent symbols, those of every other network are identified with the live ones.  A stop_gradient that cuts a
    documented path (or a missing one that the documentation demands) makes the two functions differ."""
    reg = E.st.ghost.get("sg_frozen", {})
    tn = {getattr(n, "name", n) for n in trained}
    hide = {fid for th, fz, nm, fid in reg.values() if nm in tn}  # the other networks' frozen copies ARE the live parameters
    # the withheld facts are taken out of the path condition for the whole step (the Sum-congruence closure must not
    # use them either: an equality of two sums derived WITH them would be reused by the obligation)
    hidden = [h for h in E.st.pc if h.get_id() in hide]
    E.st.pc[:] = [h for h in E.st.pc if h.get_id() not in hide]
    try:
        if E.st.qfacts and E.st.sums and not E.st.suppress:
            from pyvc.state import prove

            E.st.ghost.pop("congr_failed", None)
            T.close_sums(E.st, prove)
        E.st.oblige(name, C.compare("==", impl, spec), assume_after=False, using=["sum.congr", "arg.congr", "region."])
    finally:
        E.st.pc.extend(hidden)
        E.st.ghost.pop("congr_failed", None)  # pairs that failed without the withheld facts may succeed with them


def neg_mean(t, n):
    """-(1/N) sum_i t_i  (the documented estimator)"""
    return C.unop("-", C.binop("/", T.reduce(t, "sum"), n))


def gd_of(v):
    return v.gdeps if isinstance(v, T.Tensor) else C.gdeps_of(v)


def params_of(*nets):
    return [(n, n.fields["$params"].z) for n in nets]


def oblige_params(E, name, before, changed):
    """frame: exactly the networks in `changed` got new parameters"""
    bad = []
    for n, p in before:
        same = z3.eq(n.fields["$params"].z, p)
        if (n in changed) == same:
            bad.append(n.name)
    if bad:
        E.st.fail(name, f"parameter frame violated for {bad}")
    else:
        E.st.ok(name)


def grad_obligations(E, prefix, grad, target, loss_gd_must_contain):
    """argnums selects `target`; the differentiated value reaches it"""
    calls = E.st.ghost.get("grad_calls", [])
    if not calls:
        E.st.fail(f"{prefix}.grad.wrt_is_{target.name}", "no value_and_grad call")
        return
    wrt = calls[-1]["wrt"]
    if wrt is target and getattr(grad, "wrt", None) is target:
        E.st.ok(f"{prefix}.grad.wrt_is_{target.name}")
    else:
        E.st.fail(f"{prefix}.grad.wrt_is_{target.name}", f"gradient taken with respect to {getattr(wrt, 'name', wrt)!r}")
    missing = sorted(set(loss_gd_must_contain) - set(getattr(grad, "gdeps", ())))
    if missing:
        E.st.fail(f"{prefix}.grad.reaches_{target.name}", f"differentiated value does not depend differentiably on {missing}")
    else:
        E.st.ok(f"{prefix}.grad.reaches_{target.name}")


def spy_pseudo_loss(shared):
    """observe the weights INSIDE the differentiated pseudo-loss (then run the real body)"""
    def stub(E, observation, action, weight, policy):
        E.st.ghost.setdefault("pseudo_calls", []).append(dict(weight_gdeps=gd_of(weight), in_grad=E.st.ghost.get("in_grad", 0), policy=policy))
        return E.call_closure(E.resolve(PSEUDO), [observation, action, weight, policy], {})
    shared.stubs[PSEUDO] = stub


def weights_constant(E, prefix, policy):
    calls = E.st.ghost.get("pseudo_calls", [])
    if not calls or not all(c["in_grad"] >= 1 for c in calls):
        E.st.fail(f"{prefix}.grad.weights_constant", "pseudo-loss not evaluated inside value_and_grad")
        return
    bad = [c for c in calls if policy.name in c["weight_gdeps"] or c["policy"] is not policy]
    if bad:
        E.st.fail(f"{prefix}.grad.weights_constant", f"weights depend differentiably on {sorted(bad[0]['weight_gdeps'])} inside the differentiated function")
    else:
        E.st.ok(f"{prefix}.grad.weights_constant")


# --------------------------------------------- stochastic policy gradient
def mk_pseudo(discrete=False, batch1=False):
    def h(E):
        N = 1 if batch1 else E.dim("N")
        D = E.dim("D_obs")
        obs = rows_tensor(E, "obs", (N,), D)
        if discrete:
            pi = mk_policy(E, "pi", None)
            act = T.fresh_tensor("action", (N,), INT)
        else:
            A = E.dim("D_act")
            pi = mk_policy(E, "pi", A)
            act = rows_tensor(E, "action", (N,), A)
        w = T.fresh_tensor("weight", (N,), REAL)  # either sign
        loss = E.call(PSEUDO, obs, act, w, pi)
        logp = policy_log_probability(E, pi, obs, act)
        eq(E, "post.loss_is_minus_mean_w_logp", loss, neg_mean(w * logp, N))
        if gd_of(loss) == frozenset(["pi"]):
            E.st.ok("post.differentiable_in_policy_only")
        else:
            E.st.fail("post.differentiable_in_policy_only", f"gdeps {sorted(gd_of(loss))}")
        E.oblige("canary.pseudo", C.compare("==", loss, 0), assume_after=False)
    return h


def h_pseudo_rejects_column_weights(E):
    """weights of shape (N,1) against log-probabilities of shape (N,) must be
    rejected, not broadcast to (N,N)"""
    N, D, A = E.dim("N"), E.dim("D_obs"), E.dim("D_act")
    obs = rows_tensor(E, "obs", (N,), D)
    act = rows_tensor(E, "action", (N,), A)
    pi = mk_policy(E, "pi", A)
    w = T.fresh_tensor("weight", (N, 1), REAL)
    kind, r = E.call_catch(PSEUDO, obs, act, w, pi)
    if kind == "raise":
        E.st.ok("post.column_weights_rejected")
    else:
        E.st.fail("post.column_weights_rejected", "weights (N,1) silently broadcast against log-probabilities (N,)")
        E.oblige("canary.colw", C.compare("==", r, 0), assume_after=False)
        return
    E.oblige("canary.colw", Sym(z3.BoolVal(False)), assume_after=False)


def mk_reinforce(baseline, discount):
    def h(E):
        N, D, A = E.dim("N"), E.dim("D_obs"), E.dim("D_act")
        obs = rows_tensor(E, "obs", (N,), D)
        act = rows_tensor(E, "action", (N,), A)
        ret = T.fresh_tensor("returns", (N,), REAL)
        pi = mk_policy(E, "pi", A)
        v = mk_net(E, "v", 1) if baseline else None
        gd = T.fresh_tensor("gamma_discount", (N,), REAL) if discount else None
        loss, grad = E.call("rl_blox.algorithm.reinforce.reinforce_gradient", pi, v, obs, act, ret, gd)
        logp = policy_log_probability(E, pi, obs, act)
        w = ret - T.squeeze(net_call(E, v, obs), -1) if baseline else ret
        if discount:
            w = w * gd
        eq(E, "post.loss_is_minus_mean_w_logp", loss, neg_mean(w * logp, N))
        grad_obligations(E, "post", grad, pi, ["pi"])
        weights_constant(E, "post", pi)
        E.oblige("canary.reinforce", C.compare("==", loss, 0), assume_after=False)
    return h


def h_actor_critic(E):
    N, D, A = E.dim("N"), E.dim("D_obs"), E.dim("D_act")
    obs = rows_tensor(E, "obs", (N,), D)
    nobs = rows_tensor(E, "next_obs", (N,), D)
    act = rows_tensor(E, "action", (N,), A)
    rew = T.fresh_tensor("rewards", (N,), REAL)
    gdisc = T.fresh_tensor("gamma_discount", (N,), REAL)
    gamma = E.real("gamma", 0, 1)
    pi = mk_policy(E, "pi", A)
    v = mk_net(E, "v", 1)
    loss, grad = E.call("rl_blox.algorithm.actor_critic.actor_critic_policy_gradient", pi, v, obs, act, nobs, rew, gdisc, gamma)
    logp = policy_log_probability(E, pi, obs, act)
    vo = T.squeeze(net_call(E, v, obs), -1)
    vn = T.squeeze(net_call(E, v, nobs), -1)
    w = gdisc * (rew + gamma * vn - vo)  # documented: gamma^t * TD error
    eq(E, "post.loss_is_minus_mean_w_logp", loss, neg_mean(w * logp, N))
    grad_obligations(E, "post", grad, pi, ["pi"])
    weights_constant(E, "post", pi)
    E.oblige("canary.ac", C.compare("==", loss, 0), assume_after=False)


def h_a2c(E):
    N, D, A = E.dim("N"), E.dim("D_obs"), E.dim("D_act")
    obs = rows_tensor(E, "obs", (N,), D)
    act = rows_tensor(E, "action", (N,), A)
    adv = T.fresh_tensor("advantages", (N,), REAL)
    pi = mk_policy(E, "pi", A)
    loss, grad = E.call("rl_blox.algorithm.a2c.a2c_policy_gradient", pi, obs, act, adv)
    logp = policy_log_probability(E, pi, obs, act)
    eq(E, "post.loss_is_minus_mean_w_logp", loss, neg_mean(adv * logp, N))
    grad_obligations(E, "post", grad, pi, ["pi"])
    weights_constant(E, "post", pi)
    E.oblige("canary.a2c", C.compare("==", loss, 0), assume_after=False)


def h_train_policy_a2c(E):
    """one policy-gradient step: the optimizer is applied to the policy with the
    gradient of the pseudo-loss whose weights are the (standardised) advantages"""
    N, D, A = E.dim("N"), E.dim("D_obs"), E.dim("D_act")
    obs = rows_tensor(E, "obs", (N,), D)
    act = rows_tensor(E, "action", (N,), A)
    adv = T.fresh_tensor("advantages", (N,), REAL)
    pi = mk_policy(E, "pi", A)
    opt = mk_optimizer(E, "opt_pi", pi)
    before = params_of(pi)
    loss = E.call("rl_blox.algorithm.a2c.train_policy_a2c", pi, opt, 1, obs, act, adv)
    grad = E.st.ghost.get("last_grad")
    grad_obligations(E, "post", grad, pi, ["pi"])
    weights_constant(E, "post", pi)
    ups = E.st.ghost.get("opt_updates", [])
    if len(ups) == 1 and ups[0]["opt"] is opt and ups[0]["model"] is pi and ups[0]["grads"] is grad:
        E.st.ok("post.update.policy_with_policy_gradient")
    else:
        E.st.fail("post.update.policy_with_policy_gradient", "optimizer not applied to the policy with the pseudo-loss gradient")
    oblige_params(E, "post.update.frame", before, [pi])
    E.oblige("canary.train_a2c", C.compare("==", loss, 0), assume_after=False)


# ---------------------------------------------------------------------- PPO
C_VALUE = C.frac_of(0.5)
C_ENT = C.frac_of(0.01)


def ppo_setup(E, critic_shape, zero_adv=False):
    N, D, A = batch_dim(E), E.dim("D_obs"), E.dim("D_act")
    obs = rows_tensor(E, "obs", (N,), D)
    act = rows_tensor(E, "action", (N,), A)
    old = T.fresh_tensor("old_logps", (N,), REAL)
    adv = T.full((N,), C.frac_of(0), REAL) if zero_adv else T.fresh_tensor("advantages", (N,), REAL)
    ret = T.fresh_tensor("returns", (N,), REAL)
    eps = E.real("clip")
    E.assume(band(eps > 0, eps < 1))
    actor = mk_policy(E, "actor", A)
    if critic_shape == "(N,)":
        critic = mk_flat_value_net(E, "critic")
        V = lambda: flat_value_call(E, critic, obs)  # noqa: E731
    else:
        critic = mk_net(E, "critic", 1)
        V = lambda: T.squeeze(net_call(E, critic, obs), -1)  # noqa: E731
    return dict(N=N, obs=obs, act=act, old=old, adv=adv, ret=ret, eps=eps, actor=actor, critic=critic, V=V)


def ppo_call(E, s):
    return E.call("rl_blox.algorithm.ppo.ppo_loss", s["actor"], s["critic"], s["old"], s["obs"], s["act"], s["adv"], s["ret"], s["eps"])


def ppo_ratio(E, s):
    logp = policy_log_probability(E, s["actor"], s["obs"], s["act"])
    return T.tfn("exp", logp - s["old"])


def ppo_value_and_entropy_terms(E, s):
    d = s["ret"] - s["V"]()
    value_term = C.binop("/", T.reduce(d * d, "sum"), s["N"])  # (1/N) sum_i (R_i - V(o_i))^2
    ent = C.binop("/", T.reduce(policy_entropy(E, s["actor"], s["obs"]), "sum"), s["N"])
    return C.binop("-", C.binop("*", C_VALUE, value_term), C.binop("*", C_ENT, ent))


def ppo_phi(s, r):
    """documented per-sample objective min(r A, clip(r, 1-eps, 1+eps) A)"""
    eps = s["eps"]
    return T.tmin(r * s["adv"], T.clip(r, 1 - eps, 1 + eps) * s["adv"])


def mk_ppo_general(critic_shape):
    def h(E):
        s = ppo_setup(E, critic_shape)
        N, eps, adv = s["N"], s["eps"], s["adv"]
        loss = ppo_call(E, s)
        r = ppo_ratio(E, s)
        phi = ppo_phi(s, r)
        eq(E, "post.loss_is_documented", loss, C.binop("+", neg_mean(phi, N), ppo_value_and_entropy_terms(E, s)))
        # per-sample facts about the documented objective (real arithmetic, every index)
        Nz = C.to_z3(N)
        inb = lambda i: z3.And(i >= 0, i < Nz)  # noqa: E731
        rz = lambda i: C.as_real(r.at(i))  # noqa: E731
        az = lambda i: C.as_real(adv.at(i))  # noqa: E731
        pz = lambda i: C.as_real(phi.at(i))  # noqa: E731
        ez = eps.z
        logp = policy_log_probability(E, s["actor"], s["obs"], s["act"])
        E.st.oblige_forall("phi.unchanged_parameters_are_interior", [INT], lambda i: z3.Implies(
            z3.And(inb(i), C.as_real(logp.at(i)) == C.as_real(s["old"].at(i))), z3.And(rz(i) == 1, 1 - ez < rz(i), rz(i) < 1 + ez)), hint="i", using=[])
        E.st.oblige_forall("phi.unclipped_on_open_interval", [INT], lambda i: z3.Implies(
            z3.And(inb(i), 1 - ez < rz(i), rz(i) < 1 + ez), pz(i) == rz(i) * az(i)), hint="i", using=[])
        E.st.oblige_forall("phi.constant_when_clipped_above_with_positive_advantage", [INT], lambda i: z3.Implies(
            z3.And(inb(i), az(i) > 0, rz(i) > 1 + ez), pz(i) == (1 + ez) * az(i)), hint="i", using=[])
        E.st.oblige_forall("phi.constant_when_clipped_below_with_negative_advantage", [INT], lambda i: z3.Implies(
            z3.And(inb(i), az(i) < 0, rz(i) < 1 - ez), pz(i) == (1 - ez) * az(i)), hint="i", using=[])
        E.oblige("canary.ppo", C.compare("==", loss, 0), assume_after=False)
    return h


def h_ppo_unclipped_region(E):
    """no sample clipped (open condition, contains r == 1): the objective IS the unclipped surrogate"""
    s = ppo_setup(E, "(N,)")
    N, eps = s["N"], s["eps"]
    r = ppo_ratio(E, s)
    Nz = C.to_z3(N)
    E.st.assume_forall([INT], lambda i: z3.Implies(z3.And(i >= 0, i < Nz), z3.And(1 - eps.z < C.as_real(r.at(i)), C.as_real(r.at(i)) < 1 + eps.z)), "region.unclipped")
    loss = ppo_call(E, s)
    eq(E, "post.equals_unclipped_surrogate", loss, C.binop("+", neg_mean(r * s["adv"], N), ppo_value_and_entropy_terms(E, s)))
    E.oblige("canary.ppo_unclipped", C.compare("==", loss, 0), assume_after=False)


def h_ppo_clipped_region(E):
    """every sample clipped on the side its advantage favours (open condition):
    the policy term equals an expression without the policy parameters"""
    s = ppo_setup(E, "(N,)")
    N, eps, adv = s["N"], s["eps"], s["adv"]
    r = ppo_ratio(E, s)
    Nz = C.to_z3(N)

    def region(i):
        ri, ai = C.as_real(r.at(i)), C.as_real(adv.at(i))
        return z3.Implies(z3.And(i >= 0, i < Nz), z3.Or(z3.And(ai > 0, ri > 1 + eps.z), z3.And(ai < 0, ri < 1 - eps.z)))
    E.st.assume_forall([INT], region, "region.clipped_favoured")
    loss = ppo_call(E, s)
    const = T.where(T.tensor_compare(">", adv, 0), (1 + eps) * adv, (1 - eps) * adv)  # no policy term
    no_grad_through(E, "post.policy_term_is_parameter_free", const, [s["actor"]])
    eq(E, "post.policy_term_locally_constant", loss, C.binop("+", neg_mean(const, N), ppo_value_and_entropy_terms(E, s)))
    E.oblige("canary.ppo_clipped", C.compare("==", loss, 0), assume_after=False)


def mk_ppo_value_term(critic_shape):
    def h(E):
        s = ppo_setup(E, critic_shape, zero_adv=True)  # zero advantages: the policy term vanishes identically
        N = s["N"]
        kind, loss = E.call_catch("rl_blox.algorithm.ppo.ppo_loss", s["actor"], s["critic"], s["old"], s["obs"], s["act"], s["adv"], s["ret"], s["eps"])
        if kind == "raise":
            E.st.fail("post.value_term", f"ppo_loss raised {loss.exc_type}: {loss.msg}")
            return
        r = ppo_ratio(E, s)
        eq(E, "post.value_term", loss, C.binop("+", neg_mean(ppo_phi(s, r), N), ppo_value_and_entropy_terms(E, s)))
        E.oblige("canary.ppo_value", C.compare("==", loss, 0), assume_after=False)
    return h


# -------------------------------------------------- deterministic policy gradient
def dpg_setup(E, tanh_head=False):
    N, D, A = batch_dim(E), E.dim("D_obs"), E.dim("D_act")
    obs = rows_tensor(E, "obs", (N,), D)
    q = mk_net(E, "q", 1)
    pi = mk_net(E, "pi", A)
    if tanh_head:
        # the real deterministic tanh head around the network (its methods are interpreted)
        pi = E.new_obj(TANH_POLICY, name="pi_head", policy_net=pi, action_scale=T.fresh_tensor("action_scale", (A,), REAL),
                       action_bias=T.fresh_tensor("action_bias", (A,), REAL))
    return N, obs, q, pi


def dpg_spec(E, N, obs, q, pi):
    """-(1/N) sum_i Q(o_i, pi(o_i))"""
    if "policy_net" in pi.fields:
        # documented head: tanh(net(o)) * scale + bias
        y = net_call(E, pi.fields["policy_net"], obs)
        a = T.tfn("tanh", y) * T.index(pi.fields["action_scale"], (None, slice(None))) + T.index(pi.fields["action_bias"], (None, slice(None)))
    else:
        a = net_call(E, pi, obs)
    qv = net_call(E, q, T.concatenate((obs, a), -1))  # (N,1)
    return neg_mean(T.index(qv, (slice(None), 0)), N)


def mk_dpg(tanh_head=False):
    def h(E):
        return h_dpg(E, tanh_head)
    return h


def h_dpg(E, tanh_head=False):
    N, obs, q, pi = dpg_setup(E, tanh_head)
    loss = E.call(LOSSES + "deterministic_policy_gradient_loss", q, obs, pi)
    want = dpg_spec(E, N, obs, q, pi)
    from pyvc.lib.nnx_model import leaf_nets as _ln
    same_gradient(E, "post.gradient_wrt_policy_is_gradient_of_documented_loss", loss, want, _ln(pi))
    eq(E, "post.loss_is_minus_mean_q_of_policy_action", loss, want)
    if "pi" in gd_of(loss):
        E.st.ok("post.differentiable_in_policy")
    else:
        E.st.fail("post.differentiable_in_policy", f"gdeps {sorted(gd_of(loss))}")
    E.oblige("canary.dpg", C.compare("==", loss, 0), assume_after=False)


def update_obligations(E, opt, target, grad, before, changed):
    ups = E.st.ghost.get("opt_updates", [])
    if len(ups) == 1 and ups[0]["opt"] is opt and ups[0]["model"] is target and ups[0]["grads"] is grad and opt.fields["$wrt"] is target:
        E.st.ok(f"post.update.{target.name}_with_its_gradient")
    else:
        E.st.fail(f"post.update.{target.name}_with_its_gradient", "optimizer step not applied to the differentiated object with that gradient")
    oblige_params(E, "post.update.frame_no_other_parameters_change", before, changed)


def h_ddpg_update_actor(E):
    N, obs, q, pi = dpg_setup(E)
    opt = mk_optimizer(E, "opt_pi", pi)
    before = params_of(q, pi)
    want = dpg_spec(E, N, obs, q, pi)  # at the parameters before the step
    loss = E.call("rl_blox.algorithm.ddpg.ddpg_update_actor", pi, opt, q, obs)
    grad = E.st.ghost.get("last_grad")
    eq(E, "post.loss_is_minus_mean_q_of_policy_action", loss, want)
    grad_obligations(E, "post", grad, pi, ["pi"])
    update_obligations(E, opt, pi, grad, before, [pi])
    E.oblige("canary.ddpg_actor", C.compare("==", loss, 0), assume_after=False)


# ------------------------------------------------------------- mse_value_loss
def mk_mse_value(batch1=False):
    def h(E):
        N = 1 if batch1 else E.dim("N")
        D = E.dim("D_obs")
        obs = rows_tensor(E, "obs", (N,), D)
        tgt = T.fresh_tensor("v_target", (N,), REAL)
        v = mk_net(E, "v", 1)
        mark = len(E.st.sums)
        kind, loss = E.call_catch(LOSSES + "mse_value_loss", obs, tgt, v)
        if kind == "raise":
            # batch size 1: a loud rejection is acceptable (property quantifier), silence is not
            if batch1:
                E.st.ok("post.batch1_same_value_or_rejected")
            else:
                E.st.fail("post.loss_is_half_mean_squared_error", f"raised {loss.exc_type}: {loss.msg}")
            E.oblige("canary.mse_value", Sym(z3.BoolVal(False)), assume_after=False)
            return
        d = T.squeeze(net_call(E, v, obs), -1) - tgt
        code_nodes = [nd for nd in E.st.sums[mark:] if nd.kind == "sum"]
        total, node = spec_sum(E.st, d * d, 0)
        if node is not None and len(code_nodes) == 1:
            # the code sums l2_loss = (1/2) d^2; the docstring has the factor 1/(2N) outside the sum
            sum_affine(E.st, "post.loss_is_half_mean_squared_error", code_nodes[0], node, C.frac_of(0.5), 0, using=[])
        name = "post.batch1_same_value_or_rejected" if batch1 else "post.loss_is_half_mean_squared_error"
        eq(E, name, loss, C.binop("/", total, C.binop("*", 2, N)))  # 1/(2N) sum_i (v(o_i) - R_i)^2
        E.oblige("canary.mse_value", C.compare("==", loss, 0), assume_after=False)
    return h


# ------------------------------------------------------------------------ SAC
DQ = "rl_blox.blox.double_qnet.ContinuousClippedDoubleQNet"
SAC = "rl_blox.algorithm.sac."


def sac_setup(E):
    N, D, A = batch_dim(E), E.dim("D_obs"), E.dim("D_act")
    obs = rows_tensor(E, "obs", (N,), D)
    pi = mk_policy(E, "pi", A)
    key = E.val("action_key", KEY)
    return N, obs, pi, key


def sac_actor_spec(E, N, obs, pi, q1, q2, alpha, key):
    a = policy_sample(E, pi, obs, key)
    logp = policy_log_probability(E, pi, obs, a)
    oa = T.concatenate((obs, a), -1)
    qmin = T.tmin(T.squeeze(net_call(E, q1, oa), -1), T.squeeze(net_call(E, q2, oa), -1))
    return C.binop("/", T.reduce(alpha * logp - qmin, "sum"), N)


def h_sac_actor_loss(E):
    N, obs, pi, key = sac_setup(E)
    q1, q2 = mk_net(E, "q1", 1), mk_net(E, "q2", 1)
    q = E.new_obj(DQ, name="q", q1=q1, q2=q2)
    alpha = E.real("alpha")
    loss = E.call(SAC + "sac_actor_loss", pi, q, alpha, key, obs)
    eq(E, "post.loss_is_mean_alpha_logp_minus_min_q", loss, sac_actor_spec(E, N, obs, pi, q1, q2, alpha, key))
    E.oblige("canary.sac_actor", C.compare("==", loss, 0), assume_after=False)


def h_sac_update_actor(E):
    N, obs, pi, key = sac_setup(E)
    q1, q2 = mk_net(E, "q1", 1), mk_net(E, "q2", 1)
    q = E.new_obj(DQ, name="q", q1=q1, q2=q2)
    alpha = E.real("alpha")
    opt = mk_optimizer(E, "opt_pi", pi)
    before = params_of(pi, q1, q2)
    want = sac_actor_spec(E, N, obs, pi, q1, q2, alpha, key)
    loss = E.call(SAC + "sac_update_actor", pi, opt, q, key, obs, alpha)
    grad = E.st.ghost.get("last_grad")
    eq(E, "post.loss_is_mean_alpha_logp_minus_min_q", loss, want)
    grad_obligations(E, "post", grad, pi, ["pi"])
    update_obligations(E, opt, pi, grad, before, [pi])
    E.oblige("canary.sac_update_actor", C.compare("==", loss, 0), assume_after=False)


def mk_entropy_coefficient(E):
    lam = T.fresh_tensor("log_alpha", (1,), REAL, gdeps=frozenset(["log_alpha"]))
    return E.new_obj(SAC + "EntropyCoefficient", name="log_alpha", log_alpha=lam), lam


def h_entropy_coefficient(E):
    coef, lam = mk_entropy_coefficient(E)
    a = E.call(coef)
    a = T.as_tensor(a)
    if not (a.ndim == 1 and T.dim_eq(a.shape[0], 1)):
        E.st.fail("post.alpha_is_exp_log_alpha", f"shape {a.shape}")
        return
    eq(E, "post.alpha_is_exp_log_alpha", a.at(0), T.scalar_fn("exp", lam.at(0)))
    E.oblige("post.alpha_positive", a.at(0) > 0)
    E.oblige("canary.coef", C.compare("==", a.at(0), 1), assume_after=False)


def temperature_obligations(E, prefix, N, loss, lam, logp, h_target):
    """L(lambda) = -exp(lambda) * mean_i(log pi_i + H_target) and the sign claim."""
    lam0 = lam.at(0)
    alpha = T.scalar_fn("exp", lam0)
    # (1) value, same reduction structure as the code
    mark = len(E.st.sums)
    eq(E, f"{prefix}.loss_is_mean_of_minus_alpha_times_logp_plus_target", loss,
       C.binop("/", T.reduce(C.unop("-", alpha) * (logp + h_target), "sum"), N))
    # (2) closed form: L = alpha * c with c = -(mean log pi + H_target) independent of lambda
    s_logp, node_logp = spec_sum(E.st, logp, 0)
    m = C.binop("/", s_logp, N)  # mean_i log pi(a_i|o_i): minus the sampled entropy estimate
    if "log_alpha" in gd_of(logp) or "log_alpha" in gd_of(h_target):
        E.st.fail(f"{prefix}.logp_and_target_do_not_depend_on_lambda", "log pi or the target depend on log_alpha")
    else:
        E.st.ok(f"{prefix}.logp_and_target_do_not_depend_on_lambda")
    c = C.unop("-", C.binop("+", m, h_target))
    code_nodes = [nd for nd in E.st.sums[:mark] if nd.kind == "sum" and nd.nparams == 0 and T.dim_eq(nd.dim, N)]
    if isinstance(N, int):
        pass  # sums unrolled exactly
    elif len(code_nodes) != 1 or node_logp is None:
        E.st.fail(f"{prefix}.closed_form", "expected exactly one reduction over the batch in the loss")
        return
    else:
        sum_affine(E.st, f"{prefix}.closed_form", code_nodes[0], node_logp, C.unop("-", alpha), C.binop("*", C.unop("-", alpha), h_target), using=[])
    eq(E, f"{prefix}.closed_form", loss, C.binop("*", alpha, c))
    # (3) ASSUMED lemma deriv_exp (TRUSTED): L(lambda) = exp(lambda) * c with c independent of lambda
    #     => dL/dlambda = exp(lambda) * c = L(lambda).  Its premise is (2) + the independence check;
    #     the derivative is therefore tied to the CODE's loss value.
    g = E.st.fresh_sym("dL_dlambda", REAL)
    E.assume(C.compare("==", g, loss))
    eq(E, f"{prefix}.gradient_closed_form", g, C.unop("-", C.binop("*", alpha, C.binop("+", m, h_target))))
    # (4) descent step lambda' = lambda - eta * g, eta > 0 (SGD; first Adam step: eta = lr / (|g| + eps))
    eta = E.real("eta")
    E.assume(eta > 0)
    lam1 = C.binop("-", lam0, C.binop("*", eta, g))
    alpha1 = T.scalar_fn("exp", lam1)
    entropy_estimate = C.unop("-", m)
    E.oblige(f"{prefix}.sign.alpha_rises_iff_entropy_estimate_below_target", iff(alpha1 > alpha, entropy_estimate < h_target), assume_after=False)
    E.oblige(f"{prefix}.sign.alpha_falls_iff_entropy_estimate_above_target", iff(alpha1 < alpha, entropy_estimate > h_target), assume_after=False)
    E.oblige(f"{prefix}.sign.alpha_unchanged_iff_entropy_estimate_on_target", iff(C.compare("==", alpha1, alpha), C.compare("==", entropy_estimate, h_target)), assume_after=False)


def h_sac_exploration_loss(E):
    N, obs, pi, key = sac_setup(E)
    coef, lam = mk_entropy_coefficient(E)
    h_target = E.real("target_entropy")
    loss = E.call(SAC + "sac_exploration_loss", pi, h_target, key, obs, coef)
    a = policy_sample(E, pi, obs, key)
    logp = policy_log_probability(E, pi, obs, a)
    temperature_obligations(E, "post", N, loss, lam, logp, h_target)
    E.oblige("canary.sac_exploration", C.compare("==", loss, 0), assume_after=False)


def h_update_entropy_coefficient(E):
    N, obs, pi, key = sac_setup(E)
    coef, lam = mk_entropy_coefficient(E)
    h_target = E.real("target_entropy")
    opt = mk_optimizer(E, "opt_alpha", coef)
    before = params_of(pi)
    loss, alpha = E.call(SAC + "_update_entropy_coefficient", opt, pi, h_target, key, obs, coef)
    grad = E.st.ghost.get("last_grad")
    grad_obligations(E, "post", grad, coef, ["log_alpha"])
    update_obligations(E, opt, coef, grad, before, [])
    E.oblige("canary.update_alpha", C.compare("==", loss, 0), assume_after=False)


def mk_entropy_control(autotune):
    def h(E):
        N, obs, pi, key = sac_setup(E)
        coef, lam = mk_entropy_coefficient(E)
        h_target = E.real("target_entropy")
        alpha0 = E.real("alpha_0")
        opt = mk_optimizer(E, "opt_alpha", coef) if autotune else None
        ec = E.new_obj(SAC + "EntropyControl", name="entropy_control", autotune=autotune, target_entropy=h_target, _alpha=coef, alpha_=alpha0, optimizer=opt)
        out = E.call(E.getattr(ec, "update"), pi, obs, key)
        if not autotune:
            eq(E, "post.fixed_alpha_untouched", ec.fields["alpha_"], alpha0)
            if E.st.ghost.get("grad_calls") or E.st.ghost.get("opt_updates"):
                E.st.fail("post.fixed_alpha_no_update", "gradient / optimizer step although autotune is off")
            else:
                E.st.ok("post.fixed_alpha_no_update")
            E.oblige("canary.entropy_control", C.compare("==", alpha0, 0), assume_after=False)
            return
        grad = E.st.ghost.get("last_grad")
        grad_obligations(E, "post", grad, coef, ["log_alpha"])
        update_obligations(E, opt, coef, grad, params_of(pi), [])
        a = policy_sample(E, pi, obs, key)
        logp = policy_log_probability(E, pi, obs, a)
        eq(E, "post.returns_exploration_loss", out, C.binop("/", T.reduce(C.unop("-", T.scalar_fn("exp", lam.at(0))) * (logp + h_target), "sum"), N))
        E.oblige("canary.entropy_control", C.compare("==", out, 0), assume_after=False)
    return h


# ------------------------------------------------------------------------ TD7
SALE = "rl_blox.blox.embedding.sale."
TD7 = "rl_blox.algorithm.td7."


def stub_avg_l1_norm(shared):
    freeze_stop_gradients(shared)
    _stub_avg_l1_norm(shared)


def _stub_avg_l1_norm(shared):
    """modular: AvgL1Norm (documented: each vector divided by its mean absolute value) is used
    through its row-wise contract only: output row = function of the input row"""
    from pyvc.lib.nnx_model import comp, ensure_rows

    def stub(E, x, eps=None):
        x = T.as_tensor(x)
        rows = ensure_rows(E, x)
        f = C.uf("avg_l1_norm_row", C.ROW, C.ROW)
        orow = lambda *b: f(rows(*b))  # noqa: E731
        return T.Tensor(x.shape, lambda *i: Sym(comp(orow(*i[:-1]), C.to_z3(i[-1]))), REAL, x.gdeps, rows=orow)
    shared.stubs["rl_blox.blox.function_approximator.norm.avg_l1_norm"] = stub


def td7_setup(E):
    N, D, A, Z, Hd = batch_dim(E), E.dim("D_obs"), E.dim("D_act"), E.dim("D_zs"), E.dim("D_hidden")
    obs = rows_tensor(E, "obs", (N,), D)
    emb = E.new_obj(SALE + "SALE", name="embedding", _state_embedding=mk_net(E, "f_zs", Z), state_action_embedding=mk_net(E, "g_zsa", Z))
    actor = E.new_obj(SALE + "ActorSALE", name="actor", policy_net=mk_net(E, "pi_net", A), l0=mk_net(E, "pi_l0", Hd))
    c1 = E.new_obj(SALE + "CriticSALE", name="critic1", q_net=mk_net(E, "q1_net", 1), q0=mk_net(E, "q1_l0", Hd))
    c2 = E.new_obj(SALE + "CriticSALE", name="critic2", q_net=mk_net(E, "q2_net", 1), q0=mk_net(E, "q2_l0", Hd))
    critic = E.new_obj(DQ, name="critic", q1=c1, q2=c2)
    return N, obs, emb, actor, c1, c2, critic


def td7_spec(E, N, obs, emb, actor, c1, c2):
    """-(1/N) sum_i (Q1+Q2)/2 (o_i, a_i, zsa_i, zs_i), zs = f(o), a = pi(o, zs), zsa = g(zs, a)"""
    zs = E.call(E.getattr(emb, "state_embedding"), obs)
    a = E.call(actor, obs, zs)
    zsa = E.call(emb.fields["state_action_embedding"], T.concatenate((zs, a), -1))
    oa = T.concatenate((obs, a), -1)
    qa = E.call(c1, oa, zsa, zs)
    qb = E.call(c2, oa, zsa, zs)
    return neg_mean(T.squeeze(C.frac_of(0.5) * (qa + qb), -1), N)


def h_td7_loss(E):
    N, obs, emb, actor, c1, c2, critic = td7_setup(E)
    loss = E.call(TD7 + "deterministic_policy_gradient_loss_sale", emb, critic, obs, actor)
    want = td7_spec(E, N, obs, emb, actor, c1, c2)
    from pyvc.lib.nnx_model import leaf_nets as _ln
    same_gradient(E, "post.gradient_wrt_actor_is_gradient_of_documented_loss", loss, want, _ln(actor))
    eq(E, "post.loss_is_minus_mean_of_critic_mean", loss, want)
    if {"pi_net", "pi_l0"} <= set(gd_of(loss)):
        E.st.ok("post.differentiable_in_actor")
    else:
        E.st.fail("post.differentiable_in_actor", f"gdeps {sorted(gd_of(loss))}")
    E.oblige("canary.td7", C.compare("==", loss, 0), assume_after=False)


def h_td7_update_actor(E):
    N, obs, emb, actor, c1, c2, critic = td7_setup(E)
    policy = E.new_obj(SALE + "DeterministicSALEPolicy", name="policy", embedding=emb, actor=actor)
    opt = mk_optimizer(E, "opt_actor", actor)
    from pyvc.lib.nnx_model import leaf_nets
    actor_nets = leaf_nets(actor)
    before = params_of(*(leaf_nets(emb) + leaf_nets(critic) + actor_nets))
    want = td7_spec(E, N, obs, emb, actor, c1, c2)
    loss = E.call(TD7 + "td7_update_actor", policy, opt, critic, obs)
    grad = E.st.ghost.get("last_grad")
    same_gradient(E, "post.gradient_wrt_actor_is_gradient_of_documented_loss", loss, want, actor_nets)
    eq(E, "post.loss_is_minus_mean_of_critic_mean", loss, want)
    grad_obligations(E, "post", grad, actor, ["pi_net", "pi_l0"])
    update_obligations(E, opt, actor, grad, before, actor_nets)
    E.oblige("canary.td7_update", C.compare("==", loss, 0), assume_after=False)


# ----------------------------------------------------------------------- MR.Q
MBE = "rl_blox.blox.embedding.model_based_encoder.ModelBasedEncoder"


def h_mrq_policy_loss(E):
    N, A, Z, Za, Zsa = batch_dim(E), E.dim("D_act"), E.dim("D_zs"), E.dim("D_za"), E.dim("D_zsa")
    zs = rows_tensor(E, "zs", (N,), Z)  # latent state computed outside the differentiated function
    scale = T.fresh_tensor("action_scale", (A,), REAL)
    bias = T.fresh_tensor("action_bias", (A,), REAL)
    pnet = mk_net(E, "pi_net", A)
    policy = E.new_obj(TANH_POLICY, name="policy", policy_net=pnet, action_scale=scale, action_bias=bias)
    za, zsa_net = mk_net(E, "enc_za", Za), mk_net(E, "enc_zsa", Zsa)
    relu = E.shared.lib.resolve("flax.nnx.relu")
    enc = E.new_obj(MBE, name="encoder", za=za, zsa=zsa_net, activation=relu)
    q1, q2 = mk_net(E, "q1", 1), mk_net(E, "q2", 1)
    q = E.new_obj(DQ, name="q", q1=q1, q2=q2)
    w = E.real("activation_weight")
    loss, (dpg, reg) = E.call("rl_blox.algorithm.mrq.mrq_policy_loss", policy, q, enc, zs, w)
    # documented: activation = pi_net(zs), a = tanh(activation) * scale + bias, zsa = encoder(zs, a)
    act_pre = net_call(E, pnet, zs)
    a = T.tfn("tanh", act_pre) * T.index(scale, (None, slice(None))) + T.index(bias, (None, slice(None)))
    zsa = net_call(E, zsa_net, T.concatenate((zs, T.tmax(net_call(E, za, a), 0)), -1))
    qmin = T.tmin(net_call(E, q1, zsa), net_call(E, q2, zsa))
    dpg_spec_v = neg_mean(T.squeeze(qmin, -1), N)
    reg_spec = C.binop("/", T.reduce(act_pre * act_pre, "sum"), C.binop("*", N, A))
    eq(E, "post.dpg_term_is_minus_mean_q", dpg, dpg_spec_v)
    eq(E, "post.regularizer_is_mean_squared_pre_activation", reg, reg_spec)
    eq(E, "post.loss_is_dpg_plus_weighted_regularizer", loss, C.binop("+", dpg_spec_v, C.binop("*", w, reg_spec)))
    if "pi_net" in gd_of(loss):
        E.st.ok("post.differentiable_in_policy")
    else:
        E.st.fail("post.differentiable_in_policy", f"gdeps {sorted(gd_of(loss))}")
    E.oblige("canary.mrq", C.compare("==", loss, 0), assume_after=False)


TASKS = [
    Task("stochastic_policy_gradient_pseudo_loss", mk_pseudo()),
    Task("stochastic_policy_gradient_pseudo_loss[discrete actions]", mk_pseudo(discrete=True)),
    Task("stochastic_policy_gradient_pseudo_loss[batch 1]", mk_pseudo(batch1=True), allow_raise={"AssertionError", "ValueError"}),
    Task("stochastic_policy_gradient_pseudo_loss[weights (N,1)]", h_pseudo_rejects_column_weights),
    Task("reinforce_gradient[baseline,discount]", mk_reinforce(True, True), setup=spy_pseudo_loss),
    Task("reinforce_gradient[no baseline]", mk_reinforce(False, False), setup=spy_pseudo_loss),
    Task("actor_critic_policy_gradient", h_actor_critic, setup=spy_pseudo_loss),
    Task("a2c_policy_gradient", h_a2c, setup=spy_pseudo_loss),
    Task("train_policy_a2c", h_train_policy_a2c, setup=spy_pseudo_loss),
    Task("ppo_loss[critic (N,)]", mk_ppo_general("(N,)")),
    Task("ppo_loss[critic (N,), batch 1]", batch1(mk_ppo_general("(N,)"))),
    Task("ppo_loss[unclipped region]", h_ppo_unclipped_region),
    Task("ppo_loss[clipped region]", h_ppo_clipped_region),
    Task("ppo_loss.value_term[critic (N,)]", mk_ppo_value_term("(N,)")),
    Task("ppo_loss.value_term[critic (N,1)]", mk_ppo_value_term("(N,1)")),
    Task("deterministic_policy_gradient_loss", mk_dpg(), setup=freeze_stop_gradients),
    Task("deterministic_policy_gradient_loss[tanh head]", mk_dpg(tanh_head=True), setup=freeze_stop_gradients),
    Task("deterministic_policy_gradient_loss[batch 1]", batch1(mk_dpg()), setup=freeze_stop_gradients),
    Task("ddpg_update_actor", h_ddpg_update_actor),
    Task("mse_value_loss", mk_mse_value()),
    Task("mse_value_loss[batch 1]", mk_mse_value(batch1=True), allow_raise={"AssertionError"}),
    Task("sac_actor_loss", h_sac_actor_loss),
    Task("sac_actor_loss[batch 1]", batch1(h_sac_actor_loss)),
    Task("sac_update_actor", h_sac_update_actor),
    Task("EntropyCoefficient.__call__", h_entropy_coefficient),
    Task("sac_exploration_loss", h_sac_exploration_loss),
    Task("sac_exploration_loss[batch 1]", batch1(h_sac_exploration_loss)),
    Task("_update_entropy_coefficient", h_update_entropy_coefficient),
    Task("EntropyControl.update[autotune]", mk_entropy_control(True)),
    Task("EntropyControl.update[fixed alpha]", mk_entropy_control(False)),
    Task("deterministic_policy_gradient_loss_sale", h_td7_loss, setup=stub_avg_l1_norm),
    Task("deterministic_policy_gradient_loss_sale[batch 1]", batch1(h_td7_loss), setup=stub_avg_l1_norm),
    Task("td7_update_actor", h_td7_update_actor, setup=stub_avg_l1_norm),
    Task("mrq_policy_loss", h_mrq_policy_loss),
    Task("mrq_policy_loss[batch 1]", batch1(h_mrq_policy_loss)),
]

TRUSTED = [
    "lemma deriv_exp (ASSUMED, not machine-checked): for c independent of lambda, d/dlambda [exp(lambda) * c] = exp(lambda) * c; "
    "used once, in sac_exploration_loss.post.gradient_closed_form / post.sign.*, after its premise L == exp(lambda) * c "
    "(post.closed_form) and the independence of log pi and the target from log_alpha have been discharged",
    "lemma PyvcSum.sum_affine (lemmas/SumLemmas.lean): sum_j (k * g_j + c) = k * sum_j g_j + n * c; premise obliged as *.lemma_premise[sum_affine]",
    "lemma PyvcSum.sum_congr_range (lemmas/SumLemmas.lean): Sum-congruence rule of the engine",
    "point axioms of exp used by z3: exp > 0, exp(0) = 1, strictly increasing (pyvc.tensor.AXIOMS / state.MONOTONE)",
    "stochastic policy stub pyvc.StubStochasticPolicy (pyvc/lib/ext_policy_stub.py): sample / log_probability / entropy are row-wise "
    "functions of (parameters, observation row, action row | key, position) returning one action row / one value per observation",
    "flat value network pyvc.FlatValueNet: row-wise network with output shape (N,)",
    "modular stub of avg_l1_norm in the TD7 tasks: row-wise function of its input row (its closed form is not needed for C12)",
    "nnx.value_and_grad model (pyvc/lib/nnx_model.py): returns (f(*args), Grad(wrt=args[argnums])); gdeps ghost for differentiable dependence",
    "nnx.Optimizer.update model: new parameters for exactly the leaf networks of the module passed to update",
]
ASSUMPTIONS = [
    "reals for floats",
    "networks are row-wise functions of their parameters (no BatchNorm / Dropout), DESIGN 3.3",
    "policy heads are abstracted by the stub interface documented in StochasticPolicyBase; that sample / log_probability / entropy of the "
    "concrete heads describe one distribution and return one value per observation is C13's subject (note: GaussianTanhPolicy.entropy "
    "returns one value per action DIMENSION, so 'mean H' in ppo_loss then averages over N*A entries)",
    "ppo_loss: coefficients 0.5 (value term) and 0.01 (entropy bonus) are taken from DESIGN C12 (iv) / the PPO paper's c1, c2; the docstring names no coefficients",
    "PPO zero-gradient claim: an objective that coincides on an OPEN region of parameter space with an expression free of the policy "
    "parameters has zero policy gradient there; coincidence with the unclipped surrogate on an open region containing r == 1 gives equal gradients at unchanged parameters",
    "temperature step: lambda' = lambda - eta * dL/dlambda with an arbitrary step size eta > 0 (SGD; the first Adam step has eta = lr / (|g| + eps) > 0)",
    "log_alpha has shape (1,) as created by EntropyControl (jnp.zeros(1))",
    "gradient obligations are structural (which object is differentiated, what the value depends on differentiably, which parameters an "
    "optimizer step changes); numeric gradient values are compared only by the replay driver (jax reference with constant weights)",
]
NOT_COVERED = [
    "numeric gradient values (only structure, sign and zero/non-zero)",
    "update_ppo (argnums=(0, 1), GAE: C07) and mrq.update_critic_and_policy (covered through mrq_policy_loss only)",
    "EntropyControl.__init__ (target entropy -dim(A), optimizer construction)",
    "train_policy_a2c: the standardisation of the advantages is not documented; only the gradient / update structure is checked",
    "the concrete tfp-based policy heads (C13)",
]
REPLAY = {"": "c12_actor"}
EXPLANATION = (
    "Each actor objective of rl_blox is interpreted from source on symbolic batches (symbolic N, D_obs, D_act; batch size 1 as separate tasks) "
    "with uninterpreted row-wise networks and a stub stochastic policy, and proved equal to the documented formula by the Sum-congruence rule. "
    "Gradient claims use the gradient-flow ghost: argnums selects the policy / actor / log_alpha, the loss depends differentiably on it, the weights "
    "seen inside the differentiated pseudo-loss do not depend on the policy, and the optimizer step changes only the differentiated object's parameters. "
    "PPO: equality with the unclipped surrogate on the open unclipped region, equality with a parameter-free expression on the open region where every "
    "sample is clipped on the side its advantage favours, per-sample case analysis of the documented objective, value term for critic outputs (N,) and (N,1). "
    "SAC temperature: loss == -exp(lambda) * (mean log pi + H_target) (sum_affine rule), derivative by the trusted deriv_exp lemma, and the sign claim "
    "alpha' > alpha <=> -mean log pi < H_target proved in real arithmetic with the exp axioms."
)
