"""C07 - return and advantage estimates obey their recurrences and are causal.

(work in progress: first task only)
"""
from fractions import Fraction

import z3

from pyvc import core as C
from pyvc import tensor as T
from pyvc.core import INT, REAL, Sym
from pyvc.lib.ext_returns import definitions_of, induct, oblige_hinted
from pyvc.lib.ext_symlist import SymList, fresh_symlist
from pyvc.interp import LoopSpec
from pyvc.runner import Task

from .nets import flags01, mk_net, net_call, oblige_tensor_eq, rows_tensor

PROPERTY = "C07"
LEVEL = "proof"
READY = False


def zr(x):
    return C.as_real(x)


def gae_spec(E, name, n, r, v, nv, term, gamma, lam):
    A = z3.Function(E.st.fresh_name(name), INT, REAL)
    nz = T.dim_z(n)
    g, l = zr(gamma), zr(lam)

    def delta(t):
        return zr(r.at(t)) + g * zr(nv.at(t)) * (1 - zr(term.at(t))) - zr(v.at(t))

    E.assume(A(nz) == 0)
    E.st.assume_forall([INT], lambda t: z3.Implies(z3.And(t >= 0, t < nz), A(t) == delta(t) + g * l * (1 - zr(term.at(t))) * A(t + 1)), f"{name}.rec")
    return A


def flags2(E, name, shape):
    t = T.fresh_tensor(name, shape, INT)
    E.st.assume_forall([INT] * len(shape), lambda *i: z3.Or(C.as_int(t.at(*i)) == 0, C.as_int(t.at(*i)) == 1), f"{name}.01")
    return t


def shape_is(E, name, t, shape):
    if isinstance(t, T.Tensor) and t.ndim == len(shape) and all(T.dim_eq(a, b) for a, b in zip(t.shape, shape)):
        E.st.ok(name)
    else:
        E.st.fail(name, f"shape {getattr(t, 'shape', type(t).__name__)} instead of {shape}")


def forall_hinted(E, name, sorts, fn, hints, hint="sk"):
    """Skolemised forall-goal proved from chosen instances of the hypotheses; assumed afterwards"""
    sks = [E.st.fresh(f"{hint}{i}", s) for i, s in enumerate(sorts)]
    oblige_hinted(E, name, fn(*sks), hints(*sks))
    E.st.assume_forall(list(sorts), fn, name)


def fold_is(E, name, n, inv, chain, sorts=(), using=None, base_hints=None, step_hints=None):
    """the last lax.scan fold satisfies the inductive invariant inv(scan, *params, k).
    When the scan was unrolled (concrete sizes) there is no fold to induct over: the
    consequence is checked directly, under the same obligation name (used for counterexample
    confirmation and the bounded stand-ins), as a chain [(goal, hints, carry constant), ...]
    in scan order, each link proved from the definition of its carry and the previous link."""
    scans = E.st.ghost.get("scans") or []
    if scans:
        sc = scans[-1]
        return induct(E, name, n, list(sorts), lambda *a: inv(sc, *a), using=using,
                      base_hints=(lambda *a: base_hints(sc, *a)) if base_hints else None,
                      step_hints=(lambda *a: step_hints(sc, *a)) if step_hints else None)
    E.st.ok(f"{name}.base")
    prev = []
    for goal, hints, consts in chain():
        g = C.as_bool(goal)
        oblige_hinted(E, f"{name}.step", g, hints, assume_after=True, only=definitions_of(E, *consts) + prev)
        prev = [f for f in E.st.pc[-1:] if f.get_id() == g.get_id()]
    return True


GAE = "rl_blox.blox.gae.compute_gae"


def gae_inputs(E, n, sfx=""):
    r = T.fresh_tensor("reward" + sfx, (n,), REAL)
    v = T.fresh_tensor("value" + sfx, (n,), REAL)
    nv = T.fresh_tensor("next_value" + sfx, (n,), REAL)
    term = flags01(E, "terminated" + sfx, n)
    return r, v, nv, term


def run_gae(E, pre, n, inp, gamma, lam, defaults=False):
    """call the real compute_gae and prove  advantages[t] == A_t, returns[t] == A_t + V_t  for all t"""
    r, v, nv, term = inp
    A = gae_spec(E, pre + "A", n, r, v, nv, term, Fraction(99, 100) if defaults else gamma, Fraction(95, 100) if defaults else lam)
    res = E.call(GAE, r, v, nv, term) if defaults else E.call(GAE, r, v, nv, term, gamma, lam)
    adv, ret = res.get("advantages"), res.get("returns")
    nz = T.dim_z(n)
    fold_is(E, pre + "gae.fold", n, lambda sc, k: sc["carry"](k)[0].z == A(nz - k),
            lambda: [(C.compare("==", adv.at(t), Sym(A(z3.IntVal(t)))), [(pre + "A.rec", (t,))], [adv.at(t), A(nz)]) for t in range(n - 1, -1, -1)])
    oblige_tensor_eq(E, pre + "gae.advantage_is_recurrence", adv, T.Tensor((n,), lambda t: Sym(A(C.to_z3(t))), REAL))
    oblige_tensor_eq(E, pre + "gae.returns_is_adv_plus_value", ret, T.Tensor((n,), lambda t: Sym(A(C.to_z3(t)) + zr(v.at(t))), REAL))
    return A, adv, ret


def mk_h_gae(size=None, defaults=False):
    def h(E):
        n = size if size is not None else E.dim("T")
        gamma, lam = E.real("gamma", 0, 1), E.real("lmbda", 0, 1)
        A, adv, ret = run_gae(E, "", n, gae_inputs(E, n), gamma, lam, defaults)
        E.oblige("canary.gae", C.compare("==", adv.at(0), 0), assume_after=False)

    return h


def h_gae_ni(E):
    """non-interference: the estimate for time t0 depends only on the data at t0..last, where `last`
    is a terminated step at or after t0 (a fortiori the first one) or the final step of the sequence"""
    n = E.dim("T")
    gamma, lam = E.real("gamma", 0, 1), E.real("lmbda", 0, 1)
    c1, c2 = gae_inputs(E, n, "1"), gae_inputs(E, n, "2")
    t0, last = E.int("t0", 0), E.int("last")
    E.assume(C.band(t0 <= last, last < n))
    E.assume(C.bor(C.compare("==", c1[3].at(last), 1), C.compare("==", last, n - 1)))
    E.st.add_pool(t0, last)
    E.st.assume_forall([INT], lambda s: z3.Implies(z3.And(s >= t0.z, s <= last.z), z3.And(*[zr(a.at(s)) == zr(b.at(s)) for a, b in zip(c1, c2)])), "agree")
    A1, adv1, ret1 = run_gae(E, "c1.", n, c1, gamma, lam)
    A2, adv2, ret2 = run_gae(E, "c2.", n, c2, gamma, lam)
    induct(E, "gae.spec_noninterference", last - t0, [],
           lambda k: z3.Implies(k <= last.z - t0.z, A1(last.z - k) == A2(last.z - k)), using=["c1.A", "c2.A", "agree", "terminated"])
    E.oblige("gae.advantage_independent_of_earlier_and_post_terminal_data", C.compare("==", adv1.at(t0), adv2.at(t0)))
    E.oblige("gae.returns_independent_of_earlier_and_post_terminal_data", C.compare("==", ret1.at(t0), ret2.at(t0)))
    E.oblige("canary.gae_ni.earlier_step_differs", C.implies(t0 >= 1, C.compare("==", adv1.at(t0 - 1), adv2.at(t0 - 1))), assume_after=False)


# ------------------------------------------------------------ n-step return
NSTEP = "rl_blox.blox.return_estimates.discounted_n_step_return"


def nstep_spec(E, name, H, r, term, gamma):
    """R^n and its residual discount as recurrences over the horizon position t:
    R(b,0)=0, D(b,0)=1, R(b,t+1)=R(b,t)+D(b,t)*r[b,t], D(b,t+1)=D(b,t)*gamma*(1-term[b,t])"""
    R = z3.Function(E.st.fresh_name(name + "_R"), INT, INT, REAL)
    D = z3.Function(E.st.fresh_name(name + "_D"), INT, INT, REAL)
    hz, g = T.dim_z(H), zr(gamma)
    E.st.assume_forall([INT], lambda b: z3.And(R(b, 0) == 0, D(b, 0) == 1), f"{name}.base")
    E.st.assume_forall([INT, INT], lambda b, t: z3.Implies(z3.And(t >= 0, t < hz), z3.And(
        R(b, t + 1) == R(b, t) + D(b, t) * zr(r.at(b, t)),
        D(b, t + 1) == D(b, t) * g * (1 - zr(term.at(b, t))))), f"{name}.rec")
    return R, D


def nstep_loop(L):
    g = L.E.st.ghost["c07.nstep"]
    b0, R, D = g["b0"], g["R"], g["D"]
    it = C.to_z3(L.it)
    return [("return_is_partial_sum", C.compare("==", L["n_step_return"].at(b0), Sym(R(b0.z, it)))),
            ("discount_is_partial_product", C.compare("==", L["discount"].at(b0), Sym(D(b0.z, it))))]


def setup_nstep(shared):
    shared.loop_specs[(NSTEP, 0)] = LoopSpec(inv=nstep_loop)


def h_nstep(E):
    B, H = E.dim("B"), E.dim("H")
    r = T.fresh_tensor("reward", (B, H), REAL)
    term = flags2(E, "terminated", (B, H))
    gamma = E.real("gamma", 0, 1)
    R, D = nstep_spec(E, "nstep", H, r, term, gamma)
    b0 = E.int("b0", 0)
    E.assume(b0 < B)
    E.st.add_pool(b0)
    E.st.ghost["c07.nstep"] = dict(b0=b0, R=R, D=D)
    ret, disc = E.call(NSTEP, r, term, gamma)
    hz = T.dim_z(H)
    shape_is(E, "nstep.return_shape", ret, (B,))
    shape_is(E, "nstep.discount_shape", disc, (B,))
    E.oblige("nstep.return_is_truncated_discounted_sum", C.compare("==", ret.at(b0), Sym(R(b0.z, hz))))
    E.oblige("nstep.discount_is_residual_product", C.compare("==", disc.at(b0), Sym(D(b0.z, hz))))
    E.oblige("canary.nstep", C.compare("==", ret.at(b0), 0), assume_after=False)


# ------------------------------------------------------------ reward-to-go
RTG = "rl_blox.algorithm.reinforce.discounted_reward_to_go"


def rtg_spec(E, name, n, rew, gamma):
    """G_t = r_t + gamma * G_{t+1},  G_n = 0   (rew: z3 Int -> z3 Real)"""
    G = z3.Function(E.st.fresh_name(name), INT, REAL)
    nz, g = T.dim_z(n), zr(gamma)
    E.assume(G(nz) == 0)
    E.st.assume_forall([INT], lambda t: z3.Implies(z3.And(t >= 0, t < nz), G(t) == rew(t) + g * G(t + 1)), f"{name}.rec")
    return G


def rtg_loop(L):
    g = L.E.st.ghost["c07.rtg"]
    i0, G, nz = g["i0"].z, g["G"], g["n"]
    k = C.to_z3(L.it)
    out = L["discounted_returns"]
    if isinstance(out, SymList):
        ln = out.len_z()
        j0 = nz - 1 - i0
        elem = z3.Implies(z3.And(j0 >= 0, j0 < k), zr(out.elem(j0)) == G(i0))
    else:  # the python list at loop entry
        ln = z3.IntVal(len(out))
        elem = z3.BoolVal(len(out) == 0)
    return [("acc_is_return_of_suffix", C.compare("==", L["accumulated_return"], Sym(G(nz - k)))),
            ("one_output_per_step", Sym(ln == k)),
            ("outputs_are_returns_back_to_front", Sym(elem))]


def rtg_havoc(E, fr):
    # the result list after an arbitrary number of iterations: a list of reals of arbitrary length
    fr.vars["discounted_returns"] = fresh_symlist(E, "discounted_returns", [REAL])


def setup_rtg(shared):
    shared.loop_specs[(RTG, 0)] = LoopSpec(inv=rtg_loop, havoc_extra=rtg_havoc)


def h_rtg(E):
    n = E.dim("T")
    rewards = fresh_symlist(E, "rewards", [REAL], length=n)
    gamma = E.real("gamma", 0, 1)
    col = rewards.cols[0]
    G = rtg_spec(E, "G", n, lambda t: z3.Select(col, t), gamma)
    i0 = E.int("i0", 0)
    E.assume(i0 < n)
    E.st.add_pool(i0)
    E.st.ghost["c07.rtg"] = dict(i0=i0, G=G, n=T.dim_z(n))
    out = E.call(RTG, rewards, gamma)
    if isinstance(out, T.Tensor) and out.ndim == 1:
        E.st.ok("rtg.output_is_vector")
        E.oblige("rtg.one_return_per_reward", C.compare("==", out.shape[0], n))
        E.oblige("rtg.return_is_recurrence", C.compare("==", out.at(i0), Sym(G(i0.z))))
        E.oblige("canary.rtg", C.compare("==", out.at(i0), 0), assume_after=False)
    else:
        E.st.fail("rtg.output_is_vector", f"got {out!r}")


# ------------------------------------------------------------ batched GAE (A2C)
A2C = "rl_blox.algorithm.a2c.prepare_a2c_batch"
DISCRETE = "gymnasium.spaces.Discrete"


def gae_spec_env(E, name, n, N, r, V, Vn, term, gamma, lam):
    """per-environment GAE: A(e, t) from environment e's own column only
    (r, V, Vn, term: python functions (t, e) -> z3 Real)"""
    A = z3.Function(E.st.fresh_name(name), INT, INT, REAL)
    nz, Nz, g, l = T.dim_z(n), T.dim_z(N), zr(gamma), zr(lam)
    E.st.assume_forall([INT], lambda e: A(e, nz) == 0, f"{name}.end")
    E.st.assume_forall([INT, INT], lambda e, t: z3.Implies(
        z3.And(e >= 0, e < Nz, t >= 0, t < nz),
        A(e, t) == r(t, e) + g * Vn(t, e) * (1 - term(t, e)) - V(t, e) + g * l * (1 - term(t, e)) * A(e, t + 1)), f"{name}.rec")
    return A


def index_lemma(E, name, N):
    """row-major index arithmetic: (t*N + e) // N == t and (t*N + e) % N == e for 0 <= e < N"""
    Nz = T.dim_z(N)

    def fn(t, e):
        f = C.binop("+", C.binop("*", Sym(t), N), Sym(e))
        return z3.Implies(z3.And(e >= 0, e < Nz, t >= 0), z3.And(C.to_z3(C.binop("//", f, N)) == t, C.to_z3(C.binop("%", f, N)) == e))

    E.st.oblige_forall(name, [INT, INT], fn, hint="ix", using=[])


def mk_h_a2c(sizes=None):
    def h(E):
        n, N = sizes if sizes else (E.dim("T"), E.dim("N"))
        D = E.dim("D_obs")
        obs = rows_tensor(E, "obs", (n, N), D)
        last_obs = rows_tensor(E, "last_obs", (N,), D)
        actions = T.fresh_tensor("actions", (n, N), INT)
        rewards = T.fresh_tensor("rewards", (n, N), REAL)
        terms = flags2(E, "terminations", (n, N))
        buf = E.new_obj("rl_blox.blox.replay_buffer.ReplayBuffer", name="rollout_buffer",
                        buffer={"obs": obs, "actions": actions, "rewards": rewards, "terminations": terms})
        vf = mk_net(E, "value_function", 1)
        space = E.new_obj(DISCRETE, name="action_space", n=E.int("n_actions", 2), start=E.int("start"))
        gamma, lam = E.real("gamma", 0, 1), E.real("lmbda", 0, 1)
        # documented inputs of the estimator: V(o[t,e]) and the bootstrap V(last_obs[e]) after the last step
        Vobs, Vlast = net_call(E, vf, obs), net_call(E, vf, last_obs)
        nz = T.dim_z(n)
        V = lambda t, e: zr(Vobs.at(t, e, 0))  # noqa: E731
        Vn = lambda t, e: z3.If(t + 1 < nz, zr(Vobs.at(t + 1, e, 0)), zr(Vlast.at(e, 0)))  # noqa: E731
        A = gae_spec_env(E, "A", n, N, lambda t, e: zr(rewards.at(t, e)), V, Vn, lambda t, e: zr(terms.at(t, e)), gamma, lam)
        if not sizes:
            index_lemma(E, "a2c.index.row_major", N)
        fobs, fact, fadv, fret = E.call(A2C, buf, vf, last_obs, space, gamma, lam)
        Nz = T.dim_z(N)
        fold_is(E, "a2c.fold", n, lambda sc, e, k: z3.Implies(z3.And(e >= 0, e < Nz), sc["funs"][0](e, k) == A(e, nz - k)),
                lambda: [], sorts=[INT],
                base_hints=lambda sc, e: [(f"scan{sc['id']}.init", (e,)), ("A.end", (e,))],
                step_hints=lambda sc, e, k: [(f"scan{sc['id']}.step", (e, k)), ("A.rec", (e, nz - 1 - k)),
                                             ("a2c.index", (nz - 1 - k, e)), ("a2c.index", (nz - k, e))])
        total = T.norm_dim(C.binop("*", n, N))
        shape_is(E, "a2c.advantages_shape", fadv, (total,))
        shape_is(E, "a2c.returns_shape", fret, (total,))
        sid = E.st.ghost["scans"][-1]["id"] if E.st.ghost.get("scans") else None

        def flat(t, e):
            return C.binop("+", C.binop("*", Sym(t), N), Sym(e))

        def rng(t, e):
            return z3.And(t >= 0, t < nz, e >= 0, e < Nz)

        def hints(t, e, *_):
            if sid is None:
                return []
            return [("a2c.index", (t, e)), ("a2c.index", (t + 1, e)), (f"scan{sid}.step", (e, nz - 1 - t)), ("a2c.fold.ind", (e, nz - t)),
                    ("a2c.fold.ind", (e, nz - 1 - t))]

        forall_hinted(E, "a2c.advantage_is_own_env_gae", [INT, INT],
                      lambda t, e: z3.Implies(rng(t, e), zr(fadv.at(flat(t, e))) == A(e, t)), hints, hint="te")
        forall_hinted(E, "a2c.returns_is_own_env_gae_plus_value", [INT, INT],
                      lambda t, e: z3.Implies(rng(t, e), zr(fret.at(flat(t, e))) == A(e, t) + V(t, e)), hints, hint="te")
        forall_hinted(E, "a2c.observation_row_of_flat_index", [INT, INT, INT],
                      lambda t, e, d: z3.Implies(z3.And(rng(t, e), d >= 0, d < T.dim_z(D)), zr(fobs.at(flat(t, e), Sym(d))) == zr(obs.at(t, e, d))),
                      lambda t, e, d: [("a2c.index", (t, e))] if sid is not None else [], hint="ted")
        tc, ec = E.int("t_c", 0), E.int("e_c", 0)
        E.assume(C.band(tc < n, ec < N))
        oblige_hinted(E, "canary.a2c", C.compare("==", fadv.at(flat(tc.z, ec.z)), 0), hints(tc.z, ec.z) + ([("A.rec", (ec.z, tc.z))] if sid is not None else []))

    return h


# ------------------------------------------------------------ PPO: GAE on the flattened rollout
PPO_UPDATE = "rl_blox.algorithm.ppo.update_ppo"


class _Stop(Exception):
    """raised by the compute_gae spy: the rest of update_ppo (losses, optimizer steps) belongs to C12"""


def setup_ppo(shared):
    def spy(E, *a, **k):
        res = E.call_closure(E.resolve(GAE), list(a), dict(k))  # the REAL compute_gae (inlined), observed
        E.st.ghost["c07.gae_call"] = dict(args=a, kwargs=k, result=res)
        raise _Stop()

    shared.stubs[GAE] = spy


def mk_h_ppo(sizes=None):
    def h(E):
        Ne, n = sizes if sizes else (E.dim("E"), E.dim("T"))
        M = T.norm_dim(C.binop("*", Ne, n))
        D = E.dim("D_obs")
        observation = rows_tensor(E, "observation", (M,), D)
        action = T.fresh_tensor("action", (M,), INT)
        reward = T.fresh_tensor("reward", (M,), REAL)
        terminated = flags01(E, "terminated", M)
        next_value = T.fresh_tensor("next_value", (M,), REAL)
        critic = mk_net(E, "critic", 1)
        actor = mk_net(E, "actor", 1)
        nz, Ez, Mz = T.dim_z(n), T.dim_z(Ne), T.dim_z(M)
        gamma, lam = Fraction(99, 100), Fraction(95, 100)  # update_ppo uses compute_gae's defaults
        Vc = net_call(E, critic, observation)

        def fl(t, e):  # env-major flattening produced by collect_trajectories.reshape_batch
            return e * nz + t

        # REQUIRED (property): the advantage at flat index e*T+t is environment e's own GAE
        A = gae_spec_env(E, "A", n, Ne, lambda t, e: zr(reward.at(fl(t, e))), lambda t, e: zr(Vc.at(fl(t, e), 0)),
                         lambda t, e: zr(next_value.at(fl(t, e))), lambda t, e: zr(terminated.at(fl(t, e))), gamma, lam)
        try:
            E.call(PPO_UPDATE, actor, critic, None, None, observation, action, reward, terminated, next_value, 1)
            E.st.fail("update_ppo.calls_compute_gae", "update_ppo returned without computing advantages")
            return
        except _Stop:
            E.st.ok("update_ppo.calls_compute_gae")
        call = E.st.ghost["c07.gae_call"]
        adv, ret = call["result"].get("advantages"), call["result"].get("returns")
        shape_is(E, "ppo.advantages_shape", adv, (M,))
        # what the code computes: ONE recurrence over the whole flattened array
        AF = gae_spec(E, "AF", M, reward, T.Tensor((M,), lambda f: Vc.at(f, 0), REAL), next_value, terminated, gamma, lam)
        fold_is(E, "ppo.fold", M, lambda sc, k: sc["carry"](k)[0].z == AF(Mz - k),
                lambda: [(C.compare("==", adv.at(f), Sym(AF(z3.IntVal(f)))), [("AF.rec", (f,))], [adv.at(f), AF(Mz)]) for f in range(M - 1, -1, -1)],
                base_hints=lambda sc: [], step_hints=lambda sc, k: [(f"scan{sc['id']}.step", (k,)), ("AF.rec", (Mz - 1 - k,))])
        sid = E.st.ghost["scans"][-1]["id"] if E.st.ghost.get("scans") else None
        ground = []
        if sid is None:  # concrete sizes: every instance of the specification recurrences
            ground = [("AF.rec", (f,)) for f in range(M)] + [("A.end", (e,)) for e in range(Ne)] + [("A.rec", (e, t)) for e in range(Ne) for t in range(n)]

        def rng(t, e):
            return z3.And(t >= 0, t < nz, e >= 0, e < Ez)

        def hints(t, e):
            if sid is None:
                return ground
            f = fl(t, e)
            return [(f"scan{sid}.step", (Mz - 1 - f,)), ("ppo.fold.ind", (Mz - f,)), ("ppo.fold.ind", (Mz - 1 - f,)), ("A.rec", (e, t)), ("AF.rec", (f,)),
                    ("A.end", (e,))]

        forall_hinted(E, "post.per_env_gae", [INT, INT],
                      lambda t, e: z3.Implies(rng(t, e), zr(adv.at(fl(t, e))) == A(e, t)), hints, hint="te")
        forall_hinted(E, "post.per_env_returns", [INT, INT],
                      lambda t, e: z3.Implies(rng(t, e), zr(ret.at(fl(t, e))) == A(e, t) + zr(Vc.at(fl(t, e), 0))), hints, hint="te")
        tc, ec = E.int("t_c", 0), E.int("e_c", 0)
        E.assume(C.band(tc < n, ec < Ne))
        oblige_hinted(E, "canary.ppo", C.compare("==", adv.at(fl(tc.z, ec.z)), 0), hints(tc.z, ec.z))

    return h


TASKS = [Task("prepare_a2c_batch", mk_h_a2c()),
         Task("update_ppo", mk_h_ppo(), setup=setup_ppo),
         Task("update_ppo[E=2,T=2]", mk_h_ppo((2, 2)), setup=setup_ppo, bounded="E = 2 environments, T = 2 steps (scan unrolled)"),
         Task("compute_gae", mk_h_gae()), Task("compute_gae[T=1]", mk_h_gae(1)), Task("compute_gae[defaults]", mk_h_gae(None, True)),
         Task("compute_gae[T=3]", mk_h_gae(3), bounded="T = 3 (scan unrolled)"), Task("gae_noninterference", h_gae_ni), Task("reward_to_go", h_rtg, setup=setup_rtg), Task("n_step_return", h_nstep, setup=setup_nstep)]
TRUSTED = []
ASSUMPTIONS = []
NOT_COVERED = []
