"""C07 - return and advantage estimates obey their recurrences and are causal.

Functions under contract (real source interpreted from /repo):
  rl_blox.blox.gae.compute_gae (+ scan body calc_advantage_per_step)
  rl_blox.blox.return_estimates.discounted_n_step_return
  rl_blox.algorithm.reinforce.discounted_reward_to_go
  rl_blox.algorithm.reinforce.EpisodeDataset.prepare_policy_gradient_dataset   (bounded episode sizes)
  rl_blox.algorithm.a2c.prepare_a2c_batch (+ get_gae_for_env under jax.vmap)
  rl_blox.algorithm.ppo.update_ppo          (the GAE call on the flattened rollout)
  rl_blox.algorithm.ppo.collect_trajectories (reshape_batch, next_value bootstrap; bounded sizes)
  rl_blox.algorithm.mrq.mrq_loss            (n-step critic target)

Specifications are the textbook recurrences, axiomatised as uninterpreted
functions (never read off the code):
  reward-to-go   G_t = r_t + gamma G_{t+1},                      G_T = 0
  GAE            A_t = delta_t + gamma lambda (1-term_t) A_{t+1}, A_T = 0,
                 delta_t = r_t + gamma V'_t (1-term_t) - V_t
  n-step return  R_0 = 0, D_0 = 1, R_{t+1} = R_t + D_t r_t, D_{t+1} = D_t gamma (1-term_t)
                 (R_n = sum_{t<n} r_t prod_{s<t} gamma(1-term_s), D_n = prod_{t<n} gamma(1-term_t))
Equality of a fold (python loop / lax.scan) with its recurrence is proved by
an inductive invariant (loop cut / pyvc.lib.ext_returns.induct).  Causality and
non-interference are proved on two input copies that agree exactly on the data
the estimate may depend on.
"""
import itertools
from fractions import Fraction

import z3

from pyvc import core as C
from pyvc import tensor as T
from pyvc.core import BOOL, INT, KEY, REAL, Builtin, Sym
from pyvc.interp import LoopSpec
from pyvc.lib import LIB
from pyvc.lib.ext_returns import definitions_of, induct, oblige_hinted
from pyvc.lib.ext_symlist import SymList, fresh_symlist
from pyvc.runner import Task

from .nets import mk_net, net_call, rows_tensor

PROPERTY = "C07"
LEVEL = "proof"


# ===================================================================== helpers
def zr(x):
    return C.as_real(x)


def conc(*dims):
    return all(isinstance(d, int) for d in dims)


def axiom(E, name, ranges, fn):
    """forall 0 <= i_k < ranges[k]: fn(*i).  Concrete ranges give ground facts (no quantifier,
    counter-models are exact); symbolic ranges give the quantified hypothesis `name`."""
    if conc(*ranges):
        for idx in itertools.product(*[range(h) for h in ranges]):
            E.assume(fn(*[z3.IntVal(i) for i in idx]))
        return
    dz = [T.dim_z(h) for h in ranges]
    E.st.assume_forall([INT] * len(ranges), lambda *i: z3.Implies(z3.And(*[z3.And(i[k] >= 0, i[k] < dz[k]) for k in range(len(dz))]), fn(*i)), name)


def flags(E, name, shape):
    """termination flags: integers 0 / 1"""
    t = T.fresh_tensor(name, shape, INT)
    axiom(E, f"{name}.01", list(shape), lambda *i: z3.Or(C.as_int(t.at(*i)) == 0, C.as_int(t.at(*i)) == 1))
    return t


def shape_is(E, name, t, shape):
    if isinstance(t, T.Tensor) and t.ndim == len(shape) and all(T.dim_eq(a, b) for a, b in zip(t.shape, shape)):
        E.st.ok(name)
    else:
        E.st.fail(name, f"shape {getattr(t, 'shape', type(t).__name__)} instead of {shape}")


def known(E, hints):
    """drop hints that name no quantified hypothesis (concrete sizes: the facts are ground and in the path condition)"""
    names = [q.name for q in E.st.qfacts]
    return [(p, t) for p, t in hints if any(nm.startswith(p) for nm in names)]


def forall_idx(E, name, ranges, fn, hints=None, only=None, hint="ix"):
    """forall 0 <= i_k < ranges[k]: fn(*i) (z3 Bool), assumed afterwards.
    symbolic ranges: Skolemised, proved from the instances hints(*i) of the hypotheses;
    concrete ranges: one VC per index tuple, proved from the facts only(*idx) (minimal context)
    - a VC that is not provable that way is decided against the complete context."""
    if conc(*ranges):
        for idx in itertools.product(*[range(h) for h in ranges]):
            iz = [z3.IntVal(i) for i in idx]
            oblige_hinted(E, name, fn(*iz), [], assume_after=True, only=only(*idx) if only else None)
        return
    dz = [T.dim_z(h) for h in ranges]
    sks = [E.st.fresh(f"{hint}{k}", INT) for k in range(len(ranges))]

    def guarded(*i):
        return z3.Implies(z3.And(*[z3.And(i[k] >= 0, i[k] < dz[k]) for k in range(len(dz))]), fn(*i))

    n0 = len(E.st.results)
    oblige_hinted(E, name, guarded(*sks), known(E, hints(*sks)) if hints else [])
    ok = E.st.suppress or (len(E.st.results) > n0 and E.st.results[-1].verdict == "discharged")
    if ok:  # only a proved statement becomes a hypothesis
        E.st.assume_forall([INT] * len(ranges), guarded, name)
    return ok


def link(E, name, goal, only):
    """one VC proved from a minimal context (decided against the complete context if that fails); True iff discharged"""
    n0 = len(E.st.results)
    oblige_hinted(E, name, goal, [], only=only)
    return E.st.suppress or (len(E.st.results) > n0 and E.st.results[-1].verdict == "discharged")


def last_scan(E):
    scans = E.st.ghost.get("scans") or []
    return scans[-1] if scans else None


def fold_is(E, name, n, inv, sorts=(), base_hints=None, step_hints=None):
    """the last symbolic lax.scan satisfies the inductive invariant inv(scan, *params, k)
    (pyvc.lib.ext_returns.induct: base and step are obliged, then the invariant is available for all k)"""
    sc = last_scan(E)
    return induct(E, name, n, list(sorts), lambda *a: inv(sc, *a),
                  base_hints=(lambda *a: known(E, base_hints(sc, *a))) if base_hints else None,
                  step_hints=(lambda *a: known(E, step_hints(sc, *a))) if step_hints else None)


# ============================================================== specifications
def gae_spec(E, name, n, r, v, nv, term, gamma, lam):
    """A_t = delta_t + gamma lam (1-term_t) A_{t+1}, A_n = 0  (r, v, nv, term: z3 Int -> z3 Real)"""
    A = z3.Function(E.st.fresh_name(name), INT, REAL)
    g, l = zr(gamma), zr(lam)
    E.assume(A(T.dim_z(n)) == 0)
    axiom(E, f"{name}.rec", [n], lambda t: A(t) == r(t) + g * nv(t) * (1 - term(t)) - v(t) + g * l * (1 - term(t)) * A(t + 1))
    return A


def gae_spec_env(E, name, n, N, r, v, nv, term, gamma, lam):
    """per-environment GAE A(e, t), from environment e's own data only (r, v, nv, term: (t, e) -> z3 Real)"""
    A = z3.Function(E.st.fresh_name(name), INT, INT, REAL)
    g, l, nz = zr(gamma), zr(lam), T.dim_z(n)
    axiom(E, f"{name}.end", [N], lambda e: A(e, nz) == 0)
    axiom(E, f"{name}.rec", [N, n], lambda e, t: A(e, t) == r(t, e) + g * nv(t, e) * (1 - term(t, e)) - v(t, e) + g * l * (1 - term(t, e)) * A(e, t + 1))
    return A


def nstep_spec(E, name, H, r, term, gamma):
    """n-step return R and residual discount D of ONE reward / termination sequence as recurrences over
    the horizon position (r, term: z3 Int -> z3 Real)"""
    R = z3.Function(E.st.fresh_name(name + "_R"), INT, REAL)
    D = z3.Function(E.st.fresh_name(name + "_D"), INT, REAL)
    g = zr(gamma)
    E.assume(z3.And(R(0) == 0, D(0) == 1))
    axiom(E, f"{name}.rec", [H], lambda t: z3.And(R(t + 1) == R(t) + D(t) * r(t), D(t + 1) == D(t) * g * (1 - term(t))))
    return R, D


def rtg_spec(E, name, n, rew, gamma):
    """G_t = r_t + gamma G_{t+1}, G_n = 0   (rew: z3 Int -> z3 Real)"""
    G = z3.Function(E.st.fresh_name(name), INT, REAL)
    g = zr(gamma)
    E.assume(G(T.dim_z(n)) == 0)
    axiom(E, f"{name}.rec", [n], lambda t: G(t) == rew(t) + g * G(t + 1))
    return G


# ================================================================= compute_gae
GAE = "rl_blox.blox.gae.compute_gae"


def gae_inputs(E, n, sfx=""):
    r = T.fresh_tensor("reward" + sfx, (n,), REAL)
    v = T.fresh_tensor("value" + sfx, (n,), REAL)
    nv = T.fresh_tensor("next_value" + sfx, (n,), REAL)
    term = flags(E, "terminated" + sfx, (n,))
    return r, v, nv, term


def run_gae(E, pre, n, inp, gamma, lam, defaults=False):
    """call the real compute_gae and prove  advantages[t] == A_t, returns[t] == A_t + V_t  for all t"""
    r, v, nv, term = inp
    A = gae_spec(E, pre + "A", n, lambda t: zr(r.at(t)), lambda t: zr(v.at(t)), lambda t: zr(nv.at(t)), lambda t: zr(term.at(t)),
                 Fraction(99, 100) if defaults else gamma, Fraction(95, 100) if defaults else lam)
    res = E.call(GAE, r, v, nv, term) if defaults else E.call(GAE, r, v, nv, term, gamma, lam)
    adv, ret = res.get("advantages"), res.get("returns")
    nz = T.dim_z(n)
    shape_is(E, pre + "gae.advantages_shape", adv, (n,))
    shape_is(E, pre + "gae.returns_shape", ret, (n,))
    if conc(n):
        prev = []
        for t in range(n - 1, -1, -1):  # scan order; each link from the carry's definition and the previous link
            g = C.as_bool(C.compare("==", adv.at(t), Sym(A(z3.IntVal(t)))))
            oblige_hinted(E, pre + "gae.advantage_is_recurrence", g, [], assume_after=True, only=definitions_of(E, adv.at(t), A(nz), A(z3.IntVal(t))) + prev)
            prev = [g]
        for t in range(n):
            oblige_hinted(E, pre + "gae.returns_is_adv_plus_value", zr(ret.at(t)) == A(t) + zr(v.at(t)), [], assume_after=True,
                          only=[f for f in E.st.pc if z3.is_eq(f) and f.arg(1).get_id() == A(z3.IntVal(t)).get_id()])
        return A, adv, ret
    if not fold_is(E, pre + "gae.fold", n, lambda sc, k: sc["carry"](k)[0].z == A(nz - k),
                   base_hints=lambda sc: [], step_hints=lambda sc, k: [(f"scan{sc['id']}.step", (k,)), (pre + "A.rec", (nz - 1 - k,))]):
        for nm in ("gae.advantage_is_recurrence", "gae.returns_is_adv_plus_value"):
            E.st.undecided(pre + nm, f"depends on the fold invariant {pre}gae.fold, which is not proved")
        return A, adv, ret
    sid = last_scan(E)["id"]
    hints = lambda t: [(f"scan{sid}.step", (nz - 1 - t,)), (pre + "gae.fold.ind", (nz - t,)), (pre + "gae.fold.ind", (nz - 1 - t,))]  # noqa: E731
    forall_idx(E, pre + "gae.advantage_is_recurrence", [n], lambda t: zr(adv.at(t)) == A(t), hints)
    forall_idx(E, pre + "gae.returns_is_adv_plus_value", [n], lambda t: zr(ret.at(t)) == A(t) + zr(v.at(t)), hints)
    return A, adv, ret


def mk_h_gae(size=None, defaults=False):
    def h(E):
        n = size if size is not None else E.dim("T")
        gamma, lam = E.real("gamma", 0, 1), E.real("lmbda", 0, 1)
        A, adv, ret = run_gae(E, "", n, gae_inputs(E, n), gamma, lam, defaults)
        E.oblige("canary.gae", C.compare("==", adv.at(0), 0), assume_after=False)

    return h


def h_gae_ni(E):
    """non-interference: the estimate for time t0 depends only on the data at t0..last, where `last`
    is a terminated step at or after t0 (a fortiori the first one) or the final step of the sequence"""
    n = E.dim("T")
    gamma, lam = E.real("gamma", 0, 1), E.real("lmbda", 0, 1)
    c1, c2 = gae_inputs(E, n, "1"), gae_inputs(E, n, "2")
    t0, last = E.int("t0", 0), E.int("last")
    E.assume(C.band(t0 <= last, last < n))
    E.assume(C.bor(C.compare("==", c1[3].at(last), 1), C.compare("==", last, n - 1)))
    E.st.add_pool(t0, last)
    axiom(E, "agree", [n], lambda s: z3.Implies(z3.And(s >= t0.z, s <= last.z), z3.And(*[zr(a.at(s)) == zr(b.at(s)) for a, b in zip(c1, c2)])))
    A1, adv1, ret1 = run_gae(E, "c1.", n, c1, gamma, lam)
    A2, adv2, ret2 = run_gae(E, "c2.", n, c2, gamma, lam)
    if conc(n):
        E.oblige("gae.advantage_independent_of_earlier_and_post_terminal_data", C.compare("==", adv1.at(t0), adv2.at(t0)))
        E.oblige("gae.returns_independent_of_earlier_and_post_terminal_data", C.compare("==", ret1.at(t0), ret2.at(t0)))
        return
    lz, tz = last.z, t0.z
    induct(E, "gae.spec_noninterference", last - t0, [], lambda k: z3.Implies(k <= lz - tz, A1(lz - k) == A2(lz - k)),
           base_hints=lambda: [("c1.A.rec", (lz,)), ("c2.A.rec", (lz,)), ("agree", (lz,))],
           step_hints=lambda k: [("c1.A.rec", (lz - k - 1,)), ("c2.A.rec", (lz - k - 1,)), ("agree", (lz - k - 1,))])
    hints = [("gae.spec_noninterference.ind", (lz - tz,)), ("c1.gae.advantage_is_recurrence", (tz,)), ("c2.gae.advantage_is_recurrence", (tz,)),
             ("c1.gae.returns_is_adv_plus_value", (tz,)), ("c2.gae.returns_is_adv_plus_value", (tz,)), ("agree", (tz,))]
    oblige_hinted(E, "gae.advantage_independent_of_earlier_and_post_terminal_data", C.compare("==", adv1.at(t0), adv2.at(t0)), hints)
    oblige_hinted(E, "gae.returns_independent_of_earlier_and_post_terminal_data", C.compare("==", ret1.at(t0), ret2.at(t0)), hints)
    # the data at t0-1 is NOT shared: the estimates there may differ (must be refuted)
    oblige_hinted(E, "canary.gae_ni.earlier_step_differs", C.implies(t0 >= 1, C.compare("==", adv1.at(t0 - 1), adv2.at(t0 - 1))),
                  [("c1.gae.advantage_is_recurrence", (tz - 1,)), ("c2.gae.advantage_is_recurrence", (tz - 1,)), ("c1.A.rec", (tz - 1,)), ("c2.A.rec", (tz - 1,))])


# =============================================================== n-step return
NSTEP = "rl_blox.blox.return_estimates.discounted_n_step_return"


def nstep_loop(L):
    g = L.E.st.ghost["c07.nstep"]
    b0, R, D = g["b0"], g["R"], g["D"]
    it = C.to_z3(L.it)
    return [("return_is_partial_sum", C.compare("==", L["n_step_return"].at(b0), Sym(R(it)))),
            ("discount_is_partial_product", C.compare("==", L["discount"].at(b0), Sym(D(it))))]


def setup_nstep(shared):
    shared.loop_specs[(NSTEP, 0)] = LoopSpec(inv=nstep_loop)


def run_nstep(E, pre, B, H, r, term, gamma, b0):
    """real discounted_n_step_return; outputs of the generic row b0 equal R_H / D_H of that row's own sequence"""
    R, D = nstep_spec(E, pre + "nstep", H, lambda t: zr(r.at(b0, t)), lambda t: zr(term.at(b0, t)), gamma)
    E.st.ghost["c07.nstep"] = dict(b0=b0, R=R, D=D)
    ret, disc = E.call(NSTEP, r, term, gamma)
    hz = T.dim_z(H)
    shape_is(E, pre + "nstep.return_shape", ret, (B,))
    shape_is(E, pre + "nstep.discount_shape", disc, (B,))
    E.oblige(pre + "nstep.return_is_truncated_discounted_sum", C.compare("==", ret.at(b0), Sym(R(hz))))
    E.oblige(pre + "nstep.discount_is_residual_product", C.compare("==", disc.at(b0), Sym(D(hz))))
    return R, D, ret, disc


def generic_row(E, B, name="b0"):
    b0 = E.int(name, 0)
    E.assume(b0 < B)
    E.st.add_pool(b0)
    return b0


def mk_h_nstep(H_=None):
    def h(E):
        B = E.dim("B")
        H = H_ if H_ is not None else E.dim("H")
        r = T.fresh_tensor("reward", (B, H), REAL)
        term = flags(E, "terminated", (B, H))
        gamma = E.real("gamma", 0, 1)
        b0 = generic_row(E, B)
        R, D, ret, disc = run_nstep(E, "", B, H, r, term, gamma, b0)
        E.oblige("canary.nstep", C.compare("==", ret.at(b0), 0), assume_after=False)

    return h


def h_nstep_ni(E):
    """row b0's outputs depend only on row b0 up to its first terminated step c: two batches that agree on
    row b0 at positions 0..c (term[b0, c] = 1) - and on nothing else - give the same R and discount 0"""
    B, H = E.dim("B"), E.dim("H")
    gamma = E.real("gamma", 0, 1)
    r1, r2 = T.fresh_tensor("reward1", (B, H), REAL), T.fresh_tensor("reward2", (B, H), REAL)
    t1, t2 = flags(E, "terminated1", (B, H)), flags(E, "terminated2", (B, H))
    b0 = generic_row(E, B)
    c = E.int("first_term", 0)
    E.assume(c < H)
    E.assume(C.compare("==", t1.at(b0, c), 1))
    E.st.add_pool(c)
    axiom(E, "agree", [H], lambda s: z3.Implies(s <= c.z, z3.And(zr(r1.at(b0, s)) == zr(r2.at(b0, s)), zr(t1.at(b0, s)) == zr(t2.at(b0, s)))))
    R1, D1, ret1, disc1 = run_nstep(E, "c1.", B, H, r1, t1, gamma, b0)
    R2, D2, ret2, disc2 = run_nstep(E, "c2.", B, H, r2, t2, gamma, b0)
    if conc(H):
        E.oblige("nstep.return_independent_of_other_rows_and_post_terminal_data", C.compare("==", ret1.at(b0), ret2.at(b0)))
        E.oblige("nstep.discount_zero_after_termination", C.band(C.compare("==", disc1.at(b0), 0), C.compare("==", disc2.at(b0), 0)))
        return
    cz, hz = c.z, T.dim_z(H)
    induct(E, "nstep.spec_noninterference", H, [],
           lambda k: z3.And(R1(k) == R2(k), D1(k) == D2(k), z3.Implies(k > cz, z3.And(D1(k) == 0, D2(k) == 0))),
           base_hints=lambda: [], step_hints=lambda k: [("c1.nstep.rec", (k,)), ("c2.nstep.rec", (k,)), ("agree", (k,))])
    hints = [("nstep.spec_noninterference.ind", (hz,))]
    oblige_hinted(E, "nstep.return_independent_of_other_rows_and_post_terminal_data", C.compare("==", ret1.at(b0), ret2.at(b0)), hints)
    oblige_hinted(E, "nstep.discount_zero_after_termination", C.band(C.compare("==", disc1.at(b0), 0), C.compare("==", disc2.at(b0), 0)), hints)
    E.oblige("canary.nstep_ni", C.compare("==", ret1.at(b0), 0), assume_after=False)


# ================================================================ reward-to-go
RTG = "rl_blox.algorithm.reinforce.discounted_reward_to_go"


def _rtg_roles(E):
    """(name of the list the loop appends to, name of the numeric accumulator) of discounted_reward_to_go's loop,
    read off the real AST (so that renaming the locals does not matter)"""
    import ast as _ast

    fn = E.resolve(RTG).node
    loop = next(n for n in _ast.walk(fn) if isinstance(n, (_ast.For, _ast.While)))
    appended = [n.func.value.id for n in _ast.walk(loop) if isinstance(n, _ast.Call) and isinstance(n.func, _ast.Attribute)
                and n.func.attr == "append" and isinstance(n.func.value, _ast.Name)]
    target = {n.id for n in _ast.walk(loop.target) if isinstance(n, _ast.Name)} if isinstance(loop, _ast.For) else set()
    assigned = []
    for n in _ast.walk(loop):
        if isinstance(n, (_ast.Assign, _ast.AugAssign, _ast.AnnAssign)):
            for t in (n.targets if isinstance(n, _ast.Assign) else [n.target]):
                if isinstance(t, _ast.Name) and t.id not in target and t.id not in appended and t.id not in assigned:
                    assigned.append(t.id)
    if len(set(appended)) != 1 or len(assigned) != 1:
        raise C.Unsupported(f"discounted_reward_to_go: loop shape not recognised (appends to {appended}, accumulates {assigned})")
    return appended[0], assigned[0]


def rtg_loop(L):
    g = L.E.st.ghost["c07.rtg"]
    i0, G, nz = g["i0"].z, g["G"], g["n"]
    k = C.to_z3(L.it)
    lst_name, acc_name = _rtg_roles(L.E)
    out = L[lst_name]
    if isinstance(out, SymList):
        ln = out.len_z()
        j0 = nz - 1 - i0
        elem = z3.Implies(z3.And(j0 >= 0, j0 < k), zr(out.elem(j0)) == G(i0))
    else:  # the python list at loop entry
        ln = z3.IntVal(len(out))
        elem = z3.BoolVal(len(out) == 0)
    return [("acc_is_return_of_suffix", C.compare("==", L[acc_name], Sym(G(nz - k)))),
            ("one_output_per_step", Sym(ln == k)),
            ("outputs_are_returns_back_to_front", Sym(elem))]


def rtg_havoc(E, fr):
    # the result list after an arbitrary number of iterations: a list of reals of arbitrary length
    fr.vars[_rtg_roles(E)[0]] = fresh_symlist(E, "discounted_returns", [REAL])


def setup_rtg(shared):
    shared.loop_specs[(RTG, 0)] = LoopSpec(inv=rtg_loop, havoc_extra=rtg_havoc)


def run_rtg(E, pre, n, rewards, gamma, i0):
    col = rewards.cols[0]
    G = rtg_spec(E, pre + "G", n, lambda t: z3.Select(col, t), gamma)
    E.st.ghost["c07.rtg"] = dict(i0=i0, G=G, n=T.dim_z(n))
    out = E.call(RTG, rewards, gamma)
    if not (isinstance(out, T.Tensor) and out.ndim == 1):
        E.st.fail(pre + "rtg.output_is_vector", f"got {out!r}")
        return G, None
    E.st.ok(pre + "rtg.output_is_vector")
    E.oblige(pre + "rtg.one_return_per_reward", C.compare("==", out.shape[0], n))
    E.oblige(pre + "rtg.return_is_recurrence", C.compare("==", out.at(i0), Sym(G(i0.z))))
    return G, out


def mk_h_rtg(size=None):
    def h(E):
        n = size if size is not None else E.dim("T")
        rewards = fresh_symlist(E, "rewards", [REAL], length=n)
        gamma = E.real("gamma", 0, 1)
        i0 = generic_row(E, n, "i0")
        G, out = run_rtg(E, "", n, rewards, gamma, i0)
        if out is not None:
            E.oblige("canary.rtg", C.compare("==", out.at(i0), 0), assume_after=False)

    return h


def h_rtg_causal(E):
    """the return of step i0 depends only on the rewards at i0 and later"""
    n = E.dim("T")
    gamma = E.real("gamma", 0, 1)
    rw1, rw2 = fresh_symlist(E, "rewards1", [REAL], length=n), fresh_symlist(E, "rewards2", [REAL], length=n)
    i0 = generic_row(E, n, "i0")
    c1, c2 = rw1.cols[0], rw2.cols[0]
    axiom(E, "agree", [n], lambda s: z3.Implies(s >= i0.z, z3.Select(c1, s) == z3.Select(c2, s)))
    G1, out1 = run_rtg(E, "c1.", n, rw1, gamma, i0)
    G2, out2 = run_rtg(E, "c2.", n, rw2, gamma, i0)
    if out1 is None or out2 is None:
        return
    if not conc(n):
        nz, iz = T.dim_z(n), i0.z
        induct(E, "rtg.spec_causality", n - i0, [], lambda k: z3.Implies(k <= nz - iz, G1(nz - k) == G2(nz - k)),
               base_hints=lambda: [], step_hints=lambda k: [("c1.G.rec", (nz - k - 1,)), ("c2.G.rec", (nz - k - 1,)), ("agree", (nz - k - 1,))])
        oblige_hinted(E, "rtg.return_independent_of_earlier_rewards", C.compare("==", out1.at(i0), out2.at(i0)), [("rtg.spec_causality.ind", (nz - iz,))])
    else:
        E.oblige("rtg.return_independent_of_earlier_rewards", C.compare("==", out1.at(i0), out2.at(i0)))
    E.oblige("canary.rtg_causal", C.compare("==", out1.at(i0), 0), assume_after=False)


# ====================================================== batched GAE (A2C, vmap)
A2C = "rl_blox.algorithm.a2c.prepare_a2c_batch"
DISCRETE = "gymnasium.spaces.Discrete"


def index_lemma(E, name, N):
    """row-major index arithmetic: (t*N + e) // N == t and (t*N + e) % N == e for 0 <= e < N, t >= 0"""
    Nz = T.dim_z(N)

    def fn(t, e):
        f = C.binop("+", C.binop("*", Sym(t), N), Sym(e))
        return z3.Implies(z3.And(e >= 0, e < Nz, t >= 0), z3.And(C.to_z3(C.binop("//", f, N)) == t, C.to_z3(C.binop("%", f, N)) == e))

    E.st.oblige_forall(name, [INT, INT], fn, hint="ix", using=[])


def mk_h_a2c(sizes=None):
    def h(E):
        n, N = sizes if sizes else (E.dim("T"), E.dim("N"))
        D = E.dim("D_obs")
        obs = rows_tensor(E, "obs", (n, N), D)
        last_obs = rows_tensor(E, "last_obs", (N,), D)
        actions = T.fresh_tensor("actions", (n, N), INT)
        rewards = T.fresh_tensor("rewards", (n, N), REAL)
        terms = flags(E, "terminations", (n, N))
        buf = E.new_obj("rl_blox.blox.replay_buffer.ReplayBuffer", name="rollout_buffer",
                        buffer={"obs": obs, "actions": actions, "rewards": rewards, "terminations": terms})
        vf = mk_net(E, "value_function", 1)
        space = E.new_obj(DISCRETE, name="action_space", n=E.int("n_actions", 2), start=E.int("start"))
        gamma, lam = E.real("gamma", 0, 1), E.real("lmbda", 0, 1)
        # documented inputs of the estimator: V(o[t,e]) and the bootstrap V(last_obs[e]) after the last step
        Vobs, Vlast = net_call(E, vf, obs), net_call(E, vf, last_obs)
        nz, Nz = T.dim_z(n), T.dim_z(N)
        V = lambda t, e: zr(Vobs.at(t, e, 0))  # noqa: E731
        Vn = lambda t, e: z3.If(t + 1 < nz, zr(Vobs.at(t + 1, e, 0)), zr(Vlast.at(e, 0)))  # noqa: E731
        A = gae_spec_env(E, "A", n, N, lambda t, e: zr(rewards.at(t, e)), V, Vn, lambda t, e: zr(terms.at(t, e)), gamma, lam)
        if not conc(N):
            index_lemma(E, "a2c.index.row_major", N)
        fobs, fact, fadv, fret = E.call(A2C, buf, vf, last_obs, space, gamma, lam)
        total = T.norm_dim(C.binop("*", n, N))
        shape_is(E, "a2c.advantages_shape", fadv, (total,))
        shape_is(E, "a2c.returns_shape", fret, (total,))
        sc = last_scan(E)
        sid = sc["id"] if sc else None
        if sc and not fold_is(E, "a2c.fold", n, lambda sc, e, k: z3.Implies(z3.And(e >= 0, e < Nz), sc["funs"][0](e, k) == A(e, nz - k)), sorts=[INT],
                    base_hints=lambda sc, e: [(f"scan{sid}.init", (e,)), ("A.end", (e,))],
                    step_hints=lambda sc, e, k: [(f"scan{sid}.step", (e, k)), ("A.rec", (e, nz - 1 - k)), ("a2c.index", (nz - 1 - k, e)), ("a2c.index", (nz - k, e))]):
            for nm in ("a2c.advantage_is_own_env_gae", "a2c.returns_is_own_env_gae_plus_value"):
                E.st.undecided(nm, "depends on the fold invariant a2c.fold, which is not proved")
            return

        def flat(t, e):  # time-major flattening documented for the outputs: (Time * Num_Envs,)
            return C.binop("+", C.binop("*", Sym(t), N), Sym(e))

        def hints(t, e, *_):
            return [("a2c.index", (t, e)), ("a2c.index", (t + 1, e)), (f"scan{sid}.step", (e, nz - 1 - t)), ("a2c.fold.ind", (e, nz - t)),
                    ("a2c.fold.ind", (e, nz - 1 - t))]

        forall_idx(E, "a2c.advantage_is_own_env_gae", [n, N], lambda t, e: zr(fadv.at(flat(t, e))) == A(e, t), hints, hint="te")
        forall_idx(E, "a2c.returns_is_own_env_gae_plus_value", [n, N], lambda t, e: zr(fret.at(flat(t, e))) == A(e, t) + V(t, e), hints, hint="te")
        forall_idx(E, "a2c.observation_row_of_flat_index", [n, N, D], lambda t, e, d: zr(fobs.at(flat(t, e), Sym(d))) == zr(obs.at(t, e, d)),
                   lambda t, e, d: [("a2c.index", (t, e))], hint="ted")
        tc, ec = generic_row(E, n, "t_c"), generic_row(E, N, "e_c")
        oblige_hinted(E, "canary.a2c", C.compare("==", fadv.at(flat(tc.z, ec.z)), 0), known(E, hints(tc.z, ec.z) + [("A.rec", (ec.z, tc.z))]))

    return h


# ================================== PPO: per-environment GAE on the flattened rollout
PPO_UPDATE = "rl_blox.algorithm.ppo.update_ppo"
PPO_TRAIN = "rl_blox.algorithm.ppo.train_ppo"
PPO_LOSS = "rl_blox.algorithm.ppo.ppo_loss"


class _Stop(Exception):
    """raised by the loss observer: the loss itself and the optimizer steps of update_ppo belong to C12"""


def setup_ppo(shared):
    def observe_loss(E, fn, args, kwargs, has_aux):
        # nnx.value_and_grad(ppo_loss, ...)(actor, critic, logp, observation, action, advs, returns): the advantages /
        # returns handed to the loss are what the property speaks about
        E.st.ghost["c07.loss_call"] = dict(fn=getattr(fn, "qualname", str(fn)), args=args)
        raise _Stop()

    shared.loss_stub = observe_loss


def mk_h_ppo(sizes=None, pass_n_envs=True):
    """update_ppo called as train_ppo calls it (n_envs = number of environments, rollout flattened
    environment-major).  pass_n_envs=False: negative control with the default n_envs = 1."""
    from pyvc.lib.ext_policy_stub import mk_policy

    def h(E):
        Ne, n = sizes if sizes else (E.dim("E"), E.dim("T"))
        M = T.norm_dim(C.binop("*", Ne, n))
        D = E.dim("D_obs")
        observation = rows_tensor(E, "observation", (M,), D)
        action = T.fresh_tensor("action", (M,), INT)
        reward = T.fresh_tensor("reward", (M,), REAL)
        terminated = flags(E, "terminated", (M,))
        next_value = T.fresh_tensor("next_value", (M,), REAL)
        critic = mk_net(E, "critic", 1)
        actor = mk_policy(E, "actor", None)
        nz, Ez = T.dim_z(n), T.dim_z(Ne)
        gamma, lam = Fraction(99, 100), Fraction(95, 100)  # update_ppo relies on compute_gae's defaults
        Vc = net_call(E, critic, observation)

        def fl(t, e):  # env-major flattening produced by collect_trajectories.reshape_batch
            return C.to_z3(C.binop("+", C.binop("*", Sym(e) if isinstance(e, z3.ExprRef) else e, n), Sym(t) if isinstance(t, z3.ExprRef) else t))

        # REQUIRED (property): the advantage at flat index e*T+t is environment e's own GAE
        A = gae_spec_env(E, "A", n, Ne, lambda t, e: zr(reward.at(fl(t, e))), lambda t, e: zr(Vc.at(fl(t, e), 0)),
                         lambda t, e: zr(next_value.at(fl(t, e))), lambda t, e: zr(terminated.at(fl(t, e))), gamma, lam)
        if not conc(n):
            index_lemma(E, "ppo.index.row_major", n)
        extra = (1, Ne) if pass_n_envs else (1,)
        try:
            E.call(PPO_UPDATE, actor, critic, None, None, observation, action, reward, terminated, next_value, *extra)
            E.st.fail("update_ppo.hands_advantages_to_ppo_loss", "update_ppo returned without differentiating a loss")
            return
        except _Stop:
            pass
        lc = E.st.ghost["c07.loss_call"]
        if lc["fn"] != PPO_LOSS or len(lc["args"]) != 7:
            E.st.fail("update_ppo.hands_advantages_to_ppo_loss", f"differentiated {lc['fn']} with {len(lc['args'])} arguments")
            return
        E.st.ok("update_ppo.hands_advantages_to_ppo_loss")
        adv, ret = lc["args"][5], lc["args"][6]
        shape_is(E, "ppo.advantages_shape", adv, (M,))
        shape_is(E, "ppo.returns_shape", ret, (M,))
        if conc(Ne, n):
            # no named carries under vmap: each VC from the recurrences of environment e at t, t+1, .., T
            def ctx(e, t):
                return definitions_of(E, *[A(z3.IntVal(e), z3.IntVal(u)) for u in range(t, n + 1)])

            if pass_n_envs:
                for e in range(Ne):
                    for t in range(n):
                        a_et = A(z3.IntVal(e), z3.IntVal(t))
                        link(E, "post.per_env_gae", C.compare("==", adv.at(e * n + t), Sym(a_et)), ctx(e, t))
                        link(E, "post.per_env_returns", C.compare("==", ret.at(e * n + t), Sym(a_et + zr(Vc.at(e * n + t, 0)))), ctx(e, t))
                E.oblige("canary.ppo", C.compare("==", adv.at(0), 0), assume_after=False)
            else:
                # default n_envs = 1: ONE scan over the flattened rollout.  The last environment is still right ...
                e = Ne - 1
                for t in range(n):
                    link(E, "control.default_n_envs.last_env_is_own_gae", C.compare("==", adv.at(e * n + t), Sym(A(z3.IntVal(e), z3.IntVal(t)))), ctx(e, t))
                # ... but the last step of environment 0 continues into environment 1 (must be refuted:
                # the required postcondition is sensitive to the environment count that is passed)
                E.oblige("canary.control.default_n_envs.first_env_is_own_gae", C.compare("==", adv.at(n - 1), Sym(A(z3.IntVal(0), z3.IntVal(n - 1)))), assume_after=False)
            return
        sc = last_scan(E)
        if sc is None or len(sc["amb"]) != 1:
            E.st.fail("ppo.one_fold_per_environment", "the advantage estimate is not a scan under a vmap over environments")
            return
        E.st.ok("ppo.one_fold_per_environment")
        sid = sc["id"]
        if not fold_is(E, "ppo.fold", n, lambda sc, e, k: z3.Implies(z3.And(e >= 0, e < Ez), sc["funs"][0](e, k) == A(e, nz - k)), sorts=[INT],
                       base_hints=lambda sc, e: [(f"scan{sid}.init", (e,)), ("A.end", (e,))],
                       step_hints=lambda sc, e, k: [(f"scan{sid}.step", (e, k)), ("A.rec", (e, nz - 1 - k))]):
            for nm in ("post.per_env_gae", "post.per_env_returns"):
                E.st.undecided(nm, "depends on the fold invariant ppo.fold, which is not proved")
            return

        def hints(t, e):
            return [("ppo.index", (e, t)), (f"scan{sid}.step", (e, nz - 1 - t)), ("ppo.fold.ind", (e, nz - t)), ("ppo.fold.ind", (e, nz - 1 - t))]

        forall_idx(E, "post.per_env_gae", [n, Ne], lambda t, e: zr(adv.at(fl(t, e))) == A(e, t), hints, hint="te")
        forall_idx(E, "post.per_env_returns", [n, Ne], lambda t, e: zr(ret.at(fl(t, e))) == A(e, t) + zr(Vc.at(fl(t, e), 0)), hints, hint="te")
        tc, ec = generic_row(E, n, "t_c"), generic_row(E, Ne, "e_c")
        oblige_hinted(E, "canary.ppo", C.compare("==", adv.at(fl(tc.z, ec.z)), 0), known(E, hints(tc.z, ec.z) + [("A.rec", (ec.z, tc.z))]))

    return h


def h_train_ppo_call_site(E):
    """train_ppo hands the environment count to update_ppo: the argument bound to `n_envs` is `envs.num_envs`
    (syntactic check on the real AST; update_ppo's per-environment estimate is only as good as that argument)"""
    import ast

    upd, trn = E.resolve(PPO_UPDATE), E.resolve(PPO_TRAIN)
    params = [a.arg for a in upd.node.args.posonlyargs + upd.node.args.args]
    if "n_envs" not in params:
        E.st.fail("train_ppo.passes_num_envs", "update_ppo has no n_envs parameter")
        return
    pos = params.index("n_envs")
    calls = [c for c in ast.walk(trn.node) if isinstance(c, ast.Call) and isinstance(c.func, ast.Name) and c.func.id == "update_ppo"]
    if not calls:
        E.st.fail("train_ppo.passes_num_envs", "train_ppo does not call update_ppo")
        return
    bad = []
    for c in calls:
        arg = c.args[pos] if pos < len(c.args) and not any(isinstance(a, ast.Starred) for a in c.args) else None
        for kw in c.keywords:
            if kw.arg == "n_envs":
                arg = kw.value
        src = ast.unparse(arg) if arg is not None else "<default 1>"
        if src != "envs.num_envs":
            bad.append(f"line {c.lineno}: n_envs = {src}")
    first = trn.node.args.args[0].arg if trn.node.args.args else None
    if first != "envs":
        bad.append(f"train_ppo's environment parameter is {first!r}, not 'envs'")
    if bad:
        E.st.fail("train_ppo.passes_num_envs", "; ".join(bad))
    else:
        E.st.ok("train_ppo.passes_num_envs")
    E.oblige("canary.train_ppo_call_site", C.compare("==", E.int("unconstrained"), 0), assume_after=False)


# ===================================== PPO: collect_trajectories (bounded sizes)
PPO_COLLECT = "rl_blox.algorithm.ppo.collect_trajectories"
VENV, ACTOR, CRITIC, LOGGER = "c07.VectorEnvStub", "c07.ActorStub", "c07.CriticStub", "c07.LoggerStub"


@LIB.cls(VENV)
def _venv(E, obj, name):
    """vectorised environment stub: every step returns arbitrary per-environment data; info reports an
    arbitrary subset of finished episodes with their final observations (gymnasium SAME_STEP autoreset
    + RecordEpisodeStatistics keys, as read by collect_trajectories)"""
    f = obj.fields
    N, D = f["num_envs"], f["$D"]
    if name == "num_envs":
        return N
    if name == "reset":
        return Builtin("VectorEnv.reset", lambda E, **k: (f["$obs0"], {}))
    if name == "step":
        def step(E, action):
            k = len(f["$steps"])
            rec = dict(next_obs=rows_tensor(E, f"next_obs{k}", (N,), D), reward=T.fresh_tensor(f"reward{k}", (N,), REAL),
                       terminated=T.fresh_tensor(f"terminated{k}", (N,), BOOL), truncated=T.fresh_tensor(f"truncated{k}", (N,), BOOL),
                       final_obs=rows_tensor(E, f"final_obs{k}", (N,), D), finished=T.fresh_tensor(f"finished{k}", (N,), BOOL),
                       ep_r=T.fresh_tensor(f"episode_r{k}", (N,), REAL), ep_l=T.fresh_tensor(f"episode_l{k}", (N,), INT), action=action)
            f["$steps"].append(rec)
            info = {"episode": {"r": rec["ep_r"], "l": rec["ep_l"]}, "final_obs": rec["final_obs"], "_episode": rec["finished"]}
            return rec["next_obs"], rec["reward"], rec["terminated"], rec["truncated"], info
        return Builtin("VectorEnv.step", step)
    return NotImplemented


@LIB.cls(ACTOR)
def _actor(E, obj, name):
    if name == "sample":
        def sample(E, obs, key):
            k = obj.fields["$n"]
            obj.fields["$n"] = k + 1
            return T.fresh_tensor(f"action{k}", (obs.shape[0],), INT, is_input=False)
        return Builtin("policy.sample", sample)
    return NotImplemented


@LIB.cls(CRITIC)
def _critic(E, obj, name):
    """row-wise value network, observed: the inputs of every call are recorded; the value of row e of call k
    is an uninterpreted function of (k, e) - which row was fed is what the obligations compare"""
    if name == "__call__":
        def call(E, x):
            k = len(obj.fields["$calls"])
            obj.fields["$calls"].append(x)
            vf = z3.Function(f"critic_out{k}", INT, REAL)
            return T.Tensor((x.shape[0], 1), lambda e, j: Sym(vf(C.to_z3(e))), REAL)
        return Builtin("critic.__call__", call)
    return NotImplemented


@LIB.cls(LOGGER)
def _logger(E, obj, name):
    if name in ("record_stat", "start_new_episode"):
        return Builtin(f"logger.{name}", lambda E, *a, **k: None)
    return NotImplemented


def mk_h_collect(N, Tn, with_logger=True):
    def h(E):
        D = E.dim("D_obs")
        obs0 = rows_tensor(E, "obs0", (N,), D)
        envs = E.new_obj(VENV, name="envs", num_envs=N, **{"$D": D, "$obs0": obs0, "$steps": []})
        actor = E.new_obj(ACTOR, name="actor", **{"$n": 0})
        critic = E.new_obj(CRITIC, name="critic", **{"$calls": []})
        logger = E.new_obj(LOGGER, name="logger") if with_logger else None
        key = E.val("key", KEY)
        out = E.call(PPO_COLLECT, envs, actor, critic, key, Tn, logger, obs0, 0)
        steps, calls = envs.fields["$steps"], critic.fields["$calls"]
        if len(steps) != Tn or len(calls) != Tn:
            E.st.fail("collect.one_step_and_one_value_per_iteration", f"{len(steps)} steps, {len(calls)} critic calls for batch_size {Tn}")
            return
        E.st.ok("collect.one_step_and_one_value_per_iteration")
        rew, term, nval, ob = out.get("reward"), out.get("terminated"), out.get("next_value"), out.get("observation")
        shape_is(E, "collect.reward_shape", rew, (N * Tn,))
        shape_is(E, "collect.next_value_shape", nval, (N * Tn,))
        Dz = T.dim_z(D)
        for e in range(N):
            for t in range(Tn):
                f = e * Tn + t  # env-major flat index (reshape_batch)
                st = steps[t]
                E.oblige("post.reshape.reward_env_major", C.compare("==", rew.at(f), st["reward"].at(e)))
                E.oblige("post.reshape.terminated_env_major", C.compare("==", term.at(f), st["terminated"].at(e)))
                before = obs0 if t == 0 else steps[t - 1]["next_obs"]
                d = E.st.fresh("d", INT)
                E.oblige("post.reshape.observation_env_major", C.implies(C.band(Sym(d >= 0), Sym(d < Dz)), C.compare("==", ob.at(f, Sym(d)), before.at(e, Sym(d)))))
                # the value attached to (t, e) is the critic's output for row e of call t ...
                vf = z3.Function(f"critic_out{t}", INT, REAL)
                E.oblige("post.next_value_is_own_row_of_critic_output", C.compare("==", nval.at(f), Sym(vf(z3.IntVal(e)))))
                # ... and that row must be environment e's own successor observation: the final observation of
                # its episode if it finished at this step, its next observation otherwise
                if with_logger:
                    succ = C.ite(st["finished"].at(e), st["final_obs"].at(e, Sym(d)), st["next_obs"].at(e, Sym(d)))
                else:
                    succ = st["next_obs"].at(e, Sym(d))
                E.oblige("post.next_value_env", C.implies(C.band(Sym(d >= 0), Sym(d < Dz)), C.compare("==", calls[t].at(e, Sym(d)), succ)))
        E.oblige("canary.collect", C.compare("==", nval.at(0), 0), assume_after=False)

    return h


# ============================= REINFORCE dataset (bounded episode count / lengths)
DATASET = "rl_blox.algorithm.reinforce.EpisodeDataset"


def mk_h_dataset(lengths):
    def h(E):
        D = E.dim("D_obs")
        gamma = E.real("gamma", 0, 1)
        eps, rws = [], []
        for e, ln in enumerate(lengths):
            ep, rw = [], []
            for t in range(ln):
                r = E.real(f"r_{e}_{t}")
                ep.append((T.fresh_tensor(f"obs_{e}_{t}", (D,), REAL), E.int(f"act_{e}_{t}"), T.fresh_tensor(f"nobs_{e}_{t}", (D,), REAL), r))
                rw.append(r)
            eps.append(ep)
            rws.append(rw)
        ds = E.new_obj(DATASET, name="dataset", episodes=eps)
        space = E.new_obj(DISCRETE, name="action_space", n=E.int("n_actions", 2), start=E.int("start"))
        obs, acts, nobs, returns, gdisc = E.call(E.getattr(ds, "prepare_policy_gradient_dataset"), space, gamma)
        total = sum(lengths)
        shape_is(E, "dataset.returns_shape", returns, (total,))
        shape_is(E, "dataset.gamma_discount_shape", gdisc, (total,))
        off = 0
        for e, ln in enumerate(lengths):
            G = 0  # G_t = r_t + gamma G_{t+1} over episode e's OWN rewards, G_len = 0
            spec = [None] * ln
            for t in range(ln - 1, -1, -1):
                G = rws[e][t] + gamma * G
                spec[t] = G
            for t in range(ln):
                E.oblige("dataset.return_is_own_episode_reward_to_go", C.compare("==", returns.at(off + t), spec[t]))
                E.oblige("dataset.gamma_discount_is_gamma_pow_t", C.compare("==", gdisc.at(off + t), gamma ** t))
                E.oblige("dataset.action_offset", C.compare("==", acts.at(off + t), eps[e][t][1] - space.fields["start"]))
            off += ln
        E.oblige("canary.dataset", C.compare("==", returns.at(0), 0), assume_after=False)

    return h


# ================================================== MR.Q: n-step critic target
MRQ_LOSS = "rl_blox.algorithm.mrq.mrq_loss"
ENCODER = "rl_blox.blox.embedding.model_based_encoder.ModelBasedEncoder"
DOUBLE_Q = "rl_blox.blox.double_qnet.ContinuousClippedDoubleQNet"


def mk_encoder(E, name, Z, ZA, ZSA):
    return E.new_obj(ENCODER, name=name, zs=mk_net(E, f"{name}.zs", Z), za=mk_net(E, f"{name}.za", ZA), zsa=mk_net(E, f"{name}.zsa", ZSA),
                     zs_layer_norm=mk_net(E, f"{name}.ln", Z), activation=LIB.funcs["jax.nn.relu"], encoder_activation_in_last_layer=True, zs_dim=Z)


def h_mrq(E):
    """q_target_value[b] = (R_H(b) + D_H(b) * q_next[b] * target_reward_scale) / reward_scale with R_H / D_H the
    truncated n-step return / residual discount of row b's own subtrajectory; a terminated subtrajectory
    (any terminated step) gets no bootstrap at all, whatever follows the termination"""
    B, H, Dm, Am = E.dim("B"), E.dim("H"), E.dim("D_obs"), E.dim("D_act")
    Z, ZA, ZSA = E.dim("zs_dim"), E.dim("za_dim"), E.dim("zsa_dim")
    obs, nobs = rows_tensor(E, "obs", (B,), Dm), rows_tensor(E, "next_obs", (B,), Dm)
    act, nact = rows_tensor(E, "action", (B,), Am), rows_tensor(E, "next_action", (B,), Am)
    r = T.fresh_tensor("reward", (B, H), REAL)
    term = flags(E, "terminated", (B, H))
    gamma, rs, trs = E.real("gamma", 0, 1), E.real("reward_scale"), E.real("target_reward_scale")
    E.assume(rs > 0)
    q = E.new_obj(DOUBLE_Q, name="q", q1=mk_net(E, "q1", 1), q2=mk_net(E, "q2", 1))
    qt = E.new_obj(DOUBLE_Q, name="q_target", q1=mk_net(E, "q1_target", 1), q2=mk_net(E, "q2_target", 1))
    enc, enct = mk_encoder(E, "encoder", Z, ZA, ZSA), mk_encoder(E, "encoder_target", Z, ZA, ZSA)
    b0 = generic_row(E, B)
    R, D = nstep_spec(E, "nstep", H, lambda t: zr(r.at(b0, t)), lambda t: zr(term.at(b0, t)), gamma)
    E.st.ghost["c07.nstep"] = dict(b0=b0, R=R, D=D)
    loss, (zs, q_mean, max_td) = E.call(MRQ_LOSS, q, qt, enc, enct, nact, (obs, act, r, nobs, term, None), gamma, rs, trs)
    # bootstrap and predictions as documented: target networks on (next_obs, next_action), online critic on (obs, action)
    nzs = E.call(E.getattr(enct, "encode_zs"), nobs)
    q_next = E.call(qt, E.call(E.getattr(enct, "encode_zsa"), nzs, nact))
    zsa = E.call(E.getattr(enc, "encode_zsa"), E.call(E.getattr(enc, "encode_zs"), obs), act)
    q1p, q2p = net_call(E, q.fields["q1"], zsa).at(b0, 0), net_call(E, q.fields["q2"], zsa).at(b0, 0)
    hz = T.dim_z(H)
    y = (Sym(R(hz)) + Sym(D(hz)) * q_next.at(b0, 0) * trs) / rs
    shape_is(E, "mrq.td_error_shape", max_td, (B,))
    E.oblige("mrq.target_is_nstep_return_plus_discounted_bootstrap", C.compare("==", max_td.at(b0), C.smax(C.sabs(q1p - y), C.sabs(q2p - y))))
    # terminated subtrajectory: D_H = 0 (induction along the recurrence), hence no bootstrap
    c = E.int("first_term", 0)
    E.assume(c < H)
    E.assume(C.compare("==", term.at(b0, c), 1))
    E.st.add_pool(c)
    induct(E, "mrq.discount_zero_after_termination", H, [], lambda k: z3.Implies(k > c.z, D(k) == 0),
           base_hints=lambda: [], step_hints=lambda k: [("nstep.rec", (k,))])
    y0 = Sym(R(hz)) / rs
    oblige_hinted(E, "mrq.terminated_subtrajectory_has_no_bootstrap", C.compare("==", max_td.at(b0), C.smax(C.sabs(q1p - y0), C.sabs(q2p - y0))),
                  [("mrq.discount_zero_after_termination.ind", (hz,))])
    E.oblige("canary.mrq", C.compare("==", max_td.at(b0), 0), assume_after=False)


TASKS = [
    Task("mrq_loss_target", h_mrq, setup=setup_nstep),
    Task("prepare_policy_gradient_dataset[2 episodes]", mk_h_dataset((2, 3)), setup=setup_rtg, bounded="2 episodes of lengths 2 and 3"),
    Task("prepare_policy_gradient_dataset[1-step episodes]", mk_h_dataset((1, 1, 2)), setup=setup_rtg, bounded="3 episodes of lengths 1, 1, 2"),
    Task("collect_trajectories[E=2,T=2]", mk_h_collect(2, 2), bounded="2 environments, batch_size 2, any subset of episodes finishing at each step"),
    Task("collect_trajectories[no logger]", mk_h_collect(2, 2, False), bounded="2 environments, batch_size 2, logger=None"),
    Task("compute_gae", mk_h_gae()),
    Task("compute_gae[T=1]", mk_h_gae(1)),
    Task("compute_gae[defaults]", mk_h_gae(None, True)),
    Task("compute_gae[T=3]", mk_h_gae(3), bounded="T = 3 (scan unrolled)"),
    Task("gae_noninterference", h_gae_ni),
    Task("n_step_return", mk_h_nstep(), setup=setup_nstep),
    Task("n_step_return[H=1]", mk_h_nstep(1), setup=setup_nstep),
    Task("n_step_return[H=3]", mk_h_nstep(3), setup=setup_nstep, bounded="horizon H = 3 (loop unrolled)"),
    Task("n_step_noninterference", h_nstep_ni, setup=setup_nstep),
    Task("reward_to_go", mk_h_rtg(), setup=setup_rtg),
    Task("reward_to_go[T=3]", mk_h_rtg(3), setup=setup_rtg, bounded="episode length 3 (loop unrolled)"),
    Task("reward_to_go_causality", h_rtg_causal, setup=setup_rtg),
    Task("prepare_a2c_batch", mk_h_a2c()),
    Task("update_ppo", mk_h_ppo(), setup=setup_ppo),
    Task("update_ppo[E=2,T=2]", mk_h_ppo((2, 2)), setup=setup_ppo, bounded="E = 2 environments, T = 2 steps (scans unrolled)"),
    Task("update_ppo[E=1,T=3]", mk_h_ppo((1, 3)), setup=setup_ppo, bounded="single environment, T = 3 steps"),
    Task("update_ppo[default n_envs, E=2,T=2]", mk_h_ppo((2, 2), pass_n_envs=False), setup=setup_ppo,
         bounded="negative control: n_envs left at its default 1 with 2 environments x 2 steps"),
    Task("train_ppo_call_site", h_train_ppo_call_site),
]

TRUSTED = [
    "reals for float32 / float64 arithmetic (rounding is not modelled; the replay driver compares with float64 recurrences at rtol 2e-4)",
    "jax.lax.scan is the fold documented by JAX: c(0) = init, (c(k+1), y(k)) = f(c(k), xs[k]); ys stacked in input order "
    "(pyvc/lib/ext_returns.py; the body is interpreted once at a generic step and must not branch)",
    "induction schema over 0..n (pyvc.lib.ext_returns.induct): base and step are proof obligations, the universally quantified conclusion is "
    "assumed afterwards - lemmas/SumLemmas.lean PyvcSum.nat_induct_upto / fold_unique (checked by lean)",
    "jax.vmap(f, in_axes)(xs)[i] = f(xs[.., i, ..]) with per-slice function symbols for the folds inside (pyvc/lib/jax_model.py + ext_returns.py)",
    "reshape / permute_dims / .T / [::-1] / concatenate / hstack index maps of pyvc.tensor (row-major)",
    "python lists of symbolic length (pyvc/lib/ext_symlist.py) with reversed() and for-iteration as position loops (ext_returns.py); loop cut with the "
    "sidecar invariants of this file (checked on entry and preservation)",
    "networks (value function, critic, encoders, Q heads) are uninterpreted ROW-WISE functions of their parameters (contracts/nets.py)",
    "closed forms of the recurrences (sum / product form of R_n and D_n; suffix congruence of the GAE recurrence) are proved in "
    "lemmas/SumLemmas.lean: nstep_closed_form, gae_congr_suffix",
]
ASSUMPTIONS = [
    "termination flags are 0/1 valued (int / bool arrays as produced by gymnasium and the replay buffers)",
    "gamma, lambda in [0,1] (only used for documentation: the equalities hold for all real gamma, lambda)",
    "non-interference is stated for the data set the property names: two inputs that agree on the steps t..last of the same trajectory "
    "(last = a terminated step at or after t - a fortiori the first one - or the final step) give the same estimate at t; "
    "data before t, after `last`, of other rows / environments / episodes is unconstrained in both copies",
    "update_ppo is called as train_ppo calls it (epochs, n_envs = number of environments; train_ppo_call_site checks that argument syntactically) and "
    "analysed up to the point where the advantages / returns are handed to nnx.value_and_grad(ppo_loss) (observed through shared.loss_stub); the loss and "
    "the optimizer steps are C12; the actor is the row-wise stochastic policy stub of pyvc/lib/ext_policy_stub.py",
    "PPO flattening convention e*T+t (environment-major) is the one produced by collect_trajectories.reshape_batch (proved for E=T=2 in "
    "collect_trajectories[...].post.reshape.*); the rollout length is literally n_envs * T (reshape(n_envs, -1) splits it exactly)",
    "collect_trajectories: environments, actor, critic and logger are stubs that return arbitrary per-environment data; the critic stub records which rows it is fed; "
    "the info dict follows gymnasium's SAME_STEP autoreset + RecordEpisodeStatistics keys (episode.r, episode.l, final_obs, _episode)",
    "MR.Q: reward_scale > 0",
]
NOT_COVERED = [
    "truncation handling (bootstrapping through time-limit truncations; the property cuts at *terminated* steps only)",
    "model_based_encoder_loss.model_rollout mask recurrence prev_not_done (nnx.scan with module carry): covered by C03's contract of the encoder loss, not here",
    "EpisodeDataset.prepare_policy_gradient_dataset and ppo.collect_trajectories for symbolic sizes (bounded stand-ins only: concrete episode / environment counts)",
    "a2c.collect_trajectories / ReplayBuffer storage order feeding prepare_a2c_batch (C02)",
    "train_a2c / train_ppo / train_mrq call sites (that the prepared batches are the ones passed to the updates)",
    "degenerate A2C rollouts with a single environment or a single step (value_function(...).squeeze() drops the axis; reshape raises / broadcasts)",
]
REPLAY = {"": "c07_returns", "model_based_encoder_loss": "c03_losses"}

# "The same holds for the learning signals (... encoder loss) computed from sampled subtrajectories, which ignore
# everything after the first terminated step": the encoder-loss tasks of C03 prove the loss equal to the documented
# sum with the CUMULATIVE not-terminated mask m_t = prod_{s<t}(1 - terminated_s) (bounded horizons 2 and 3), of
# which this clause is a corollary; they are part of this property's check as well.
from .C03 import TASKS as _C03_TASKS  # noqa: E402

TASKS = TASKS + [t for t in _C03_TASKS if t.name in ("model_based_encoder_loss[horizon=3]", "model_based_encoder_loss[horizon=2]")]
EXPLANATION = (
    "Every estimator is proved equal to its textbook recurrence for symbolic sequence lengths, batch sizes and environment counts; causality follows by induction along the "
    "recurrence on two input copies. PPO (repaired code): update_ppo estimates per environment (vmap of compute_gae over reshape(n_envs, -1)), so the advantage / return at "
    "flat index e*T+t is environment e's own GAE for symbolic E and T; the negative control with the default n_envs = 1 shows that the obligation notices a single scan over "
    "the flattened rollout; collect_trajectories bootstraps every finished environment from its own final observation."
)
