"""C14 - tabular learners apply their textbook update to exactly one entry.

Functions under contract (real AST, interpreted):
  rl_blox.util.error_functions.td_error
  rl_blox.blox.value_policy.greedy_policy
  rl_blox.algorithm.q_learning._update_policy        (+ call site in train_q_learning)
  rl_blox.algorithm.sarsa._update_policy             (+ call site in train_sarsa)
  rl_blox.algorithm.double_q_learning._dql_update    (+ call site in train_double_q_learning)
  rl_blox.algorithm.monte_carlo.update / _update_body (jax.lax.fori_loop cut by induction)
  rl_blox.algorithm.dynaq.q_learning_update / counter_update / model_update / planning
                                                      (+ call site in train_dynaq)

Every postcondition is transcribed from the PROPERTY STATEMENT (textbook rules),
never from the code.  Tables are total functions (s, a) -> R of symbolic size
S x A; states / actions are symbolic in-range integers.

  TD learners :  Q'[s,a] == Q[s,a] + lr*(r + gamma*(1-terminated)*V_next - Q[s,a])
                 forall (i,j) != (s,a).  Q'[i,j] == Q[i,j]
     V_next = max_b Q[s',b]                              (Q-learning, Dyna-Q)
            = Q[s',a']                                   (SARSA)
            = Q_other[s', argmax_b Q_updated[s',b]]      (double Q-learning)
  Monte-Carlo :  G = r_t + gamma*G_next;  n' = n + 1 at the visited entry only;
                 Q' = Q + (G - Q)/n';  corollary Q' == (n*Q + G)/(n+1);
                 fold invariant  n*Q == sum of the observed returns.
  Dyna-Q model:  T[s,a,k] == cnt[s,a,k] / sum_k' cnt[s,a,k'],
                 R[s,a,k] == mean(observed rewards of (s,a,k)).

Call sites (`*.train` tasks): ONE arbitrary iteration of the real training loop
body is executed from its first statement up to the update call (loop_prefix)
with arbitrary loop-carried locals, a ScriptedEnv answering env.step with
arbitrary values and the behaviour policy replaced by its contract.

Obligations that FAIL on the unchanged tree (genuine defects, replayed natively
by replay/drivers/c14_tabular.py):
  C14._dql_update.post.entry, C14.double_q.train.callsite.entry
      _dql_update takes the greedy action of the updated table at `observation`
      instead of `next_observation`;
  C14.model_update.inv.frequencies
      dynaq.model_update rewrites only T[s,a,s']; the frequencies of the other
      successors of (s,a) keep the old denominator (row no longer sums to 1).
"""
import ast

import z3

from pyvc import core as C
from pyvc import tensor as T
from pyvc.core import INT, KEY, REAL, Sym, band, bnot, bor
from pyvc.interp import Frame
from pyvc.lib import ext_tabular as X
from pyvc.runner import Task

PROPERTY = "C14"
LEVEL = "proof"
ALG = "rl_blox.algorithm."
GREEDY = "rl_blox.blox.value_policy.greedy_policy"


# ------------------------------------------------------------------ helpers
def _dims(E):
    return E.int("S", 1), E.int("A", 1)


def _idx(E, name, n):
    i = E.int(name)
    E.assume(band(i >= 0, i < n))
    return i


def _hyper(E):
    return E.real("reward"), E.real("gamma"), E.real("learning_rate"), E.bool("terminated")


def inb(i, n):
    return z3.And(i >= 0, i < C.to_z3(n))


def rz(t, *i):
    return C.as_real(t.at(*i))


def claim(E, name, z, **kw):
    """named obligation; NOT assumed afterwards (a failed clause must not make
    later clauses - or the canaries - vacuously true)"""
    kw.setdefault("assume_after", False)
    E.st.oblige(name, z, **kw)


def forall_goal(E, name, sorts, fn, hint="sk", using=None):
    """forall-goal, Skolemised; unlike st.oblige_forall the proved statement is
    NOT added to the quantified hypotheses (keeps later queries small)"""
    sks = [E.st.fresh(f"{hint}{i}", srt) for i, srt in enumerate(sorts)]
    E.st.oblige(name, C.as_bool(fn(*sks)), assume_after=False, extra_pool=[t for t in sks if t.sort() == INT], using=using)


def verdict(E, name, ok, why):
    if ok:
        E.st.ok(name)
    else:
        E.st.fail(name, why)
    return ok


def same_shape(E, name, t, ref):
    ok = isinstance(t, T.Tensor) and t.ndim == ref.ndim and all(T.dim_eq(a, b) for a, b in zip(t.shape, ref.shape))
    if ok:
        E.st.ok(name)
    else:
        E.st.fail(name, f"result {getattr(t, 'shape', type(t).__name__)} is not a table of shape {ref.shape}")
    return ok


def row_max(Q, s):
    """max_b Q[s, b]   (own reduction node: value >= every entry, attained)"""
    return T.reduce(T.index(Q, (s,)), "max")


def row_argmax(Q, s):
    """argmax_b Q[s, b] (first maximiser, as documented for argmax)"""
    return T.reduce(T.index(Q, (s,)), "argmax")


def td_target_value(Q, s, a, r, gamma, lr, notdone, V):
    q = Q.at(s, a)
    return q + lr * (r + gamma * notdone * V - q)


def td_post(E, tag, Q, Qn, s, a, r, gamma, lr, term, V, entry_name="entry"):
    """the textbook one-entry TD update"""
    if not same_shape(E, f"{tag}.shape", Qn, Q):
        return
    S, A = Q.shape
    notdone = 1 if term is None else 1 - C.ite(term, 1, 0)
    claim(E, f"{tag}.{entry_name}", Qn.at(s, a) == td_target_value(Q, s, a, r, gamma, lr, notdone, V), assume_after=False)
    sz, az = s.z, a.z
    forall_goal(E, 
        f"{tag}.frame", [INT, INT],
        lambda i, j: z3.Implies(z3.And(inb(i, S), inb(j, A), z3.Or(i != sz, j != az)), rz(Qn, i, j) == rz(Q, i, j)),
        hint="e", using=[])


def loop_prefix(E, qualname, upto, local_vars):
    """Execute the REAL statements of the (single) training loop body of
    `qualname` from its first statement up to and including the last statement
    containing `upto`, in a frame whose locals are `local_vars` (one arbitrary
    loop iteration: the loop-carried locals are arbitrary symbolic values, the
    environment is a ScriptedEnv answering with arbitrary values).  Returns
    the locals afterwards.  This covers the call-site argument construction of
    the update functions."""
    cl = E.resolve(qualname)
    E.loader.note_entered(cl)
    loops = [st for st in cl.node.body if isinstance(st, ast.For)]
    if len(loops) != 1:
        raise C.Unsupported(f"{qualname}: expected exactly one training loop")
    body = loops[0].body
    last = [k for k, st in enumerate(body) if upto in ast.unparse(st)]
    if not last:
        raise C.Unsupported(f"{qualname}: no statement containing {upto!r} in the training loop")
    fr = Frame(cl.qualname, cl.module, parent=cl.env, closure=cl)
    fr.vars.update(local_vars)
    E.exec_block(body[: last[-1] + 1], fr)
    return fr.vars


def _stub_eps_greedy(shared):
    """behaviour policy replaced by its contract: SOME action of the table's
    action set (the calls are recorded for the call-site obligations)"""
    def stub(E, q_table, observation, epsilon, key):
        A = q_table.shape[-1]
        act = E.st.fresh_sym("policy_action", INT, is_input=True)
        E.assume(band(act >= 0, C.compare("<", act, A)))
        E.st.ghost.setdefault("policy_calls", []).append((q_table, observation, act))
        return act
    shared.stubs["rl_blox.blox.value_policy.epsilon_greedy_policy"] = stub


def _loop_locals(E, **kw):
    d = dict(epsilon=E.real("epsilon"), logger=None, steps_per_episode=E.int("steps_per_episode"), i=E.int("i"),
             t=E.int("t"), key=E.val("key", KEY), progress_bar=False)
    d.update(kw)
    return d


def policy_call(E, tag, k, n, obs, table=None):
    """the k-th of n behaviour-policy calls was made on (table, obs); returns its action"""
    calls = E.st.ghost.get("policy_calls", [])
    ok = len(calls) == n and calls[k][1] is obs and (table is None or calls[k][0] is table)
    verdict(E, tag, ok, f"{len(calls)} behaviour policy calls / wrong arguments")
    return calls[k][2] if ok else None


# ---------------------------------------------------------- td_error / greedy
def h_td_error(E):
    r, g, v, nv = E.real("reward"), E.real("gamma"), E.real("value"), E.real("next_value")
    d = E.call("rl_blox.util.error_functions.td_error", r, g, v, nv)
    claim(E, "td_error.formula", d == r + g * nv - v)
    claim(E, "canary.td_error", d == r + nv - v, assume_after=False)


def h_greedy(E):
    S, A = _dims(E)
    Q = T.fresh_tensor("Q", (S, A), REAL)
    s = _idx(E, "s", S)
    g = E.call(GREEDY, Q, s)
    if isinstance(g, T.Tensor):
        if g.ndim:
            E.st.fail("greedy.scalar", f"shape {g.shape}")
            return
        g = g.at()
    E.st.ok("greedy.scalar")
    claim(E, "greedy.in_range", band(g >= 0, g < A))
    sz, gz = s.z, C.as_int(g)
    forall_goal(E, "greedy.maximal", [INT], lambda b: z3.Implies(inb(b, A), rz(Q, sz, b) <= rz(Q, sz, gz)), hint="b")
    forall_goal(E, "greedy.first_maximiser", [INT], lambda b: z3.Implies(z3.And(b >= 0, b < gz), rz(Q, sz, b) < rz(Q, sz, gz)), hint="b")
    claim(E, "greedy.value_is_row_max", Q.at(s, g) == row_max(Q, s))
    claim(E, "canary.greedy", C.compare("==", g, 0), assume_after=False)


# ------------------------------------------------------------------ Q-learning
def h_q_learning(E):
    """_update_policy with the next action the loop passes: greedy_policy(Q, s')"""
    S, A = _dims(E)
    Q = T.fresh_tensor("Q", (S, A), REAL)
    s, a, s2 = _idx(E, "s", S), _idx(E, "a", A), _idx(E, "s_next", S)
    r, gamma, lr, term = _hyper(E)
    na = E.call(GREEDY, Q, s2)
    Qn = E.call(ALG + "q_learning._update_policy", Q, s, a, r, s2, na, gamma, term, lr)
    td_post(E, "post", Q, Qn, s, a, r, gamma, lr, term, row_max(Q, s2))
    claim(E, "canary.unchanged", Qn.at(s, a) == Q.at(s, a), assume_after=False)


def h_q_learning_callsite(E):
    """one iteration of train_q_learning up to the update"""
    S, A = _dims(E)
    Q = T.fresh_tensor("Q", (S, A), REAL)
    s, s2 = _idx(E, "s", S), _idx(E, "s_next", S)
    r, gamma, lr, term = _hyper(E)
    env = X.ScriptedEnv(steps=[(s2, r, term, E.bool("truncated"), {})])
    out = loop_prefix(E, ALG + "q_learning.train_q_learning", "_update_policy", _loop_locals(
        E, env=env, q_table=Q, observation=s, gamma=gamma, learning_rate=lr))
    a = policy_call(E, "callsite.behaviour_policy_on_current_state", 0, 1, s, Q)
    if a is None:
        return
    claim(E, "callsite.env_receives_policy_action", band(len(env.actions) == 1, C.compare("==", env.actions[0], a)))
    td_post(E, "callsite", Q, out["q_table"], s, a, r, gamma, lr, term, row_max(Q, s2))
    claim(E, "canary.callsite", out["q_table"].at(s, a) == Q.at(s, a), assume_after=False)


# ------------------------------------------------------------------------ SARSA
def h_sarsa(E):
    S, A = _dims(E)
    Q = T.fresh_tensor("Q", (S, A), REAL)
    s, a, s2, a2 = _idx(E, "s", S), _idx(E, "a", A), _idx(E, "s_next", S), _idx(E, "a_next", A)
    r, gamma, lr, term = _hyper(E)
    Qn = E.call(ALG + "sarsa._update_policy", Q, s, a, r, s2, a2, gamma, lr, term)
    td_post(E, "post", Q, Qn, s, a, r, gamma, lr, term, Q.at(s2, a2))
    claim(E, "canary.unchanged", Qn.at(s, a) == Q.at(s, a), assume_after=False)


def h_sarsa_callsite(E):
    """one iteration of train_sarsa up to the update: the next action is
    drawn by the behaviour policy at the successor state"""
    S, A = _dims(E)
    Q = T.fresh_tensor("Q", (S, A), REAL)
    s, s2 = _idx(E, "s", S), _idx(E, "s_next", S)
    r, gamma, lr, term = _hyper(E)
    env = X.ScriptedEnv(steps=[(s2, r, term, E.bool("truncated"), {})])
    out = loop_prefix(E, ALG + "sarsa.train_sarsa", "_update_policy", _loop_locals(
        E, env=env, q_table=Q, observation=s, gamma=gamma, learning_rate=lr))
    a = policy_call(E, "callsite.behaviour_policy_on_current_state", 0, 2, s, Q)
    a2 = policy_call(E, "callsite.next_action_from_policy_at_successor", 1, 2, s2, Q)
    if a is None or a2 is None:
        return
    claim(E, "callsite.env_receives_policy_action", band(len(env.actions) == 1, C.compare("==", env.actions[0], a)))
    td_post(E, "callsite", Q, out["q_table"], s, a, r, gamma, lr, term, Q.at(s2, a2))
    claim(E, "canary.callsite", out["q_table"].at(s, a) == Q.at(s, a), assume_after=False)


# -------------------------------------------------------------- double Q-learning
def double_q_value(Qu, Qo, s2):
    """the OTHER table's value of the UPDATED table's greedy action at s'"""
    return Qo.at(s2, row_argmax(Qu, s2))


def h_dql(E):
    S, A = _dims(E)
    Q1 = T.fresh_tensor("Q_updated", (S, A), REAL)
    Q2 = T.fresh_tensor("Q_other", (S, A), REAL)
    s, a, s2 = _idx(E, "s", S), _idx(E, "a", A), _idx(E, "s_next", S)
    r, gamma, lr, term = _hyper(E)
    Qn = E.call(ALG + "double_q_learning._dql_update", E.val("key", KEY), Q1, Q2, s, a, r, s2, gamma, lr, term)
    td_post(E, "post", Q1, Qn, s, a, r, gamma, lr, term, double_q_value(Q1, Q2, s2))
    claim(E, "canary.unchanged", Qn.at(s, a) == Q1.at(s, a), assume_after=False)


def h_dql_callsite(E):
    """one iteration of train_double_q_learning up to the update: coin flip,
    then exactly one table is updated with the other one as evaluator"""
    S, A = _dims(E)
    Qa = T.fresh_tensor("q_table1", (S, A), REAL)
    Qb = T.fresh_tensor("q_table2", (S, A), REAL)
    s, s2 = _idx(E, "s", S), _idx(E, "s_next", S)
    r, gamma, lr, term = _hyper(E)
    env = X.ScriptedEnv(steps=[(s2, r, term, E.bool("truncated"), {})])
    out = loop_prefix(E, ALG + "double_q_learning.train_double_q_learning", "_dql_update", _loop_locals(
        E, env=env, q_table1=Qa, q_table2=Qb, observation=s, gamma=gamma, learning_rate=lr))
    a = policy_call(E, "callsite.behaviour_policy_on_current_state", 0, 1, s)
    if a is None:
        return
    claim(E, "callsite.env_receives_policy_action", band(len(env.actions) == 1, C.compare("==", env.actions[0], a)))
    n1, n2 = out["q_table1"], out["q_table2"]
    if not verdict(E, "callsite.exactly_one_table_updated", (n1 is Qa) != (n2 is Qb), "both or neither table replaced"):
        return
    if n2 is Qb:
        td_post(E, "callsite", Qa, n1, s, a, r, gamma, lr, term, double_q_value(Qa, Qb, s2))
        claim(E, "canary.callsite", n1.at(s, a) == Qa.at(s, a), assume_after=False)
    else:
        td_post(E, "callsite", Qb, n2, s, a, r, gamma, lr, term, double_q_value(Qb, Qa, s2))
        claim(E, "canary.callsite", n2.at(s, a) == Qb.at(s, a), assume_after=False)


# ------------------------------------------------------------------ Monte-Carlo
MC_BODY = ALG + "monte_carlo.update.<locals>._update_body"


def _mc_inputs(E, L):
    S, A = _dims(E)
    Q = T.fresh_tensor("Q", (S, A), REAL)
    N = T.fresh_tensor("n_visits", (S, A), REAL)
    gamma = E.real("gamma")
    if isinstance(L, int):
        rew = T.from_list([E.real(f"reward{t}") for t in range(L)])
        obs = T.from_list([_idx(E, f"s{t}", S) for t in range(L)])
        act = T.from_list([_idx(E, f"a{t}", A) for t in range(L)])
    else:
        rew = T.fresh_tensor("rewards", (L,), REAL)
        obs = T.fresh_tensor("observations", (L,), INT)
        act = T.fresh_tensor("actions", (L,), INT)
        E.st.assume_forall([INT], lambda t: z3.Implies(inb(t, L), z3.And(inb(C.as_int(obs.at(t)), S), inb(C.as_int(act.at(t)), A))), "episode.in_range")
    return S, A, Q, N, gamma, rew, obs, act


def h_mc_step(E):
    """inductive step of the backward fold (jax.lax.fori_loop in `update`):
    ONE application of the real `_update_body` to an arbitrary loop state that
    satisfies the fold invariant."""
    L = E.int("L", 1)
    S, A, Q0, N0, gamma, rew, obs, act = _mc_inputs(E, L)
    # ghost: G(t) = discounted return of the episode suffix starting at t
    G = z3.Function("G_suffix", INT, REAL)
    Lz, gz = L.z, gamma.z
    E.assume(Sym(G(Lz) == 0))
    E.st.assume_forall([INT], lambda t: z3.Implies(inb(t, L), G(t) == rz(rew, t) + gz * G(t + 1)), "G.def")
    done = {}

    def cut(E, lower, upper, body, init):
        # ---- base: the initial loop state establishes the invariant
        q_i, n_i, g_i = init
        ok = (q_i is Q0) and (n_i is N0)
        verdict(E, "fold.base.tables", ok, "loop does not start from the given tables")
        claim(E, "fold.base.bounds", band(C.compare("==", lower, 0), C.compare("==", upper, L)))
        claim(E, "fold.base.return_is_zero", C.compare("==", g_i, 0))
        # ---- arbitrary iteration i with an arbitrary state satisfying the invariant
        i = E.int("i")
        E.assume(band(i >= 0, i < L))
        t = L - 1 - i  # time step processed by iteration i (backward)
        Q = T.fresh_tensor("Q_i", (S, A), REAL)
        N = T.fresh_tensor("n_i", (S, A), REAL)
        RS = T.fresh_tensor("return_sum_i", (S, A), REAL)  # ghost: sum of observed returns per entry
        Gi = E.real("ep_return_i")
        E.assume(Sym(Gi.z == G(t.z + 1)))  # INV-G: ep_return == G(t+1)
        # INV-mean: n >= 0, n*Q == sum of observed returns (n == 0: nothing observed)
        E.st.assume_forall([INT, INT], lambda x, y: z3.Implies(z3.And(inb(x, S), inb(y, A)), z3.And(
            rz(N, x, y) >= 0, z3.Implies(rz(N, x, y) > 0, rz(Q, x, y) * rz(N, x, y) == rz(RS, x, y)),
            z3.Implies(rz(N, x, y) == 0, rz(RS, x, y) == 0))), "INV.mean")
        res = E.call_value(body, [i, (Q, N, Gi)], {})
        Qn, Nn, Gn = res
        if not (same_shape(E, "body.q.shape", Qn, Q) and same_shape(E, "body.n.shape", Nn, N)):
            return res
        o, a, r = obs.at(t), act.at(t), rew.at(t)
        oz, az = C.as_int(o), C.as_int(a)
        claim(E, "body.return.recursion", Gn == r + gamma * Gi)
        claim(E, "fold.step.return_is_suffix_return", Sym(C.as_real(Gn) == G(t.z)))
        claim(E, "body.count.entry", Nn.at(o, a) == N.at(o, a) + 1)
        forall_goal(E, "body.count.frame", [INT, INT], lambda x, y: z3.Implies(
            z3.And(inb(x, S), inb(y, A), z3.Or(x != oz, y != az)), rz(Nn, x, y) == rz(N, x, y)), hint="e", using=["episode.in_range"])
        claim(E, "body.q.entry", Qn.at(o, a) == Q.at(o, a) + (Gn - Q.at(o, a)) / Nn.at(o, a))
        forall_goal(E, "body.q.frame", [INT, INT], lambda x, y: z3.Implies(
            z3.And(inb(x, S), inb(y, A), z3.Or(x != oz, y != az)), rz(Qn, x, y) == rz(Q, x, y)), hint="e", using=["episode.in_range"])
        claim(E, "body.q.incremental_mean", Qn.at(o, a) == (N.at(o, a) * Q.at(o, a) + Gn) / (N.at(o, a) + 1),
                 using=["episode.in_range", "INV.mean"])
        RSn = T.at_set(RS, (o, a), Gn, "add")  # ghost update: the return observed for (o, a)
        inv_at = lambda Qt, Nt, Rt, x, y: z3.And(  # noqa: E731
            rz(Nt, x, y) >= 0, z3.Implies(rz(Nt, x, y) > 0, rz(Qt, x, y) * rz(Nt, x, y) == rz(Rt, x, y)),
            z3.Implies(rz(Nt, x, y) == 0, rz(Rt, x, y) == 0))
        claim(E, "fold.step.mean_invariant.visited_entry", Sym(inv_at(Qn, Nn, RSn, oz, az)), assume_after=False, using=["episode.in_range", "INV.mean"])
        forall_goal(E, "fold.step.mean_invariant.other_entries", [INT, INT], lambda x, y: z3.Implies(
            z3.And(inb(x, S), inb(y, A), z3.Or(x != oz, y != az)), inv_at(Qn, Nn, RSn, x, y)), hint="e", using=["episode.in_range", "INV.mean"])
        claim(E, "canary.body", Qn.at(o, a) == Q.at(o, a), assume_after=False)
        # ---- after the loop: an arbitrary state (the invariant at i == L is all the caller may use)
        Qf = T.fresh_tensor("Q_final", (S, A), REAL)
        Nf = T.fresh_tensor("n_final", (S, A), REAL)
        done["final"] = (Qf, Nf)
        return (Qf, Nf, E.real("ep_return_final"))

    E.shared.fori_specs = {MC_BODY: cut}
    res = E.call(ALG + "monte_carlo.update", Q0, N0, rew, obs, act, gamma)
    if "final" not in done:
        E.st.fail("update.uses_fold", "update did not run its fold")
        return
    Qf, Nf = done["final"]
    vals = list(res.values) if isinstance(res, C.NamedTuple) else list(res)
    if len(vals) == 2 and vals[0] is Qf and vals[1] is Nf:
        E.st.ok("update.returns_q_table_then_n_visits")
    else:
        E.st.fail("update.returns_q_table_then_n_visits", "result is not (q_table, n_visits) of the fold")


def mk_mc_episode(L):
    def h(E):
        """whole `update` on an episode of concrete length L (fori_loop unrolled)
        against the textbook every-visit backward pass"""
        S, A, Q, N, gamma, rew, obs, act = _mc_inputs(E, L)
        E.st.assume_forall([INT, INT], lambda x, y: rz(N, x, y) >= 0, "counts.nonneg")
        res = E.call(ALG + "monte_carlo.update", Q, N, rew, obs, act, gamma)
        Qn, Nn = res.get("q_table"), res.get("n_visits")
        Qr, Nr, G = Q, N, 0
        for t in reversed(range(L)):
            o, a = obs.at(t), act.at(t)
            G = rew.at(t) + gamma * G
            Nr = T.at_set(Nr, (o, a), 1, "add")
            Qr = T.at_set(Qr, (o, a), (G - Qr.at(o, a)) / Nr.at(o, a), "add")
        if not (same_shape(E, "episode.q.shape", Qn, Q) and same_shape(E, "episode.n.shape", Nn, N)):
            return
        forall_goal(E, "episode.q", [INT, INT], lambda x, y: z3.Implies(z3.And(inb(x, S), inb(y, A)), rz(Qn, x, y) == rz(Qr, x, y)), hint="e", using=["counts"])
        forall_goal(E, "episode.n", [INT, INT], lambda x, y: z3.Implies(z3.And(inb(x, S), inb(y, A)), rz(Nn, x, y) == rz(Nr, x, y)), hint="e", using=["counts"])
        claim(E, "canary.episode", Qn.at(obs.at(0), act.at(0)) == Q.at(obs.at(0), act.at(0)), assume_after=False)
    return h


# ----------------------------------------------------------------------- Dyna-Q
DY = ALG + "dynaq."


def greedy_update_spec(Q, s, a, r, s2, gamma, lr):
    """textbook greedy-successor (Q-learning) update of one entry"""
    return T.at_set(Q, (s, a), td_target_value(Q, s, a, r, gamma, lr, 1, row_max(Q, s2)), "set")


def h_dyna_q_update(E):
    S, A = _dims(E)
    Q = T.fresh_tensor("Q", (S, A), REAL)
    s, a, s2 = _idx(E, "s", S), _idx(E, "a", A), _idx(E, "s_next", S)
    r, gamma, lr = E.real("reward"), E.real("gamma"), E.real("learning_rate")
    Qn = E.call(DY + "q_learning_update", s, a, r, s2, gamma, lr, Q)
    td_post(E, "post", Q, Qn, s, a, r, gamma, lr, None, row_max(Q, s2))
    claim(E, "canary.unchanged", Qn.at(s, a) == Q.at(s, a), assume_after=False)


def tensors_equal(E, name, X_, Y_, S, A):
    if not same_shape(E, name + ".shape", X_, Y_):
        return
    forall_goal(E, name, [INT, INT], lambda i, j: z3.Implies(z3.And(inb(i, S), inb(j, A)), rz(X_, i, j) == rz(Y_, i, j)), hint="e",
                       using=["max", "randint", "buffer"])


def _buffers(E, S, A):
    B = E.int("B", 1)
    ob = T.fresh_tensor("obs_buffer", (B,), INT)
    ab = T.fresh_tensor("act_buffer", (B,), INT)
    E.st.assume_forall([INT], lambda k: z3.Implies(inb(k, B), z3.And(inb(C.as_int(ob.at(k)), S), inb(C.as_int(ab.at(k)), A))), "buffer.in_range")
    return B, ob, ab


def _draw(key, j):
    """index drawn for planning step j: planning() splits its key in two and
    draws randint(sampling_key, (n,), 0, len(buffer)) - the witness of
    'a pair drawn from the visited buffers'"""
    split = C.uf("key_split", KEY, INT, KEY)
    rnd = C.uf("rand_int1", KEY, INT, INT)
    return Sym(rnd(split(key.z, z3.IntVal(1)), z3.IntVal(j)))


def mk_planning(n_steps):
    def h(E):
        S, A = _dims(E)
        Q = T.fresh_tensor("Q", (S, A), REAL)
        Tm = T.fresh_tensor("model_transition", (S, A, S), REAL)
        Rm = T.fresh_tensor("model_reward", (S, A, S), REAL)
        B, ob, ab = _buffers(E, S, A)
        gamma, lr = E.real("gamma"), E.real("learning_rate")
        key = E.val("key", KEY)
        Qn = E.call(DY + "planning", Tm, Rm, ob, ab, n_steps, key, gamma, lr, Q)
        Qs = Q
        for j in range(n_steps):
            k = _draw(key, j)
            claim(E, f"planning.step{j}.pair_drawn_from_buffers", band(k >= 0, k < B), using=["randint"])
            s, a = ob.at(k), ab.at(k)  # the SAME position of both buffers: a visited pair
            s2 = T.reduce(T.index(Tm, (s, a)), "argmax")  # most likely successor under the model
            Qs = greedy_update_spec(Qs, s, a, Rm.at(s, a, s2), s2, gamma, lr)
        tensors_equal(E, "planning.result_is_greedy_update_of_replayed_transitions", Qn, Qs, S, A)
        claim(E, "canary.planning", Qn.at(ob.at(_draw(key, 0)), ab.at(_draw(key, 0))) == Q.at(ob.at(_draw(key, 0)), ab.at(_draw(key, 0))), assume_after=False)
    return h


def _counter_and_model(E, S, A):
    cnt = X.fresh_count_table(E, "transition_counter", (S, A, S))
    hist = X.fresh_history_table(E, "reward_history", (S, A, S))
    counter = E.new_obj(DY + "Counter", name="counter", transition_counter=cnt, reward_history=hist)
    Tm = T.fresh_tensor("model.transition", (S, A, S), REAL)
    Rm = T.fresh_tensor("model.reward", (S, A, S), REAL)
    model = E.new_obj(DY + "ForwardModel", name="model", transition=Tm, reward=Rm)
    c0, l0, m0 = cnt.t, hist.ln, hist.sm
    return counter, model, cnt, hist, Tm, Rm, c0, l0, m0


def iz(t, *i):
    return C.as_int(t.at(*i))


def model_row_invariant(Tm, Rm, c, l, m, tot, s, a, S):
    """MI for row (s, a): empirical frequencies and mean rewards"""
    sz, az, tz = C.to_z3(s), C.to_z3(a), C.as_real(tot)
    return lambda k: z3.Implies(inb(k, S), z3.And(
        z3.Implies(tz > 0, rz(Tm, sz, az, k) == z3.ToReal(iz(c, sz, az, k)) / tz),
        z3.Implies(iz(c, sz, az, k) > 0, rz(Rm, sz, az, k) == rz(m, sz, az, k) / z3.ToReal(iz(l, sz, az, k)))))


def h_model_update(E):
    """counter_update ; model_update  on an observed transition (s, a, r, s')"""
    S, A = _dims(E)
    counter, model, cnt, hist, T0, R0, c0, l0, m0 = _counter_and_model(E, S, A)
    s, a, s2 = _idx(E, "s", S), _idx(E, "a", A), _idx(E, "s_next", S)
    r = E.real("reward")
    sz, az, s2z = s.z, a.z, s2.z
    # counter well-formed (CI): counts are naturals, one stored reward per counted
    # transition - assumed on the visited row and at one ARBITRARY cell (ci, cj, ck)
    # (manual Skolemisation of "forall cells", keeps every query ground / 1-ary)
    ci, cj, ck = _idx(E, "cell_s", S), _idx(E, "cell_a", A), _idx(E, "cell_s_next", S)
    wf = lambda c, l, i, j, k: z3.And(iz(c, i, j, k) >= 0, iz(l, i, j, k) == iz(c, i, j, k))  # noqa: E731
    E.st.assume_forall([INT], lambda k: wf(c0, l0, sz, az, k), "CI.row")
    E.assume(Sym(wf(c0, l0, ci.z, cj.z, ck.z)))
    # model invariant on the visited row before the step
    tot0 = T.reduce(T.index(c0, (s, a)), "sum")
    E.st.assume_forall([INT], model_row_invariant(T0, R0, c0, l0, m0, tot0, s, a, S), "MI.pre")
    c_ret = E.call(DY + "counter_update", counter, s, a, r, s2)
    verdict(E, "counter.returns_counter", c_ret is counter, "not the counter")
    c1, l1, m1 = cnt.t, hist.ln, hist.sm
    hit = lambda i, j, k: z3.And(i == sz, j == az, k == s2z)  # noqa: E731
    rng = lambda i, j, k: z3.And(inb(i, S), inb(j, A), inb(k, S))  # noqa: E731
    claim(E, "counter.count.entry", c1.at(s, a, s2) == c0.at(s, a, s2) + 1)
    forall_goal(E, "counter.count.frame", [INT] * 3, lambda i, j, k: z3.Implies(z3.And(rng(i, j, k), z3.Not(hit(i, j, k))), iz(c1, i, j, k) == iz(c0, i, j, k)), hint="c", using=[])
    claim(E, "counter.rewards.entry", band(l1.at(s, a, s2) == l0.at(s, a, s2) + 1, m1.at(s, a, s2) == m0.at(s, a, s2) + r))
    forall_goal(E, "counter.rewards.frame", [INT] * 3, lambda i, j, k: z3.Implies(z3.And(rng(i, j, k), z3.Not(hit(i, j, k))),
                       z3.And(iz(l1, i, j, k) == iz(l0, i, j, k), rz(m1, i, j, k) == rz(m0, i, j, k))), hint="c", using=[])
    claim(E, "counter.wf_preserved", Sym(wf(c1, l1, ci.z, cj.z, ck.z)), assume_after=False, using=[])
    # finite-sum lemmas relating the row totals before / after the increment
    _, tot1 = X.sum_point_update_lemmas(E, c0, c1, (s, a), s2, 1)
    m_ret = E.call(DY + "model_update", model, counter, s, a, s2)
    verdict(E, "model.returns_model", m_ret is model, "not the model")
    T1, R1 = model.fields["transition"], model.fields["reward"]
    if not (same_shape(E, "model.transition.shape", T1, T0) and same_shape(E, "model.reward.shape", R1, R0)):
        return
    t1 = C.as_real(tot1)
    USE = ["MI.pre", "CI.row"]
    claim(E, "inv.total_positive", C.compare(">", tot1, 0), using=USE)
    claim(E, "inv.frequency_of_observed_successor", Sym(rz(T1, sz, az, s2z) == z3.ToReal(iz(c1, sz, az, s2z)) / t1), using=USE)
    # the learned model equals the empirical successor frequencies of the visited pair
    forall_goal(E, "inv.frequencies", [INT], lambda k: z3.Implies(inb(k, S), rz(T1, sz, az, k) == z3.ToReal(iz(c1, sz, az, k)) / t1), hint="succ", using=USE)
    claim(E, "inv.mean_reward", Sym(rz(R1, sz, az, s2z) == rz(m1, sz, az, s2z) / z3.ToReal(iz(l1, sz, az, s2z))), using=USE)
    forall_goal(E, "inv.mean_reward_other_successors", [INT], lambda k: z3.Implies(z3.And(inb(k, S), k != s2z, iz(c1, sz, az, k) > 0),
                       rz(R1, sz, az, k) == rz(m1, sz, az, k) / z3.ToReal(iz(l1, sz, az, k))), hint="succ", using=USE)
    # rows of other (state, action) pairs are untouched (their invariant carries over: counters unchanged too)
    forall_goal(E, "frame.other_rows", [INT] * 3, lambda i, j, k: z3.Implies(z3.And(rng(i, j, k), z3.Or(i != sz, j != az)),
                       z3.And(rz(T1, i, j, k) == rz(T0, i, j, k), rz(R1, i, j, k) == rz(R0, i, j, k))), hint="c", using=[])
    claim(E, "canary.model", Sym(rz(T1, sz, az, s2z) == rz(T0, sz, az, s2z)), assume_after=False)
    claim(E, "canary.counter", c1.at(s, a, s2) == c0.at(s, a, s2), assume_after=False)


def h_dyna_callsite(E):
    """one iteration of train_dynaq up to planning: direct RL update on the
    real transition, counter / model update with the same transition, planning
    on the updated model and table (1 planning step, 2 older buffer entries)"""
    S, A = _dims(E)
    Q = T.fresh_tensor("Q", (S, A), REAL)
    counter, model, cnt, hist, T0, R0, c0, l0, m0 = _counter_and_model(E, S, A)
    s, s2 = _idx(E, "s", S), _idx(E, "s_next", S)
    r, gamma, lr = E.real("reward"), E.real("gamma"), E.real("learning_rate")
    old = [(_idx(E, f"s_old{k}", S), _idx(E, f"a_old{k}", A)) for k in range(2)]
    key = E.val("key", KEY)
    env = X.ScriptedEnv(steps=[(s2, r, E.bool("terminated"), E.bool("truncated"), {})])
    out = loop_prefix(E, DY + "train_dynaq", "planning(", _loop_locals(
        E, env=env, q_table=Q, obs=s, gamma=gamma, learning_rate=lr, n_planning_steps=1, counter=counter, model=model,
        obs_buffer=[p[0] for p in old], act_buffer=[p[1] for p in old], key=key, accumulated_reward=E.real("accumulated_reward")))
    a = policy_call(E, "callsite.behaviour_policy_on_current_state", 0, 1, s, Q)
    if a is None:
        return
    claim(E, "callsite.env_receives_policy_action", band(len(env.actions) == 1, C.compare("==", env.actions[0], a)))
    Qn = out["q_table"]
    c1, l1, m1 = cnt.t, hist.ln, hist.sm
    claim(E, "callsite.counter_sees_real_transition", band(c1.at(s, a, s2) == c0.at(s, a, s2) + 1, m1.at(s, a, s2) == m0.at(s, a, s2) + r))
    ob = T.from_list([p[0] for p in old] + [s])  # the visited pairs, the current one included
    ab = T.from_list([p[1] for p in old] + [a])
    # key threading of the loop: key,k_pol = split(key); key,k_plan = split(key); planning(..., k_plan, ...)
    split = C.uf("key_split", KEY, INT, KEY)
    k = _draw(Sym(split(split(key.z, z3.IntVal(0)), z3.IntVal(1))), 0)
    claim(E, "callsite.planning.pair_drawn_from_buffers", band(k >= 0, k < 3), using=["randint"])
    T1, R1 = model.fields["transition"], model.fields["reward"]
    Q1 = greedy_update_spec(Q, s, a, r, s2, gamma, lr)  # direct RL on the real transition
    ps, pa = ob.at(k), ab.at(k)
    ps2 = T.reduce(T.index(T1, (ps, pa)), "argmax")
    Q2 = greedy_update_spec(Q1, ps, pa, R1.at(ps, pa, ps2), ps2, gamma, lr)  # replayed from the UPDATED model
    tensors_equal(E, "callsite.real_then_replayed_update", Qn, Q2, S, A)
    claim(E, "canary.callsite", Qn.at(s, a) == Q.at(s, a), assume_after=False)


# ------------------------------------------------- Monte-Carlo call site
def h_mc_callsite(E):
    """one iteration of train_monte_carlo: the tables change only when an
    episode ends, and then update() receives exactly the finished episode
    (recorded steps start_t..i-1 plus the current step), time aligned"""
    S, A = _dims(E)
    Q = T.fresh_tensor("Q", (S, A), REAL)
    N = T.fresh_tensor("n_visits", (S, A), REAL)
    s, s2 = _idx(E, "s", S), _idx(E, "s_next", S)
    r, gamma = E.real("reward"), E.real("gamma")
    term, trunc = E.bool("terminated"), E.bool("truncated")
    TT = E.int("total_timesteps", 1)
    i, start = E.int("i"), E.int("start_t")
    E.assume(band(start >= 0, start <= i, i < TT))
    obs0 = T.fresh_tensor("obs_arr", (TT,), INT)
    act0 = T.fresh_tensor("act_arr", (TT,), INT)
    rew0 = T.fresh_tensor("rew_arr", (TT,), REAL)
    Qf = T.fresh_tensor("Q_after", (S, A), REAL, is_input=False)
    Nf = T.fresh_tensor("n_after", (S, A), REAL, is_input=False)
    seen = {}

    def update_stub(E, *args):
        seen["args"] = args
        return (Qf, Nf)

    E.shared.stubs[ALG + "monte_carlo.update"] = update_stub
    env = X.ScriptedEnv(steps=[(s2, r, term, trunc, {})], resets=[(_idx(E, "s_reset", S), {})])
    out = loop_prefix(E, ALG + "monte_carlo.train_monte_carlo", "update(", _loop_locals(
        E, env=env, q_table=Q, n_visits=N, observation=s, gamma=gamma, obs_arr=obs0, act_arr=act0, rew_arr=rew0,
        i=i, start_t=start))
    a = policy_call(E, "callsite.behaviour_policy_on_current_state", 0, 1, s, Q)
    if a is None:
        return
    claim(E, "callsite.env_receives_policy_action", band(len(env.actions) == 1, C.compare("==", env.actions[0], a)))
    if "args" not in seen:
        claim(E, "callsite.no_update_only_mid_episode", bnot(bor(term, trunc)))
        verdict(E, "callsite.tables_unchanged_mid_episode", out["q_table"] is Q and out["n_visits"] is N, "tables replaced mid-episode")
        claim(E, "callsite.episode_start_kept", C.compare("==", out["start_t"], start))
        claim(E, "canary.mid_episode", term, assume_after=False)
        return
    claim(E, "callsite.update_only_at_episode_end", bor(term, trunc))
    args = seen["args"]
    if not verdict(E, "callsite.update_gets_tables_and_gamma", len(args) == 6 and args[0] is Q and args[1] is N and args[5] is gamma, "wrong tables / gamma"):
        return
    rew, obs, act = args[2], args[3], args[4]
    L = i + 1 - start
    ok = all(isinstance(x, T.Tensor) and x.ndim == 1 for x in (rew, obs, act))
    if not verdict(E, "callsite.episode_arrays_are_vectors", ok, "episode arrays are not 1-d"):
        return
    claim(E, "callsite.episode_length", band(*[C.compare("==", x.shape[0], L) for x in (rew, obs, act)]))
    iz_, sz_ = i.z, start.z
    forall_goal(E, "callsite.episode_is_recorded_steps_plus_current", [INT], lambda k: z3.Implies(z3.And(k >= 0, k < C.to_z3(L)), z3.And(
        rz(rew, k) == z3.If(sz_ + k == iz_, r.z, rz(rew0, sz_ + k)),
        C.as_int(obs.at(k)) == z3.If(sz_ + k == iz_, s.z, C.as_int(obs0.at(sz_ + k))),
        C.as_int(act.at(k)) == z3.If(sz_ + k == iz_, C.as_int(a), C.as_int(act0.at(sz_ + k))))), hint="k", using=[])
    verdict(E, "callsite.result_adopted", out["q_table"] is Qf and out["n_visits"] is Nf, "update result not stored as (q_table, n_visits)")
    claim(E, "callsite.next_episode_starts_after", C.compare("==", out["start_t"], i + 1))
    claim(E, "canary.episode_end", bnot(term), assume_after=False)


# ------------------------------------------------------------------------ tasks
TASKS = [
    Task("td_error", h_td_error),
    Task("greedy_policy", h_greedy),
    Task("q_learning._update_policy", h_q_learning),
    Task("q_learning.train", h_q_learning_callsite, setup=_stub_eps_greedy),
    Task("sarsa._update_policy", h_sarsa),
    Task("sarsa.train", h_sarsa_callsite, setup=_stub_eps_greedy),
    Task("_dql_update", h_dql),
    Task("double_q.train", h_dql_callsite, setup=_stub_eps_greedy),
    Task("monte_carlo.fold", h_mc_step),
    Task("monte_carlo.episode1", mk_mc_episode(1), bounded="episode length 1 (fori_loop unrolled)"),
    Task("monte_carlo.episode2", mk_mc_episode(2), bounded="episode length 2 (fori_loop unrolled; repeated visits allowed)"),
    Task("monte_carlo.train", h_mc_callsite, setup=_stub_eps_greedy),
    Task("dynaq.q_learning_update", h_dyna_q_update),
    Task("model_update", h_model_update),
    Task("dynaq.planning1", mk_planning(1)),
    Task("dynaq.planning2", mk_planning(2), bounded="2 planning steps (python loop unrolled)"),
    Task("dynaq.train", h_dyna_callsite, setup=_stub_eps_greedy, bounded="1 planning step, replay buffers of 3 entries"),
]

TRUSTED = [
    "reals for float32 table entries, rewards, gamma, learning rate (no rounding)",
    "jax .at[i,j].add/.set = functional point update; jnp.argmax = first maximiser; jax.jit is semantics preserving",
    "jax.lax.fori_loop(lo, hi, f, x) = fold of f over range(lo, hi) (induction principle used for monte_carlo.update: base + step)",
    "python nested lists as total functions of in-range indices; list[float] abstracted by (len, sum); np.mean(l) = sum(l)/len(l)",
    "finite-sum lemmas (pyvc/lib/ext_tabular.sum_point_update_lemmas): sum after a point increment = sum + 1; a sum of naturals dominates each summand",
    "jax.random.randint(key, (n,), 0, m) returns n integers in [0, m); jax.random.split yields keys (uninterpreted)",
]
ASSUMPTIONS = [
    "states / actions / successor states are in-range indices of the tables (JAX clamps or drops out-of-range indices silently)",
    "tables have shape (S, A) with S, A >= 1; the Dyna-Q model and counter have shape (S, A, S)",
    "Monte-Carlo visit counts are >= 0 and, for the running-mean invariant, n*Q == sum of the returns observed so far (n == 0: none)",
    "Dyna-Q counter is well-formed before the step: counts are naturals and one reward is stored per counted transition",
    "Dyna-Q model satisfies the model invariant on the visited row before the step (inductive hypothesis)",
    "call sites: epsilon_greedy_policy is replaced by its contract (returns SOME in-range action); the environment answers env.step with arbitrary values",
    "Dyna-Q successor replayed from the model = the most likely successor argmax_k T[s,a,k] (first maximiser), reward = R[s,a,that successor]",
]
NOT_COVERED = [
    "episode bookkeeping after the update call in the train_* loops (logger, env.reset, observation hand-over) and the loops' iteration structure: one arbitrary iteration is executed up to the update call",
    "Monte-Carlo: the fold is proved by induction (base + step of the real _update_body) and end-to-end only for episode lengths 1 and 2",
    "Dyna-Q bootstraps from the successor even when the transition terminated (q_learning_update has no termination flag; the property statement does not demand one for Dyna-Q)",
    "Dyna-Q call site with more than one planning step / buffers longer than 3 (the per-step law is proved for arbitrary buffers in dynaq.planning1/2); the deque's maxlen eviction",
    "float32 rounding of the running mean / frequencies",
]
REPLAY = {
    "_dql_update.": "c14_tabular", "double_q.train.": "c14_tabular", "model_update.": "c14_tabular",
    "q_learning.": "c14_tabular", "sarsa.": "c14_tabular", "monte_carlo.": "c14_tabular", "dynaq.": "c14_tabular",
    "td_error.": "c14_tabular", "greedy_policy.": "c14_tabular",
}
