"""C14 - tabular learners apply their textbook update to exactly one entry.  (draft)"""
import z3

from pyvc import core as C
from pyvc import tensor as T
from pyvc.core import INT, REAL, Sym, band, bnot, bor, iff, implies
from pyvc.runner import Task

PROPERTY = "C14"
LEVEL = "proof"
A_ = "rl_blox.algorithm."


def _table(E, name, S, A):
    return T.fresh_tensor(name, (S, A), REAL)


def _dims(E):
    return E.int("S", 1), E.int("A", 1)


def _idx(E, name, n):
    i = E.int(name)
    E.assume(band(i >= 0, i < n))
    return i


def h_q(E):
    S, A = _dims(E)
    Q = _table(E, "Q", S, A)
    s, a, s2 = _idx(E, "s", S), _idx(E, "a", A), _idx(E, "s_next", S)
    r, gamma, lr = E.real("r"), E.real("gamma"), E.real("lr")
    term = E.bool("terminated")
    na = E.call("rl_blox.blox.value_policy.greedy_policy", Q, s2)
    Q2 = E.call(A_ + "q_learning._update_policy", Q, s, a, r, s2, na, gamma, term, lr)
    V = T.reduce(T.index(Q, (s2,)), "max")
    tz = C.ite(term, 1, 0)
    E.oblige("entry", Q2.at(s, a) == Q.at(s, a) + lr * (r + gamma * (1 - tz) * V - Q.at(s, a)))
    E.oblige("canary.x", Q2.at(s, a) == Q.at(s, a), assume_after=False)


TASKS = [Task("q_learning", h_q)]
TRUSTED = []
ASSUMPTIONS = []
NOT_COVERED = []
READY = False
