"""C09 - training is a deterministic function of seed, initial state and environment.

What is decided here is the property's SECOND sentence, as an effect contract
`deterministic_given(args, key, rng, env)` carried by every function of

  F = every function defined in rl_blox/algorithm/*.py, blox/replay_buffer.py,
      blox/multitask.py, blox/mapb.py and everything in rl_blox they reach
      (call graph from the AST: imports, methods, nested defs, partial/jit
      wrappers, by-name dispatch on receivers of unknown class).

and discharged function by function (pyvc/effects.py, a compositional AST pass;
no symbolic execution).  One obligation per (function, effect clause):

  no_global_rng / key_discipline / no_time_dependence / no_unordered_iteration /
  calls_have_contract            (see pyvc/effects.py for the exact rules)
  no_shared_mutable_state        (pyvc/effects_state.py: class-level / module-level mutable objects that the code mutates)
  no_uninitialised_read          (pyvc/effects_uninit.py: np.empty / jnp.empty storage is consumed only through an index)

Obligation names: C09.<module>.<function qualname>.<clause>.
"""
import os

from pyvc import effects, effects_state, effects_uninit
from pyvc.runner import Task

PROPERTY = "C09"
LEVEL = "other"
LEVEL_TEXT = ("C09 - effect (purity/determinism) contract for every function reachable from the training routines: no unseeded "
              "global randomness, key/Generator discipline, no time dependence, no unordered-container order dependence; "
              "bit-identity is derived under library-determinism assumptions")
TECHNIQUE = ("compositional effect-contract checking on the real AST (pyvc/effects.py): call graph + flow-insensitive abstract "
             "interpretation (provenance roots, wall-clock taint, set element kinds) with inter-procedural summaries; "
             "no solver involved; native replay = run the routine twice and compare bitwise")
LEVEL_NOTE = ("decides the second sentence of the property per (function, clause); assumes JAX/XLA CPU, NumPy, Optax, Flax and "
              "Gymnasium are deterministic given equal inputs, int-set iteration order is insertion-determined, callable "
              "parameters are deterministic by precondition")

EXPLANATION = (
    "Decides the second sentence of C09 as an effect (purity) contract, not bit-identity itself. For every function "
    "reachable from rl_blox/algorithm/*.py, blox/replay_buffer.py, blox/multitask.py and blox/mapb.py (call graph built "
    "from the AST of the real source, rl_blox is never imported) five clauses are checked at every call site and data-flow "
    "edge: (1) no call to hidden global randomness (np.random.<fn> on the global RandomState, random.*, os.urandom, uuid.*, "
    "secrets.*, default_rng()/default_rng(None), module-level Generator objects); (2) key discipline: the key argument of "
    "every jax.random draw/split is derived by data flow from a parameter or from jax.random.key/PRNGKey(seed) of a "
    "deterministic seed, and every NumPy draw is a method of a Generator that is a parameter or comes from "
    "default_rng(seed); (3) time.*/datetime.* values flow only into wall-clock log fields (start_time, the loggers' t "
    "records), printed text, paths and the logging back end - never into a return value, a branch condition or an argument "
    "of any other call (intra-procedural taint pass, attributes that receive wall-clock values taint every read of that "
    "attribute name); (4) no hash() of non-ints, no id(), and no order-exposing use (iteration, list(), pop(), passing to a "
    "library call, sorted/min/max with key=) of a set unless every element put into it is proven int by a small type "
    "inference that follows set()/add/update/copy, return tuples and call-site arguments across functions; dict iteration is "
    "ordered and allowed; (5) every call targets a repo function carrying this contract, a library with an assumed "
    "'function of its arguments and of the explicit key/Generator/env' contract, or a callable parameter (deterministic by "
    "precondition; listed in the assumptions); (6) no hidden process-global mutable state: a class-level attribute whose value is "
    "not provably immutable, is not rebound in __init__ and is mutated in place somewhere in the package, or a module-level "
    "name that a function re-assigns through `global` or mutates in place, is a violation (a second run in the same process "
    "would start from the first run's leftovers); (7) no read of uninitialised storage: an array allocated by np.empty / "
    "jnp.empty / empty_like and held in a local or an instance attribute is consumed only through a subscript (the index or "
    "slice names the cells read; C02 / C08 oblige those to be written cells), metadata, len() or fill() - a whole-array "
    "reduction, arithmetic on it, or passing / returning it whole makes the result a function of the allocator's leftovers and "
    "is a violation (arrays kept inside containers, i.e. the replay buffers' field dictionary, are C02's subject). A violated clause is a failed obligation naming file:line. Bit-identity of "
    "two runs is then DERIVED under the listed library-determinism assumptions (JAX/XLA CPU, NumPy, Gymnasium, Optax), it "
    "is not proved end to end. Replay of a failed obligation runs the flagged training routine twice with equal seeds and "
    "compares parameters/counters bitwise (replay/drivers/c09_twice.py)."
)


def _short_mod(m):
    return m.split(".", 1)[1].replace(".", "_") if "." in m else m


_CANARY_FOR = list(effects.CANARIES)


def _make(module, idx):
    def harness(E):
        R = effects.analyse(E.shared.loader.root)
        entered = getattr(getattr(E.shared, "loader", None), "entered", None)
        for fi, clause, verdict, detail in R.obligations(module):
            name = f"{fi.short}.{clause}"
            if verdict == "ok":
                E.st.ok(name, backend="effects")
            elif verdict == "undecided":
                E.st.undecided(name, detail)
            else:
                roots = R.training_roots(fi.qual)
                E.st.fail(name, f"{detail} [reached-from={','.join(roots)}]")
            if entered is not None and fi.qual not in entered:
                entered[fi.qual] = R.function_record(fi)
        # sixth clause: no hidden process-global mutable state (class-level / module-level objects mutated by the
        # training code; pyvc/effects_state.py) - one obligation per class attribute / module-level assignment
        for r in effects_state.analyse_root(E.shared.loader.root):
            if r["module"] != module:
                continue
            name = f"{r['owner']}.no_shared_mutable_state[{r['name']}]"
            if r["verdict"] == "ok":
                E.st.ok(name, backend="effects")
            else:
                E.st.fail(name, r["detail"])
        if effects_state.run_canary():
            E.st.fail("canary.shared_state_detected", "synthetic class-level list / module-level dict flagged (as required)")
        else:
            E.st.ok("canary.shared_state_detected")
        # seventh clause: storage allocated with arbitrary contents (np.empty / jnp.empty) is read only through an index
        # (pyvc/effects_uninit.py) - one obligation per tracked array
        for r in effects_uninit.analyse_root(E.shared.loader.root):
            if r["module"] != module:
                continue
            name = f"{r['owner']}.no_uninitialised_read[{r['name']}]"
            if r["verdict"] == "ok":
                E.st.ok(name, backend="effects")
            else:
                E.st.fail(name, r["detail"])
        if effects_uninit.run_canary():
            E.st.fail("canary.uninitialised_read_detected", "synthetic whole-array reads of np.empty storage flagged (as required)")
        else:
            E.st.ok("canary.uninitialised_read_detected")
        # vacuity canary: the same analysis on a synthetic violating module must flag it
        cname = _CANARY_FOR[idx % len(_CANARY_FOR)]
        found, clause = effects.run_canary(cname)
        if found:
            E.st.fail(f"canary.{cname}", found[0].text())
        else:
            E.st.ok(f"canary.{cname}")

    harness.__name__ = "h_" + _short_mod(module)
    return harness


def _build():
    R = effects.analyse(os.environ.get("PYVC_REPO", "/repo"))
    tasks = []
    for i, m in enumerate(sorted(R.modules())):
        tasks.append(Task(_short_mod(m), _make(m, i)))
    return R, tasks


_R, TASKS = _build()
EXPLANATION += (
    f" On this tree: {len(_R.covered)} functions in {len(TASKS)} modules x {len(effects.CLAUSES)} clauses; sites checked: "
    + ", ".join(f"{k}={v}" for k, v in sorted(_R.G.stats.items()))
    + f"; call-graph edges: {sum(len(v) for v in _R.G.edges.values())}; attributes holding wall-clock values: "
    + ", ".join(sorted(_R.G.wall_fields)) + "."
)

TRUSTED = [
    "pyvc/effects.py: call-graph construction and abstract evaluation over Python's ast (flow-insensitive, weak updates)",
    "CPython ast module (source text of the files under the repo root)",
]
ASSUMPTIONS = [
    "JAX/XLA on CPU, NumPy, Optax, Flax nnx and Gymnasium environments are deterministic given equal inputs: results are a "
    "function of the arguments and of the explicit key / Generator / env object (the property's own premise for the environment)",
    "env.action_space.sample() is seeded through the environment / action_space.seed (premise 'identically seeded environment "
    "including its action-space sampler'); call sites: " + "; ".join(sorted(n.split(": ")[0] for n in _R.G.notes if "action-space sampler" in n)),
    "CPython iteration order of a set of ints is a function of its insertion history (no hash randomisation for ints); "
    "int-set iteration sites: " + "; ".join(sorted(n.split(": ")[0] for n in _R.G.notes if "set of ints" in n)),
    "callable / object parameters are deterministic by precondition (they are the caller's obligation): "
    + "; ".join(_R.dynamic_callables()),
    "parameters of the anchor routines are not hash-ordered containers of non-int elements (only sets whose construction is "
    "visible in rl_blox are typed)",
    "constant seeds (jax.random.key(0), nnx.Rngs(0) used as defaults) are deterministic",
    "wall-clock values handed to logging back ends (aim Run.track step=, orbax save paths) stay in the log: "
    + "; ".join(sorted(n.split(": ")[0] for n in _R.G.notes if "logging backend" in n)),
]
NOT_COVERED = [
    "bit-identity end to end (2-safety through JAX/XLA) is derived under the assumptions, not proved",
    "uninitialised storage reached through an alias (`x = self.priority; x.max()`), inside a container (ReplayBuffer.buffer[k]: C02), "
    "or through an over-long slice (`A[:n]` with n beyond the written prefix: C02 / C08 index obligations)",
    "heap aliasing: a wall-clock value stored in a container and read back through an alias with a different attribute name",
    "dynamic features (getattr with computed names, exec/eval, monkey patching), thread scheduling, XLA GPU non-determinism",
    "functions of rl_blox not reachable from the anchor files (e.g. logging.plot_stats, MemoryLogger.get_stat, which return wall-clock log fields)",
]
REPLAY = {"": "c09_twice"}
