"""C19 - saved models and buffers reload to identical state and behaviour.

Partially within reach of contracts (DESIGN 5, C19): the byte-level round trip
is done by pickle / Orbax / nnx.split-merge, which are SPECIFIED here, not
verified.  What is proved on the real rl_blox code, modulo those library
contracts:
  * `__setstate__(fresh, pickle(__getstate__(buf)))` reproduces every attribute
    of the buffer (all classes, including the subclass fields: priorities, last
    sampled indices, masks, episode counters) and rebuilds `Batch` from the
    buffer's keys; since every public method's contract (C02/C04/C08) is a
    function of exactly that state and of the generator, identical subsequent
    behaviour follows - additionally checked directly by running the real
    add_sample on the original and on the reloaded buffer side by side;
  * save_pickle / load_pickle, OrbaxCheckpointer.save_model, restore_checkpoint
    hand the STATE OF THE GIVEN MODEL to the library and merge what comes back
    with ITS graphdef (the argument obligations of the round-trip lemma).
The library round trips themselves are exercised by a native bounded stand-in
(task `native.roundtrips`), labelled bounded and never counted as proved.
"""
import z3

from pyvc import core as C
from pyvc import tensor as T
from pyvc.core import INT, REAL, VAL, NamedTupleType, NDArr, Obj, Sym, band
from pyvc.lib.builtins_model import deep_copy
from pyvc.lib.nnx_model import leaf_nets, leaf_vars, mk_net, mk_variable
from pyvc.runner import Task

from . import buffers as B
from .buffers import RB

PROPERTY = "C19"
LEVEL = "other"
EXPLANATION = ("Repo-side round-trip lemmas are proved by symbolic execution of the real __getstate__/__setstate__/save/load code against assumed "
               "contracts of pickle, Orbax and nnx.split/merge (deep structural copy with fresh identity); the library round trips themselves are "
               "covered only by a bounded native stand-in (every buffer class x {empty, partial, wrapped, mid-episode, non-uniform priorities} x short "
               "continuations; pickle and Orbax round trips of small modules), labelled bounded. End-to-end bit-identity is derived, not proved.")


def same_value(a, b):
    """structural equality of two symbolic values (terms identical, containers element-wise)"""
    if isinstance(a, Sym) and isinstance(b, Sym):
        return z3.eq(z3.simplify(a.z), z3.simplify(b.z))
    if isinstance(a, NDArr) and isinstance(b, NDArr):
        return z3.eq(a.data, b.data) and same_value(_len(a), _len(b)) and a.elem_sort == b.elem_sort and getattr(a, "dtype", None) == getattr(b, "dtype", None)
    if isinstance(a, T.Tensor) and isinstance(b, T.Tensor):
        if a.ndim != b.ndim or not all(T.dim_eq(x, y) for x, y in zip(a.shape, b.shape)):
            return False
        idx = [z3.Int(f"eq!{k}") for k in range(a.ndim)]
        return same_value(a.at(*idx), b.at(*idx))
    if isinstance(a, dict) and isinstance(b, dict):
        return list(a.keys()) == list(b.keys()) and all(same_value(a[k], b[k]) for k in a)
    if isinstance(a, (list, tuple)) and isinstance(b, (list, tuple)):
        return len(a) == len(b) and all(same_value(x, y) for x, y in zip(a, b))
    if isinstance(a, set) and isinstance(b, set):
        return a == b
    if isinstance(a, Obj) and isinstance(b, Obj):
        return a.cls is b.cls and same_fields(a, b) == []
    if isinstance(a, NamedTupleType) and isinstance(b, NamedTupleType):
        return a.fields == b.fields
    return type(a) is type(b) and a == b


def _len(a):
    return a.length if isinstance(a.length, int) else Sym(a.length)


def same_fields(a: Obj, b: Obj, skip=()):
    bad = []
    for k in set(a.fields) | set(b.fields):
        if k in skip:
            continue
        if k not in a.fields or k not in b.fields or not same_value(a.fields[k], b.fields[k]):
            bad.append(k)
    return sorted(bad)


def disjoint(a, b):
    """no shared mutable storage between the two object graphs"""
    def collect(x, acc):
        if isinstance(x, (Obj, NDArr, list, dict, set)):
            if id(x) in acc:
                return
            acc[id(x)] = x
        if isinstance(x, Obj):
            for v in x.fields.values():
                collect(v, acc)
        elif isinstance(x, dict):
            for v in x.values():
                collect(v, acc)
        elif isinstance(x, (list, tuple)):
            for v in x:
                collect(v, acc)
    A, Bb = {}, {}
    collect(a, A)
    collect(b, Bb)
    return not (set(A) & set(Bb))


def roundtrip(E, buf):
    """pickle protocol on the real class: state = buf.__getstate__(); bytes; fresh.__setstate__(state')"""
    state = E.call(E.getattr(buf, "__getstate__"))
    if not isinstance(state, dict):
        E.st.fail("getstate.returns_dict", str(type(state)))
        return None
    loaded = deep_copy(E, state)  # assumed contract of pickle.loads(pickle.dumps(state))
    fresh = Obj(buf.cls, {}, name="reloaded")
    E.register(fresh)
    E.call(E.getattr(fresh, "__setstate__"), loaded)
    return fresh


def check_reload(E, prefix, buf, fresh):
    bad = same_fields(buf, fresh, skip=("Batch",))
    (E.st.ok if not bad else E.st.fail)(f"{prefix}.every_attribute_restored", *([] if not bad else [f"attributes differ after reload: {bad}"]))
    bt = fresh.fields.get("Batch")
    ok = isinstance(bt, NamedTupleType) and bt.fields == list(fresh.fields.get("buffer", {}).keys())
    (E.st.ok if ok else E.st.fail)(f"{prefix}.batch_type_rebuilt_from_keys", *([] if ok else [f"Batch fields {getattr(bt, 'fields', bt)}"]))
    (E.st.ok if disjoint(buf, fresh) else E.st.fail)(f"{prefix}.no_shared_storage_with_original", *([] if disjoint(buf, fresh) else ["reloaded buffer aliases the original's arrays"]))
    E.oblige(f"canary.{prefix}", C.compare("==", 1, 0), assume_after=False)


def mk_buffer_task(cls):
    def h(E):
        if cls in ("ReplayBuffer", "LAP", "PrioritizedReplayBuffer"):
            v = B.make_replay_buffer(E, cls)
            buf = v.obj
            if cls != "ReplayBuffer":
                from .C08 import make_pb
                pb, pr, maxp = make_pb(E, v.N, buf.fields["current_len"])
                buf.fields["priority"] = pb
            sample = {k: E.val(f"s_{k}") for k in v.keys}
        else:
            from . import C04
            s = C04.make_state(E, cls)
            buf = s.obj
            E.assume(s.g >= 1)
            if cls.endswith("PER"):
                from .C08 import make_pb
                pb, pr, maxp = make_pb(E, s.N, s.len)
                buf.fields["priority"] = pb
            sample = {k: E.val(f"s_{k}") for k in C04.KEYS[:4]}
            sample["terminated"], sample["truncated"] = E.bool("terminated"), E.bool("truncated")
        before = deep_copy(E, buf)  # ghost copy of the original's state
        fresh = roundtrip(E, buf)
        if fresh is None:
            return
        bad0 = same_fields(before, buf)
        (E.st.ok if not bad0 else E.st.fail)("save.original_unchanged", *([] if not bad0 else [f"saving modified {bad0}"]))
        check_reload(E, "reload", buf, fresh)
        # identical evolution under a further addition (real add_sample on both)
        E.call(E.getattr(buf, "add_sample"), **sample)
        E.call(E.getattr(fresh, "add_sample"), **sample)
        bad = same_fields(buf, fresh, skip=("Batch",))
        # arrays written through a vectorised store get fresh array symbols per execution:
        # compare those extensionally (forall slot: equal contents) instead of syntactically
        still = []
        for k in bad:
            a, b = buf.fields.get(k), fresh.fields.get(k)
            if isinstance(a, NDArr) and isinstance(b, NDArr) and a.elem_sort == b.elem_sort and same_value(_len(a), _len(b)):
                da, db = a.data, b.data
                E.st.oblige_forall(f"continuation.same_contents[{k}]", [INT], lambda i, da=da, db=db: z3.Select(da, i) == z3.Select(db, i), hint="i", using=["fancy"])
            else:
                still.append(k)
        (E.st.ok if not still else E.st.fail)("continuation.same_evolution_under_add_sample", *([] if not still else [f"states diverge after one addition: {still}"]))
    return h


def h_empty_buffer(E):
    """a freshly constructed (empty, arrays not yet allocated) buffer reloads as well"""
    buf = E.call(RB + "ReplayBuffer", E.int("N", 1))
    fresh = roundtrip(E, buf)
    if fresh is not None:
        check_reload(E, "reload_empty", buf, fresh)


def h_multitask_default_pickling(E):
    ci = E.resolve(RB + "MultiTaskReplayBuffer")
    custom = [m for m in ("__getstate__", "__setstate__", "__reduce__", "__reduce_ex__", "__getnewargs__") if ci.lookup(m) is not None]
    (E.st.ok if not custom else E.st.fail)("multitask.uses_default_pickling_of_all_attributes", *([] if not custom else [f"custom pickling hooks {custom} are not covered"]))
    E.oblige("canary.mt", C.compare("==", 1, 0), assume_after=False)


# ---------------------------------------------------------------- modules
def _params(m):
    """every variable of the module: trainable parameters of the leaf networks AND non-Param nnx.Variables"""
    return [(n.name, n.fields["$params"].z) for n in leaf_nets(m)] + [(v.name, v.fields["$value"].z) for v in leaf_vars(m)]


def _tanh_policy(E, name):
    """a policy head as the library builds it: a network plus two plain (non-Param) nnx.Variables"""
    return E.new_obj("rl_blox.blox.function_approximator.policy_head.DeterministicTanhPolicy", name=name, policy_net=mk_net(E, f"{name}.policy_net", 2),
                     action_scale=mk_variable(E, f"{name}.action_scale"), action_bias=mk_variable(E, f"{name}.action_bias"))


def mk_pickle_task(device):
    def h(E):
        net = E.new_obj("rl_blox.blox.double_qnet.ContinuousClippedDoubleQNet", name="net", q1=mk_net(E, "net.q1", 1), q2=mk_net(E, "net.q2", 1))
        before = _params(net)
        fn = "model.pkl"
        E.call("rl_blox.util.serialize.save_pickle", fn, net, device)
        dumps = E.st.ghost.get("pickle_dumps", [])
        from pyvc.lib.nnx_model import StateVal
        ok = len(dumps) == 1 and dumps[0][0] == fn and isinstance(dumps[0][1], StateVal) and [z3.eq(a[1], b[1]) for a, b in zip(dumps[0][1].entries, before)] == [True] * len(before)
        (E.st.ok if ok else E.st.fail)("save_pickle.writes_the_state_of_the_given_model", *([] if ok else [str(dumps)[:200]]))
        same = all(z3.eq(a[1], b[1]) for a, b in zip(before, _params(net)))
        (E.st.ok if same else E.st.fail)("save_pickle.model_unchanged", *([] if same else ["model parameters written"]))
        graphdef = E.shared.lib.funcs["flax.nnx.split"].fn(E, net)[0]
        net2 = E.call("rl_blox.util.serialize.load_pickle", fn, graphdef, device)
        ok2 = isinstance(net2, Obj) and net2 is not net and [z3.eq(a[1], b[1]) for a, b in zip(before, _params(net2))] == [True] * len(before) and len(_params(net2)) == len(before)
        (E.st.ok if ok2 else E.st.fail)("load_pickle.returns_module_with_saved_parameters_and_given_graphdef", *([] if ok2 else ["reloaded parameters differ"]))
        (E.st.ok if disjoint(net, net2) else E.st.fail)("load_pickle.fresh_object", *([] if disjoint(net, net2) else ["aliases the original"]))
        E.oblige("canary.pickle", C.compare("==", 1, 0), assume_after=False)
    return h


def h_bad_device(E):
    net = mk_net(E, "net", 2)
    kind, r = E.call_catch("rl_blox.util.serialize.save_pickle", "m.pkl", net, "tpu0")
    (E.st.ok if kind == "raise" else E.st.fail)("save_pickle.unknown_device_rejected", *([] if kind == "raise" else ["accepted"]))
    E.oblige("canary.dev", C.compare("==", 1, 0), assume_after=False)


def h_orbax(E):
    from pyvc.lib.ext_logging import new_checkpointer
    from pyvc.lib.nnx_model import StateVal

    a = E.new_obj("rl_blox.blox.double_qnet.ContinuousClippedDoubleQNet", name="model_a", q1=mk_net(E, "a.q1", 1), q2=mk_net(E, "a.q2", 1))
    b = E.new_obj("rl_blox.blox.double_qnet.ContinuousClippedDoubleQNet", name="model_b", q1=mk_net(E, "b.q1", 1), q2=mk_net(E, "b.q2", 1))
    ck = new_checkpointer(E)
    lg = E.new_obj("rl_blox.logging.checkpointer.OrbaxCheckpointer", name="orbax_logger", checkpointer=ck)
    path = "ckpt/q_1"
    before = _params(a)
    E.call(E.getattr(lg, "save_model"), path, a)
    ev = ck.fields["$events"]
    saves = [e for e in ev if e[0] == "save"]
    ok = len(saves) == 1 and saves[0][2] == path and isinstance(saves[0][3], StateVal) and all(z3.eq(x[1], y[1]) for x, y in zip(saves[0][3].entries, before))
    (E.st.ok if ok else E.st.fail)("save_model.saves_state_of_given_model_under_given_path", *([] if ok else [str(saves)[:200]]))
    waited = ev and ev[-1][0] == "wait"
    (E.st.ok if waited else E.st.fail)("save_model.waits_until_finished", *([] if waited else ["returns before the asynchronous save finished"]))
    restored = E.call("rl_blox.blox.probabilistic_ensemble.restore_checkpoint", path, b)
    ok2 = isinstance(restored, Obj) and len(_params(restored)) == len(before) and all(z3.eq(x[1], y[1]) for x, y in zip(before, _params(restored)))
    (E.st.ok if ok2 else E.st.fail)("restore_checkpoint.merges_saved_state_with_given_models_graphdef", *([] if ok2 else ["restored parameters differ from the saved ones"]))
    same_b = restored is not b
    (E.st.ok if same_b else E.st.fail)("restore_checkpoint.returns_new_module", *([] if same_b else ["returned the template module itself"]))
    # a module that also holds non-Param variables (the tanh policy heads of DDPG / TD3 / TD7 / SAC / MR.Q): the
    # checkpoint must carry EVERY variable, or the reload differs from (or cannot be merged into) the saved module
    pa, pb = _tanh_policy(E, "policy_a"), _tanh_policy(E, "policy_b")
    want = _params(pa)
    n_ev = len(ck.fields["$events"])
    E.call(E.getattr(lg, "save_model"), "ckpt/policy_1", pa)
    saves = [e for e in ck.fields["$events"][n_ev:] if e[0] == "save"]
    ok = len(saves) == 1 and isinstance(saves[0][3], StateVal) and len(saves[0][3].entries) == len(want) and all(z3.eq(x[1], y[1]) for x, y in zip(saves[0][3].entries, want))
    (E.st.ok if ok else E.st.fail)("save_model.saves_every_variable_of_the_model[tanh policy head]", *([] if ok else [f"{len(saves[0][3].entries) if saves and isinstance(saves[0][3], StateVal) else '?'} of {len(want)} variables saved"]))
    kind, rest = E.call_catch("rl_blox.blox.probabilistic_ensemble.restore_checkpoint", "ckpt/policy_1", pb)
    ok = kind == "ok" and isinstance(rest, Obj) and len(_params(rest)) == len(want) and all(z3.eq(x[1], y[1]) for x, y in zip(want, _params(rest)))
    (E.st.ok if ok else E.st.fail)("restore_checkpoint.reloads_every_variable[tanh policy head]", *([] if ok else [f"restore {kind}: {rest if kind != 'ok' else 'variables differ'}"[:200]]))
    E.oblige("canary.orbax", C.compare("==", 1, 0), assume_after=False)


TASKS = [
    Task("ReplayBuffer", mk_buffer_task("ReplayBuffer")),
    Task("ReplayBuffer[empty]", h_empty_buffer),
    Task("LAP", mk_buffer_task("LAP")),
    Task("PrioritizedReplayBuffer", mk_buffer_task("PrioritizedReplayBuffer")),
    Task("SubtrajectoryReplayBuffer", mk_buffer_task("SubtrajectoryReplayBuffer")),
    Task("SubtrajectoryReplayBufferPER", mk_buffer_task("SubtrajectoryReplayBufferPER")),
    Task("MultiTaskReplayBuffer", h_multitask_default_pickling),
    Task("serialize.pickle", mk_pickle_task(None)),
    Task("serialize.pickle[cpu]", mk_pickle_task("cpu")),
    Task("serialize.unknown_device", h_bad_device),
    Task("orbax.save_restore", h_orbax),
    Task("native.roundtrips", native="c19_roundtrip", bounded="every buffer class x {empty, partial, wrapped, mid-episode, non-uniform priorities} x continuations of <= 6 operations; pickle / Orbax round trips of 3 small module types"),
]
TRUSTED = [
    "pickle.load(pickle.dump(x)) is a deep structural copy of x (dicts, ndarrays, ints, sets, nested buffers, nnx.State) with fresh identity",
    "nnx.merge(graphdef, nnx.split(m).state) is structurally m; Orbax restore(save(path, st)) returns st",
]
ASSUMPTIONS = [
    "identical subsequent behaviour is a corollary: every public buffer operation's contract (C02, C04, C08) is a function of the restored attributes and of the generator state",
    "device placement (move_to_device) is the identity on values",
]
NOT_COVERED = ["on-disk formats and byte-level identity (library); StandardLogger._save_checkpoint's path / state arguments are C20's obligations"]
REPLAY = {"": "c19_roundtrip"}
