"""C01 - stored experience equals what the environment actually produced.

Every interaction loop is verified against the Gymnasium typestate contract
(pyvc/lib/gym_model.py): at each store site (replay-buffer add_sample, rollout
row) the stored observation is the one the environment last returned before the
action, the action is the one passed to step, reward / successor / termination
flag come from that same step; at each acting site the policy is conditioned on
the environment's current observation - across episode boundaries, for any
number of steps (inductive loop invariants found by Houdini, see contracts/loops.py).
"""
from . import loops

PROPERTY = "C01"
LEVEL = "proof"
TASKS = loops.tasks_for({"C01"})
TRUSTED = ["Gymnasium Env API contract (reset/step typestate, pyvc/lib/gym_model.py)"] + loops.EXTRA_TRUSTED
ASSUMPTIONS = [
    "callees of the loop (update routines, samplers, loggers, buffers) cannot rebind the loop's locals and do not mutate observation arrays in place (frame contracts of the stubs)",
    "value-preserving casts (int(), np.asarray, jnp.asarray) are the identity on stored values (DESIGN 4.2)",
] + loops.EXTRA_ASSUMPTIONS
NOT_COVERED = ["that the buffer then keeps the transition unmodified is C02; PPO's temporary value-bootstrap observation is C07"] + loops.EXTRA_NOT_COVERED
REPLAY = loops.REPLAY  # loops_native (replay-buffer family) / loops_extra_native (tabular, on-policy collectors, rollout helper)
