"""C11 (scheduler part) - task selectors, the discounted-UCB bandit and the multi-task schedulers.

Functions under contract:
  rl_blox.blox.multitask.TaskSelector / RoundRobinSelector / DUCBGeneralized   (typestate, valid ids, class invariants)
  rl_blox.blox.mapb.DUCB                                                        (initial rounds, arg-max rule, history bookkeeping)
  rl_blox.algorithm.uniform_task_sampling.train_uts
  rl_blox.algorithm.active_mt.train_active_mt
  rl_blox.algorithm.smt.train_smt / smt_stage1 / smt_stage2                     (step accounting, budget, valid task ids)

Postconditions are transcribed from the property statement (C11, last two
sentences) and from the docstrings ("training_steps : Number of training steps
for each task", "Round Robin: Cycles through tasks in order", the D-UCB
reference Garivier & Moulines 2008 cited in mapb.py), never from the code.

The single-task routine `train_st` is a PARAMETER of the schedulers: it is
replaced by the contract proved for every train_* routine in contracts/loops.py
(post.budget, post.episodes, post.accounting) - see `train_st_contract`.
"""
import itertools
from fractions import Fraction

import z3

from pyvc import core as C
from pyvc import tensor as T
from pyvc.core import BOOL, INT, REAL, Anything, Builtin, NamedTuple, NamedTupleType, NDArr, Obj, PyRaise, Sym, band, bnot, bor, iff, implies
from pyvc.interp import LoopSpec
from pyvc.lib import LIB
from pyvc.lib import ext_sched as XS
from pyvc.lib.ext_symlist import SymList, fresh_symlist
from pyvc.runner import Task

MT = "rl_blox.blox.multitask."
MAPB = "rl_blox.blox.mapb."
ALG = "rl_blox.algorithm."


def _b(x):
    """python bool / Sym -> Sym Bool"""
    return x if isinstance(x, Sym) else C.mk(z3.BoolVal(bool(x)))


def _raised(kind, v, exc="AssertionError"):
    return kind == "raise" and v.exc_type == exc


# =====================================================================================
# 1. selector typestate:  select requires not waiting, feedback requires waiting
# =====================================================================================
def _protocol_obligations(E, sel, w0, what, kind, v, tag):
    """shared by all selector classes.  `what` in {"select", "feedback"}; w0 the flag before the call.
    A call that violates the protocol must be REJECTED (the classes document this with an
    assertion message) and must leave the flag unchanged; a legal call flips the flag."""
    w1 = sel.fields["waiting_for_reward"]
    legal = bnot(w0) if what == "select" else _b(w0)
    if kind == "raise":
        if v.exc_type != "AssertionError":
            raise v
        E.oblige(f"{tag}.{what}.rejected_only_out_of_turn", bnot(legal))
        E.oblige(f"{tag}.{what}.rejected_call_leaves_flag", iff(_b(w1), _b(w0)))
    else:
        E.oblige(f"{tag}.{what}.accepted_only_in_turn", legal)
        E.oblige(f"{tag}.{what}.flips_waiting_flag", iff(_b(w1), _b(what == "select")))


def h_base_selector(E):
    n = E.int("n_tasks", 1)
    w0 = E.bool("waiting_for_reward")
    sel = E.new_obj(MT + "TaskSelector", name="selector", tasks=T.arange(n), waiting_for_reward=w0)
    if E.branch(E.bool("call_select")):
        kind, v = E.call_catch(E.getattr(sel, "select"))
        _protocol_obligations(E, sel, w0, "select", kind, v, "base")
        if kind == "ok":
            E.oblige("base.select.valid_task_id", band(C.compare(">=", v, 0), C.compare("<", v, n)))
            E.oblige("canary.base.select_is_one", C.compare("==", v, 1), assume_after=False)
    else:
        kind, v = E.call_catch(E.getattr(sel, "feedback"), E.real("reward"))
        _protocol_obligations(E, sel, w0, "feedback", kind, v, "base")
        E.oblige("canary.base.feedback_keeps_waiting", _b(sel.fields["waiting_for_reward"]), assume_after=False)


def h_base_init(E):
    n = E.int("n_tasks", 1)
    sel = E.call(MT + "TaskSelector", T.arange(n))
    E.oblige("base.init.not_waiting", bnot(sel.fields["waiting_for_reward"]))
    E.oblige("canary.base.init_waiting", _b(sel.fields["waiting_for_reward"]), assume_after=False)


# =====================================================================================
# 2. RoundRobinSelector
# =====================================================================================
def _rr_tasks(E, mode):
    """task list of the selector: np.arange(n_tasks) (what train_active_mt passes;
    symbolic n_tasks) or a python list of 2 / 3 arbitrary valid ids"""
    if mode == "arange":
        n = E.int("n_tasks", 1)
        return T.arange(n), n, n
    n_tasks = E.int("n_tasks", 1)
    ids = [E.int(f"tasks[{k}]", 0) for k in range(mode)]
    for t in ids:
        E.assume(t < n_tasks)
    return ids, mode, n_tasks


def _task_at(tasks, pos):
    if isinstance(tasks, list):
        r = tasks[-1]
        for k in range(len(tasks) - 2, -1, -1):
            r = C.ite(C.compare("==", pos, k), tasks[k], r)
        return r
    return tasks.at(pos)


def mk_h_rr(mode):
    def h(E):
        tasks, ln, n_tasks = _rr_tasks(E, mode)
        w0 = E.bool("waiting_for_reward")
        i0 = E.int("i", 0)  # class invariant RRWF: the position counter is a non-negative int
        sel = E.new_obj(MT + "RoundRobinSelector", name="selector", tasks=tasks, waiting_for_reward=w0, i=i0)
        if E.branch(E.bool("call_select")):
            kind, v = E.call_catch(E.getattr(sel, "select"))
            _protocol_obligations(E, sel, w0, "select", kind, v, "rr")
            i1 = sel.fields["i"]
            if kind == "ok":
                pos = C.binop("%", i1, ln)
                E.oblige("rr.select.valid_task_id", band(C.compare(">=", v, 0), C.compare("<", v, n_tasks)))
                E.oblige("rr.select.is_member_of_task_list", C.compare("==", v, _task_at(tasks, pos)))
                E.oblige("rr.select.advances_one_position_cyclically",
                         C.compare("==", pos, C.binop("%", C.binop("+", C.binop("%", i0, ln), 1), ln)))
                E.oblige("rr.select.invariant_preserved", C.compare(">=", i1, 0))
                E.oblige("canary.rr.select_returns_first", C.compare("==", v, _task_at(tasks, 0)), assume_after=False)
            else:
                E.oblige("rr.select.rejected_call_leaves_position", C.compare("==", i1, i0))
        else:
            kind, v = E.call_catch(E.getattr(sel, "feedback"), E.real("reward"))
            _protocol_obligations(E, sel, w0, "feedback", kind, v, "rr")
            E.oblige("rr.feedback.leaves_position", C.compare("==", sel.fields["i"], i0))
            E.oblige("canary.rr.feedback_keeps_waiting", _b(sel.fields["waiting_for_reward"]), assume_after=False)
    return h


def mk_h_rr_init(mode):
    def h(E):
        tasks, ln, n_tasks = _rr_tasks(E, mode)
        sel = E.call(MT + "RoundRobinSelector", tasks)
        E.oblige("rr.init.not_waiting", bnot(sel.fields["waiting_for_reward"]))
        E.oblige("rr.init.invariant", C.compare(">=", sel.fields["i"], 0))
        E.oblige("canary.rr.init_position_one", C.compare("==", sel.fields["i"], 1), assume_after=False)
    return h


def h_rr_cycle(E):
    """'Cycles through tasks': positions visited by n consecutive selections are pairwise
    different (so every task of the list is selected exactly once per n selections).
    Pure arithmetic consequence of rr.select.advances_one_position_cyclically; the
    position after a selections from p is (p + a) % n."""
    n = E.int("n_tasks", 1)
    p = E.int("p", 0)
    E.assume(p < n)
    a, b = E.int("a", 0), E.int("b", 0)
    E.assume(band(a < b, b < n))
    pa, pb = C.binop("%", C.binop("+", p, a), n), C.binop("%", C.binop("+", p, b), n)
    E.oblige("rr.cycle.step_composes", C.compare("==", C.binop("%", C.binop("+", pa, 1), n), C.binop("%", C.binop("+", p, C.binop("+", a, 1)), n)))
    E.oblige("rr.cycle.positions_pairwise_different_within_n_selections", C.compare("!=", pa, pb))
    E.oblige("canary.rr.cycle", C.compare("==", pa, p), assume_after=False)


SELECTOR_TASKS = [
    Task("TaskSelector", h_base_selector),
    Task("TaskSelector.init", h_base_init),
    Task("RoundRobinSelector[tasks=arange(n)]", mk_h_rr("arange")),
    Task("RoundRobinSelector[2 tasks]", mk_h_rr(2)),
    Task("RoundRobinSelector[3 tasks]", mk_h_rr(3)),
    Task("RoundRobinSelector.init[tasks=arange(n)]", mk_h_rr_init("arange")),
    Task("RoundRobinSelector.init[3 tasks]", mk_h_rr_init(3)),
    Task("RoundRobinSelector.cycle", h_rr_cycle),
]


# =====================================================================================
# 3. schedulers: shared infrastructure
# =====================================================================================
TASKSET = "stub.TaskSet"
TASKENV = "stub.TaskEnv"
VECENV = "gymnasium.vector.VectorEnv"
MTBUFFER = "stub.MultiTaskReplayBuffer"
SELECTABLE = "stub.TaskSelectable"
GHOST = "stub.SchedulerGhost"
RESULT = NamedTupleType("SingleTaskResult", ["policy", "global_step"])


def _id_ok(i, n):
    return band(C.compare(">=", i, 0), C.compare("<", i, n))


@LIB.cls(TASKSET)
def _taskset_attr(E, obj, name):
    n = obj.fields["$n"]
    if name == "get_task":
        def get_task(E, task_id):
            # DiscreteTaskSet.get_task: "assert 0 <= task_id < len(self.contexts)"
            E.oblige("get_task.pre.valid_task_id", _id_ok(task_id, n))
            return Obj(TASKENV, {"$task": task_id}, name="task-env")
        return Builtin("stub.TaskSet.get_task", get_task)
    if name == "get_context":
        def get_context(E, task_id):
            E.oblige("get_context.pre.valid_task_id", _id_ok(task_id, n))
            return Anything("context")
        return Builtin("stub.TaskSet.get_context", get_context)
    return NotImplemented


@LIB.cls(TASKENV)
def _taskenv_attr(E, obj, name):
    return NotImplemented


@LIB.cls(GHOST)
def _ghost_attr(E, obj, name):
    return NotImplemented


def _sched_len(E, v):
    if isinstance(v, Obj) and v.cls == TASKSET:
        return v.fields["$n"]
    return NotImplemented


LIB.len_handlers.insert(0, _sched_len)


def _select_task_stub(kind):
    """MultiTaskReplayBuffer.select_task / TaskSelectionMixin.select_task: 'ID of the
    task to select, usually an index' - must be a valid task index"""
    def handler(E, obj, name):
        if name == "select_task":
            def select_task(E, task_id):
                E.oblige(f"{kind}.select_task.pre.valid_task_id", _id_ok(task_id, obj.fields["$n"]))
                E.setfield(obj, "$task", task_id)
                E.setfield(obj, "$selected", True)
            return Builtin(f"stub.{kind}.select_task", select_task)
        return NotImplemented
    return handler


LIB.cls(MTBUFFER)(_select_task_stub("replay_buffer"))
LIB.cls(SELECTABLE)(_select_task_stub("task_selectable"))


def mk_task_set(E, n, vector):
    if vector:
        envs = [Obj(TASKENV, {"$task": i}, name=f"envs[{i}]") for i in range(n)]
        o = Obj(VECENV, {"num_envs": n, "envs": envs, "$n": n}, name="task_set")
    else:
        o = Obj(TASKSET, {"$n": n}, name="task_set")
    E.register(o)
    return o


def mk_ghost(E, n):
    g = Obj(GHOST, dict({"$executed": 0, "$calls": 0}, **{f"$on[{i}]": 0 for i in range(n)}), name="ghost")
    E.register(g)
    return g


def _env_task(env):
    if isinstance(env, Obj) and env.cls == XS.RES:
        return _env_task(env.fields["env"])
    if isinstance(env, Obj) and env.cls == TASKENV:
        return env.fields["$task"]
    return None


def train_st_contract(E, *a, **kw):
    """Contract of the single-task routine handed to a scheduler (C11 per-routine
    contract, proved for every train_* routine in contracts/loops.py):
      post.budget      k <= max(0, total_timesteps - global_step)    (k = env steps executed by the call)
      post.episodes    e <= total_episodes, the loop leaves as soon as the limit is reached
                       (=> every executed step belongs to one of the e completed episodes)
      post.accounting  result.global_step == global_step + k
      exit cause       the call returns only when the budget is used up or the episode limit is reached
    Ghost: the call is recorded in ghost.$executed / ghost.$on[task]; episodes completed
    through a RecordEpisodeStatistics wrapper are recorded in the wrapper (ext_sched)."""
    env = a[0] if a else kw["env"]
    total, gs = kw["total_timesteps"], kw["global_step"]
    te = kw.get("total_episodes")
    sh = E.shared
    g = E.heap["ghost"]
    task = _env_task(env)
    if task is None:
        E.st.fail("train_st.pre.env_is_a_task_environment", f"train_st called with env={env!r}")
        task = E.st.fresh_sym("unknown_task", INT)
    rb = kw.get("replay_buffer")
    if isinstance(rb, Obj) and rb.cls == MTBUFFER:
        # the routine stores into / samples from the buffer's currently selected task
        E.oblige("train_st.pre.replay_buffer_switched_to_the_scheduled_task", band(_b(rb.fields["$selected"]), C.compare("==", rb.fields["$task"], task)))
    for ts in sh.__dict__.get("selectables", ()):
        E.oblige("train_st.pre.task_selectables_informed_about_the_scheduled_task", band(_b(ts.fields["$selected"]), C.compare("==", ts.fields["$task"], task)))
    k = E.st.fresh_sym("steps_executed", INT)
    e = E.st.fresh_sym("episodes_completed", INT)
    c = E.st.fresh_sym("steps_in_completed_episodes", INT)
    remaining = C.smax(0, C.binop("-", total, gs))
    E.assume(band(k >= 0, C.compare("<=", k, remaining)))
    E.assume(band(e >= 0, c >= e, c <= k, implies(e == 0, c == 0)))
    if te is None:
        E.assume(C.compare("==", k, remaining))
    else:
        E.assume(C.compare("<=", e, te))
        E.assume(bor(C.compare("==", k, remaining), C.compare("==", e, te)))
        E.assume(implies(C.compare("==", e, te), c == k))
    if isinstance(env, Obj) and env.cls == XS.RES:
        XS.record_episodes(E, env, e, c)
    E.setfield(g, "$executed", C.binop("+", g.fields["$executed"], k))
    E.setfield(g, "$calls", C.binop("+", g.fields["$calls"], 1))
    n = sh.n_tasks
    for i in range(n):
        E.setfield(g, f"$on[{i}]", C.binop("+", g.fields[f"$on[{i}]"], C.ite(C.compare("==", task, i), k, 0)))
    E.st.ghost["last_result_step"] = C.binop("+", gs, k)
    return NamedTuple(RESULT, [Anything("policy"), C.binop("+", gs, k)])


TRAIN_ST = Builtin("contract.train_st", train_st_contract)


def ghost_sum(g, n):
    r = 0
    for i in range(n):
        r = C.binop("+", r, g[f"$on[{i}]"])
    return r


def arr_sum(a, n):
    r = 0
    for i in range(n):
        r = C.binop("+", r, C.mk(z3.Select(a.data, i)))
    return r


def sched_setup(n, extra=None):
    def setup(shared):
        shared.n_tasks = n
        shared.sched_mutable_arrays = True
        shared.sched_id_range = n
        shared.selectables = []
        if extra:
            extra(shared)
    return setup


def _fn_node(shared, qualname):
    import ast
    mod, fn = qualname.rsplit(".", 1)
    mi = shared.loader.load_module(mod)
    return [n for n in mi.tree.body if isinstance(n, ast.FunctionDef) and n.name == fn][0]


def sched_roles(shared, qualname, callee="train_st"):
    """names / loop ordinal by ROLE (robust to renamed locals): the local that receives the
    single-task result, the step counter compared in the scheduling loop's test, and the
    ordinal of the outermost loop around the call of the single-task routine"""
    import ast
    from pyvc.interp import _loop_ordinals

    node = _fn_node(shared, qualname)
    ords = _loop_ordinals(node)

    def is_call(c):
        return isinstance(c, ast.Call) and isinstance(c.func, ast.Name) and c.func.id == callee

    res = None
    for n in ast.walk(node):
        if isinstance(n, ast.Assign) and is_call(n.value) and len(n.targets) == 1 and isinstance(n.targets[0], ast.Name):
            res = n.targets[0].id
    outer = None
    for n in ast.walk(node):
        if isinstance(n, (ast.For, ast.While)) and id(n) in ords and any(is_call(c) for c in ast.walk(n)):
            if outer is None or ords[id(n)] < ords[id(outer)]:
                outer = n
    counter = None
    if isinstance(outer, ast.While) and isinstance(outer.test, ast.Compare) and isinstance(outer.test.left, ast.Name):
        counter = outer.test.left.id
    return dict(result=res, counter=counter, loop=ords[id(outer)] if outer is not None else 0)


def _steps_array(L):
    """the per-task step totals: the integer array among the locals"""
    c = [v for v in L.frame.vars.values() if isinstance(v, NDArr) and v.elem_sort == INT]
    return c[0] if len(c) == 1 else L["training_steps"]


def _bind_result(name):
    """loop-head havoc of the local that holds the last single-task result: unbound before the
    first call, afterwards the result of the most recent call (its count is tied to the ghost by
    the invariant `result.counts_executed`)."""
    def havoc(E, fr):
        fr.vars[name] = NamedTuple(RESULT, [Anything("policy"), E.st.fresh_sym("result.global_step", INT)])
    return havoc


# =====================================================================================
# 4. train_uts
# =====================================================================================
UTS = ALG + "uniform_task_sampling.train_uts"


def _uts_inv(L):
    E = L.E
    g = E.heap["ghost"].fields
    total = E.st.ghost["total"]
    R = E.shared.roles
    out = [("global_step==executed", C.compare("==", L[R["counter"]], g["$executed"])),
           ("executed<=total", C.compare("<=", g["$executed"], total)),
           ("calls>=0", C.compare(">=", g["$calls"], 0)),
           ("no_call=>nothing_executed", implies(C.compare("==", g["$calls"], 0), C.compare("==", g["$executed"], 0)))]
    res = L.get(R["result"])
    if res is None:
        out.append(("result.counts_executed", C.compare("==", g["$calls"], 0)))
    else:
        out.append(("result.counts_executed", implies(C.compare(">=", g["$calls"], 1), C.compare("==", res.get("global_step"), g["$executed"]))))
    return out


def mk_h_uts(n, vector):
    symbolic = n is None  # any number of tasks (no per-task ghost counters then)

    def h(E, n=n):
        if symbolic:
            ts = Obj(TASKSET, {"$n": E.int("n_tasks", 1)}, name="task_set")
            E.register(ts)
            n = 0
        else:
            ts = mk_task_set(E, n, vector)
        g = mk_ghost(E, n)
        total = E.int("total_timesteps", 1)
        E.st.ghost["total"] = total
        res = E.call(UTS, ts, TRAIN_ST, total_timesteps=total, episodes_per_task=E.int("episodes_per_task", 1),
                     seed=E.int("seed", 0), exploring_starts=E.int("exploring_starts", 0), progress_bar=False, logger=None)
        ex = g.fields["$executed"]
        E.oblige("post.budget.executed_within_total_budget", C.compare("<=", ex, total))
        E.oblige("post.budget.budget_is_used_up", C.compare("==", ex, total))
        E.oblige("post.accounting.returned_count_equals_steps_executed", C.compare("==", res.get("global_step"), ex))
        E.oblige("canary.uts.nothing_executed", C.compare("==", ex, 0), assume_after=False)
        E.oblige("canary.uts.single_call", C.compare("==", g.fields["$calls"], 1), assume_after=False)

    def setup(shared):
        sched_setup(0 if symbolic else n)(shared)
        R = shared.roles = sched_roles(shared, UTS)
        shared.loop_specs[(UTS, R["loop"])] = LoopSpec(inv=_uts_inv, havoc_extra=_bind_result(R["result"]))
    return Task(f"train_uts[n_tasks={'any' if symbolic else n},{'VectorEnv' if vector else 'DiscreteTaskSet'}]", h, setup=setup)


UTS_TASKS = [mk_h_uts(None, False), mk_h_uts(2, False), mk_h_uts(3, False), mk_h_uts(3, True)]


# =====================================================================================
# 5. train_active_mt
# =====================================================================================
AMT = ALG + "active_mt.train_active_mt"
SELECTOR = "stub.TaskSelector"


@LIB.cls(SELECTOR)
def _selector_stub(E, obj, name):
    """contract of a TaskSelector (proved for TaskSelector / RoundRobinSelector /
    DUCBGeneralized above): select needs `not waiting`, returns a valid id, sets waiting;
    feedback needs `waiting`, clears it.  The call-site obligations ARE the alternation clause."""
    f = obj.fields
    if name == "select":
        def select(E):
            E.oblige("select.pre.previous_selection_got_its_feedback", bnot(f["$waiting"]))
            t = E.st.fresh_sym("selected_task", INT)
            E.assume(_id_ok(t, f["$n"]))
            E.setfield(obj, "$waiting", True)
            E.setfield(obj, "$selections", C.binop("+", f["$selections"], 1))
            return t
        return Builtin("contract.TaskSelector.select", select)
    if name == "feedback":
        def feedback(E, reward):
            E.oblige("feedback.pre.follows_a_selection", _b(f["$waiting"]))
            E.setfield(obj, "$waiting", False)
            E.setfield(obj, "$feedbacks", C.binop("+", f["$feedbacks"], 1))
        return Builtin("contract.TaskSelector.feedback", feedback)
    return NotImplemented


SCHED_LOGGER = "stub.SchedulerLogger"


@LIB.cls(SCHED_LOGGER)
def _sched_logger(E, obj, name):
    if name.startswith("__"):
        return NotImplemented
    return Builtin(f"stub.logger.{name}", lambda E, *a, **k: None)


def mk_selector_stub(E, n):
    o = Obj(SELECTOR, {"$waiting": False, "$n": n, "$selections": 0, "$feedbacks": 0}, name="task_selector")
    E.register(o)
    return o


def _waiting_flag(sel):
    return sel.fields["$waiting"] if sel.cls == SELECTOR else sel.fields["waiting_for_reward"]


def _amt_inv(L):
    E = L.E
    g = E.heap["ghost"].fields
    n = E.shared.n_tasks
    total = E.st.ghost["total"]
    ts = _steps_array(L)
    R = E.shared.roles
    out = [("global_step==executed", C.compare("==", L[R["counter"]], g["$executed"])),
           ("executed<=total", C.compare("<=", g["$executed"], total)),
           ("calls>=0", C.compare(">=", g["$calls"], 0)),
           ("no_call=>nothing_executed", implies(C.compare("==", g["$calls"], 0), C.compare("==", g["$executed"], 0))),
           ("ghost.per_task_steps_sum_to_executed", C.compare("==", ghost_sum(g, n), g["$executed"]))]
    for i in range(n):
        out.append((f"training_steps[{i}]==steps_executed_on_task", C.compare("==", C.mk(z3.Select(ts.data, i)), g[f"$on[{i}]"])))
    sel = L["task_selector"]
    if isinstance(sel, Obj):
        out.append(("selector.not_waiting_at_loop_head", bnot(_waiting_flag(sel))))
        if sel.cls == SELECTOR:
            out.append(("selector.selections==feedbacks", C.compare("==", sel.fields["$selections"], sel.fields["$feedbacks"])))
        elif "i" in sel.fields:
            out.append(("selector.position>=0", C.compare(">=", sel.fields["i"], 0)))
    out += _result_inv(L, g)
    return out


def mk_amt(n, vector=False, selector="contract", n_selectables=0, logger=False):
    def h(E):
        sh = E.shared
        ts = mk_task_set(E, n, vector)
        g = mk_ghost(E, n)
        total = E.int("total_timesteps", 1)
        E.st.ghost["total"] = total
        rb = Obj(MTBUFFER, {"$n": n, "$task": 0, "$selected": False}, name="replay_buffer")
        E.register(rb)
        sel = mk_selector_stub(E, n) if selector == "contract" else selector
        sts = None
        if n_selectables:
            sts = []
            for j in range(n_selectables):
                o = Obj(SELECTABLE, {"$n": n, "$task": 0, "$selected": False}, name=f"task_selectables[{j}]")
                E.register(o)
                sts.append(o)
            sh.selectables = sts
        lg = None
        if logger:
            lg = Obj(SCHED_LOGGER, {}, name="logger")
            E.register(lg)
        si = E.int("scheduling_interval", 1)
        a = E.st.ghost["amt_args"] = dict(r_max=E.real("r_max", 0), ducb_gamma=E.real("ducb_gamma", 0, 1), xi=E.real("xi", 0))
        out = E.call(AMT, ts, TRAIN_ST, rb, a["r_max"], ducb_gamma=a["ducb_gamma"], xi=a["xi"],
                     task_selector=sel, total_timesteps=total, scheduling_interval=si, learning_starts=E.int("learning_starts", 0),
                     seed=E.int("seed", 0), task_selectables=sts, logger=lg, progress_bar=False)
        res, steps = out
        ex = g.fields["$executed"]
        E.oblige("post.budget.executed_within_total_budget", C.compare("<=", ex, total))
        E.oblige("post.budget.budget_is_used_up", C.compare("==", ex, total))
        if not isinstance(steps, NDArr):
            E.st.fail("post.accounting.training_steps_returned", f"returned {steps!r}")
            return
        E.oblige("post.accounting.per_task_totals_sum_to_steps_executed", C.compare("==", arr_sum(steps, n), ex))
        for i in range(n):
            E.oblige("post.accounting.per_task_total_is_steps_executed_on_that_task", C.compare("==", C.mk(z3.Select(steps.data, i)), g.fields[f"$on[{i}]"]))
        E.oblige("post.accounting.returned_result_counts_steps_executed", C.compare("==", res.get("global_step"), ex))
        E.oblige("canary.amt.nothing_executed", C.compare("==", ex, 0), assume_after=False)
        E.oblige("canary.amt.all_on_task_0", C.compare("==", C.mk(z3.Select(steps.data, 0)), ex), assume_after=False)

    def ctor(E, tasks=None, upper_bound=None, ducb_gamma=None, zeta=None, baseline=None, op=None, **kw):
        """DUCBGeneralized(...) inside train_active_mt: replaced by the selector contract; the arguments must
        describe one arm per task and the documented strategy"""
        a = E.st.ghost["amt_args"]
        ok = isinstance(tasks, T.Tensor) and tasks.ndim == 1 and T.dim_eq(tasks.shape[0], n)
        (E.st.ok if ok else E.st.fail)("selector.one_arm_per_task", *([] if ok else [repr(tasks)]))
        if ok:
            for i in range(n):
                E.oblige("selector.arm_i_is_task_i", C.compare("==", tasks.at(i), i))
        same = upper_bound is a["r_max"] and ducb_gamma is a["ducb_gamma"] and zeta is a["xi"]
        (E.st.ok if same else E.st.fail)("selector.bandit_parameters_passed_on", *([] if same else ["r_max / ducb_gamma / xi not passed on"]))
        want = DG_CONFIGS[selector]
        (E.st.ok if (baseline, op) == want else E.st.fail)("selector.documented_strategy", *([] if (baseline, op) == want else [f"{(baseline, op)} for {selector}"]))
        return mk_selector_stub(E, n)

    def setup(shared):
        sched_setup(n)(shared)
        if isinstance(selector, str) and selector in DG_CONFIGS:
            shared.stubs[MT + "DUCBGeneralized"] = ctor
        R = shared.roles = sched_roles(shared, AMT)
        shared.loop_specs[(AMT, R["loop"])] = LoopSpec(inv=_amt_inv, havoc_extra=_bind_result(R["result"]))
    nm = f"train_active_mt[n_tasks={n},{'VectorEnv' if vector else 'DiscreteTaskSet'},selector={selector}" + (f",{n_selectables} selectables" if n_selectables else "") + (",logger" if logger else "") + "]"
    return Task(nm, h, setup=setup)


AMT_TASKS = [mk_amt(2), mk_amt(3, n_selectables=2, logger=True), mk_amt(3, vector=True), mk_amt(2, selector="Round Robin"), mk_amt(3, selector="Round Robin"),
             mk_amt(2, selector="Monotonic Progress"), mk_amt(3, selector="1-step Progress"), mk_amt(2, selector="Best Reward"), mk_amt(2, selector="Diversity")]


# =====================================================================================
# 6. SMT: smt_stage1 / smt_stage2 / train_smt
# =====================================================================================
SMT = ALG + "smt."


def stage_state(E, g, gs, steps, n):
    """STAGE-STATE: the bookkeeping handed from train_smt to a stage and back:
    global_step == steps executed so far, training_steps[i] == steps executed on task i"""
    out = [("global_step==executed", C.compare("==", gs, g["$executed"])),
           ("ghost.per_task_steps_sum_to_executed", C.compare("==", ghost_sum(g, n), g["$executed"]))]
    for i in range(n):
        out.append((f"training_steps[{i}]==steps_executed_on_task", C.compare("==", C.mk(z3.Select(steps.data, i)), g[f"$on[{i}]"])))
    return out


def _result_inv(L, g):
    res = L.get(L.E.shared.roles["result"])
    if res is None:
        return [("result.counts_executed", C.compare("==", g["$calls"], 0))]
    return [("result.counts_executed", implies(C.compare(">=", g["$calls"], 1), C.compare("==", res.get("global_step"), g["$executed"])))]


def mk_stage_inputs(E, n, n_selectables=0, logger=False, vector=False, zero=False):
    """task set, buffer, selectables, training_steps / global_step in STAGE-STATE"""
    sh = E.shared
    ts = mk_task_set(E, n, vector)
    g = mk_ghost(E, n)
    rb = Obj(MTBUFFER, {"$n": n, "$task": 0, "$selected": False}, name="replay_buffer")
    E.register(rb)
    sts = None
    if n_selectables:
        sts = []
        for j in range(n_selectables):
            o = Obj(SELECTABLE, {"$n": n, "$task": 0, "$selected": False}, name=f"task_selectables[{j}]")
            E.register(o)
            sts.append(o)
        sh.selectables = sts
    lg = None
    if logger:
        lg = Obj(SCHED_LOGGER, {}, name="logger")
        E.register(lg)
    steps = XS.new_ndarr(E, n, INT, data=z3.K(INT, z3.IntVal(0)), dtype="int", tag="training_steps")
    gs = 0
    if not zero:
        on0 = [E.int(f"steps_on_task[{i}]_before", 0) for i in range(n)]
        for i in range(n):
            steps.data = z3.Store(steps.data, i, on0[i].z)
            g.fields[f"$on[{i}]"] = on0[i]
            gs = C.binop("+", gs, on0[i])
        g.fields["$executed"] = gs
        g.fields["$calls"] = 0  # calls made by THIS stage (ties the returned result to its last call)
    return ts, g, rb, sts, lg, steps, gs


def _progress():
    from pyvc.lib.gym_model import Progress
    return Progress(None)


# ---------------------------------------------------------------- stage 2
def _stage2_inv(L):
    E = L.E
    g = E.heap["ghost"].fields
    n = E.shared.n_tasks
    out = stage_state(E, g, L[E.shared.roles["counter"]], _steps_array(L), n)
    out.append(("executed<=b_total", C.compare("<=", g["$executed"], E.st.ghost["total"])))
    out.append(("calls>=0", C.compare(">=", g["$calls"], 0)))
    out.append(("no_call=>nothing_executed", implies(C.compare("==", g["$calls"], 0), C.compare("==", g["$executed"], E.st.ghost["gs0"]))))
    out += _result_inv(L, g)
    return out


def stage2_post(E, g, gs0_calls, steps, n, total, res):
    ex = g["$executed"]
    out = [("post.budget.executed_within_total_budget", C.compare("<=", ex, total)),
           ("post.budget.budget_is_used_up", C.compare("==", ex, total)),
           ("post.accounting.per_task_totals_sum_to_steps_executed", C.compare("==", arr_sum(steps, n), ex)),
           ("post.accounting.returned_result_counts_steps_executed", C.compare("==", res.get("global_step"), ex))]
    for i in range(n):
        out.append(("post.accounting.per_task_total_is_steps_executed_on_that_task", C.compare("==", C.mk(z3.Select(steps.data, i)), g[f"$on[{i}]"])))
    return out


def mk_stage2(n, pool, n_selectables=0, logger=False, vector=False):
    def h(E):
        ts, g, rb, sts, lg, steps, gs = mk_stage_inputs(E, n, n_selectables, logger, vector)
        total = E.int("b_total", 1)
        E.assume(C.compare("<", gs, total))  # train_smt: global_step <= b1 < b1 + b2 (b2 >= 1)
        E.st.ghost["total"] = total
        E.st.ghost["gs0"] = gs
        si = E.int("scheduling_interval", 1)
        res = E.call(SMT + "smt_stage2", ts, TRAIN_ST, rb, sts, set(pool), steps, gs, si, total, E.int("learning_starts", 0), lg, E.int("seed", 0), _progress())
        for nm, z in stage2_post(E, g.fields, None, steps, n, total, res):
            E.oblige(nm, z)
        E.oblige("canary.stage2.nothing_executed", C.compare("==", g.fields["$executed"], gs), assume_after=False)
        E.oblige("canary.stage2.single_call", C.compare("==", g.fields["$calls"], 1), assume_after=False)

    def setup(shared):
        sched_setup(n)(shared)
        R = shared.roles = sched_roles(shared, SMT + "smt_stage2")
        shared.loop_specs[(SMT + "smt_stage2", R["loop"])] = LoopSpec(inv=_stage2_inv, havoc_extra=_bind_result(R["result"]))
    nm = f"smt_stage2[n_tasks={n},pool={sorted(pool)}" + (",VectorEnv" if vector else "") + (f",{n_selectables} selectables" if n_selectables else "") + (",logger" if logger else "") + "]"
    return Task(nm, h, setup=setup)


def _subsets(n):
    return [c for r in range(1, n + 1) for c in itertools.combinations(range(n), r)]


STAGE2_TASKS = [mk_stage2(2, p) for p in _subsets(2)] + [mk_stage2(3, p, n_selectables=(1 if len(p) == 2 else 0), logger=(len(p) == 3), vector=(p == (0, 2))) for p in _subsets(3)]


# ---------------------------------------------------------------- stage 1
POOLS = ("training_pool", "main_pool", "solved_pool", "unsolvable_pool")


def _pools_ok(pools, n, K):
    """POOLS: the four pools partition range(n_tasks); the training pool holds between 1 and K
    tasks and is only short of K when the main pool is exhausted"""
    tr, ma, so, un = pools
    allp = [tr, ma, so, un]
    part = all(isinstance(p, set) for p in allp) and set().union(*allp) == set(range(n)) and sum(len(p) for p in allp) == n
    size = part and 1 <= len(tr) <= K and (len(tr) == K or len(ma) == 0)
    return part, size


def _stage1_inv(L):
    E = L.E
    g = E.heap["ghost"].fields
    n, K = E.shared.n_tasks, E.shared.K
    out = stage_state(E, g, L[E.shared.roles["counter"]], _steps_array(L), n)
    out.append(("executed<=b1", C.compare("<=", g["$executed"], E.st.ghost["total"])))
    out.append(("calls>=0", C.compare(">=", g["$calls"], 0)))
    out.append(("no_call=>nothing_executed", implies(C.compare("==", g["$calls"], 0), C.compare("==", g["$executed"], E.st.ghost["gs0"]))))
    out += _result_inv(L, g)
    part, size = _pools_ok([L[p] for p in POOLS], n, K)
    out.append(("pools.partition_of_the_task_ids", _b(part)))
    out.append(("pools.training_pool_size", _b(size)))
    return out


def _stage1_havoc(E, fr):
    """loop-head state of the pools: ANY configuration that satisfies POOLS (case split, exact)"""
    _bind_result(E.shared.roles["result"])(E, fr)
    n, K = E.shared.n_tasks, E.shared.K
    E._stage1_heads = getattr(E, "_stage1_heads", 0) + 1
    if E.phase == "discover" and E._stage1_heads > 1:
        # write-set discovery: the loop body has been executed once on this path; nothing
        # after the loop is cut, so the rest of the path adds no information
        raise C.PathEnd("discover: loop body done")
    configs = []
    for code in itertools.product(range(4), repeat=n):
        pools = [set(i for i in range(n) if code[i] == q) for q in range(4)]
        if all(_pools_ok(pools, n, K)):
            configs.append(pools)
    grp = E.shared.__dict__.get("pool_group")
    if grp is not None:  # the loop-head configurations are distributed over several tasks (wall time only)
        configs = [c for k, c in enumerate(configs) if k % grp[1] == grp[0]]
    pools = configs[XS.choose(E, len(configs), "pool_configuration")]
    for nm, p in zip(POOLS, pools):
        fr.vars[nm] = set(p)


def stage1_post(E, g, steps, n, b1, out_gs, res, pool):
    ex = g["$executed"]
    out = [("post.budget.executed_within_stage_budget", C.compare("<=", ex, b1)),
           ("post.accounting.returned_count_equals_steps_executed", C.compare("==", out_gs, ex)),
           ("post.accounting.per_task_totals_sum_to_steps_executed", C.compare("==", arr_sum(steps, n), ex)),
           ("post.accounting.returned_result_counts_steps_executed", C.compare("==", res.get("global_step"), ex)),
           ("post.pools.unsolvable_pool_holds_valid_task_ids", _b(isinstance(pool, set) and pool <= set(range(n))))]
    for i in range(n):
        out.append(("post.accounting.per_task_total_is_steps_executed_on_that_task", C.compare("==", C.mk(z3.Select(steps.data, i)), g[f"$on[{i}]"])))
    return out


def mk_stage1(n, K, n_selectables=0, logger=False, vector=False, group=None, tier="quick"):
    def h(E):
        ts, g, rb, sts, lg, steps, gs = mk_stage_inputs(E, n, n_selectables, logger, vector)
        b1 = E.int("b1", 1)
        b2 = E.int("b2", 1)
        E.assume(C.compare("<", gs, b1))  # train_smt: global_step == 0 < b1
        E.st.ghost["total"] = b1
        E.st.ghost["gs0"] = gs
        si = E.int("scheduling_interval", 1)
        solved, unsolvable = E.real("solved_threshold"), E.real("unsolvable_threshold")
        E.assume(unsolvable < solved)
        rng = E.call(LIB.funcs["numpy.random.default_rng"], E.int("seed", 0))
        out = E.call(SMT + "smt_stage1", ts, TRAIN_ST, rb, sts, steps, solved, unsolvable, gs, si, b1, C.binop("+", b1, b2),
                     E.int("n_average", 1), K, E.real("kappa", 0, 1), E.int("learning_starts", 0), lg, E.int("seed2", 0), rng, _progress())
        avg, out_gs, res, pool = out
        for nm, z in stage1_post(E, g.fields, steps, n, b1, out_gs, res, pool):
            E.oblige(nm, z)
        E.oblige("canary.stage1.nothing_executed", C.compare("==", g.fields["$executed"], gs), assume_after=False)
        if group is None:  # an early stop (every task solved / unsolvable) is reachable
            E.oblige("canary.stage1.budget_always_used_up", C.compare("==", g.fields["$executed"], b1), assume_after=False)

    def setup(shared):
        sched_setup(n)(shared)
        shared.K = K
        shared.pool_group = group
        R = shared.roles = sched_roles(shared, SMT + "smt_stage1")
        shared.loop_specs[(SMT + "smt_stage1", R["loop"])] = LoopSpec(inv=_stage1_inv, havoc_extra=_stage1_havoc)
    nm = f"smt_stage1[n_tasks={n},K={K}" + (",VectorEnv" if vector else "") + (f",{n_selectables} selectables" if n_selectables else "") + (",logger" if logger else "") + (f",head-configurations {group[0] + 1}/{group[1]}" if group else "") + "]"
    return Task(nm, h, setup=setup, tier=tier)


STAGE1_TASKS = ([mk_stage1(2, 1, n_selectables=1), mk_stage1(2, 2, logger=True, vector=True)]
                + [mk_stage1(3, 1, group=(j, 9)) for j in range(9)]
                + [mk_stage1(3, 2, group=(j, 12), tier="thorough") for j in range(12)]
                + [mk_stage1(3, 3, group=(j, 16), tier="thorough") for j in range(16)])


# ---------------------------------------------------------------- train_smt (stages replaced by their contracts)
def _havoc_stage_state(E, steps, n):
    g = E.heap["ghost"]
    steps.data = E.st.fresh("training_steps.after_stage", steps.data.sort())
    for k in ["$executed", "$calls"] + [f"$on[{i}]" for i in range(n)]:
        g.fields[k] = E.st.fresh_sym(f"ghost.{k}.after_stage", INT)
    return g.fields


def _stage_pre(E, tag, g, gs, steps, n, limit):
    for nm, z in stage_state(E, g, gs, steps, n):
        E.oblige(f"{tag}.pre.{nm}", z)
    E.oblige(f"{tag}.pre.stage_budget_not_yet_used_up", C.compare("<", gs, limit))


def stage1_contract(E, task_set, train_st, replay_buffer, task_selectables, training_steps, solved_threshold, unsolvable_threshold,
                    global_step, scheduling_interval, b1, b_total, n_average, K, kappa, learning_starts, logger, seed, rng, progress):
    """contract of smt_stage1 as proved by the smt_stage1[...] tasks (same pre / post terms)"""
    n = E.shared.n_tasks
    g = E.heap["ghost"].fields
    _stage_pre(E, "stage1", g, global_step, training_steps, n, b1)
    E.oblige("stage1.pre.pool_size_K_between_1_and_n_tasks", band(C.compare(">=", K, 1), C.compare("<=", K, n)))
    E.oblige("stage1.pre.thresholds_ordered", C.compare("<", unsolvable_threshold, solved_threshold))
    E.oblige("stage1.pre.scheduling_interval_positive", C.compare(">=", scheduling_interval, 1))
    (E.st.ok if train_st is TRAIN_ST else E.st.fail)("stage1.pre.single_task_routine_passed_on", *([] if train_st is TRAIN_ST else ["other callable"]))
    g = _havoc_stage_state(E, training_steps, n)
    gs1 = E.st.fresh_sym("global_step.after_stage1", INT)
    res = NamedTuple(RESULT, [Anything("policy"), E.st.fresh_sym("result.global_step", INT)])
    subsets = [set(c) for r in range(0, n + 1) for c in itertools.combinations(range(n), r)]
    pool = subsets[XS.choose(E, len(subsets), "unsolvable_pool")]
    for nm, z in stage_state(E, g, gs1, training_steps, n) + stage1_post(E, g, training_steps, n, b1, gs1, res, pool):
        E.assume(z)
    E.assume(C.compare(">=", g["$calls"], 1))
    E.st.ghost["stage1_done"] = True
    return (Anything("avg_training_performances"), gs1, res, pool)


def stage2_contract(E, task_set, train_st, replay_buffer, task_selectables, unsolvable_pool, training_steps, global_step,
                    scheduling_interval, b_total, learning_starts, logger, seed, progress):
    """contract of smt_stage2 as proved by the smt_stage2[...] tasks"""
    n = E.shared.n_tasks
    g = E.heap["ghost"].fields
    _stage_pre(E, "stage2", g, global_step, training_steps, n, b_total)
    ok = isinstance(unsolvable_pool, set) and len(unsolvable_pool) > 0 and unsolvable_pool <= set(range(n))
    (E.st.ok if ok else E.st.fail)("stage2.pre.pool_is_a_non_empty_set_of_valid_task_ids", *([] if ok else [repr(unsolvable_pool)]))
    E.oblige("stage2.pre.scheduling_interval_positive", C.compare(">=", scheduling_interval, 1))
    (E.st.ok if train_st is TRAIN_ST else E.st.fail)("stage2.pre.single_task_routine_passed_on", *([] if train_st is TRAIN_ST else ["other callable"]))
    g = _havoc_stage_state(E, training_steps, n)
    res = NamedTuple(RESULT, [Anything("policy"), E.st.fresh_sym("result.global_step", INT)])
    for nm, z in stage2_post(E, g, None, training_steps, n, b_total, res):
        E.assume(z)
    E.st.ghost["stage2_done"] = True
    return res


def mk_smt(n, n_selectables=0, logger=False, vector=False):
    def h(E):
        ts, g, rb, sts, lg, _steps, _gs = mk_stage_inputs(E, n, n_selectables, logger, vector, zero=True)
        b1, b2 = E.int("b1", 1), E.int("b2", 1)
        K = E.int("K", 1, n)
        solved, unsolvable = E.real("solved_threshold"), E.real("unsolvable_threshold")
        E.assume(unsolvable < solved)
        out = E.call(SMT + "train_smt", ts, TRAIN_ST, rb, b1=b1, b2=b2, solved_threshold=solved, unsolvable_threshold=unsolvable,
                     scheduling_interval=E.int("scheduling_interval", 1), kappa=E.real("kappa", 0, 1), K=K, n_average=E.int("n_average", 1),
                     learning_starts=E.int("learning_starts", 0), seed=E.int("seed", 0), task_selectables=sts, logger=lg, progress_bar=False)
        res, steps, avg = out
        gf = g.fields
        ex = gf["$executed"]
        total = C.binop("+", b1, b2)
        E.oblige("post.budget.executed_within_total_budget", C.compare("<=", ex, total))
        if E.st.ghost.get("stage2_done"):
            E.oblige("post.budget.budget_is_used_up_when_stage_2_runs", C.compare("==", ex, total))
        else:
            E.oblige("post.budget.stage_1_budget_respected_without_stage_2", C.compare("<=", ex, b1))
        if not isinstance(steps, NDArr):
            E.st.fail("post.accounting.training_steps_returned", f"returned {steps!r}")
            return
        E.oblige("post.accounting.per_task_totals_sum_to_steps_executed", C.compare("==", arr_sum(steps, n), ex))
        for i in range(n):
            E.oblige("post.accounting.per_task_total_is_steps_executed_on_that_task", C.compare("==", C.mk(z3.Select(steps.data, i)), gf[f"$on[{i}]"]))
        E.oblige("post.accounting.returned_result_counts_steps_executed", C.compare("==", res.get("global_step"), ex))
        E.oblige("canary.smt.nothing_executed", C.compare("==", ex, 0), assume_after=False)

    def setup(shared):
        sched_setup(n)(shared)
        shared.stubs[SMT + "smt_stage1"] = stage1_contract
        shared.stubs[SMT + "smt_stage2"] = stage2_contract
    nm = f"train_smt[n_tasks={n}" + (",VectorEnv" if vector else "") + (f",{n_selectables} selectables" if n_selectables else "") + (",logger" if logger else "") + "]"
    return Task(nm, h, setup=setup)


SMT_TASKS = [mk_smt(2), mk_smt(3, n_selectables=1, logger=True), mk_smt(3, vector=True)]


# =====================================================================================
# 7. mapb.DUCB  (Discounted UCB, Garivier & Moulines 2008, as cited in the class docstring)
# =====================================================================================
# Documented policy (reference [2] of the docstring, eq. (1)-(2), with the window of the last
# WINDOW = 250 rounds the implementation keeps):  after t rounds with arms I_s and rewards X_s
#     N_t(k)    = sum_{s in W_t} gamma^(t-1-s) 1{I_s = k}            W_t = [max(0, t - 250), t)
#     Xbar_t(k) = (1 / N_t(k)) sum_{s in W_t} gamma^(t-1-s) X_s 1{I_s = k}
#     n_t       = sum_k N_t(k)
#     c_t(k)    = 2 B sqrt(zeta log(n_t) / N_t(k))
#     I_t       = argmax_k Xbar_t(k) + c_t(k)                         ("plays every arm in its initial rounds" before)
# Class invariant DWF(ducb):
#     DWF.range   every recorded arm is a valid arm index
#     DWF.init    the first 2 n_arms recorded arms are 0, 1, .., n-1, 0, 1, .., n-1   (=> every arm played)
#     DWF.lens    len(chosen_arms) == len(rewards) (+ 1 between choose_arm and reward)
#     DWF.freq    discounted_frequencies[k] == N_t(k),  total_frequency == n_t     (t = len(rewards))
WINDOW = 250


def _sel(col, i):
    return z3.Select(col, C.to_z3(i))


def mk_ducb(E, n, waiting=False, extra_len=None):
    t = E.int("t", 0)  # rewards observed so far
    ln = C.binop("+", t, 1) if waiting else t
    chosen = fresh_symlist(E, "chosen_arms", INT, length=ln)
    rewards = fresh_symlist(E, "rewards", REAL, length=t)
    df = E.new_arr("discounted_frequencies", n, REAL)
    total = E.real("total_frequency")
    B, gamma, zeta = E.real("upper_bound"), E.real("gamma"), E.real("zeta")
    E.assume(band(B > 0, gamma > 0, gamma <= 1, zeta > 0))
    o = E.new_obj(MAPB + "DUCB", name="ducb", n_arms=n, upper_bound=B, gamma=gamma, zeta=zeta, verbose=0,
                  chosen_arms=chosen, rewards=rewards, discounted_frequencies=df, total_frequency=total)
    return o, t


def dwf_range(chosen, n):
    col, ln = chosen.cols[0], chosen.len_z()
    nz = C.to_z3(n)
    return lambda s: z3.Implies(z3.And(s >= 0, s < ln), z3.And(z3.Select(col, s) >= 0, z3.Select(col, s) < nz))


def dwf_init(chosen, n):
    """the first 2n recorded arms are 0..n-1, 0..n-1 (stated without mod: position s holds s, resp. s - n)"""
    col, ln = chosen.cols[0], chosen.len_z()
    nz = C.to_z3(n)
    return lambda s: z3.Implies(z3.And(s >= 0, s < ln, s < 2 * nz), z3.Select(col, s) == z3.If(s < nz, s, s - nz))


def assume_dwf_hist(E, ducb):
    f = ducb.fields
    E.st.assume_forall([INT], dwf_range(f["chosen_arms"], f["n_arms"]), "DWF.range")
    E.st.assume_forall([INT], dwf_init(f["chosen_arms"], f["n_arms"]), "DWF.init")


def oblige_dwf_hist(E, ducb, tag):
    f = ducb.fields
    ch = f["chosen_arms"]
    if not isinstance(ch, SymList):
        E.st.fail(f"{tag}.DWF.history_is_a_list", repr(ch))
        return
    E.st.oblige_forall(f"{tag}.DWF.range_preserved", [INT], dwf_range(ch, f["n_arms"]), hint="s", using=["DWF."])
    E.st.oblige_forall(f"{tag}.DWF.init_preserved", [INT], dwf_init(ch, f["n_arms"]), hint="s", using=["DWF."])


def _same_list(a, b):
    return isinstance(a, SymList) and isinstance(b, SymList) and z3.eq(z3.simplify(a.len_z()), z3.simplify(b.len_z())) and all(z3.eq(x, y) for x, y in zip(a.cols, b.cols))


def _appended(E, tag, new, old_len, old_cols, x):
    """new == old ++ [x]"""
    if not isinstance(new, SymList):
        E.st.fail(f"{tag}.grows_by_exactly_one_record", repr(new))
        return
    E.oblige(f"{tag}.grows_by_exactly_one_record", C.mk(z3.And(new.len_z() == old_len + 1, z3.Select(new.cols[0], old_len) == C.to_z3(x))))
    oc = old_cols[0]
    E.st.oblige_forall(f"{tag}.earlier_records_unchanged", [INT], lambda s: z3.Implies(z3.And(s >= 0, s < old_len), z3.Select(new.cols[0], s) == z3.Select(oc, s)), hint="s", using=[])


def h_ducb_init(E):
    n = E.int("n_arms", 1)
    B, gamma, zeta = E.real("upper_bound"), E.real("gamma"), E.real("zeta")
    d = E.call(MAPB + "DUCB", n, B, gamma, zeta)
    f = d.fields
    ok = f["chosen_arms"] == [] and f["rewards"] == []
    (E.st.ok if ok else E.st.fail)("ducb.init.empty_history", *([] if ok else ["history not empty"]))
    df = f["discounted_frequencies"]
    if isinstance(df, NDArr):
        k = E.int("k", 0)
        E.assume(k < n)
        E.oblige("ducb.init.DWF.freq.no_discounted_plays", band(C.compare("==", C.mk(z3.Select(df.data, k.z)), 0), C.compare("==", f["total_frequency"], 0)))
        E.oblige("ducb.init.one_frequency_per_arm", C.compare("==", C.mk(df.length) if not isinstance(df.length, int) else df.length, n))
    else:
        E.st.fail("ducb.init.DWF.freq.no_discounted_plays", repr(df))
    E.oblige("ducb.init.parameters_stored", band(C.compare("==", f["n_arms"], n), C.compare("==", f["upper_bound"], B), C.compare("==", f["gamma"], gamma), C.compare("==", f["zeta"], zeta)))
    E.oblige("canary.ducb.init", C.compare("==", f["n_arms"], 1), assume_after=False)


def h_ducb_choose_initial(E):
    """choose_arm while fewer than 2 n_arms rewards have been observed: arm == len(rewards) mod n_arms"""
    n = E.int("n_arms", 1)
    d, t = mk_ducb(E, n)
    assume_dwf_hist(E, d)
    E.assume(C.compare("<", t, C.binop("*", 2, n)))
    f = d.fields
    ch0, rw0 = f["chosen_arms"], f["rewards"]
    ch_len, ch_cols, rw_snap = ch0.len_z(), list(ch0.cols), rw0.copy()
    df0, tot0 = f["discounted_frequencies"].data, f["total_frequency"]
    arm = E.call(E.getattr(d, "choose_arm"))
    E.oblige("ducb.initial_rounds.arm_is_round_number_mod_n_arms", C.compare("==", arm, C.binop("%", t, n)))
    E.oblige("ducb.initial_rounds.valid_arm", _id_ok(arm, n))
    _appended(E, "ducb.choose.chosen_arms", f["chosen_arms"], ch_len, ch_cols, arm)
    ok = _same_list(f["rewards"], rw_snap) and z3.eq(f["discounted_frequencies"].data, df0) and f["total_frequency"] is tot0
    (E.st.ok if ok else E.st.fail)("ducb.choose.rewards_and_frequencies_untouched", *([] if ok else ["state changed"]))
    oblige_dwf_hist(E, d, "ducb.choose")
    E.oblige("canary.ducb.initial.arm_zero", C.compare("==", arm, 0), assume_after=False)


def h_ducb_every_arm_played(E):
    """consequence of DWF.init: once n_arms rewards have been observed every arm has been played
    (arm k in round k), and after the 2 n_arms initial rounds every arm has been played twice"""
    n = E.int("n_arms", 1)
    d, t = mk_ducb(E, n)
    assume_dwf_hist(E, d)
    col = d.fields["chosen_arms"].cols[0]
    E.assume(C.compare(">=", t, n))
    E.st.oblige_forall("ducb.initial_rounds.every_arm_played_once_after_n_rounds", [INT],
                       lambda k: z3.Implies(z3.And(k >= 0, k < n.z), z3.And(k < t.z, z3.Select(col, k) == k)), hint="k", using=["DWF.init"])
    if E.branch(C.compare(">=", t, C.binop("*", 2, n))):
        E.st.oblige_forall("ducb.initial_rounds.every_arm_played_twice_after_2n_rounds", [INT],
                           lambda k: z3.Implies(z3.And(k >= 0, k < n.z), z3.And(k + n.z < t.z, z3.Select(col, k + n.z) == k)), hint="k", using=["DWF.init"])
    E.oblige("canary.ducb.played", C.compare("==", C.mk(z3.Select(col, 0)), 1), assume_after=False)



def _window(t):
    return C.smax(0, C.binop("-", t, WINDOW)), t


def spec_freq_fold(E, d, rounds):
    """N(k, j): partial sums of N_t(k) over the window of `rounds` recorded arms"""
    f = d.fields
    col, gamma = f["chosen_arms"].cols[0], f["gamma"]
    lo, hi = _window(rounds)

    def term(k, s):
        w = C.binop("**", gamma, C.binop("-", C.binop("-", rounds, 1), Sym(s)))
        return C.ite(Sym(z3.Select(col, s) == k), w, Fraction(0))
    return XS.Fold(E, "N", lo, hi, term, nparams=1)


def spec_reward_fold(E, d, rounds, k):
    """partial sums of sum_{s in W_t} gamma^(t-1-s) X_s 1{I_s = k}"""
    f = d.fields
    col, rcol, gamma = f["chosen_arms"].cols[0], f["rewards"].cols[0], f["gamma"]
    lo, hi = _window(rounds)
    kz = C.to_z3(k)

    def term(s):
        w = C.binop("**", gamma, C.binop("-", C.binop("-", rounds, 1), Sym(s)))
        return C.ite(Sym(z3.Select(col, s) == kz), C.binop("*", w, Sym(z3.Select(rcol, s))), Fraction(0))
    return XS.Fold(E, "X", lo, hi, term)


def _freq_loop_inv(L):
    """_episode_finished: after the positions lo..it-1 of the window, discounted_frequencies[k] == N(k, it)"""
    E = L.E
    d = E.heap["ducb"]
    df = d.fields["discounted_frequencies"]
    NF = E.st.ghost["NF"]
    n = C.to_z3(d.fields["n_arms"])
    it = C.to_z3(L.it)
    data = df.data
    return [("discounted_frequencies[k]==N(k,position)", [INT], lambda k: z3.Implies(z3.And(k >= 0, k < n), z3.Select(data, k) == NF.F(k, it)))]


def _ducb_setup(shared):
    shared.sched_mutable_arrays = True
    shared.loop_specs[(MAPB + "DUCB._episode_finished", 0)] = LoopSpec(qinv=_freq_loop_inv)


def h_ducb_reward(E):
    """reward(r): the reward list grows by exactly one record; frequencies are recomputed to DWF.freq"""
    n = E.int("n_arms", 1)
    d, t = mk_ducb(E, n, waiting=True)
    assume_dwf_hist(E, d)
    f = d.fields
    r = E.real("r")
    rounds = C.binop("+", t, 1)
    NF = spec_freq_fold(E, d, rounds)
    E.st.ghost["NF"] = NF
    ch_snap = f["chosen_arms"].copy()
    rw0 = f["rewards"]
    rw_len, rw_cols = rw0.len_z(), list(rw0.cols)
    E.call(E.getattr(d, "reward"), r)
    _appended(E, "ducb.reward.rewards", f["rewards"], rw_len, rw_cols, r)
    ok = _same_list(f["chosen_arms"], ch_snap)
    (E.st.ok if ok else E.st.fail)("ducb.reward.chosen_arms_untouched", *([] if ok else ["chosen_arms changed"]))
    E.oblige("ducb.reward.DWF.lens", C.mk(f["chosen_arms"].len_z() == f["rewards"].len_z()))
    df = f["discounted_frequencies"]
    data = df.data
    E.st.oblige_forall("ducb.reward.DWF.freq.discounted_frequency_is_N_t(k)", [INT],
                       lambda k: z3.Implies(z3.And(k >= 0, k < n.z), z3.Select(data, k) == NF.F(k, NF.end())), hint="k",
                       using=["algorithm", "blox", "N."])
    from pyvc.lib.np_model import view
    E.oblige("ducb.reward.DWF.freq.total_frequency_is_sum_of_N_t(k)", C.compare("==", f["total_frequency"], T.reduce(view(df), "sum")))
    E.oblige("canary.ducb.reward.total_zero", C.compare("==", f["total_frequency"], 0), assume_after=False)


def h_ducb_mean(E):
    """_discounted_empirical_mean(k) == (1 / N_t(k)) sum_{s in W_t} gamma^(t-1-s) X_s 1{I_s = k}"""
    n = E.int("n_arms", 1)
    d, t = mk_ducb(E, n)
    assume_dwf_hist(E, d)
    k = E.int("arm_idx", 0)
    E.assume(k < n)
    spec = spec_reward_fold(E, d, t, k)
    Nk = C.mk(z3.Select(d.fields["discounted_frequencies"].data, k.z))
    got = E.call(E.getattr(d, "_discounted_empirical_mean"), k)
    code = E.st.ghost.get("last_listsum")
    if code is not None:
        if not XS.fold_equal(E, "ducb.mean.numerator_is_discounted_reward_sum_over_window", code, spec):
            return
    E.oblige("ducb.mean.is_discounted_empirical_mean", C.compare("==", got, C.binop("/", spec.value(), Nk)))
    E.oblige("canary.ducb.mean.zero", C.compare("==", got, 0), assume_after=False)


def h_ducb_padding(E):
    """_padding_function(k) == 2 B sqrt(zeta log(n_t) / N_t(k))"""
    n = E.int("n_arms", 1)
    d, t = mk_ducb(E, n)
    k = E.int("arm_idx", 0)
    E.assume(k < n)
    f = d.fields
    Nk = C.mk(z3.Select(f["discounted_frequencies"].data, k.z))
    got = E.call(E.getattr(d, "_padding_function"), k)
    want = C.binop("*", C.binop("*", 2, f["upper_bound"]), T.tfn("sqrt", C.binop("/", C.binop("*", f["zeta"], T.tfn("log", f["total_frequency"])), Nk)))
    E.oblige("ducb.padding.is_documented_exploration_bonus", C.compare("==", got, want))
    E.oblige("canary.ducb.padding.zero", C.compare("==", got, 0), assume_after=False)


XBAR = C.uf("Xbar_t", INT, REAL)
BONUS = C.uf("c_t", INT, REAL)


def mk_h_ducb_exploit(n):
    def h(E):
        """choose_arm after the initial rounds: an arm maximising Xbar_t(k) + c_t(k); the two terms are
        the contracts of _discounted_empirical_mean / _padding_function proved above"""
        d, t = mk_ducb(E, n)
        assume_dwf_hist(E, d)
        E.assume(C.compare(">=", t, 2 * n))
        f = d.fields
        ch0 = f["chosen_arms"]
        ch_len, ch_cols, rw_snap = ch0.len_z(), list(ch0.cols), f["rewards"].copy()
        df0, tot0 = f["discounted_frequencies"].data, f["total_frequency"]
        arm = E.call(E.getattr(d, "choose_arm"))
        E.oblige("ducb.exploit.valid_arm", _id_ok(arm, n))
        ucb = lambda k: C.binop("+", Sym(XBAR(C.to_z3(k))), Sym(BONUS(C.to_z3(k))))  # noqa: E731
        for k in range(n):
            E.oblige("ducb.exploit.arm_maximises_discounted_mean_plus_bonus", C.compare(">=", ucb(arm), ucb(k)))
        _appended(E, "ducb.choose.chosen_arms", f["chosen_arms"], ch_len, ch_cols, arm)
        ok = _same_list(f["rewards"], rw_snap) and z3.eq(f["discounted_frequencies"].data, df0) and f["total_frequency"] is tot0
        (E.st.ok if ok else E.st.fail)("ducb.choose.rewards_and_frequencies_untouched", *([] if ok else ["state changed"]))
        oblige_dwf_hist(E, d, "ducb.choose")
        E.oblige("canary.ducb.exploit.arm_zero", C.compare("==", arm, 0), assume_after=False)

    def setup(shared):
        def mean(E, self, arm_idx):
            E.oblige("ducb.exploit.mean_requested_for_a_valid_arm", _id_ok(arm_idx, n))
            return Sym(XBAR(C.to_z3(arm_idx)))

        def pad(E, self, arm_idx):
            E.oblige("ducb.exploit.bonus_requested_for_a_valid_arm", _id_ok(arm_idx, n))
            return Sym(BONUS(C.to_z3(arm_idx)))
        shared.stubs[MAPB + "DUCB._discounted_empirical_mean"] = mean
        shared.stubs[MAPB + "DUCB._padding_function"] = pad
    return Task(f"DUCB.choose_arm[after the initial rounds,n_arms={n}]", h, setup=setup)



# =====================================================================================
# 8. DUCBGeneralized: the bandit's arm index mapped to a task id
# =====================================================================================
# class invariant GWF(sel):  DWF.range / DWF.init of sel.ducb,
#   not waiting:  len(ducb.chosen_arms) == len(ducb.rewards)
#   waiting:      len(ducb.chosen_arms) == len(ducb.rewards) + 1,  0 <= chosen_arm < n,  ducb.chosen_arms[-1] == chosen_arm
DG_CONFIGS = {"1-step Progress": ("last", None), "Monotonic Progress": ("max", "max-with-0"), "Best Reward": (None, None), "Diversity": (None, "neg"), "avg/abs": ("avg", "abs")}


def _dg_stubs(shared, n):
    """DUCB's methods by the contracts proved in section 7"""
    def mean(E, self, arm_idx):
        return Sym(XBAR(C.to_z3(arm_idx)))

    def pad(E, self, arm_idx):
        return Sym(BONUS(C.to_z3(arm_idx)))

    def reward(E, self, r):
        f = self.fields
        # DUCB.reward's precondition (a choice is waiting for its reward): obliged by the harness on accepted calls
        E.st.ghost.setdefault("reward_pre", []).append(C.mk(f["chosen_arms"].len_z() == f["rewards"].len_z() + 1))
        if isinstance(r, T.Tensor):
            r = r.item()
        E.getattr(f["rewards"], "append").fn(E, r)
        f["discounted_frequencies"].data = E.st.fresh("discounted_frequencies.after_reward", f["discounted_frequencies"].data.sort())
        f["total_frequency"] = E.st.fresh_sym("total_frequency.after_reward", REAL)
        E.st.ghost["rewards_recorded"] = E.st.ghost.get("rewards_recorded", 0) + 1
    shared.stubs[MAPB + "DUCB._discounted_empirical_mean"] = mean
    shared.stubs[MAPB + "DUCB._padding_function"] = pad
    shared.stubs[MAPB + "DUCB.reward"] = reward
    shared.sched_mutable_arrays = True


def mk_dg(E, n, cfg, waiting):
    baseline, op = DG_CONFIGS[cfg]
    d, t = mk_ducb(E, n, waiting=False)
    f = d.fields
    if waiting is not False:
        # the flag is symbolic: the history is one longer exactly when waiting
        ln = C.binop("+", t, C.ite(waiting, 1, 0))
        f["chosen_arms"] = fresh_symlist(E, "chosen_arms", INT, length=ln)
    assume_dwf_hist(E, d)
    last = [fresh_symlist(E, f"last_rewards[{k}]", REAL) for k in range(n)]
    arm = E.int("chosen_arm", -1)
    E.assume(arm < n)
    sel = E.new_obj(MT + "DUCBGeneralized", name="selector", tasks=T.arange(n), waiting_for_reward=waiting, baseline=baseline, op=op, verbose=False,
                    heuristic_params={"heuristic_gamma": E.real("heuristic_gamma", 0, 1)}, n_contexts=n, ducb=d, last_rewards=last, chosen_arm=arm)
    if waiting is not False:
        ch = f["chosen_arms"]
        E.assume(implies(waiting, band(arm >= 0, C.mk(z3.Select(ch.cols[0], ch.len_z() - 1) == arm.z))))
    return sel, d, t, last, arm


def mk_h_dg_select(n, cfg):
    def h(E):
        w0 = E.bool("waiting_for_reward")
        sel, d, t, last, arm0 = mk_dg(E, n, cfg, w0)
        f = d.fields
        ch0 = f["chosen_arms"]
        ch_len, ch_cols = ch0.len_z(), list(ch0.cols)
        ch_snap, rw_snap = ch0.copy(), f["rewards"].copy()
        kind, v = E.call_catch(E.getattr(sel, "select"))
        _protocol_obligations(E, sel, w0, "select", kind, v, "dg")
        if kind == "ok":
            arm = sel.fields["chosen_arm"]
            E.oblige("dg.select.valid_task_id", _id_ok(v, n))
            E.oblige("dg.select.arm_of_the_bandit_is_valid", _id_ok(arm, n))
            E.oblige("dg.select.task_is_the_bandit_arm_mapped_through_the_task_list", C.compare("==", v, sel.fields["tasks"].at(arm)))
            _appended(E, "dg.select.bandit_history", f["chosen_arms"], ch_len, ch_cols, arm)
            E.oblige("dg.select.GWF.one_choice_pending", C.mk(f["chosen_arms"].len_z() == f["rewards"].len_z() + 1))
            oblige_dwf_hist(E, d, "dg.select")
            if E.branch(C.compare("<", t, 2 * n)):
                E.oblige("dg.select.initial_rounds.arm_is_reward_count_mod_n_arms", C.compare("==", arm, C.binop("%", t, n)))
            else:
                for k in range(n):
                    E.oblige("dg.select.arm_maximises_discounted_mean_plus_bonus",
                             C.compare(">=", C.binop("+", Sym(XBAR(C.to_z3(arm))), Sym(BONUS(C.to_z3(arm)))), Sym(XBAR(z3.IntVal(k)) + BONUS(z3.IntVal(k)))))
            E.oblige("canary.dg.select_first_task", C.compare("==", v, 0), assume_after=False)
        else:
            ok = _same_list(f["chosen_arms"], ch_snap) and _same_list(f["rewards"], rw_snap)
            (E.st.ok if ok else E.st.fail)("dg.select.rejected_call_leaves_bandit_history", *([] if ok else ["history changed"]))
            E.oblige("canary.dg.select_rejected_when_not_waiting", bnot(w0), assume_after=False)
    return Task(f"DUCBGeneralized.select[{cfg},n_tasks={n}]", h, setup=lambda sh: _dg_stubs(sh, n))


def mk_h_dg_feedback(n, cfg, out_of_turn=False):
    """out_of_turn: the dedicated task for the clause 'a rejected feedback is not recorded anywhere'
    (stated once, for one configuration: the code path does not depend on the strategy)"""
    def h(E):
        w0 = False if out_of_turn else E.bool("waiting_for_reward")
        sel, d, t, last, arm = mk_dg(E, n, cfg, w0)
        f = d.fields
        ch_snap, rw_snap = f["chosen_arms"].copy(), f["rewards"].copy()
        rw_len, rw_cols = rw_snap.len_z(), list(rw_snap.cols)
        last_snap = [(l.len_z(), list(l.cols)) for l in last]
        reward = E.real("reward")
        kind, v = E.call_catch(E.getattr(sel, "feedback"), reward)
        _protocol_obligations(E, sel, w0, "feedback", kind, v, "dg")
        if kind == "raise":
            # a rejected feedback must not be recorded as feedback anywhere
            if out_of_turn:
                ok = _same_list(f["chosen_arms"], ch_snap) and _same_list(f["rewards"], rw_snap)
                (E.st.ok if ok else E.st.fail)("dg.feedback.rejected_call_leaves_bandit_history", *([] if ok else ["the bandit's history was modified before the call was rejected"]))
            E.oblige("canary.dg.feedback_rejected_when_waiting", _b(w0), assume_after=False)
            return
        if out_of_turn:
            E.st.fail("dg.feedback.rejected_only_out_of_turn", "feedback without a pending selection was accepted")
            return
        first_visit = None
        for k in range(n):
            here = C.compare("==", arm, k)
            ln, cols = last_snap[k]
            new = sel.fields["last_rewards"][k]
            grown = C.mk(z3.And(new.len_z() == ln + 1, z3.Select(new.cols[0], ln) == reward.z))
            same = C.mk(new.len_z() == ln) if not z3.eq(new.cols[0], cols[0]) or True else True
            E.oblige("dg.feedback.reward_recorded_for_the_selected_task_only", C.ite(here, grown, band(same, _b(z3.eq(new.cols[0], cols[0])))))
            fv = band(here, C.mk(ln == 0))
            first_visit = fv if first_visit is None else bor(first_visit, fv)
        E.oblige("dg.feedback.GWF.no_choice_pending", C.mk(f["chosen_arms"].len_z() == f["rewards"].len_z()))
        for pre in E.st.ghost.get("reward_pre", []):
            E.oblige("dg.feedback.bandit_is_rewarded_for_a_pending_choice", pre)
        n_rec = E.st.ghost.get("rewards_recorded", 0)
        if n_rec == 0:
            E.oblige("dg.feedback.first_visit_retracts_the_choice", band(first_visit, C.mk(f["chosen_arms"].len_z() == ch_snap.len_z() - 1), _b(_same_list(f["rewards"], rw_snap))))
        else:
            E.oblige("dg.feedback.bandit_rewards_grow_by_exactly_one_record", band(bnot(first_visit), _b(n_rec == 1), C.mk(f["rewards"].len_z() == rw_len + 1),
                                                                                     _b(_same_list(f["chosen_arms"], ch_snap))))
        oblige_dwf_hist(E, d, "dg.feedback")
        E.oblige("canary.dg.feedback.always_first_visit", first_visit, assume_after=False)
    return Task(f"DUCBGeneralized.feedback[{cfg},n_tasks={n}{',out of turn' if out_of_turn else ''}]", h, setup=lambda sh: _dg_stubs(sh, n))


def mk_h_dg_init(n):
    def h(E):
        sel = E.call(MT + "DUCBGeneralized", T.arange(n), E.real("upper_bound", 0), E.real("ducb_gamma", 0, 1), E.real("zeta", 0), "max", "max-with-0")
        f = sel.fields
        E.oblige("dg.init.not_waiting", bnot(f["waiting_for_reward"]))
        d = f["ducb"]
        ok = isinstance(d, Obj) and d.fields.get("chosen_arms") == [] and d.fields.get("rewards") == [] and d.fields.get("n_arms") == n
        (E.st.ok if ok else E.st.fail)("dg.init.bandit_with_one_arm_per_task_and_empty_history", *([] if ok else [repr(d)]))
        ok = f["last_rewards"] == [[] for _ in range(n)] and len({id(x) for x in f["last_rewards"]}) == n
        (E.st.ok if ok else E.st.fail)("dg.init.one_empty_reward_history_per_task", *([] if ok else [repr(f["last_rewards"])]))
        E.oblige("canary.dg.init", _b(f["waiting_for_reward"]), assume_after=False)
    return Task(f"DUCBGeneralized.init[n_tasks={n}]", h, setup=lambda sh: _dg_stubs(sh, n))


DG_TASKS = ([mk_h_dg_init(2), mk_h_dg_init(3)]
            + [mk_h_dg_select(n, "Monotonic Progress") for n in (2, 3)]
            + [mk_h_dg_feedback(2, cfg) for cfg in DG_CONFIGS] + [mk_h_dg_feedback(3, "Monotonic Progress"), mk_h_dg_feedback(3, "1-step Progress"), mk_h_dg_feedback(2, "Best Reward", out_of_turn=True)])

DUCB_TASKS = [
    Task("DUCB.init", h_ducb_init, setup=sched_setup(0)),
    Task("DUCB.reward", h_ducb_reward, setup=_ducb_setup),
    Task("DUCB._discounted_empirical_mean", h_ducb_mean),
    Task("DUCB._padding_function", h_ducb_padding),
    mk_h_ducb_exploit(2), mk_h_ducb_exploit(3),
    Task("DUCB.choose_arm[initial rounds]", h_ducb_choose_initial),
    Task("DUCB.every_arm_played", h_ducb_every_arm_played),
]

TASKS = list(SELECTOR_TASKS) + DUCB_TASKS + DG_TASKS + UTS_TASKS + AMT_TASKS + STAGE2_TASKS + STAGE1_TASKS + SMT_TASKS
REPLAY = {p: "c11_sched" for p in ("TaskSelector", "RoundRobinSelector", "DUCB", "train_uts", "train_active_mt", "smt_stage", "train_smt")}
TRUSTED = [
    "Gymnasium RecordEpisodeStatistics queues, collections.deque, numpy per-task arrays, Generator.choice without replacement (pyvc/lib/ext_sched.py)",
    "sums over the bandit's window are defined by their recurrence (Finset.sum_range_succ); equalities between them by the induction schema ext_returns.induct (lemmas/SumLemmas.lean nat_induct_upto / fold_unique)",
    "python lists of symbolic length (pyvc/lib/ext_symlist.py) for the bandit's histories; l[:-1] drops the last element",
    "reals for the bandit's float arithmetic; sqrt / log / pow uninterpreted with their sign and monotonicity facts",
]
ASSUMPTIONS = [
    "train_st (a PARAMETER of the schedulers) satisfies the per-routine contract of C11 proved in contracts/loops.py: it executes 0 <= k <= max(0, total_timesteps - global_step) steps, "
    "completes at most total_episodes episodes and leaves as soon as that limit is reached (so every executed step then belongs to a completed episode), "
    "returns only when the budget is used up or the episode limit is reached, and reports result.global_step == global_step + k",
    "positive budgets (total_timesteps >= 1, b1 >= 1, b2 >= 1), scheduling_interval >= 1, episodes_per_task >= 1",
    "configuration scenarios: n_tasks in {2, 3} wherever the code keeps per-task arrays / lists / pools (train_active_mt, SMT, DUCBGeneralized, DUCB after the initial rounds); "
    "train_uts, RoundRobinSelector(np.arange(n)), DUCB's initial rounds, reward(), discounted mean and bonus are proved for ANY number of tasks / arms",
    "SMT: 1 <= K <= n_tasks, unsolvable_threshold < solved_threshold (a nan mean return behaves like a value strictly between the thresholds), kappa in [0, 1]; "
    "smt_stage1 for n_tasks == 3 with K in {2, 3} runs in the thorough tier only",
    "smt_stage1's pools are the locals training_pool / main_pool / solved_pool / unsolvable_pool (the pool invariant is stated over these names); "
    "result / counter locals of all schedulers are found by role, not by name",
    "every completed episode has at least one step (RecordEpisodeStatistics records episode_lengths after incrementing it)",
    "D-UCB: gamma in (0, 1], upper_bound > 0, zeta > 0; the window of the last 250 rounds is the implementation's documented truncation of the discounted sums; "
    "choose_arm and reward alternate (DWF.lens), which DUCBGeneralized guarantees (dg.*.GWF obligations)",
    "the asserts of the selector classes are executed (python is not run with -O)",
]
NOT_COVERED = [
    "D-UCB with an arm whose discounted frequency N_t(k) is 0 (arm absent from the last 250 rounds): mean is 0/0 (nan), the contract is stated for N_t(k) > 0; "
    "native bounded stand-in `ducb_zero_frequency` in replay/drivers/c11_sched.py (600 rounds, arm stays a valid index, no exception)",
    "zero budgets: with total_timesteps == 0 (b1 == 0, b2 == 0) train_uts / train_active_mt / smt_stage1 / smt_stage2 reach `return result` with the result unbound (UnboundLocalError)",
    "the VALUE of the intrinsic reward DUCBGeneralized hands to the bandit (baseline / op arithmetic) - only how often and for which arm it is recorded",
    "more than 3 tasks for the routines with per-task python containers",
]
