#!/usr/bin/env python3
"""Run the checks against a behaviour-preserving refactoring (false-alarm test).

usage: tools_harmless.py <pid> [<worktree>] [--checks C01,C07]
Stores the diff and the agent's equivalence script under /verif/harmless/<pid>/ and records the exit code of every
check run with PYVC_REPO pointing at the refactored tree: 0 expected; 1 is a FALSE ALARM; 2 / 3 is brittleness."""
import json
import os
import shutil
import subprocess
import sys
import time

VERIF = os.path.dirname(os.path.abspath(__file__))


def sh(cmd, cwd=None, env=None, timeout=3600):
    p = subprocess.run(cmd, shell=True, cwd=cwd, env=env, capture_output=True, text=True, timeout=timeout)
    return p.returncode, p.stdout + p.stderr


def main():
    a = sys.argv[1:]
    pid = a[0]
    wt = a[1] if len(a) > 1 and not a[1].startswith("--") else f"/tmp/wt5/{pid}"
    checks = a[a.index("--checks") + 1].split(",") if "--checks" in a else [pid]
    out = os.path.join(VERIF, "harmless", pid)
    os.makedirs(out, exist_ok=True)
    rc, diff = sh("git diff", cwd=wt)
    if not diff.strip():
        print("no diff in", wt)
        return 2
    open(os.path.join(out, "patch.diff"), "w").write(diff)
    for f in os.listdir(wt):
        if f.startswith("equiv_") and f.endswith(".py"):
            shutil.copy(os.path.join(wt, f), os.path.join(out, f))
    meta = dict(property=pid, base_commit=sh("git -C /repo rev-parse --short HEAD")[1].strip(), files=sorted({ln[6:] for ln in diff.splitlines() if ln.startswith("+++ b/")}),
                lines_changed=sum(1 for ln in diff.splitlines() if ln[:1] in "+-" and ln[:3] not in ("+++", "---")), checks={})
    env = dict(os.environ, PYVC_REPO=wt)
    for c in checks:
        t0 = time.time()
        rcc, oc = sh(f"./check {c}", cwd=VERIF, env=env)
        lines = [ln for ln in oc.splitlines() if ln.startswith(("VIOLATION", "UNDECIDED", "CHECKER-ERROR", "[C")) or "failed obligation" in ln]
        meta["checks"][c] = dict(exit=rcc, seconds=round(time.time() - t0, 1), lines=[ln[:400] for ln in lines[:10]])
        print(c, "exit", rcc, *[ln[:300] for ln in lines[:5]], sep="\n  ")
        shutil.rmtree(os.path.join(VERIF, "replay", c), ignore_errors=True)
    meta["false_alarm"] = [c for c, r in meta["checks"].items() if r["exit"] == 1]
    meta["not_decided"] = [c for c, r in meta["checks"].items() if r["exit"] in (2, 3)]
    json.dump(meta, open(os.path.join(out, "meta.json"), "w"), indent=1)
    print(json.dumps({k: meta[k] for k in ("files", "lines_changed", "false_alarm", "not_decided")}))
    return 0


if __name__ == "__main__":
    sys.exit(main())
