#!/usr/bin/env python3
"""Confirm a seeded property-breaking change and run the checks against it.

usage: tools_seed.py <pid> [<worktree>] [--checks C01,C11] [--name <subdir>]

Takes `git diff` of the worktree (default /tmp/wt/<pid>) as the change and its
demo_<pid>.py as the demonstration; in a FRESH scratch worktree of /repo
(outside /repo and /verif) confirms: demo passes without the patch, fails with
it, package still imports; then runs ./check for the given properties with
PYVC_REPO pointing at the patched scratch tree (same as applying it to /repo,
without disturbing /repo) and records everything under /verif/seeded/<name>/.
"""
import json
import os
import shutil
import subprocess
import sys
import time

VERIF = os.path.dirname(os.path.abspath(__file__))


def sh(cmd, cwd=None, env=None, timeout=3600):
    p = subprocess.run(cmd, shell=True, cwd=cwd, env=env, capture_output=True, text=True, timeout=timeout)
    return p.returncode, (p.stdout + p.stderr)


def main():
    a = sys.argv[1:]
    pid = a[0]
    wt = a[1] if len(a) > 1 and not a[1].startswith("--") else f"/tmp/wt/{pid}"
    checks = [pid]
    name = pid
    if "--checks" in a:
        checks = a[a.index("--checks") + 1].split(",")
    if "--name" in a:
        name = a[a.index("--name") + 1]
    out = os.path.join(VERIF, "seeded", name)
    os.makedirs(out, exist_ok=True)
    rc, diff = sh("git diff", cwd=wt)
    if not diff.strip():
        print("no diff in", wt)
        return 2
    open(os.path.join(out, "patch.diff"), "w").write(diff)
    demo_src = os.path.join(wt, f"demo_{pid}.py")
    demos = [f for f in os.listdir(wt) if f.startswith("demo_") and f.endswith(".py")]
    if not os.path.exists(demo_src) and demos:
        demo_src = os.path.join(wt, demos[0])
    demo_name = os.path.basename(demo_src)
    shutil.copy(demo_src, os.path.join(out, demo_name))
    scratch = f"/tmp/seedcheck_{name}"
    sh(f"git -C /repo worktree remove --force {scratch}")
    shutil.rmtree(scratch, ignore_errors=True)
    rc, o = sh(f"git -C /repo worktree add -q --detach {scratch} HEAD")
    env = dict(os.environ, JAX_PLATFORMS="cpu")
    meta = dict(property=pid, name=name, base_commit=sh("git -C /repo rev-parse --short HEAD")[1].strip(), ran=[])
    try:
        shutil.copy(demo_src, os.path.join(scratch, demo_name))
        rc0, o0 = sh(f"/venv/bin/python {demo_name}", cwd=scratch, env=env, timeout=1800)
        meta["ran"].append(dict(cmd=f"python {demo_name} (unmodified tree)", exit=rc0, tail=o0[-400:]))
        rc, o = sh(f"git apply {os.path.join(out, 'patch.diff')}", cwd=scratch)
        if rc != 0:
            print("patch does not apply to /repo HEAD:", o)
            meta["applies"] = False
            json.dump(meta, open(os.path.join(out, "meta.json"), "w"), indent=1)
            return 2
        rc1, o1 = sh(f"/venv/bin/python {demo_name}", cwd=scratch, env=env, timeout=1800)
        meta["ran"].append(dict(cmd=f"python {demo_name} (with patch)", exit=rc1, tail=o1[-600:]))
        rci, oi = sh("/venv/bin/python -c 'import rl_blox, pkgutil, importlib\nfor m in pkgutil.walk_packages(rl_blox.__path__, \"rl_blox.\"):\n    importlib.import_module(m.name)'", cwd=scratch, env=env)
        meta["ran"].append(dict(cmd="import every rl_blox module (with patch)", exit=rci, tail=oi[-300:]))
        meta["demo_passes_without"] = rc0 == 0
        meta["demo_fails_with"] = rc1 != 0
        meta["imports_ok"] = rci == 0
        if "--tests" in a:
            tests = a[a.index("--tests") + 1]
            rct, ot = sh(f"/venv/bin/python -m pytest -q -p no:cacheprovider {tests}", cwd=scratch, env=env, timeout=3600)
            meta["ran"].append(dict(cmd=f"pytest {tests} (with patch)", exit=rct, tail=ot[-300:]))
            meta["tests_pass_with"] = rct == 0
        meta["checks"] = {}
        env2 = dict(os.environ, PYVC_REPO=scratch)
        for c in checks:
            t0 = time.time()
            rcc, oc = sh(f"./check {c}", cwd=VERIF, env=env2, timeout=3600)
            lines = [ln for ln in oc.splitlines() if ln.startswith(("VIOLATION", "KNOWN-FINDING", "UNDECIDED", "CHECKER-ERROR", "[C")) or "failed obligation" in ln or "replayed" in ln]
            meta["checks"][c] = dict(exit=rcc, seconds=round(time.time() - t0, 1), lines=lines[:14])
            print(c, "exit", rcc, *lines[:6], sep="\n  ")
            # keep the replay files of this run
            rdir = os.path.join(VERIF, "replay", c)
            if os.path.isdir(rdir):
                shutil.rmtree(rdir, ignore_errors=True)
        meta["detected_by"] = [c for c, r in meta["checks"].items() if r["exit"] == 1]
    finally:
        sh(f"git -C /repo worktree remove --force {scratch}")
        shutil.rmtree(scratch, ignore_errors=True)
    json.dump(meta, open(os.path.join(out, "meta.json"), "w"), indent=1)
    print(json.dumps({k: meta[k] for k in ("demo_passes_without", "demo_fails_with", "imports_ok", "detected_by") if k in meta}))
    return 0


if __name__ == "__main__":
    sys.exit(main())
