#!/usr/bin/env python3
"""Regenerates MANIFEST.json from contracts/*.py metadata (run by hand)."""
import importlib
import json
import os
import sys

sys.path.insert(0, os.path.dirname(os.path.abspath(__file__)))
ALL = [f"C{i:02d}" for i in range(1, 21)]
NA_REASONS = json.load(open("not_applicable.json")) if os.path.exists("not_applicable.json") else {}
checks = []
na = []
CLAIMED = json.load(open("claimed.json"))
for pid in ALL:
    if pid not in CLAIMED:
        na.append(dict(property_id=pid, reason=NA_REASONS.get(pid, "contracts for this property are under construction in this round (not yet claimed; see DESIGN.md section 5)")))
        continue
    if not os.path.exists(f"contracts/{pid}.py"):
        na.append(dict(property_id=pid, reason=NA_REASONS.get(pid, "contracts for this property are not built yet (work in progress; see DESIGN.md section 5)")))
        continue
    m = importlib.import_module(f"contracts.{pid}")
    if getattr(m, "READY", True) is False:
        na.append(dict(property_id=pid, reason="contracts for this property are under construction (not yet claimed)"))
        continue
    if getattr(m, "NOT_APPLICABLE", None):
        na.append(dict(property_id=pid, reason=m.NOT_APPLICABLE))
        continue
    level = getattr(m, "LEVEL", "proof")
    checks.append(dict(
        property_id=pid,
        quick_cmd=f"./check {pid} --tier quick",
        thorough_cmd=f"./check {pid} --tier thorough",
        evidence_file=f"/verif/evidence/{pid}.json",
        replay_cmd_template="./check --replay {path}",
        engine="pyvc",
        level_claimed=dict(category=level, text=getattr(m, "LEVEL_TEXT", (m.__doc__ or "").strip().split("\n\n")[0]), design_ref=f"DESIGN.md section 5, {pid}"),
        level_note=getattr(m, "LEVEL_NOTE", "; ".join(getattr(m, "TRUSTED", []) + getattr(m, "ASSUMPTIONS", []))),
        technique=getattr(m, "TECHNIQUE", "contract-based deductive verification: VCs generated from the real AST by symbolic execution against sidecar contracts, discharged by z3/cvc5"),
    ))
man = dict(
    version=1,
    setup_cmd="python3-vt -m compileall -q pyvc contracts && mkdir -p evidence replay .work && for f in lemmas/*.lean; do lean \"$f\" || exit 1; done",
    hooks=dict(guard="RL_BLOX_VERIF", enable="none needed: contracts are sidecar files under /verif; /repo sources are read as text (no instrumentation)",
               baseline_off_cmd="cd /repo && /venv/bin/python -m pytest -ra -q -p no:cacheprovider --timeout=900 --continue-on-collection-errors",
               source_commits=[], add_only=True),
    engines=[dict(name="pyvc", path="/verif/pyvc", serves_properties=[c["property_id"] for c in checks],
                  kind_free_text="AST-to-VC symbolic executor for the Python subset used by rl_blox, sidecar contracts, z3 (primary) + cvc5 (second) discharge, native replay drivers")],
    checks=checks,
    not_applicable=na,
    notes="See DESIGN.md. Exit codes of ./check: 0 proved (known findings listed), 1 violation, 2 undecided, 3 checker error.",
)
json.dump(man, open("MANIFEST.json", "w"), indent=1)
print(len(checks), "checks;", len(na), "not claimed")
