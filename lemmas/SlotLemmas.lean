/- Ring-buffer slot arithmetic used by pyvc's `slot_axioms` normalisation
   (contracts/C04.py).  Python's `%` with a positive modulus is `Int.emod`. -/
import Mathlib

namespace PyvcSlot

/-- shift: `((a mod N) + c) mod N = (a + c) mod N` -/
theorem slot_shift (a c N : ℤ) : (a % N + c) % N = (a + c) % N :=
  Int.emod_add_emod a N c

/-- range for a positive modulus -/
theorem slot_range (a N : ℤ) (h : 0 < N) : 0 ≤ a % N ∧ a % N < N :=
  ⟨Int.emod_nonneg a (ne_of_gt h), Int.emod_lt_of_pos a h⟩

end PyvcSlot
