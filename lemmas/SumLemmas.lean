/-
Finite-sum lemmas used as named proof rules by the pyvc verifier
(reductions over a symbolic axis are uninterpreted Sum nodes; each rule below
is applied by a function that first OBLIGES the premise and only then assumes
the conclusion).  Check with:  lean /verif/lemmas/SumLemmas.lean
-/
import Mathlib

open Finset BigOperators

namespace PyvcSum

/-- congruence (pyvc.tensor.close_sums): pointwise equal integrands have equal sums -/
theorem sum_congr_range (n : ℕ) (f g : ℕ → ℝ) (h : ∀ j, j < n → f j = g j) :
    ∑ j ∈ range n, f j = ∑ j ∈ range n, g j :=
  Finset.sum_congr rfl (fun j hj => h j (Finset.mem_range.mp hj))

/-- two-point support (pyvc.lib.ext_numeric.sum_two_point_support):
a vector that vanishes outside the positions `a`, `b` sums to `f a + f b`
(to `f a` when the two positions coincide) -/
theorem sum_two_point_support (n : ℕ) (f : ℕ → ℝ) (a b : ℕ) (ha : a < n) (hb : b < n)
    (h : ∀ j, j < n → j ≠ a → j ≠ b → f j = 0) :
    ∑ j ∈ range n, f j = f a + (if a = b then 0 else f b) := by
  by_cases hab : a = b
  · subst hab
    simp only [if_true, add_zero]
    apply Finset.sum_eq_single_of_mem a (Finset.mem_range.mpr ha)
    intro j hj hja
    exact h j (Finset.mem_range.mp hj) hja hja
  · simp only [hab, if_false]
    have hsub : ({a, b} : Finset ℕ) ⊆ range n := by
      intro x hx
      simp only [Finset.mem_insert, Finset.mem_singleton] at hx
      rcases hx with rfl | rfl
      · exact Finset.mem_range.mpr ha
      · exact Finset.mem_range.mpr hb
    rw [← Finset.sum_subset hsub]
    · exact Finset.sum_pair hab
    · intro j hj hjn
      simp only [Finset.mem_insert, Finset.mem_singleton, not_or] at hjn
      exact h j (Finset.mem_range.mp hj) hjn.1 hjn.2

/-- scaling (pyvc.lib.ext_numeric.sum_scale): a constant factor moves out of the sum -/
theorem sum_scale (n : ℕ) (f g : ℕ → ℝ) (k : ℝ) (h : ∀ j, j < n → f j = k * g j) :
    ∑ j ∈ range n, f j = k * ∑ j ∈ range n, g j := by
  rw [Finset.mul_sum]
  exact Finset.sum_congr rfl (fun j hj => h j (Finset.mem_range.mp hj))

/-- affine map (pyvc.lib.ext_policy_stub.sum_affine): a constant factor and a constant
offset move out of the sum -/
theorem sum_affine (n : ℕ) (f g : ℕ → ℝ) (k c : ℝ) (h : ∀ j, j < n → f j = k * g j + c) :
    ∑ j ∈ range n, f j = k * ∑ j ∈ range n, g j + (n : ℝ) * c := by
  have h1 : ∑ j ∈ range n, f j = ∑ j ∈ range n, (k * g j + c) :=
    Finset.sum_congr rfl (fun j hj => h j (Finset.mem_range.mp hj))
  rw [h1, Finset.sum_add_distrib, Finset.sum_const, Finset.card_range, nsmul_eq_mul, Finset.mul_sum]

end PyvcSum

/- ---- bounds of finite sums / means (contracts/C10.py: sum_bounds_lemma; C10, C16) ---- -/
namespace PyvcSum

/-- bounds (contracts/C10.py `sum_bounds_lemma`): a sum of `n` terms that all lie in
`[lo, hi]` lies in `[n*lo, n*hi]` -/
theorem sum_mem_Icc (n : ℕ) (f : ℕ → ℝ) (lo hi : ℝ) (h : ∀ j, j < n → lo ≤ f j ∧ f j ≤ hi) :
    (n : ℝ) * lo ≤ ∑ j ∈ range n, f j ∧ ∑ j ∈ range n, f j ≤ (n : ℝ) * hi := by
  constructor
  · have := Finset.card_nsmul_le_sum (range n) f lo (fun j hj => (h j (Finset.mem_range.mp hj)).1)
    simpa [nsmul_eq_mul] using this
  · have := Finset.sum_le_card_nsmul (range n) f hi (fun j hj => (h j (Finset.mem_range.mp hj)).2)
    simpa [nsmul_eq_mul] using this

/-- one-sided version: a sum of terms that are all `≥ lo` is `≥ n*lo` (used with `lo = 0`
for sums of squares) -/
theorem sum_ge (n : ℕ) (f : ℕ → ℝ) (lo : ℝ) (h : ∀ j, j < n → lo ≤ f j) :
    (n : ℝ) * lo ≤ ∑ j ∈ range n, f j := by
  have := Finset.card_nsmul_le_sum (range n) f lo (fun j hj => h j (Finset.mem_range.mp hj))
  simpa [nsmul_eq_mul] using this

/-- one-sided version: a sum of terms that are all `≤ hi` is `≤ n*hi` -/
theorem sum_le (n : ℕ) (f : ℕ → ℝ) (hi : ℝ) (h : ∀ j, j < n → f j ≤ hi) :
    ∑ j ∈ range n, f j ≤ (n : ℝ) * hi := by
  have := Finset.sum_le_card_nsmul (range n) f hi (fun j hj => h j (Finset.mem_range.mp hj))
  simpa [nsmul_eq_mul] using this

/-- the mean of `n ≥ 1` terms that all lie in `[lo, hi]` lies in `[lo, hi]` -/
theorem mean_mem_Icc (n : ℕ) (hn : 0 < n) (f : ℕ → ℝ) (lo hi : ℝ)
    (h : ∀ j, j < n → lo ≤ f j ∧ f j ≤ hi) :
    lo ≤ (∑ j ∈ range n, f j) / (n : ℝ) ∧ (∑ j ∈ range n, f j) / (n : ℝ) ≤ hi := by
  obtain ⟨h1, h2⟩ := sum_mem_Icc n f lo hi h
  have hn' : (0 : ℝ) < (n : ℝ) := Nat.cast_pos.mpr hn
  constructor
  · rw [le_div_iff₀ hn']; linarith [mul_comm (n : ℝ) lo]
  · rw [div_le_iff₀ hn']; linarith [mul_comm (n : ℝ) hi]

end PyvcSum

/- ---- C16 (CMA-ES): positivity, division, diagonal collapse (pyvc/lib/ext_cmaes.py) ---- -/
namespace PyvcSum

/-- `lemma_sum_pos` (strict): a non-empty sum of positive terms is positive -/
theorem c16_sum_pos (n : ℕ) (hn : 0 < n) (f : ℕ → ℝ) (h : ∀ j, j < n → 0 < f j) :
    0 < ∑ j ∈ range n, f j :=
  Finset.sum_pos (fun j hj => h j (Finset.mem_range.mp hj))
    (Finset.nonempty_range_iff.mpr (Nat.pos_iff_ne_zero.mp hn))

/-- `lemma_sum_pos` (non-strict): a sum of non-negative terms is non-negative -/
theorem c16_sum_nonneg (n : ℕ) (f : ℕ → ℝ) (h : ∀ j, j < n → 0 ≤ f j) :
    0 ≤ ∑ j ∈ range n, f j :=
  Finset.sum_nonneg (fun j hj => h j (Finset.mem_range.mp hj))

/-- `lemma_sum_scale`: division by a constant moves out of the sum -/
theorem c16_sum_div (n : ℕ) (f g : ℕ → ℝ) (c : ℝ) (h : ∀ j, j < n → g j = f j / c) :
    ∑ j ∈ range n, g j = (∑ j ∈ range n, f j) / c := by
  rw [Finset.sum_div]
  exact Finset.sum_congr rfl (fun j hj => h j (Finset.mem_range.mp hj))

/-- `lemma_sum_single_all`: a sum whose terms vanish off the position `d` collapses to
that term (to 0 when `d` is outside the range) - products with a diagonal matrix -/
theorem c16_sum_single (n : ℕ) (f : ℕ → ℝ) (d : ℕ) (h : ∀ j, j < n → j ≠ d → f j = 0) :
    ∑ j ∈ range n, f j = if d < n then f d else 0 := by
  by_cases hd : d < n
  · simp only [hd, if_true]
    apply Finset.sum_eq_single_of_mem d (Finset.mem_range.mpr hd)
    intro j hj hjd
    exact h j (Finset.mem_range.mp hj) hjd
  · simp only [hd, if_false]
    apply Finset.sum_eq_zero
    intro j hj
    have hj' := Finset.mem_range.mp hj
    exact h j hj' (by omega)

/-- `lemma_sum_congr_at`: the same parametrised sum at two parameter values with
pointwise equal terms (instance of `sum_congr_range`) -/
theorem c16_sum_congr (n : ℕ) (F : ℕ → ℕ → ℕ → ℝ) (p q p' q' : ℕ)
    (h : ∀ j, j < n → F p q j = F p' q' j) :
    ∑ j ∈ range n, F p q j = ∑ j ∈ range n, F p' q' j :=
  sum_congr_range n (F p q) (F p' q') h

/-- normalised weights sum to one: `w j = a j / S` with `S = Σ a ≠ 0` -/
theorem c16_normalised_sum_one (n : ℕ) (a w : ℕ → ℝ)
    (hS : (∑ j ∈ range n, a j) ≠ 0) (h : ∀ j, j < n → w j = a j / ∑ i ∈ range n, a i) :
    ∑ j ∈ range n, w j = 1 := by
  rw [c16_sum_div n a w _ h]
  exact div_self hS

end PyvcSum
