/-
Finite-sum lemmas used as named proof rules by the pyvc verifier
(reductions over a symbolic axis are uninterpreted Sum nodes; each rule below
is applied by a function that first OBLIGES the premise and only then assumes
the conclusion).  Check with:  lean /verif/lemmas/SumLemmas.lean
-/
import Mathlib

open Finset BigOperators

namespace PyvcSum

/-- congruence (pyvc.tensor.close_sums): pointwise equal integrands have equal sums -/
theorem sum_congr_range (n : ℕ) (f g : ℕ → ℝ) (h : ∀ j, j < n → f j = g j) :
    ∑ j ∈ range n, f j = ∑ j ∈ range n, g j :=
  Finset.sum_congr rfl (fun j hj => h j (Finset.mem_range.mp hj))

/-- two-point support (pyvc.lib.ext_numeric.sum_two_point_support):
a vector that vanishes outside the positions `a`, `b` sums to `f a + f b`
(to `f a` when the two positions coincide) -/
theorem sum_two_point_support (n : ℕ) (f : ℕ → ℝ) (a b : ℕ) (ha : a < n) (hb : b < n)
    (h : ∀ j, j < n → j ≠ a → j ≠ b → f j = 0) :
    ∑ j ∈ range n, f j = f a + (if a = b then 0 else f b) := by
  by_cases hab : a = b
  · subst hab
    simp only [if_true, add_zero]
    apply Finset.sum_eq_single_of_mem a (Finset.mem_range.mpr ha)
    intro j hj hja
    exact h j (Finset.mem_range.mp hj) hja hja
  · simp only [hab, if_false]
    have hsub : ({a, b} : Finset ℕ) ⊆ range n := by
      intro x hx
      simp only [Finset.mem_insert, Finset.mem_singleton] at hx
      rcases hx with rfl | rfl
      · exact Finset.mem_range.mpr ha
      · exact Finset.mem_range.mpr hb
    rw [← Finset.sum_subset hsub]
    · exact Finset.sum_pair hab
    · intro j hj hjn
      simp only [Finset.mem_insert, Finset.mem_singleton, not_or] at hjn
      exact h j (Finset.mem_range.mp hj) hjn.1 hjn.2

/-- scaling (pyvc.lib.ext_numeric.sum_scale): a constant factor moves out of the sum -/
theorem sum_scale (n : ℕ) (f g : ℕ → ℝ) (k : ℝ) (h : ∀ j, j < n → f j = k * g j) :
    ∑ j ∈ range n, f j = k * ∑ j ∈ range n, g j := by
  rw [Finset.mul_sum]
  exact Finset.sum_congr rfl (fun j hj => h j (Finset.mem_range.mp hj))

/-- affine map (pyvc.lib.ext_policy_stub.sum_affine): a constant factor and a constant
offset move out of the sum -/
theorem sum_affine (n : ℕ) (f g : ℕ → ℝ) (k c : ℝ) (h : ∀ j, j < n → f j = k * g j + c) :
    ∑ j ∈ range n, f j = k * ∑ j ∈ range n, g j + (n : ℝ) * c := by
  have h1 : ∑ j ∈ range n, f j = ∑ j ∈ range n, (k * g j + c) :=
    Finset.sum_congr rfl (fun j hj => h j (Finset.mem_range.mp hj))
  rw [h1, Finset.sum_add_distrib, Finset.sum_const, Finset.card_range, nsmul_eq_mul, Finset.mul_sum]

end PyvcSum

/- ---- bounds of finite sums / means (contracts/C10.py: sum_bounds_lemma; C10, C16) ---- -/
namespace PyvcSum

/-- bounds (contracts/C10.py `sum_bounds_lemma`): a sum of `n` terms that all lie in
`[lo, hi]` lies in `[n*lo, n*hi]` -/
theorem sum_mem_Icc (n : ℕ) (f : ℕ → ℝ) (lo hi : ℝ) (h : ∀ j, j < n → lo ≤ f j ∧ f j ≤ hi) :
    (n : ℝ) * lo ≤ ∑ j ∈ range n, f j ∧ ∑ j ∈ range n, f j ≤ (n : ℝ) * hi := by
  constructor
  · have := Finset.card_nsmul_le_sum (range n) f lo (fun j hj => (h j (Finset.mem_range.mp hj)).1)
    simpa [nsmul_eq_mul] using this
  · have := Finset.sum_le_card_nsmul (range n) f hi (fun j hj => (h j (Finset.mem_range.mp hj)).2)
    simpa [nsmul_eq_mul] using this

/-- one-sided version: a sum of terms that are all `≥ lo` is `≥ n*lo` (used with `lo = 0`
for sums of squares) -/
theorem sum_ge (n : ℕ) (f : ℕ → ℝ) (lo : ℝ) (h : ∀ j, j < n → lo ≤ f j) :
    (n : ℝ) * lo ≤ ∑ j ∈ range n, f j := by
  have := Finset.card_nsmul_le_sum (range n) f lo (fun j hj => h j (Finset.mem_range.mp hj))
  simpa [nsmul_eq_mul] using this

/-- one-sided version: a sum of terms that are all `≤ hi` is `≤ n*hi` -/
theorem sum_le (n : ℕ) (f : ℕ → ℝ) (hi : ℝ) (h : ∀ j, j < n → f j ≤ hi) :
    ∑ j ∈ range n, f j ≤ (n : ℝ) * hi := by
  have := Finset.sum_le_card_nsmul (range n) f hi (fun j hj => h j (Finset.mem_range.mp hj))
  simpa [nsmul_eq_mul] using this

/-- the mean of `n ≥ 1` terms that all lie in `[lo, hi]` lies in `[lo, hi]` -/
theorem mean_mem_Icc (n : ℕ) (hn : 0 < n) (f : ℕ → ℝ) (lo hi : ℝ)
    (h : ∀ j, j < n → lo ≤ f j ∧ f j ≤ hi) :
    lo ≤ (∑ j ∈ range n, f j) / (n : ℝ) ∧ (∑ j ∈ range n, f j) / (n : ℝ) ≤ hi := by
  obtain ⟨h1, h2⟩ := sum_mem_Icc n f lo hi h
  have hn' : (0 : ℝ) < (n : ℝ) := Nat.cast_pos.mpr hn
  constructor
  · rw [le_div_iff₀ hn']; linarith [mul_comm (n : ℝ) lo]
  · rw [div_le_iff₀ hn']; linarith [mul_comm (n : ℝ) hi]

end PyvcSum

/- ---- C16 (CMA-ES): positivity, division, diagonal collapse (pyvc/lib/ext_cmaes.py) ---- -/
namespace PyvcSum

/-- `lemma_sum_pos` (strict): a non-empty sum of positive terms is positive -/
theorem c16_sum_pos (n : ℕ) (hn : 0 < n) (f : ℕ → ℝ) (h : ∀ j, j < n → 0 < f j) :
    0 < ∑ j ∈ range n, f j :=
  Finset.sum_pos (fun j hj => h j (Finset.mem_range.mp hj))
    (Finset.nonempty_range_iff.mpr (Nat.pos_iff_ne_zero.mp hn))

/-- `lemma_sum_pos` (non-strict): a sum of non-negative terms is non-negative -/
theorem c16_sum_nonneg (n : ℕ) (f : ℕ → ℝ) (h : ∀ j, j < n → 0 ≤ f j) :
    0 ≤ ∑ j ∈ range n, f j :=
  Finset.sum_nonneg (fun j hj => h j (Finset.mem_range.mp hj))

/-- `lemma_sum_scale`: division by a constant moves out of the sum -/
theorem c16_sum_div (n : ℕ) (f g : ℕ → ℝ) (c : ℝ) (h : ∀ j, j < n → g j = f j / c) :
    ∑ j ∈ range n, g j = (∑ j ∈ range n, f j) / c := by
  rw [Finset.sum_div]
  exact Finset.sum_congr rfl (fun j hj => h j (Finset.mem_range.mp hj))

/-- `lemma_sum_single_all`: a sum whose terms vanish off the position `d` collapses to
that term (to 0 when `d` is outside the range) - products with a diagonal matrix -/
theorem c16_sum_single (n : ℕ) (f : ℕ → ℝ) (d : ℕ) (h : ∀ j, j < n → j ≠ d → f j = 0) :
    ∑ j ∈ range n, f j = if d < n then f d else 0 := by
  by_cases hd : d < n
  · simp only [hd, if_true]
    apply Finset.sum_eq_single_of_mem d (Finset.mem_range.mpr hd)
    intro j hj hjd
    exact h j (Finset.mem_range.mp hj) hjd
  · simp only [hd, if_false]
    apply Finset.sum_eq_zero
    intro j hj
    have hj' := Finset.mem_range.mp hj
    exact h j hj' (by omega)

/-- `lemma_sum_congr_at`: the same parametrised sum at two parameter values with
pointwise equal terms (instance of `sum_congr_range`) -/
theorem c16_sum_congr (n : ℕ) (F : ℕ → ℕ → ℕ → ℝ) (p q p' q' : ℕ)
    (h : ∀ j, j < n → F p q j = F p' q' j) :
    ∑ j ∈ range n, F p q j = ∑ j ∈ range n, F p' q' j :=
  sum_congr_range n (F p q) (F p' q') h

/-- normalised weights sum to one: `w j = a j / S` with `S = Σ a ≠ 0` -/
theorem c16_normalised_sum_one (n : ℕ) (a w : ℕ → ℝ)
    (hS : (∑ j ∈ range n, a j) ≠ 0) (h : ∀ j, j < n → w j = a j / ∑ i ∈ range n, a i) :
    ∑ j ∈ range n, w j = 1 := by
  rw [c16_sum_div n a w _ h]
  exact div_self hS

end PyvcSum

/- ---- C07 (contracts/C07.py, pyvc/lib/ext_returns.py): induction schema, fold uniqueness, n-step closed form, GAE suffix congruence ---- -/
namespace PyvcSum

/-- induction schema over 0..n (pyvc.lib.ext_returns.induct): base and step are proof
obligations, the conclusion is what the verifier assumes afterwards -/
theorem nat_induct_upto (n : ℕ) (P : ℕ → Prop) (h0 : P 0)
    (hs : ∀ k, k < n → P k → P (k + 1)) : ∀ k, k ≤ n → P k := by
  intro k
  induction k with
  | zero => intro _; exact h0
  | succ k ih =>
    intro hk
    exact hs k (Nat.lt_of_succ_le hk) (ih (Nat.le_of_succ_le hk))

/-- a fold is determined by its recurrence (pyvc.lib.ext_returns lax.scan model: the carry
after k steps is DEFINED by c 0 = init, c (k+1) = f k (c k)); two such sequences agree -/
theorem fold_unique {α : Type} (n : ℕ) (f : ℕ → α → α) (c d : ℕ → α) (h0 : c 0 = d 0)
    (hc : ∀ k, k < n → c (k + 1) = f k (c k)) (hd : ∀ k, k < n → d (k + 1) = f k (d k)) :
    ∀ k, k ≤ n → c k = d k := by
  apply nat_induct_upto n (fun k => c k = d k) h0
  intro k hk ih
  rw [hc k hk, hd k hk, ih]

/-- C07: the n-step return / residual discount recurrences are the closed forms of the property
statement:  D n = ∏_{t<n} γ(1-term t),  R n = ∑_{t<n} r t · ∏_{s<t} γ(1-term s) -/
theorem nstep_closed_form (γ : ℝ) (r term R D : ℕ → ℝ) (hR0 : R 0 = 0) (hD0 : D 0 = 1)
    (hR : ∀ t, R (t + 1) = R t + D t * r t) (hD : ∀ t, D (t + 1) = D t * (γ * (1 - term t))) :
    ∀ n, D n = ∏ t ∈ range n, (γ * (1 - term t)) ∧
         R n = ∑ t ∈ range n, r t * ∏ s ∈ range t, (γ * (1 - term s)) := by
  intro n
  induction n with
  | zero => simp [hR0, hD0]
  | succ n ih =>
    obtain ⟨ihD, ihR⟩ := ih
    constructor
    · rw [hD, ihD, Finset.prod_range_succ]
    · rw [hR, ihR, Finset.sum_range_succ, ihD]
      ring

/-- C07 (gae_congr_suffix): a backward recurrence A t = d t + w t · A (t+1), A n = 0 depends only on
the data at t..last when w last = 0 (terminated step) or last = n-1: two data sets that agree on
[t0, last] give the same A t0 -/
theorem gae_congr_suffix (n t0 last : ℕ) (d₁ w₁ d₂ w₂ A₁ A₂ : ℕ → ℝ)
    (h01 : t0 ≤ last) (hl : last < n)
    (hA₁ : ∀ t, t < n → A₁ t = d₁ t + w₁ t * A₁ (t + 1))
    (hA₂ : ∀ t, t < n → A₂ t = d₂ t + w₂ t * A₂ (t + 1))
    (hn₁ : A₁ n = 0) (hn₂ : A₂ n = 0)
    (hcut : w₁ last = 0 ∨ last + 1 = n)
    (hagree : ∀ s, t0 ≤ s → s ≤ last → d₁ s = d₂ s ∧ w₁ s = w₂ s) :
    A₁ t0 = A₂ t0 := by
  have key : ∀ k, k ≤ last - t0 → A₁ (last - k) = A₂ (last - k) := by
    apply nat_induct_upto (last - t0) (fun k => A₁ (last - k) = A₂ (last - k))
    · simp only [Nat.sub_zero]
      obtain ⟨hd, hw⟩ := hagree last h01 le_rfl
      rw [hA₁ last hl, hA₂ last hl, hd, ← hw]
      rcases hcut with h | h
      · rw [h]; ring
      · rw [h, hn₁, hn₂]
    · intro k hk ih
      have h1 : last - (k + 1) + 1 = last - k := by omega
      have h2 : last - (k + 1) < n := by omega
      obtain ⟨hd, hw⟩ := hagree (last - (k + 1)) (by omega) (by omega)
      rw [hA₁ _ h2, hA₂ _ h2, h1, ih, hd, hw]
  have := key (last - t0) le_rfl
  rwa [Nat.sub_sub_self h01] at this

end PyvcSum

/- ---- softmax / log-softmax identities (contracts/C13.py: facts `explog.*`; C13) ---- -/

/-- `explog.log_of_softmax`: log (exp x / S) = x - log S for S > 0 -/
theorem c13_log_of_softmax (x S : ℝ) (hS : 0 < S) : Real.log (Real.exp x / S) = x - Real.log S := by
  rw [Real.log_div (Real.exp_pos x).ne' hS.ne', Real.log_exp]

/-- `explog.exp_of_log_softmax`: exp (x - log S) = exp x / S for S > 0 -/
theorem c13_exp_of_log_softmax (x S : ℝ) (hS : 0 < S) : Real.exp (x - Real.log S) = Real.exp x / S := by
  rw [Real.exp_sub, Real.exp_log hS]
