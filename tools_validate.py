#!/usr/bin/env python3
"""Validate MANIFEST.json and evidence/*.json against the schemas and the proof-level rule
(discharged == obligations), before committing.  usage: python3-vt tools_validate.py"""
import glob
import json
import sys

import jsonschema

ok = True
m = json.load(open("MANIFEST.json"))
jsonschema.validate(m, json.load(open("/root/.vp/MANIFEST.schema.json")))
es = json.load(open("/root/.vp/EVIDENCE.schema.json"))
claimed = {c["property_id"] for c in m["checks"]}
for pid in sorted(claimed):
    f = f"evidence/{pid}.json"
    try:
        e = json.load(open(f))
        jsonschema.validate(e, es)
    except Exception as ex:  # noqa: BLE001
        print("INVALID", f, str(ex)[:200])
        ok = False
        continue
    c = e["coverage"]
    if e["level"] == "proof" and c.get("obligations") != c.get("discharged"):
        print("MISMATCH", f, c.get("obligations"), c.get("discharged"))
        ok = False
    if e.get("violations"):
        print("VIOLATIONS recorded in", f)
        ok = False
    if c.get("undecided"):
        print("UNDECIDED recorded in", f, c["undecided"][:3])
        ok = False
print("ok" if ok else "PROBLEMS")
sys.exit(0 if ok else 1)
