"""Loads rl_blox source text from the repository working tree (never imports it).

Every run re-reads the files, so a change of the source changes the
verification conditions.  Records file, line span and sha256 of every function
the symbolic executor enters (evidence: "functions under contract").
"""
from __future__ import annotations

import ast
import hashlib
import os

from .core import ClassInfo, Closure, LibNS, Unsupported

REPO_ROOT = os.environ.get("PYVC_REPO", "/repo")
PKG = "rl_blox"


class ModuleInfo:
    def __init__(self, name, path, source, tree):
        self.name = name
        self.path = path
        self.source = source
        self.lines = source.splitlines()
        self.tree = tree
        self.globals = None  # built lazily by Loader.module_globals
        self.is_pkg = os.path.basename(path) == "__init__.py"


class Loader:
    def __init__(self, root=None):
        self.root = root or REPO_ROOT
        self.modules = {}
        self.entered = {}  # qualname -> dict(file, lines, sha256)

    # ------------------------------------------------------------------
    def module_path(self, name):
        rel = name.replace(".", "/")
        p = os.path.join(self.root, rel + ".py")
        if os.path.isfile(p):
            return p
        p = os.path.join(self.root, rel, "__init__.py")
        if os.path.isfile(p):
            return p
        return None

    def load_module(self, name) -> ModuleInfo:
        if name in self.modules:
            return self.modules[name]
        p = self.module_path(name)
        if p is None:
            raise Unsupported(f"module {name} not found under {self.root}")
        with open(p, encoding="utf-8") as f:
            src = f.read()
        tree = ast.parse(src, filename=p)
        mi = ModuleInfo(name, p, src, tree)
        self.modules[name] = mi
        return mi

    # ------------------------------------------------------------------
    def _abs_module(self, mi: ModuleInfo, level: int, module: str | None):
        if level == 0:
            return module
        parts = mi.name.split(".")
        if not mi.is_pkg:
            parts = parts[:-1]
        if level > 1:
            parts = parts[: -(level - 1)]
        if module:
            parts = parts + module.split(".")
        return ".".join(parts)

    def module_globals(self, mi: ModuleInfo):
        """name -> lazily resolved binding. Values:
        ('closure', FunctionDef) / ('class', ClassDef) / ('import', modname, attr|None)
        / ('lib', path) / ('assign', expr node)"""
        if mi.globals is not None:
            return mi.globals
        g = {}
        for st in mi.tree.body:
            self._collect(mi, st, g)
        mi.globals = g
        mi.cache = {}
        return g

    def _collect(self, mi, st, g):
        if isinstance(st, ast.FunctionDef):
            g[st.name] = ("closure", st)
        elif isinstance(st, ast.ClassDef):
            g[st.name] = ("class", st)
        elif isinstance(st, ast.Import):
            for a in st.names:
                top = a.name.split(".")[0]
                if top == PKG:
                    g[a.asname or top] = ("import", a.name if a.asname else top, None)
                else:
                    if a.asname:
                        g[a.asname] = ("lib", a.name)
                    else:
                        g[top] = ("lib", top)
        elif isinstance(st, ast.ImportFrom):
            mod = self._abs_module(mi, st.level, st.module)
            for a in st.names:
                nm = a.asname or a.name
                if mod and (mod == PKG or mod.startswith(PKG + ".")):
                    g[nm] = ("import", mod, a.name)
                else:
                    g[nm] = ("lib", f"{mod}.{a.name}")
        elif isinstance(st, ast.Assign):
            for t in st.targets:
                if isinstance(t, ast.Name):
                    g[t.id] = ("assign", st.value)
        elif isinstance(st, ast.AnnAssign):
            if isinstance(st.target, ast.Name) and st.value is not None:
                g[st.target.id] = ("assign", st.value)
        elif isinstance(st, (ast.If, ast.Try)):
            # module-level conditional imports: take every branch's bindings
            for sub in ast.walk(st):
                if isinstance(sub, (ast.Import, ast.ImportFrom)):
                    self._collect(mi, sub, g)

    # ------------------------------------------------------------------
    def note_entered(self, closure: Closure):
        q = closure.qualname
        if q in self.entered:
            return
        node = closure.node
        mi = closure.module
        if mi is None or not hasattr(node, "lineno"):
            return
        lo = node.lineno
        if getattr(node, "decorator_list", None):
            lo = min([lo] + [d.lineno for d in node.decorator_list])
        hi = node.end_lineno
        text = "\n".join(mi.lines[lo - 1 : hi])
        self.entered[q] = dict(
            function=q,
            file=os.path.relpath(mi.path, self.root),
            lines=[lo, hi],
            sha256=hashlib.sha256(text.encode()).hexdigest(),
        )

    def source_of(self, closure):
        node = closure.node
        return "\n".join(closure.module.lines[node.lineno - 1 : node.end_lineno])
