"""misc_model (library models)"""
from . import LIB
from . import ext_tabular  # noqa: E402,F401  (C14: nested python lists, fori_loop)
from . import ext_symlist  # noqa: E402,F401  (C20: python lists of symbolic length)
from . import ext_logging  # noqa: E402,F401  (C20: os.path, orbax checkpointer stub, tqdm.write)
from . import ext_numeric  # noqa: E402,F401  (C18: named finite-sum lemma rules)
from . import ext_spaces  # noqa: E402,F401  (C10: gymnasium.spaces.Box)
from . import ext_cem  # noqa: E402,F401  (C10/C16: broadcast_to, lax.top_k sort model, nnx.Variable.value)
from . import ext_policy_stub  # noqa: E402,F401  (C12: stochastic policy stub, flat value net, sum_affine rule)
from . import ext_tfp  # noqa: E402,F401  (C13: tensorflow_probability Normal / MultivariateNormalDiag / Categorical closed forms)
from . import ext_returns  # noqa: E402,F401  (C07: lax.scan fold, induction schema, reversed()/for over lists of symbolic length)
from . import ext_cmaes  # noqa: E402,F401  (C16: argsort, linalg.norm, log1p, param-tree leaves, sum proof rules)
from . import ext_ensemble  # noqa: E402,F401  (C17: stacked nnx modules / vmap over modules, split-tree.map-merge, random choice/permutation, nnx.scan)
from . import ext_losses  # noqa: E402,F401  (C03: row-wise map stub, exact nnx.scan unrolling for concrete lengths) - keep after ext_ensemble
from . import ext_serialize  # noqa: E402,F401  (C19: pickle / file / orbax restore)
from . import ext_sched  # noqa: E402,F401  (C11: RecordEpisodeStatistics queues, mutable per-task arrays, Generator.choice w/o replacement, sets of task ids)
from . import ext_loops  # noqa: E402,F401  (C01/C11: jnp.empty, collections.deque as a window over an append-only log)
from . import ext_vecenv  # noqa: E402,F401  (C01/C11: gymnasium vector environments with per-environment episode state and autoreset modes)
from . import ext_choice  # noqa: E402,F401  (C02/C08: Generator.choice over a python list of task ids with a call ghost; multi-task replay buffer)
