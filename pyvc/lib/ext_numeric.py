"""Numeric extensions used by contracts/C18.py.

1. Named finite-sum proof rules.  A reduction over a symbolic axis is an
   uninterpreted Sum node (pyvc.tensor.RNode); besides the congruence rule the
   two rules below are available.  Each rule FIRST records its premise as a
   proof obligation `<name>.lemma_premise[...]` (Skolemised, discharged by the
   solver like every other obligation) and only THEN assumes the conclusion.
   The rules themselves are trusted; their statements are proved in
   /verif/lemmas/SumLemmas.lean (PyvcSum.sum_two_point_support, PyvcSum.sum_scale).

2. Helpers to get hold of the Sum node behind a reduction written in a spec.
"""
from __future__ import annotations

import z3

from .. import core as C
from .. import tensor as T
from ..core import INT

LEMMAS = {
    "sum_two_point_support": "lemmas/SumLemmas.lean: PyvcSum.sum_two_point_support",
    "sum_scale": "lemmas/SumLemmas.lean: PyvcSum.sum_scale",
}


def nodes_since(pst, mark, kind=None):
    """reduction nodes registered in the path state since `mark = len(pst.sums)`"""
    return [nd for nd in pst.sums[mark:] if kind is None or nd.kind == kind]


def spec_sum(pst, t, axis):
    """sum of tensor `t` over `axis` written in a specification: returns
    (value, node) where node is the Sum node (None when the axis is concrete
    and the sum was unrolled exactly)."""
    mark = len(pst.sums)
    v = T.reduce_axis(T.as_tensor(t), axis, "sum")
    new = nodes_since(pst, mark, "sum")
    return v, (new[0] if len(new) == 1 else None)


def _guard(guard, ps):
    return C.as_bool(guard(*ps)) if guard is not None else z3.BoolVal(True)


def sum_two_point_support(pst, name, node, a, b, guard=None, using=None, at=None):
    """Rule PyvcSum.sum_two_point_support for Sum node `node` with parameters ps:
        premise  (OBLIGED):  guard(ps) -> 0 <= a(ps), b(ps) < n  and
                             forall j in [0,n) \\ {a(ps), b(ps)}: body(ps, j) == 0
        conclusion (assumed): guard(ps) -> Sum_j body(ps, j) == body(ps, a) + (0 if a == b else body(ps, b))
    a, b: python functions from the z3 parameter terms to z3 Int terms.
    at: optional tuple of z3 terms - apply the rule at this parameter tuple only
    (premise quantifies over j alone; the conclusion is a ground fact)."""
    if node is None:
        return
    assert node.kind == "sum"
    k = node.nparams
    n = T.dim_z(node.dim)
    fixed = tuple(at) if at is not None else None
    assert fixed is None or len(fixed) == k

    def premise(*v):
        ps, j = (fixed, v[0]) if fixed is not None else (v[:k], v[k])
        az, bz = a(*ps), b(*ps)
        return z3.Implies(_guard(guard, ps), z3.And(
            az >= 0, az < n, bz >= 0, bz < n,
            z3.Implies(z3.And(j >= 0, j < n, j != az, j != bz), node.body(*ps, j) == 0)))

    pst.oblige_forall(f"{name}.lemma_premise[sum_two_point_support]", [INT] * (1 if fixed is not None else k + 1), premise, hint="lj", using=using)

    def conclusion(*ps):
        az, bz = a(*ps), b(*ps)
        total = node.body(*ps, az) + z3.If(az == bz, 0, node.body(*ps, bz))
        return z3.Implies(_guard(guard, ps), T._apply(node.vf, ps) == total)

    if fixed is not None:
        pst.assume(conclusion(*fixed))
    elif k == 0:
        pst.assume(conclusion())
    else:
        pst.assume_forall([INT] * k, conclusion, f"{name}.lemma[sum_two_point_support]")


def sum_scale(pst, name, node_a, node_b, factor, guard=None, using=None):
    """Rule PyvcSum.sum_scale for Sum nodes A, B over the same axis length:
        premise  (OBLIGED):  guard(ps) -> forall j in [0,n): bodyA(ps, j) == factor(ps) * bodyB(ps, j)
        conclusion (assumed): guard(ps) -> SumA(ps) == factor(ps) * SumB(ps)"""
    if node_a is None or node_b is None:
        return
    assert node_a.kind == "sum" and node_b.kind == "sum" and node_a.nparams == node_b.nparams
    if not T.dim_eq(node_a.dim, node_b.dim):
        raise C.Unsupported("sum_scale: different axis lengths")
    k = node_a.nparams
    n = T.dim_z(node_a.dim)

    def premise(*v):
        ps, j = v[:k], v[k]
        return z3.Implies(z3.And(_guard(guard, ps), j >= 0, j < n),
                          node_a.body(*ps, j) == C.as_real(factor(*ps)) * node_b.body(*ps, j))

    pst.oblige_forall(f"{name}.lemma_premise[sum_scale]", [INT] * (k + 1), premise, hint="lj", using=using)

    def conclusion(*ps):
        return z3.Implies(_guard(guard, ps), T._apply(node_a.vf, ps) == C.as_real(factor(*ps)) * T._apply(node_b.vf, ps))

    if k == 0:
        pst.assume(conclusion())
    else:
        pst.assume_forall([INT] * k, conclusion, f"{name}.lemma[sum_scale]")
