"""flax.nnx model: networks as uninterpreted row-wise functions of their
parameters (DESIGN 3.3), parameter trees as leaf functions, optimizers with a
ghost binding to the module they were created for, value_and_grad with the
gradient-flow ghost.  ASSUMED contracts.

A leaf network is an Obj with class tag 'flax.nnx.Module' and ghost fields
  $F      python str   name of its function symbol
  $params Sym(PARAMS)  current parameter tree (leaf(p, l): Real)
  $out    output feature count (int | Sym) or tuple for multi-head outputs
Calling it on a tensor of shape (..., D) applies F row-wise:
  net(X)[b, c] = comp(apply_F(params, row(X, b)), c)
Batch independence of every layer type used by rl_blox (Linear, LayerNorm,
activations; no BatchNorm / Dropout) is the assumption behind "row-wise".
"""
from __future__ import annotations

from fractions import Fraction

import z3

from .. import core as C
from .. import tensor as T
from ..core import BOOL, INT, KEY, REAL, ROW, VAL, Builtin, ClassInfo, Closure, NDArr, Obj, Opaque, Partial, PyRaise, Sym, Unsupported
from ..tensor import Tensor
from . import LIB
from .jax_model import _identity_decorator, tt

PARAMS = z3.DeclareSort("Params")
OPTSTATE = z3.DeclareSort("OptState")
comp = C.uf("comp", ROW, INT, REAL)
leaf = C.uf("leaf", PARAMS, INT, REAL)
MODULE = "flax.nnx.Module"


def apply_fn(fname):
    return C.uf(f"net_{fname}", PARAMS, ROW, ROW)


def rows_tensor(E, name, batch_shape, feat, is_input=True):
    """input tensor of shape batch_shape + (feat,) given by a row function"""
    k = len(batch_shape)
    base = E.st.fresh_name(name)
    if k:
        rf = z3.Function(base + "_row", *([INT] * k + [ROW]))
        rows = lambda *b: rf(*[C.to_z3(x) for x in b])  # noqa: E731
    else:
        rc = z3.Const(base + "_row", ROW)
        rows = lambda: rc  # noqa: E731
    t = Tensor(tuple(batch_shape) + (feat,), lambda *i: Sym(comp(rows(*i[:-1]), C.to_z3(i[-1]))), REAL, rows=rows, name=name)
    return t


def ensure_rows(E, x: Tensor):
    """row function of a tensor whose last axis is the feature axis"""
    if x.rows is not None:
        return x.rows
    k = x.ndim - 1
    feat = x.shape[-1]
    if isinstance(feat, int) and 1 <= feat <= 8 and x.sort == REAL:
        # concrete feature count: the row IS the tuple of its components (constructor
        # term), so rows with equal components are equal (extensionality by congruence)
        # and index substitution (vmap / scan re-wrapping) reaches the components
        ctor = C.uf(f"rowof{feat}", *([REAL] * feat + [ROW]))
        rows = lambda *b: ctor(*[C.as_real(x.at(*(tuple(b) + (j,)))) for j in range(feat)])  # noqa: E731
        if k:
            E.st.assume_forall([INT] * (k + 1), lambda *i: comp(rows(*i[:-1]), i[-1]) == C.as_real(x.at(*i)), "mkrow.comp")
        else:
            E.st.assume_forall([INT], lambda d: comp(rows(), d) == C.as_real(x.at(d)), "mkrow.comp")
        x.rows = rows
        return rows
    # canonical row function: two tensors of the same shape whose generic element is
    # the SAME term (z3 hash-consing) are the same tensor, hence share their rows -
    # a specification that mirrors a computation then feeds identical rows to networks
    cache = E.st.ghost.setdefault("mkrow_cache", {})
    ckey = None
    try:
        probe = C.to_z3(x.at(*[z3.Int(f"rowprobe!{j}") for j in range(k + 1)]))
        ckey = (k, tuple(d if isinstance(d, int) else d.z.get_id() for d in x.shape), probe.get_id())
    except (PyRaise, Unsupported, z3.Z3Exception):
        probe = None
    if ckey is not None and ckey in cache:
        x.rows = cache[ckey][0]
        return x.rows
    rows = _fresh_rows(E, x, k)
    if ckey is not None:
        cache[ckey] = (rows, probe, x)  # keep the probe term alive (AST ids are reused after GC)
    return rows


def _fresh_rows(E, x, k):
    base = E.st.fresh_name("mkrow")
    if k:
        rf = z3.Function(base, *([INT] * k + [ROW]))
        rows = lambda *b: rf(*[C.to_z3(i) for i in b])  # noqa: E731
        E.st.assume_forall([INT] * (k + 1), lambda *i: comp(rows(*i[:-1]), i[-1]) == C.as_real(x.at(*i)), "mkrow.comp")
    else:
        rc = z3.Const(base, ROW)
        rows = lambda: rc  # noqa: E731
        E.st.assume_forall([INT], lambda d: comp(rc, d) == C.as_real(x.at(d)), "mkrow.comp")
    x.rows = rows
    return rows


def mk_net(E, name, out, params=None):
    p = params if params is not None else E.st.fresh_sym(f"theta_{name}", PARAMS, is_input=False)
    o = Obj(MODULE, {"$F": name, "$params": p, "$out": out}, name=name)
    E.register(o)
    return o


def is_leaf_net(o):
    return isinstance(o, Obj) and isinstance(o.cls, str) and "$F" in o.fields and "$params" in o.fields


def leaf_nets(o, seen=None):
    """all leaf networks reachable from a module object (in field order)"""
    seen = set() if seen is None else seen
    out = []
    if id(o) in seen:
        return out
    seen.add(id(o))
    if is_leaf_net(o):
        return [o]
    if isinstance(o, Obj):
        for k, v in o.fields.items():
            if k.startswith("$") and k != "$module":
                continue
            out.extend(leaf_nets(v, seen))
    elif isinstance(o, (list, tuple)):
        for v in o:
            out.extend(leaf_nets(v, seen))
    elif isinstance(o, dict):
        for v in o.values():
            out.extend(leaf_nets(v, seen))
    return out


NNX_VAR = "stub.nnx.Variable"


def mk_variable(E, name, kind="Variable"):
    """a NON-Param nnx.Variable of a module (e.g. the action_scale / action_bias of the tanh policy heads, BatchNorm
    statistics): part of nnx.state(m) / nnx.split(m), NOT selected by the nnx.Param filter, not trained by optimizers
    constructed with wrt=nnx.Param.  Its value is an opaque PARAMS-sorted term."""
    o = Obj(NNX_VAR, {"$kind": kind, "$value": E.st.fresh_sym(f"{name}.value", PARAMS), "$V": name}, name=name)
    E.register(o)
    return o


def leaf_vars(o, seen=None):
    """non-Param variables reachable from a module object (field order)"""
    seen = set() if seen is None else seen
    out = []
    if id(o) in seen:
        return out
    seen.add(id(o))
    if isinstance(o, Obj) and o.cls == NNX_VAR:
        return [o]
    if is_leaf_net(o):
        return out
    if isinstance(o, Obj):
        for k, v in o.fields.items():
            if k.startswith("$") and k != "$module":
                continue
            out.extend(leaf_vars(v, seen))
    elif isinstance(o, (list, tuple)):
        for v in o:
            out.extend(leaf_vars(v, seen))
    elif isinstance(o, dict):
        for v in o.values():
            out.extend(leaf_vars(v, seen))
    return out


def _only_params(filters):
    """nnx filter semantics supported: no filter (every variable) or exactly nnx.Param"""
    if not filters:
        return False
    if len(filters) == 1 and ((isinstance(filters[0], Opaque) and filters[0].tag == "nnx.Param") or (isinstance(filters[0], Builtin) and filters[0].name == "flax.nnx.Param")):
        return True
    raise Unsupported(f"nnx filter {filters!r}")


def net_call(E, net, x):
    if isinstance(x, C.Anything):
        return C.Anything(f"{net.name}(...)")
    x = tt(x)
    if not isinstance(x, Tensor) or x.ndim == 0:
        raise PyRaise("ValueError", "network applied to a scalar")
    out = net.fields["$out"]
    rows = ensure_rows(E, x)
    F = apply_fn(net.fields["$F"])
    p = net.fields["$params"].z
    gd = x.gdeps | frozenset([net.name])
    orow = lambda *b: F(p, rows(*b))  # noqa: E731
    batch = x.shape[:-1]
    if isinstance(out, tuple):
        # multi-head output (e.g. (mean, log_var)): heads are consecutive blocks of the output row
        heads = []
        off = 0
        for h in out:
            heads.append(Tensor(batch + (h,), (lambda off: (lambda *i: Sym(comp(orow(*i[:-1]), C.to_z3(C.binop("+", off, i[-1]))))))(off), REAL, gd,
                                rows=(lambda off: (lambda *b: C.uf("rowslice", ROW, INT, ROW)(orow(*b), C.to_z3(off))))(off)))
            off = C.binop("+", off, h)
        return tuple(heads)
    return Tensor(batch + (out,), lambda *i: Sym(comp(orow(*i[:-1]), C.to_z3(i[-1]))), REAL, gd, rows=orow)


@LIB.cls(MODULE)
def _module(E, obj, name):
    if name == "__call__":
        if is_leaf_net(obj):
            return Builtin(f"{obj.name}.__call__", lambda E, x=None, *a, **k: net_call(E, obj, x) if x is not None else C.Anything(f"{obj.name}()"))
        return NotImplemented
    if name in ("sample", "log_probability", "entropy") and is_leaf_net(obj) and obj.fields.get("$policy_methods"):
        # frame-level stand-in for a stochastic policy head (C05): pure
        return Builtin(f"{obj.name}.{name}", lambda E, *a, **k: C.Anything(f"{obj.name}.{name}"))
    if name == "__init__":
        return Builtin("Module.__init__", lambda E, *a, **k: None)
    if name in ("train", "eval"):
        return Builtin(f"Module.{name}", lambda E, *a, **k: None)
    return NotImplemented


LIB.class_bases["flax.nnx.module.Module"] = [MODULE]


# ---------------------------------------------------------------- wrappers
_identity_decorator("flax.nnx.jit")
_identity_decorator("flax.nnx.remat")


@LIB.fn("flax.nnx.cached_partial", doc="cached_partial(f, *args): partial application (caching is semantics-preserving)")
def nnx_cached_partial(E, fn, *a, **k):
    return Partial(fn, a, k)


@LIB.fn("flax.nnx.vmap", doc="nnx.vmap: as jax.vmap, modules may be passed through (in_axes None)")
def nnx_vmap(E, fn=None, in_axes=0, out_axes=0, **kw):
    from .jax_model import vmap_call

    if fn is None:
        return Builtin("nnx.vmap()", lambda E, f: nnx_vmap(E, f, in_axes=in_axes, out_axes=out_axes))
    return Builtin("nnx.vmapped", lambda E, *a, **k: vmap_call(E, fn, in_axes, out_axes, a, k))


def _is_carry(ax):
    return isinstance(ax, Opaque) and ax.tag == "nnx.Carry"


def frame_scan(E, fn=None, in_axes=0, out_axes=0, **kw):
    """nnx.scan model used by the FRAME contracts (C05): one generic iteration
    of the real body; carried objects are the same objects in every iteration,
    so the set of modules / optimizers an iteration writes is the set the whole
    scan writes.  Stacked outputs are irrelevant to frames (Anything).
    Installed per task (shared.lib.funcs override), not globally."""
    if fn is None:
        return Builtin("nnx.scan()", lambda E, f: frame_scan(E, f, in_axes=in_axes, out_axes=out_axes))

    def call(E, *args, **k):
        axes = list(in_axes) if isinstance(in_axes, (tuple, list)) else [in_axes] * len(args)
        sliced = []
        for a, ax in zip(args, axes):
            if _is_carry(ax) or ax is None:
                sliced.append(a)
            else:
                sliced.append(_slice_any(E, a))
        # one generic iteration of the real body (frames / effects are those of any iteration)
        out = E.call_value(fn, sliced, dict(k))
        outs = list(out) if isinstance(out, (tuple, list)) else [out]
        oaxes = list(out_axes) if isinstance(out_axes, (tuple, list)) else [out_axes] * len(outs)
        res = []
        for o, ax in zip(outs, oaxes):
            res.append(o if _is_carry(ax) else C.Anything("scan-output"))
        return tuple(res) if isinstance(out, (tuple, list)) else res[0]

    return Builtin("nnx.scanned", call)


def _slice_any(E, a):
    if isinstance(a, C.Anything):
        return C.Anything("scan-slice")
    if isinstance(a, (tuple, list)):
        return type(a)(_slice_any(E, x) for x in a)
    from ..core import NamedTuple

    if isinstance(a, NamedTuple):
        return NamedTuple(a.typ, [_slice_any(E, x) for x in a.values])
    if isinstance(a, Tensor):
        i = E.st.fresh_sym("scan_i", INT)
        E.assume(C.band(i >= 0, C.compare("<", i, a.shape[0])))
        return T.index(a, i)
    return C.Anything("scan-slice")


class Grad:
    """gradient of a differentiated function: for which object, ghost deps"""

    def __init__(self, wrt, gdeps, value):
        self.wrt = wrt
        self.gdeps = gdeps
        self.value = value


@LIB.fn("flax.nnx.value_and_grad", doc="value_and_grad(f, argnums, has_aux)(*args): (f(*args), d f / d args[argnums]); pure")
def nnx_value_and_grad(E, fn, argnums=0, has_aux=False, **kw):
    def call(E, *args, **kwargs):
        nums = list(argnums) if isinstance(argnums, (tuple, list)) else [argnums]
        if any(n >= len(args) for n in nums):
            raise PyRaise("TypeError", "argnums out of range")
        wrts = [args[n] for n in nums]
        E.st.ghost.setdefault("grad_calls", []).append(dict(fn=fn, wrt=wrts[0], wrts=wrts, args=args))
        depth = E.st.ghost.get("in_grad", 0)
        E.st.ghost["in_grad"] = depth + 1
        before = E.snapshot_versions()
        try:
            stub = E.shared.__dict__.get("loss_stub")
            if stub is not None:
                out = stub(E, fn, args, kwargs, has_aux)
            else:
                out = E.call_value(fn, list(args), dict(kwargs))
        finally:
            E.st.ghost["in_grad"] = depth
        after = E.snapshot_versions()
        if before != after:
            E.st.ghost.setdefault("impure_grad", []).append(getattr(fn, "qualname", str(fn)))
        val = out[0] if has_aux else out
        gs = [Grad(w, C.gdeps_of(val), val) for w in wrts]
        E.st.ghost["last_grad"] = gs[0]
        return out, (tuple(gs) if isinstance(argnums, (tuple, list)) else gs[0])

    return Builtin("value_and_grad()", call)


@LIB.fn("flax.nnx.grad")
def nnx_grad(E, fn, argnums=0, has_aux=False, **kw):
    vg = nnx_value_and_grad(E, fn, argnums, has_aux)

    def call(E, *a, **k):
        out, g = vg.fn(E, *a, **k)
        return (g, out[1]) if has_aux else g

    return Builtin("grad()", call)


LIB.funcs["jax.value_and_grad"] = LIB.funcs["flax.nnx.value_and_grad"]
LIB.funcs["jax.grad"] = LIB.funcs["flax.nnx.grad"]


# --------------------------------------------------------------- optimizer
OPT = "flax.nnx.Optimizer"


def mk_optimizer(E, name, wrt):
    o = Obj(OPT, {"$wrt": wrt, "$state": E.st.fresh_sym(f"optstate_{name}", OPTSTATE), "$nupdates": 0}, name=name)
    E.register(o)
    return o


upd_params = C.uf("opt_step", PARAMS, OPTSTATE, INT, PARAMS)  # new params of leaf (old params, opt state, grad id)


@LIB.cls(OPT)
def _optimizer(E, obj, name):
    if name == "update":
        def f(E, model, grads=None, **kw):
            if grads is None:
                # old flax signature update(grads)
                grads, model = model, obj.fields["$wrt"]
            E.st.ghost.setdefault("opt_updates", []).append(dict(opt=obj, model=model, grads=grads))
            gid = E.st.fresh("grad_id", INT)
            for net in leaf_nets(model):
                E.log_write(net.name, "$params")
                net.fields["$params"] = Sym(upd_params(net.fields["$params"].z, obj.fields["$state"].z, gid))
            E.log_write(obj.name, "$state")
            obj.fields["$state"] = E.st.fresh_sym(f"optstate_{obj.name}", OPTSTATE)
            obj.fields["$nupdates"] = C.binop("+", obj.fields["$nupdates"], 1)
        return Builtin("Optimizer.update", f)
    if name == "model":
        return obj.fields["$wrt"]
    if name == "step":
        return obj.fields["$nupdates"]
    return NotImplemented


@LIB.fn("flax.nnx.Optimizer", doc="Optimizer(model, tx, wrt=nnx.Param): optimizer bound to `model`")
def nnx_optimizer(E, model, tx=None, wrt=None, **kw):
    node, fr = E.cur_call if E.cur_call else (None, None)
    return mk_optimizer(E, E.alloc_name(fr, node, ":opt"), model)


LIB.const("flax.nnx.Param", Opaque("nnx.Param"))


# ------------------------------------------------------------------- state
class StateVal:
    """nnx.State snapshot: per leaf network a parameter term"""

    def __init__(self, entries):
        self.entries = entries  # list of (leaf name $F, params z3 term)


polyak = C.uf("polyak", PARAMS, PARAMS, REAL, PARAMS)


@LIB.fn("flax.nnx.state", doc="nnx.state(m): the parameter tree of m (read-only)")
def nnx_state(E, m, *filters):
    ent = [(n.fields["$F"], n.fields["$params"].z) for n in leaf_nets(m)]
    if not _only_params(filters):
        ent += [(v.fields["$V"], v.fields["$value"].z) for v in leaf_vars(m)]
    return StateVal(ent)


@LIB.fn("flax.nnx.update", doc="nnx.update(m, state): writes state into m, nothing else")
def nnx_update(E, m, state):
    nets = leaf_nets(m)
    vars_ = leaf_vars(m)
    if not isinstance(state, StateVal) or len(state.entries) not in (len(nets), len(nets) + len(vars_)):
        # (a state restricted to the Params updates only those; a full state updates every variable; anything else
        # does not match the module's tree: flax raises "Incorrect number of leaves" / KeyError)
        raise PyRaise("ValueError", "nnx.update: state does not match the module structure")
    for n, (fname, p) in zip(nets, state.entries):
        E.log_write(n.name, "$params")
        n.fields["$params"] = Sym(p)
    if len(state.entries) > len(nets):
        for v, (fname, p) in zip(vars_, state.entries[len(nets):]):
            E.log_write(v.name, "$value")
            v.fields["$value"] = Sym(p)
    E.st.ghost.setdefault("module_writes", []).append(m)


@LIB.fn("optax.incremental_update", doc="incremental_update(new, old, s) = s*new + (1-s)*old leaf-wise")
def optax_incremental_update(E, new_tensors, old_tensors, step_size):
    new, old = new_tensors, old_tensors  # (parameter names as in optax, so that keyword calls bind)
    if not (isinstance(new, StateVal) and isinstance(old, StateVal)) or len(new.entries) != len(old.entries):
        raise PyRaise("ValueError", "incremental_update: tree structures differ")
    s = C.as_real(step_size)
    out = []
    for (fa, a), (fb, b) in zip(new.entries, old.entries):
        out.append((fb, polyak(a, b, s)))
    E.st.assume_forall([PARAMS, PARAMS, REAL, INT], lambda a, b, t, l: leaf(polyak(a, b, t), l) == t * leaf(a, l) + (1 - t) * leaf(b, l), "polyak.leafwise")
    return StateVal(out)


@LIB.fn("flax.nnx.clone", doc="nnx.clone(m): structurally equal module with fresh identity and disjoint storage")
def nnx_clone(E, m):
    from .builtins_model import deep_copy

    return deep_copy(E, m)


@LIB.fn("flax.nnx.split", doc="nnx.split(m) -> (graphdef, state)")
def nnx_split(E, m, *filters):
    return (Opaque("graphdef", m), nnx_state(E, m, *filters))


@LIB.fn("flax.nnx.merge", doc="nnx.merge(graphdef, state): module with graphdef's structure and state's parameters")
def nnx_merge(E, graphdef, state, *rest):
    m = nnx_clone(E, graphdef.payload)
    if isinstance(state, StateVal) and len(state.entries) != len(leaf_nets(m)) + len(leaf_vars(m)):
        raise PyRaise("ValueError", "nnx.merge: Incorrect number of leaves (the state does not cover every variable of the graphdef)")
    nnx_update(E, m, state)
    return m


@LIB.fn("flax.nnx.Rngs")
def nnx_rngs(E, *a, **k):
    return Opaque("nnx.Rngs")


@LIB.fn("flax.nnx.Linear", doc="nnx.Linear(n_in, n_out): affine row-wise layer")
def nnx_linear(E, n_in, n_out, **kw):
    node, fr = E.cur_call if E.cur_call else (None, None)
    name = E.alloc_name(fr, node, ":linear").replace("rl_blox.", "")
    return mk_net(E, E.st.fresh_name("linear"), n_out)


LIB.funcs["flax.nnx.LayerNorm"] = Builtin("flax.nnx.LayerNorm", lambda E, n, **kw: mk_net(E, E.st.fresh_name("layernorm"), n))


@LIB.fn("flax.nnx.Variable")
def nnx_variable(E, v, **kw):
    return v


LIB.funcs["flax.nnx.Param"] = Builtin("flax.nnx.Param", lambda E, v, **kw: v)


def _snapshot_versions(E):
    out = []
    for name, o in E.heap.items():
        if isinstance(o, Obj) and "$params" in o.fields:
            out.append((name, o.fields["$params"].z.get_id()))
        if isinstance(o, Obj) and "$state" in o.fields:
            out.append((name, o.fields["$state"].z.get_id()))
    return out


from ..interp import Executor  # noqa: E402

Executor.snapshot_versions = _snapshot_versions
