"""Library model registry.

Every entry here is an ASSUMED contract (trusted base): a model of a builtin
or third-party function over the symbolic value domain.  Models are tagged
with the library path; every model that is actually called during a run is
recorded in `Lib.used` and ends up in the evidence file's trusted_base.
"""
from __future__ import annotations

from fractions import Fraction

import z3

from .. import core as C
from ..core import (
    BOOL,
    INT,
    REAL,
    BoundMethod,
    Builtin,
    ClassInfo,
    Closure,
    LibNS,
    NamedTuple,
    NamedTupleType,
    NDArr,
    Obj,
    Opaque,
    Partial,
    PyRaise,
    Sym,
    Unsupported,
)

ALIASES = {
    "gym": "gymnasium",
    "jnp": "jax.numpy",
    "np": "numpy",
    "jax.random.PRNGKey": "jax.random.key",
    "tqdm.rich.trange": "tqdm.trange",
    "tqdm.rich.tqdm": "tqdm.tqdm",
    "tqdm.auto.trange": "tqdm.trange",
    "tqdm.auto.tqdm": "tqdm.tqdm",
}


def _has_anything(xs, depth=0):
    for x in xs:
        if isinstance(x, C.Anything):
            return True
        if depth < 2 and isinstance(x, (list, tuple)) and _has_anything(x, depth + 1):
            return True
    return False


class SymRange:
    """range(lo, hi) with symbolic bounds (step 1)"""

    def __init__(self, lo, hi):
        self.lo = lo
        self.hi = hi


class Lib:
    def __init__(self):
        self.funcs = {}
        self.builtins = {}
        self.class_handlers = {}  # class tag -> handler(E, obj, name) -> value | NotImplemented
        self.class_bases = {}  # tag -> [tags]
        self.value_attr_handlers = []
        self.getitem_handlers = []
        self.setitem_handlers = []
        self.iterate_handlers = []
        self.len_handlers = []
        self.used = set()
        self.docs = {}

    # ------------------------------------------------------------ registry
    def fn(self, path, doc=""):
        def deco(f):
            def wrapped(E, *a, **k):
                self.used.add(path)
                if _has_anything(a) or _has_anything(tuple(k.values())):
                    # value irrelevant to the task (result of a stubbed callee)
                    return C.Anything(path)
                return f(E, *a, **k)

            b = Builtin(path, wrapped)
            self.funcs[path] = b
            self.docs[path] = doc or (f.__doc__ or "").strip()
            return f

        return deco

    def builtin(self, name):
        def deco(f):
            self.builtins[name] = Builtin(name, f)
            return f

        return deco

    def const(self, path, value):
        self.funcs[path] = value

    def cls(self, tag, bases=()):
        self.class_bases[tag] = list(bases)

        def deco(handler):
            self.class_handlers[tag] = handler
            return handler

        return deco

    def norm(self, path):
        parts = path.split(".")
        for n in range(len(parts), 0, -1):
            pre = ".".join(parts[:n])
            if pre in ALIASES:
                return self.norm(".".join([ALIASES[pre]] + parts[n:]))
        return path

    def resolve(self, path):
        path = self.norm(path)
        if path in self.funcs:
            return self.funcs[path]
        return LibNS(path)

    def is_subclass_tag(self, tag, base):
        tag, base = self.norm(tag), self.norm(base)
        if tag == base:
            return True
        for b in self.class_bases.get(tag, ()):
            if self.is_subclass_tag(b, base):
                return True
        return False

    # --------------------------------------------------------------- hooks
    def class_attr(self, E, tag, obj, name):
        tag = self.norm(tag)
        seen = set()
        stack = [tag]
        while stack:
            t = stack.pop(0)
            if t in seen:
                continue
            seen.add(t)
            h = self.class_handlers.get(t)
            if h is not None:
                r = h(E, obj, name)
                if r is not NotImplemented:
                    self.used.add(f"{t}.{name}")
                    return r
            stack.extend(self.class_bases.get(t, ()))
        return NotImplemented

    def class_setattr(self, E, tag, obj, name, value):
        return NotImplemented

    def value_attr(self, E, v, name):
        for h in self.value_attr_handlers:
            r = h(E, v, name)
            if r is not NotImplemented:
                return r
        return NotImplemented

    def getitem(self, E, v, idx):
        for h in self.getitem_handlers:
            r = h(E, v, idx)
            if r is not NotImplemented:
                return r
        return NotImplemented

    def setitem(self, E, v, idx, value):
        for h in self.setitem_handlers:
            r = h(E, v, idx, value)
            if r is not NotImplemented:
                return r
        return NotImplemented

    def iterate(self, E, v):
        for h in self.iterate_handlers:
            r = h(E, v)
            if r is not NotImplemented:
                return r
        return NotImplemented

    def len_hook(self, E, v):
        for h in self.len_handlers:
            r = h(E, v)
            if r is not NotImplemented:
                return r
        return NotImplemented

    def contains_hook(self, E, container, item):
        return NotImplemented

    def as_symbolic_range(self, E, it):
        if isinstance(it, SymRange):
            return it.lo, it.hi
        return None

    def havoc_hook(self, E, o, field):
        return NotImplemented

    def havoc_value_hook(self, E, v, name):
        return NotImplemented

    def ndarr_binop(self, E, op, a, b):
        from . import np_model

        return np_model.ndarr_binop(E, op, a, b)

    def ndarr_compare(self, E, op, a, b):
        from . import np_model

        return np_model.ndarr_compare(E, op, a, b)

    def matmul(self, E, a, b):
        from .. import tensor as T

        return T.matmul(a, b)


LIB = Lib()


def load_all():
    from . import builtins_model, np_model, jax_model, nnx_model, gym_model, misc_model  # noqa: F401

    return LIB
