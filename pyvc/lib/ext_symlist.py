"""Python lists of SYMBOLIC length (unbounded histories).

A `SymList` models a python `list` whose length is a z3 Int term and whose
elements live in z3 arrays ("struct of arrays"): a list of scalars has one
column, a list of k-tuples has k columns.  Only the operations whose meaning
is independent of the length are modelled - everything else raises
`Unsupported` (never a wrong answer):

  l.append(x)      length' = length + 1, col' = Store(col, length, x)      [list.append]
  len(l)           the length term                                           [len]
  l[i]             Select(col, i) with Python's negative-index rule; an
                   index outside [-len, len) raises IndexError               [list.__getitem__]
  map(f, l)        element-wise image, f evaluated ONCE on the generic
                   element l[j] (j a fresh bound index); f must not branch
                   on the element                                            [map]
  list(l)          shallow copy                                              [list]
  np.asarray(l)    1-D array of the elements in list order (2-D for tuples)  [numpy.asarray]
  bool(l)          len(l) != 0 (through the interpreter's len hook)

These are ASSUMED contracts of the python builtins `list`, `len`, `map` and of
`numpy.asarray` on a list (value-preserving, order-preserving conversion).
Elements of a column have ONE z3 sort (python lists are heterogeneous: a value
that cannot be converted to the column sort raises `Unsupported`).
"""
from __future__ import annotations

import z3

from .. import core as C
from .. import tensor as T
from ..core import INT, REAL, VAL, Builtin, Obj, PyRaise, Sym, Unsupported
from . import LIB
from . import builtins_model, np_model  # noqa: F401  (must be loaded first: `list` / `numpy.asarray` are wrapped below)
from .np_model import to_sort

TAG = "pyvc.SymList"


class SymList(Obj):
    def __init__(self, length, cols, sorts, is_tuple=False, name="symlist"):
        super().__init__(TAG, {}, name=name)
        self.length = length if isinstance(length, int) else C.to_z3(length)
        self.cols = list(cols)
        self.sorts = list(sorts)
        self.is_tuple = is_tuple

    # -- helpers for contracts ------------------------------------------
    def len_sym(self):
        return self.length if isinstance(self.length, int) else C.mk(self.length)

    def len_z(self):
        return z3.IntVal(self.length) if isinstance(self.length, int) else self.length

    def snapshot(self):
        """immutable view (length term, column terms) of the current value"""
        return (self.len_z(), tuple(self.cols))

    def elem(self, i):
        iz = C.to_z3(i)
        vals = [Sym(z3.Select(c, iz)) for c in self.cols]
        return tuple(vals) if self.is_tuple else vals[0]

    def copy(self, name=None):
        return SymList(self.length, self.cols, self.sorts, self.is_tuple, name or self.name + "'")

    def __repr__(self):
        return f"<SymList {self.name} len={self.length}>"


def fresh_symlist(E, name, sorts, is_tuple=None, length=None):
    """arbitrary list: symbolic length >= 0 (or the given length term) and unconstrained elements"""
    sorts = list(sorts) if isinstance(sorts, (list, tuple)) else [sorts]
    if is_tuple is None:
        is_tuple = len(sorts) > 1
    n = E.int(f"len({name})", 0) if length is None else length
    cols = [E.st.fresh(f"{name}.col{k}" if is_tuple else name, z3.ArraySort(INT, s), is_input=True) for k, s in enumerate(sorts)]
    return SymList(n, cols, sorts, is_tuple, name)


def _conv(x, sort):
    if x is None or isinstance(x, (str, Obj, list, tuple, dict)):
        raise Unsupported(f"symbolic list: element {type(x).__name__} does not fit the column sort {sort}")
    return to_sort(x, sort, None)


def _append(E, sl, x):
    if sl.is_tuple:
        if not isinstance(x, tuple) or len(x) != len(sl.cols):
            raise Unsupported("symbolic list of tuples: appended element has a different structure")
        zs = [_conv(c, s) for c, s in zip(x, sl.sorts)]
    else:
        zs = [_conv(x, sl.sorts[0])]
    n = sl.len_z()
    E.log_write(sl.name, "*")
    sl.cols = [z3.Store(c, n, z) for c, z in zip(sl.cols, zs)]
    sl.length = z3.simplify(n + 1)
    return None


@LIB.cls(TAG)
def _symlist_attr(E, o, name):
    if not isinstance(o, SymList):
        return NotImplemented
    if name == "append":
        return Builtin("list.append", lambda E, x: _append(E, o, x))
    if name == "copy":
        return Builtin("list.copy", lambda E: o.copy())
    raise Unsupported(f"list.{name} on a list of symbolic length")


def _len_hook(E, v):
    if isinstance(v, SymList):
        return v.len_sym()
    return NotImplemented


def _getitem(E, v, idx):
    if not isinstance(v, SymList):
        return NotImplemented
    if isinstance(idx, slice) and idx.start is None and idx.stop is None and idx.step in (-1, None, 1):
        if idx.step == -1:  # l[::-1] is list(reversed(l))
            n_ = v.len_z()
            j_ = z3.Int("rev!j")
            return SymList(v.length, [z3.Lambda([j_], z3.Select(c, n_ - 1 - j_)) for c in v.cols], v.sorts, v.is_tuple, f"reversed({v.name})")
        return SymList(v.length, list(v.cols), v.sorts, v.is_tuple, f"copy({v.name})")  # l[:] : a copy
    if isinstance(idx, slice) or not isinstance(idx, (int, Sym)) or isinstance(idx, bool):
        raise Unsupported("slice / non-integer index on a list of symbolic length")
    iz = C.as_int(idx)
    n = v.len_z()
    if not E.st.branch(z3.And(iz >= -n, iz < n)):
        raise PyRaise("IndexError", "list index out of range")
    pos = z3.simplify(z3.If(iz < 0, iz + n, iz))
    return v.elem(pos)


def _iterate(E, v):
    if not isinstance(v, SymList):
        return NotImplemented
    n = C.concrete_of(z3.simplify(v.len_z()))
    if n is None:
        raise Unsupported("iteration over a list of symbolic length")
    return [v.elem(k) for k in range(int(n))]


LIB.len_handlers.append(_len_hook)
LIB.getitem_handlers.append(_getitem)
LIB.iterate_handlers.append(_iterate)


# ---------------------------------------------------------------- map / list
def symlist_map(E, f, sl):
    j = E.st.fresh("map!j", INT)
    n_pc, n_forks = len(E.st.pc), len(E.st.forks)
    r = E.call_value(f, [sl.elem(j)], {})
    if len(E.st.pc) != n_pc or len(E.st.forks) != n_forks:
        raise Unsupported("map over a list of symbolic length: the function branches on the element")
    rs = list(r) if isinstance(r, tuple) else [r]
    cols, sorts = [], []
    for x in rs:
        if isinstance(x, (str, Obj, list, dict, tuple)) or x is None:
            raise Unsupported("map over a list of symbolic length: non-scalar image")
        z = C.to_z3(x)
        col = None
        for c in sl.cols:  # plain projection: the column itself
            if z3.eq(z, z3.Select(c, j)):
                col = c
        if col is None:
            col = z3.Lambda([j], z)
        cols.append(col)
        sorts.append(z.sort())
    return SymList(sl.length, cols, sorts, isinstance(r, tuple), f"map({sl.name})")


_prev_map = LIB.builtins.get("map")
_prev_list = LIB.builtins.get("list")


@LIB.builtin("map")
def b_map(E, f, *its):
    if len(its) == 1 and isinstance(its[0], SymList):
        return symlist_map(E, f, its[0])
    if any(isinstance(i, SymList) for i in its):
        raise Unsupported("map over several iterables with a list of symbolic length")
    if _prev_map is not None:
        return _prev_map.fn(E, f, *its)
    # pure element functions: the lazy iterator is modelled by the eager list of images
    return [E.call_value(f, list(xs), {}) for xs in zip(*[E.iterate(i) for i in its])]


@LIB.builtin("list")
def b_list(E, it=()):
    if isinstance(it, SymList):
        return it.copy()
    if _prev_list is not None:
        return _prev_list.fn(E, it)
    return list(E.iterate(it))


# ---------------------------------------------------------------- numpy.asarray
def symlist_to_tensor(sl):
    n = sl.len_sym()
    if not sl.is_tuple:
        col = sl.cols[0]
        return T.Tensor((n,), lambda i: z3.Select(col, C.to_z3(i)), sl.sorts[0], name=f"asarray({sl.name})")
    sort = T.join_sorts(sl.sorts)
    cols = list(sl.cols)
    k = len(cols)

    def cv(z):
        return C.as_real(z) if sort == REAL and z.sort() == INT else z

    def fn(i, jx):
        iz = C.to_z3(i)
        if isinstance(jx, int):
            return cv(z3.Select(cols[jx], iz))
        jz = C.to_z3(jx)
        r = cv(z3.Select(cols[k - 1], iz))
        for m in range(k - 2, -1, -1):
            r = z3.If(jz == m, cv(z3.Select(cols[m], iz)), r)
        return r

    return T.Tensor((n, k), fn, sort, name=f"asarray({sl.name})")


def _wrap_asarray(path):
    b = LIB.funcs.get(path)
    if b is None or getattr(b, "_symlist", False):
        return
    old = b.fn

    def fn(E, v=None, *a, **k):
        if isinstance(v, SymList):
            return symlist_to_tensor(v)
        return old(E, v, *a, **k)

    b.fn = fn
    b._symlist = True


for _p in ("numpy.asarray", "numpy.array"):
    _wrap_asarray(_p)
