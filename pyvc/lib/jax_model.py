"""jax / jax.numpy / jax.random / jax.nn / optax / chex models over Tensor.

ASSUMED contracts.  jit / vmap wrappers: jit is the identity on semantics
(DESIGN 4.2); vmap slices its mapped arguments along in_axes, runs the real
body symbolically for a generic index and re-wraps the result.
"""
from __future__ import annotations

from fractions import Fraction

import z3

from .. import core as C
from .. import tensor as T
from ..core import BOOL, INT, KEY, REAL, ROW, VAL, Builtin, Closure, NamedTuple, NDArr, Obj, Opaque, Partial, PyRaise, Sym, Unsupported
from ..tensor import Tensor
from . import LIB
from .np_model import _as_t

JNP = "jax.numpy."


def both(name, doc=""):
    """register under numpy.* and jax.numpy.*"""
    def deco(f):
        LIB.fn("numpy." + name, doc)(f)
        LIB.fn(JNP + name, doc)(f)
        return f
    return deco


def tt(x):
    x = _as_t(x)
    if isinstance(x, (list, tuple)):
        return T.from_list(list(x))
    return x


# ---------------------------------------------------------------- creation
@LIB.fn(JNP + "asarray", doc="value-preserving conversion")
def jnp_asarray(E, v, dtype=None, **kw):
    return tt(v)


LIB.funcs[JNP + "array"] = LIB.funcs[JNP + "asarray"]
LIB.funcs[JNP + "copy"] = LIB.funcs[JNP + "asarray"]
LIB.funcs["numpy.copy"] = LIB.funcs[JNP + "asarray"]
for _n in ("float32", "float64", "int32", "int64", "bool_", "uint8", "float16"):
    LIB.const(JNP + _n, Opaque("dtype", _n))
LIB.const(JNP + "newaxis", None)
LIB.const(JNP + "inf", Opaque("inf"))
LIB.const(JNP + "ndarray", C.LibNS("jax.numpy.ndarray"))
PI = z3.Real("pi")
LIB.const(JNP + "pi", Sym(PI))
LIB.const("numpy.pi", Sym(PI))
LIB.const("math.pi", Sym(PI))


def _shape(shape):
    if isinstance(shape, (tuple, list)):
        return tuple(shape)
    return (shape,)


@both("ones")
def jnp_ones(E, shape, dtype=None):
    return T.full(_shape(shape), Fraction(1), REAL)


@LIB.fn(JNP + "zeros")
def jnp_zeros(E, shape, dtype=None):
    return T.full(_shape(shape), Fraction(0), REAL)


@both("zeros_like")
def jnp_zeros_like(E, a, dtype=None):
    a = tt(a)
    if not isinstance(a, Tensor):
        return 0
    return T.full(a.shape, Fraction(0) if a.sort == REAL else 0, a.sort if a.sort != BOOL else INT)


@both("ones_like")
def jnp_ones_like(E, a, dtype=None):
    a = tt(a)
    if not isinstance(a, Tensor):
        return 1
    return T.full(a.shape, Fraction(1) if a.sort == REAL else 1, a.sort if a.sort != BOOL else INT)


@both("full")
def jnp_full(E, shape, v, dtype=None):
    return T.full(_shape(shape), v)


@LIB.fn(JNP + "arange")
def jnp_arange(E, *a, **kw):
    return LIB.funcs["numpy.arange"].fn(E, *a, **kw)


@both("linspace", doc="linspace(a,b,n)[i] = a + i*(b-a)/(n-1); n==1 -> [a]")
def jnp_linspace(E, start, stop, num=50, **kw):
    n = num
    if isinstance(n, Fraction):
        raise PyRaise("TypeError", "num must be an integer")

    def fn(i):
        den = C.binop("-", n, 1)
        step = C.binop("/", C.binop("-", stop, start), C.ite(C.compare("==", den, 0), 1, den))
        return C.binop("+", start, C.binop("*", i, step))

    return Tensor((n,), fn, REAL, C.gdeps_of(start, stop))


@both("eye")
def jnp_eye(E, n, **kw):
    return Tensor((n, n), lambda i, j: C.ite(C.compare("==", i, j), Fraction(1), Fraction(0)), REAL)


# ------------------------------------------------------------- elementwise
def _ew(name, f):
    @both(name)
    def g(E, *a, **kw):
        return f(*[tt(x) for x in a])
    return g


_ew("minimum", T.tmin)
_ew("maximum", T.tmax)
_ew("abs", T.tabs)
_ew("absolute", T.tabs)
_ew("where", T.where)
_ew("add", lambda a, b: C.binop("+", a, b))
_ew("subtract", lambda a, b: C.binop("-", a, b))
_ew("multiply", lambda a, b: C.binop("*", a, b))
_ew("divide", lambda a, b: C.binop("/", a, b))
_ew("square", lambda a: C.binop("*", a, a))
_ew("power", lambda a, b: C.binop("**", a, b))
_ew("negative", lambda a: C.unop("-", a))
_ew("logical_and", lambda a, b: T.elementwise(lambda x, y: C.band(x, y), a, b, sort=BOOL))
_ew("logical_or", lambda a, b: T.elementwise(lambda x, y: C.bor(x, y), a, b, sort=BOOL))
_ew("logical_not", lambda a: T.elementwise(lambda x: C.bnot(x), a, sort=BOOL))
for _f in ("exp", "log", "sqrt", "tanh", "sign", "cos", "sin", "arccos", "log1p", "arctan2", "floor"):
    if _f in ("arctan2",):
        continue
    _ew(_f, (lambda nm: (lambda a: T.tfn(nm, a)))(_f))


@both("clip", doc="clip(x, lo, hi) = minimum(maximum(x, lo), hi)")
def jnp_clip(E, x, a_min=None, a_max=None, min=None, max=None, **kw):
    lo = a_min if a_min is not None else min
    hi = a_max if a_max is not None else max
    return T.clip(tt(x), None if lo is None else tt(lo), None if hi is None else tt(hi))


@both("isfinite")
def jnp_isfinite(E, x):
    x = tt(x)
    return T.elementwise(lambda v: True, x, sort=BOOL) if isinstance(x, Tensor) else True


@both("isnan")
def jnp_isnan(E, x):
    x = tt(x)
    return T.elementwise(lambda v: False, x, sort=BOOL) if isinstance(x, Tensor) else False


# -------------------------------------------------------------- reductions
def _red(name, kind):
    @both(name)
    def g(E, a, axis=None, keepdims=False, **kw):
        a = tt(a)
        if not isinstance(a, Tensor):
            return a
        r = T.mean(a, axis) if kind == "mean" else T.reduce(a, kind, axis, False)
        if keepdims:
            # keepdims=True: reduced axes are kept with size one
            axes = range(a.ndim) if axis is None else ([axis] if isinstance(axis, int) else list(axis))
            for ax in sorted(x if x >= 0 else x + a.ndim for x in axes):
                r = T.expand_dims(T.as_tensor(r), ax)
        return r
    return g


_red("sum", "sum")
_red("mean", "mean")
_red("max", "max")
_red("min", "min")
_red("amax", "max")
_red("amin", "min")
_red("argmax", "argmax")
_red("argmin", "argmin")


@both("any")
def jnp_any(E, a, axis=None):
    a = tt(a)
    if not isinstance(a, Tensor):
        return C.mk(C.as_bool(a))
    n = T.reduce(T.elementwise(lambda v: C.ite(v, 1, 0), a, sort=INT), "sum", axis)
    return C.compare(">", n, 0)


@both("all")
def jnp_all(E, a, axis=None):
    a = tt(a)
    if not isinstance(a, Tensor):
        return C.mk(C.as_bool(a))
    n = T.reduce(T.elementwise(lambda v: C.ite(v, 0, 1), a, sort=INT), "sum", axis)
    return C.compare("==", n, 0)


@both("cumsum")
def jnp_cumsum(E, a, axis=None):
    from .np_model import cumsum
    a = T.as_tensor(tt(a))
    if a.ndim != 1:
        raise Unsupported("cumsum rank")
    return cumsum(E, a)


@both("var")
def jnp_var(E, a, axis=None, **kw):
    a = tt(a)
    m = T.mean(a, axis)
    if axis is None:
        d = C.binop("-", a, m)
    else:
        d = C.binop("-", a, T.expand_dims(m, axis) if isinstance(m, Tensor) else m)
    return T.mean(C.binop("*", d, d), axis)


@both("std")
def jnp_std(E, a, axis=None, **kw):
    return T.tfn("sqrt", jnp_var(E, a, axis))


# ---------------------------------------------------------------- shaping
@both("concatenate")
def jnp_concatenate(E, arrs, axis=0, **kw):
    return T.concatenate([tt(a) for a in E.iterate(arrs)], axis)


@both("hstack")
def jnp_hstack(E, arrs):
    ts = [T.as_tensor(tt(a)) for a in E.iterate(arrs)]
    ts = [t if t.ndim else T.reshape(t, (1,)) for t in ts]
    return T.concatenate(ts, axis=0 if ts[0].ndim == 1 else 1)


@both("vstack")
def jnp_vstack(E, arrs):
    ts = [T.as_tensor(tt(a)) for a in E.iterate(arrs)]
    ts = [t if t.ndim >= 2 else T.expand_dims(t, 0) for t in ts]
    return T.concatenate(ts, axis=0)


@both("stack")
def jnp_stack(E, arrs, axis=0):
    return T.stack([tt(a) for a in E.iterate(arrs)], axis)


@both("expand_dims")
def jnp_expand_dims(E, a, axis):
    return T.expand_dims(tt(a), axis)


@both("squeeze")
def jnp_squeeze(E, a, axis=None):
    return T.squeeze(tt(a), axis)


@both("reshape")
def jnp_reshape(E, a, shape, **kw):
    return T.reshape(tt(a), _shape(shape))


@both("ravel")
def jnp_ravel(E, a):
    return T.flatten(tt(a))


@both("transpose")
def jnp_transpose(E, a, axes=None):
    return T.transpose(tt(a), axes)


@both("permute_dims")
def jnp_permute_dims(E, a, axes):
    return T.transpose(tt(a), tuple(axes))


@both("swapaxes")
def jnp_swapaxes(E, a, a1, a2):
    a = T.as_tensor(tt(a))
    ax = list(range(a.ndim))
    ax[a1], ax[a2] = ax[a2], ax[a1]
    return T.transpose(a, tuple(ax))


@both("atleast_2d")
def jnp_atleast_2d(E, a):
    a = T.as_tensor(tt(a))
    while a.ndim < 2:
        a = T.expand_dims(a, 0)
    return a


@both("atleast_1d")
def jnp_atleast_1d(E, a):
    a = T.as_tensor(tt(a))
    return a if a.ndim >= 1 else T.reshape(a, (1,))


@both("take_along_axis", doc="take_along_axis(a, idx, axis)[i,j] = a[i, idx[i,j]] for axis=1")
def jnp_take_along_axis(E, a, idx, axis):
    a, idx = T.as_tensor(tt(a)), T.as_tensor(tt(idx))
    if a.ndim != idx.ndim:
        raise T.ShapeError("take_along_axis rank mismatch")
    if axis < 0:
        axis += a.ndim
    shape = T.broadcast_shapes(a.shape[:axis] + (1,) + a.shape[axis + 1:], idx.shape)

    def fn(*o):
        j = idx.at(*T._bidx(idx, len(shape), o))
        src = list(T._bidx(Tensor(a.shape[:axis] + (1,) + a.shape[axis + 1:], None), len(shape), o))
        src2 = [o[k] if not T.dim_is_one(a.shape[k]) else 0 for k in range(a.ndim)]
        src2[axis] = j
        return a.at(*src2)

    return Tensor(shape, fn, a.sort, a.gdeps)


@both("take")
def jnp_take(E, a, idx, axis=None):
    a = T.as_tensor(tt(a))
    if axis in (None, 0):
        return T.index(a, tt(idx))
    raise Unsupported("take axis")


@both("outer")
def jnp_outer(E, a, b):
    a, b = T.as_tensor(tt(a)), T.as_tensor(tt(b))
    return Tensor((a.shape[0], b.shape[0]), lambda i, j: C.binop("*", a.at(i), b.at(j)), REAL, a.gdeps | b.gdeps)


@both("dot")
def jnp_dot(E, a, b):
    return T.matmul(tt(a), tt(b))


@both("diag")
def jnp_diag(E, a):
    a = T.as_tensor(tt(a))
    if a.ndim == 1:
        return Tensor((a.shape[0], a.shape[0]), lambda i, j: C.ite(C.compare("==", i, j), a.at(i), Fraction(0)), a.sort, a.gdeps)
    return Tensor((a.shape[0],), lambda i: a.at(i, i), a.sort, a.gdeps)


@both("isscalar")
def jnp_isscalar(E, a):
    return not isinstance(a, (Tensor, NDArr, list, tuple))


@both("ndim")
def jnp_ndim(E, a):
    a = tt(a)
    return a.ndim if isinstance(a, Tensor) else 0


@both("shape")
def jnp_shape(E, a):
    a = tt(a)
    return tuple(a.shape) if isinstance(a, Tensor) else ()


# ------------------------------------------------------- tensor attributes
class AtProxy:
    def __init__(self, t):
        self.t = t


class AtIndexed:
    def __init__(self, t, idx):
        self.t = t
        self.idx = idx


def _tensor_attr(E, v, name):
    if isinstance(v, AtProxy):
        return NotImplemented
    if isinstance(v, AtIndexed):
        if name in ("set", "add"):
            return Builtin(f"at.{name}", lambda E, x, **kw: T.at_set(v.t, v.idx, tt(x), name))
        if name == "get":
            return Builtin("at.get", lambda E, **kw: T.index(v.t, v.idx))
        raise Unsupported(f"at[].{name}")
    if not isinstance(v, Tensor):
        return NotImplemented
    if name == "shape":
        return tuple(v.shape)
    if name == "ndim":
        return v.ndim
    if name == "size":
        return T.numel(v)
    if name == "dtype":
        return Opaque("dtype", str(v.sort))
    if name == "T":
        return T.transpose(v)
    if name == "at":
        return AtProxy(v)
    if name == "real":
        return v
    simple = {
        "mean": lambda E, axis=None, **kw: T.mean(v, axis),
        "sum": lambda E, axis=None, **kw: T.reduce(v, "sum", axis),
        "max": lambda E, axis=None, **kw: T.reduce(v, "max", axis),
        "min": lambda E, axis=None, **kw: T.reduce(v, "min", axis),
        "argmax": lambda E, axis=None, **kw: T.reduce(v, "argmax", axis),
        "argmin": lambda E, axis=None, **kw: T.reduce(v, "argmin", axis),
        "squeeze": lambda E, axis=None: T.squeeze(v, axis),
        "reshape": lambda E, *shape, **kw: T.reshape(v, shape),
        "flatten": lambda E: T.flatten(v),
        "ravel": lambda E: T.flatten(v),
        "astype": lambda E, dt=None, **kw: _astype(E, v, dt),
        "copy": lambda E: v,
        "item": lambda E: v.item(),
        "transpose": lambda E, *axes: T.transpose(v, axes if axes else None),
        "block_until_ready": lambda E: v,
        "tolist": lambda E: _tolist(v),
        "clip": lambda E, lo=None, hi=None: T.clip(v, lo, hi),
        "any": lambda E, axis=None: jnp_any(E, v, axis),
        "all": lambda E, axis=None: jnp_all(E, v, axis),
        "std": lambda E, axis=None, **kw: jnp_std(E, v, axis),
        "var": lambda E, axis=None, **kw: jnp_var(E, v, axis),
        "swapaxes": lambda E, a, b: jnp_swapaxes(E, v, a, b),
        "dot": lambda E, o: T.matmul(v, tt(o)),
        "__len__": lambda E: v.shape[0],
    }
    if name in simple:
        return Builtin(f"Tensor.{name}", simple[name])
    return NotImplemented


def _tolist(v):
    if v.ndim == 0:
        return v.at()
    return [_tolist(x) if isinstance(x, Tensor) else x for x in v.unpack_axis0()]


def _astype(E, v, dt):
    from .np_model import dtype_tag
    tag = dtype_tag(dt)
    if tag.startswith("int") or tag == "int":
        if v.sort == REAL:
            return T.elementwise(lambda x: LIB.builtins["int"].fn(E, x), v, sort=INT)
        if v.sort == BOOL:
            return T.elementwise(lambda x: C.ite(x, 1, 0), v, sort=INT)
        return v
    if tag.startswith("float") or tag == "float":
        if v.sort in (INT, BOOL):
            return T.elementwise(lambda x: C.mk(C.as_real(x)), v, sort=REAL)
        return v
    if tag.startswith("bool"):
        return T.elementwise(lambda x: C.mk(C.as_bool(x)), v, sort=BOOL)
    return v


LIB.value_attr_handlers.insert(0, _tensor_attr)


def _at_getitem(E, v, idx):
    if isinstance(v, AtProxy):
        return AtIndexed(v.t, idx)
    return NotImplemented


LIB.getitem_handlers.insert(0, _at_getitem)


# -------------------------------------------------------------------- jax
@LIB.fn("jax.lax.stop_gradient", doc="identity on values; the result does not depend differentiably on anything")
def stop_gradient(E, x):
    if isinstance(x, (tuple, list)) and any(isinstance(y, (Tensor, tuple, list)) for y in x):
        return type(x)(stop_gradient(E, y) for y in x)  # a pytree of arrays: leaf-wise
    if isinstance(x, dict):
        return {k: stop_gradient(E, v) for k, v in x.items()}
    x = tt(x)
    pairs = _sg_pairs(E) if getattr(E.shared, "sg_freeze", False) else None
    if pairs:
        # "frozen parameter" mode (opt-in per task, used for gradient identities): the value behind a stop_gradient
        # is computed from FROZEN COPIES of the network parameters - distinct symbols, equal in value (a path-condition
        # fact per network).  Two expressions that are equal as functions of the live parameters, the frozen copies
        # being independent constants, have equal gradients; the frozen == live facts are withheld from that obligation.
        sub = lambda z: z3.substitute(z, *pairs)  # noqa: E731
        if isinstance(x, Tensor):
            rows = None
            if x.rows is not None:
                # keep the row function only if it is STRUCTURAL (mentions the parameters whenever the elements do):
                # an index-only row name (mkrow_k(b)) would silently keep denoting the live rows
                pb = [z3.Int(f"sgprobe!{j}") for j in range(x.ndim)]
                try:
                    e0 = C.to_z3(x.fn(*pb))
                    r0 = x.rows(*pb[:-1])
                    if z3.eq(sub(e0), e0) or not z3.eq(sub(r0), r0):
                        rows = lambda *b, _r=x.rows: sub(_r(*b))  # noqa: E731
                except Exception:  # noqa: BLE001
                    rows = None
            return Tensor(x.shape, lambda *i: _strip_sub(x.fn(*i), sub), x.sort, frozenset(), rows=rows)
        if isinstance(x, Sym):
            return Sym(sub(x.z))
    if isinstance(x, Tensor):
        return Tensor(x.shape, lambda *i: _strip(x.fn(*i)), x.sort, frozenset(), rows=x.rows)
    if isinstance(x, Sym):
        return Sym(x.z)
    if isinstance(x, (tuple, list)):
        return type(x)(stop_gradient(E, y) for y in x)
    return x


def _strip(v):
    if isinstance(v, Sym):
        return Sym(v.z)
    return v


def _strip_sub(v, sub):
    if isinstance(v, Sym):
        return Sym(sub(v.z))
    return v


def _sg_pairs(E):
    """(live parameter, frozen copy) for every leaf network on the heap whose parameters are a constant symbol;
    the first use of a network's frozen copy adds the fact  frozen == live  to the path condition (its id is kept in
    ghost['sg_eq_ids'] so that a gradient-identity obligation can withhold it)"""
    reg = E.st.ghost.setdefault("sg_frozen", {})
    ids = E.st.ghost.setdefault("sg_eq_ids", set())
    out = []
    for o in list(E.heap.values()):
        th = getattr(o, "fields", {}).get("$params") if hasattr(o, "fields") else None
        if isinstance(th, Sym) and z3.is_const(th.z) and th.z.decl().kind() == z3.Z3_OP_UNINTERPRETED:
            k = th.z.get_id()
            if k not in reg:
                fz = z3.Const(f"{th.z.decl().name()}!sg", th.z.sort())
                fact = fz == th.z
                E.st.pc.append(fact)
                ids.add(fact.get_id())
                reg[k] = (th.z, fz, getattr(o, "name", "?"), fact.get_id())
            out.append((reg[k][0], reg[k][1]))
    return out


def _identity_decorator(name):
    @LIB.fn(name, doc="compilation wrapper: semantics-preserving (DESIGN 4.2)")
    def g(E, fn=None, **kw):
        if fn is None:
            return Builtin(name + "()", lambda E, f: f)
        return fn
    return g


_identity_decorator("jax.jit")
_identity_decorator("jax.checkpoint")


@LIB.fn("jax.vmap", doc="vmap(f, in_axes, out_axes=0)(xs)[i] = f(xs[i])")
def jax_vmap(E, fn, in_axes=0, out_axes=0, **kw):
    return Builtin("vmapped", lambda E, *a, **k: vmap_call(E, fn, in_axes, out_axes, a, k))


def vmap_call(E, fn, in_axes, out_axes, args, kwargs):
    if any(isinstance(a, C.Anything) for a in args):
        return C.Anything("vmapped(...)")  # value irrelevant to the task (stubbed operands)
    args = [tt(a) for a in args]
    if not isinstance(in_axes, (tuple, list)):
        in_axes = [in_axes] * len(args)
    in_axes = list(in_axes)
    if len(in_axes) != len(args):
        raise PyRaise("ValueError", "vmap in_axes must match the positional arguments")
    mapped_dim = None
    for a, ax in zip(args, in_axes):
        if ax is None:
            continue
        leaves = _leaves(a)
        for lf in leaves:
            if not isinstance(lf, Tensor) or lf.ndim == 0:
                raise PyRaise("ValueError", "vmap was requested to map its argument along axis 0, which implies that its rank should be at least 1")
            axn = ax if ax >= 0 else ax + lf.ndim
            if axn >= lf.ndim:
                raise PyRaise("ValueError", "vmap axis out of range")
            d = lf.shape[axn]
            if mapped_dim is None:
                mapped_dim = d
            elif not T.dim_eq(mapped_dim, d):
                raise PyRaise("ValueError", "vmap got inconsistent sizes for array axes to be mapped")
    if mapped_dim is None:
        raise PyRaise("ValueError", "vmap must have at least one non-None value in in_axes")
    i = E.st.fresh(f"vm", INT)
    E.st.assume(z3.And(i >= 0, i < T.dim_z(mapped_dim)))
    E.st.add_pool(i)
    sliced = []
    for a, ax in zip(args, in_axes):
        if ax is None:
            sliced.append(a)
        else:
            sliced.append(_map_leaves(a, lambda lf: _slice_axis(lf, ax, Sym(i))))
    # enclosing vmap indices (read by models that introduce per-slice function symbols, e.g. lax.scan)
    vstack = E.st.ghost.setdefault("vmap_stack", [])
    vstack.append((i, mapped_dim))
    try:
        out = E.call_value(fn, sliced, dict(kwargs))
    finally:
        vstack.pop()

    def wrap(o):
        if isinstance(o, (tuple, list)):  # pytree outputs are mapped leaf-wise (never stacked)
            return type(o)(wrap(x) for x in o)
        o = tt(o)
        if isinstance(o, (tuple, list)):
            return type(o)(wrap(x) for x in o)
        if isinstance(o, NamedTuple):  # namedtuple outputs are pytrees: mapped field-wise
            return NamedTuple(o.typ, [wrap(x) for x in o.values])
        ot = T.as_tensor(o)
        oa = out_axes if isinstance(out_axes, int) else 0
        if oa < 0:
            oa += ot.ndim + 1
        shape = ot.shape[:oa] + (mapped_dim,) + ot.shape[oa:]

        def fn2(*idx):
            ii = idx[oa]
            rest = idx[:oa] + idx[oa + 1:]
            v = ot.at(*rest)
            if isinstance(v, Sym):
                return Sym(z3.substitute(v.z, (i, C.to_z3(ii))), v.gdeps)
            return v

        rows = None
        if ot.rows is not None and oa == 0:
            def rows(*b):
                r = ot.rows(*b[1:])
                return z3.substitute(r, (i, C.to_z3(b[0])))
        return Tensor(shape, fn2, ot.sort, ot.gdeps, rows=rows)

    return wrap(out)


def _leaves(a):
    if isinstance(a, (tuple, list)):
        out = []
        for x in a:
            out.extend(_leaves(x))
        return out
    if isinstance(a, dict):
        out = []
        for x in a.values():
            out.extend(_leaves(x))
        return out
    return [a]


def _map_leaves(a, f):
    if isinstance(a, (tuple, list)):
        return type(a)(_map_leaves(x, f) for x in a)
    if isinstance(a, dict):
        return {k: _map_leaves(x, f) for k, x in a.items()}
    return f(a)


def _slice_axis(t, ax, i):
    idx = [slice(None)] * t.ndim
    idx[ax] = i
    return T.index(t, tuple(idx))


# ------------------------------------------------------------- jax.random
split_l = C.uf("key_split", KEY, INT, KEY)


@LIB.fn("jax.random.key", doc="key determined by the seed")
def jr_key(E, seed):
    f = C.uf("key_of_seed", INT, KEY)
    if isinstance(seed, Sym) and seed.z.sort() != INT:
        raise Unsupported("non-integer seed")
    return Sym(f(C.to_z3(seed)))


@LIB.fn("jax.random.split", doc="split(key, n): n keys, each a function of (key, position)")
def jr_split(E, key, num=2):
    if isinstance(num, (tuple, list)):
        # split(key, shape): an array of keys of that shape, each a function of (key, position)
        kz = key.z

        f_nd = C.uf(f"key_split_nd{len(num)}", *([KEY] + [INT] * len(num) + [KEY]))
        return Tensor(tuple(num), lambda *i: Sym(f_nd(kz, *[C.to_z3(x) for x in i])), KEY)
    if not isinstance(num, int):
        kz = key.z
        return Tensor((num,), lambda i: Sym(split_l(kz, C.to_z3(i))), KEY)
    return tuple(Sym(split_l(key.z, z3.IntVal(i))) for i in range(num))


@LIB.fn("jax.random.fold_in")
def jr_fold_in(E, key, data):
    return Sym(split_l(key.z, C.as_int(data)))


def _rand(name, lo=None, hi=None, lo_strict=False, hi_strict=False):
    def g(E, key, shape=(), *a, **kw):
        shape = _shape(shape) if shape != () else ()
        kz = key.z if isinstance(key, Sym) else None
        if kz is None:
            raise Unsupported("random draw without a key term")
        k = len(shape)
        f = C.uf(f"rand_{name}{k}", *([KEY] + [INT] * k + [REAL]))

        def fn(*i):
            v = f(kz, *[C.to_z3(x) for x in i])
            return Sym(v)

        t = Tensor(shape, fn, REAL)
        cons = []
        def rng(*i):
            v = f(kz, *[C.to_z3(x) for x in i])
            cs = []
            if lo is not None:
                cs.append(v > lo if lo_strict else v >= lo)
            if hi is not None:
                cs.append(v < hi if hi_strict else v <= hi)
            return z3.And(*cs) if cs else z3.BoolVal(True)
        if lo is not None or hi is not None:
            if k:
                E.st.assume_forall([INT] * k, rng, f"{name}.range")
            else:
                E.st.assume(rng())
        return T.unwrap0(t)
    return g


LIB.fn("jax.random.normal", doc="normal(key, shape): function of (key, index)")(_rand("normal"))
LIB.fn("jax.random.uniform", doc="uniform(key, shape) in [0,1)")(lambda E, key, shape=(), dtype=None, minval=0, maxval=1, **kw: _uniform(E, key, shape, minval, maxval))


def _uniform(E, key, shape, lo, hi):
    u = _rand("uniform", 0, 1, hi_strict=True)(E, key, shape)
    if lo == 0 and hi == 1:
        return u
    return C.binop("+", lo, C.binop("*", u, C.binop("-", hi, lo)))


@LIB.fn("jax.random.truncated_normal", doc="truncated_normal(key, lower, upper, shape) in [lower, upper]")
def jr_truncnorm(E, key, lower, upper, shape=(), **kw):
    if isinstance(lower, (Tensor,)) or isinstance(upper, Tensor):
        raise Unsupported("tensor truncation bounds")
    return _rand("truncnorm", C.as_real(lower), C.as_real(upper))(E, key, shape)


@LIB.fn("jax.random.randint")
def jr_randint(E, key, shape, minval, maxval, **kw):
    shape = _shape(shape)
    k = len(shape)
    f = C.uf(f"rand_int{k}", *([KEY] + [INT] * k + [INT]))
    kz = key.z
    t = Tensor(shape, lambda *i: Sym(f(kz, *[C.to_z3(x) for x in i])), INT)
    rng = lambda *i: z3.And(f(kz, *i) >= C.as_int(minval), f(kz, *i) < C.as_int(maxval))  # noqa: E731
    if k:
        E.st.assume_forall([INT] * k, rng, "randint.range")
    else:
        E.st.assume(rng())
    return T.unwrap0(t)


@LIB.fn("jax.random.choice", doc="choice(key, a): an element of a, function of (key, a)")
def jr_choice(E, key, a, shape=(), **kw):
    a = tt(a)
    if isinstance(a, (int, Sym)):
        n = a
        f = C.uf("rand_choice", KEY, INT, INT)
        r = Sym(f(key.z, C.as_int(n)))
        E.assume(C.band(r >= 0, r < n))
        return r
    a = T.as_tensor(a)
    n = a.shape[0]
    f = C.uf("rand_choice", KEY, INT, INT)
    r = Sym(f(key.z, T.dim_z(n)))
    E.assume(C.band(r >= 0, C.compare("<", r, n)))
    return T.index(a, r)


@LIB.fn("jax.random.categorical")
def jr_categorical(E, key, logits, axis=-1, **kw):
    lg = T.as_tensor(tt(logits))
    if lg.ndim != 1:
        raise Unsupported("categorical rank")
    f = C.uf("rand_cat", KEY, INT)
    r = Sym(f(key.z))
    E.assume(C.band(r >= 0, C.compare("<", r, lg.shape[0])))
    return r


@LIB.fn("jax.random.permutation")
def jr_permutation(E, key, x, **kw):
    raise Unsupported("jax.random.permutation")


# ------------------------------------------------------------------ jax.nn
@LIB.fn("jax.nn.softplus")
def nn_softplus(E, x):
    return T.tfn("softplus", tt(x))


@LIB.fn("jax.nn.sigmoid")
def nn_sigmoid(E, x):
    return T.tfn("sigmoid", tt(x))


@LIB.fn("jax.nn.relu")
def nn_relu(E, x):
    return T.tmax(tt(x), 0)


@LIB.fn("jax.nn.tanh")
def nn_tanh(E, x):
    return T.tfn("tanh", tt(x))


LIB.funcs["flax.nnx.relu"] = LIB.funcs["jax.nn.relu"]
LIB.funcs["flax.nnx.tanh"] = LIB.funcs["jax.nn.tanh"]
LIB.funcs["flax.nnx.sigmoid"] = LIB.funcs["jax.nn.sigmoid"]
LIB.funcs["flax.nnx.softplus"] = LIB.funcs["jax.nn.softplus"]


def softmax_last(E, x, log=False):
    """softmax over the last axis: p = exp(x - lse); log p = x - lse.
    lse is an uninterpreted function of the row (Sum node of exp) - the two
    facts used by the proofs (p >= 0, sum p == 1) are the assumed contract."""
    x = T.as_tensor(tt(x))
    if x.ndim == 0:
        raise Unsupported("softmax of scalar")
    ex = T.tfn("exp", x)
    s = T.reduce_axis(ex, x.ndim - 1, "sum")
    st = E.st
    if isinstance(s, Tensor):
        sb = T.expand_dims(s, -1)
    else:
        sb = s
    p = C.binop("/", ex, sb)
    K = x.shape[-1]
    if not (isinstance(K, int) and K <= T.UNROLL_MAX):
        # assumed lemmas for a symbolic last axis (Sum nodes are uninterpreted;
        # for concrete sizes the sums are explicit and z3 derives both facts):
        #   softmax.denominator_positive:  K >= 1  =>  sum_k exp(x_k) > 0   (Finset.sum_pos, exp > 0)
        #   softmax.normalised:            K >= 1  =>  sum_k exp(x_k)/S == 1 (Finset.sum_div, div_self)
        kz = T.dim_z(K)
        nb = x.ndim - 1
        sv = (lambda *b: C.as_real(s.at(*b))) if isinstance(s, Tensor) else (lambda *b: C.as_real(s))
        if nb:
            st.assume_forall([INT] * nb, lambda *b: z3.Implies(kz >= 1, sv(*b) > 0), "softmax.denominator_positive")
        else:
            st.assume(z3.Implies(kz >= 1, sv() > 0))
        if not log:
            sp = T.reduce_axis(T.as_tensor(p), x.ndim - 1, "sum")
            pv = (lambda *b: C.as_real(sp.at(*b))) if isinstance(sp, Tensor) else (lambda *b: C.as_real(sp))
            if nb:
                st.assume_forall([INT] * nb, lambda *b: z3.Implies(kz >= 1, pv(*b) == 1), "softmax.normalised")
            else:
                st.assume(z3.Implies(kz >= 1, pv() == 1))
    if log:
        lse = T.tfn("log", s)
        lseb = T.expand_dims(lse, -1) if isinstance(lse, Tensor) else lse
        return C.binop("-", x, lseb)
    try:
        # machine-arithmetic note for float-hazard preconditions (contracts/C13.py): in float32 a softmax output is >= 0,
        # NOT > 0 (exp underflows once a logit is ~104 below the row maximum)
        p.from_softmax = True
    except AttributeError:
        pass
    return p


@LIB.fn("jax.nn.softmax", doc="softmax(x)_k = exp(x_k)/sum_j exp(x_j)")
def nn_softmax(E, x, axis=-1):
    if axis != -1:
        raise Unsupported("softmax axis")
    return softmax_last(E, x)


@LIB.fn("jax.nn.log_softmax", doc="log_softmax(x)_k = x_k - log sum_j exp(x_j)")
def nn_log_softmax(E, x, axis=-1):
    if axis != -1:
        raise Unsupported("log_softmax axis")
    return softmax_last(E, x, log=True)


LIB.funcs["flax.nnx.softmax"] = LIB.funcs["jax.nn.softmax"]
LIB.funcs["flax.nnx.log_softmax"] = LIB.funcs["jax.nn.log_softmax"]


@LIB.fn("jax.nn.one_hot")
def nn_one_hot(E, x, num_classes, **kw):
    x = T.as_tensor(tt(x))
    return Tensor(x.shape + (num_classes,), lambda *i: C.ite(C.compare("==", x.at(*i[:-1]), i[-1]), Fraction(1), Fraction(0)), REAL)


# --------------------------------------------------------------- jax.tree
@LIB.fn("jax.tree.map")
def tree_map(E, f, tree, *rest):
    def rec(t, rs):
        if isinstance(t, dict):
            return {k: rec(v, [r[k] for r in rs]) for k, v in t.items()}
        if isinstance(t, (list, tuple)):
            return type(t)(rec(v, [r[i] for r in rs]) for i, v in enumerate(t))
        h = LIB.tree_map_hook(E, f, t, rs) if hasattr(LIB, "tree_map_hook") else NotImplemented
        if h is not NotImplemented:
            return h
        return E.call_value(f, [t] + rs, {})
    return rec(tree, list(rest))


LIB.funcs["jax.tree_util.tree_map"] = LIB.funcs["jax.tree.map"]
LIB.funcs["jax.tree_map"] = LIB.funcs["jax.tree.map"]


# ------------------------------------------------------------------ optax
@LIB.fn("optax.squared_error", doc="optax.squared_error(p, t) = (p - t)^2 elementwise")
def optax_sq(E, predictions, targets=None):
    d = predictions if targets is None else C.binop("-", tt(predictions), tt(targets))
    if targets is not None:
        _same_shape_or_raise(predictions, targets)
    return C.binop("*", d, d)


def _same_shape_or_raise(a, b):
    a, b = tt(a), tt(b)
    if isinstance(a, Tensor) or isinstance(b, Tensor):
        # a 0-d array (handed around as a scalar) has shape (): optax 0.2.8
        # utils.check_shapes_equal raises ValueError for () vs (1,) as well
        a, b = T.as_tensor(a), T.as_tensor(b)
        if a.ndim != b.ndim or not all(T.dim_eq(x, y) for x, y in zip(a.shape, b.shape)):
            # optax.squared_error: chex.assert_equal_shape on (predictions, targets)
            raise T.ShapeError(f"optax: predictions {a.shape} and targets {b.shape} must have equal shapes")


@LIB.fn("optax.l2_loss", doc="optax.l2_loss(p, t) = 0.5 (p - t)^2")
def optax_l2(E, predictions, targets=None):
    return C.binop("*", Fraction(1, 2), optax_sq(E, predictions, targets))


@LIB.fn("optax.huber_loss", doc="optax.huber_loss(p, t, delta)")
def optax_huber(E, predictions, targets=None, delta=1):
    d = predictions if targets is None else C.binop("-", tt(predictions), tt(targets))
    a = T.tabs(d) if isinstance(d, Tensor) else C.sabs(d)
    q = T.tmin(a, delta) if isinstance(a, Tensor) else C.smin(a, delta)
    lin = C.binop("-", a, q)
    return C.binop("+", C.binop("*", Fraction(1, 2), C.binop("*", q, q)), C.binop("*", delta, lin))


@LIB.fn("optax.softmax_cross_entropy", doc="-sum(labels * log_softmax(logits), axis=-1)")
def optax_sce(E, logits, labels):
    ls = softmax_last(E, logits, log=True)
    return C.unop("-", T.reduce(C.binop("*", tt(labels), ls), "sum", -1))


# ------------------------------------------------------------------- chex
@LIB.fn("chex.assert_equal_shape", doc="raises unless all arrays have equal shapes")
def chex_equal_shape(E, arrs, **kw):
    ts = [T.as_tensor(tt(a)) for a in E.iterate(arrs)]
    for t in ts[1:]:
        if t.ndim != ts[0].ndim or not all(T.dim_eq(a, b) for a, b in zip(t.shape, ts[0].shape)):
            raise PyRaise("AssertionError", f"chex.assert_equal_shape {[x.shape for x in ts]}")


@LIB.fn("chex.assert_equal_shape_prefix", doc="raises unless leading prefix_len dims agree")
def chex_equal_prefix(E, arrs, prefix_len, **kw):
    ts = [T.as_tensor(tt(a)) for a in E.iterate(arrs)]
    for t in ts:
        if t.ndim < prefix_len:
            raise PyRaise("AssertionError", "chex.assert_equal_shape_prefix: rank too small")
    for t in ts[1:]:
        if not all(T.dim_eq(a, b) for a, b in zip(t.shape[:prefix_len], ts[0].shape[:prefix_len])):
            raise PyRaise("AssertionError", f"chex.assert_equal_shape_prefix {[x.shape for x in ts]}")


@LIB.fn("chex.assert_shape")
def chex_shape(E, arr, shape, **kw):
    t = T.as_tensor(tt(arr))
    shape = tuple(shape)
    if len(shape) != t.ndim:
        raise PyRaise("AssertionError", f"chex.assert_shape rank {t.shape} vs {shape}")
    for a, b in zip(t.shape, shape):
        if b is None or (isinstance(b, Opaque) and b.tag == "Ellipsis"):
            continue
        if not T.dim_eq(a, T.norm_dim(b)):
            raise PyRaise("AssertionError", f"chex.assert_shape {t.shape} vs {shape}")


@LIB.fn("chex.assert_rank")
def chex_rank(E, arr, rank, **kw):
    arrs = arr if isinstance(arr, (list, tuple)) else [arr]
    for a in arrs:
        t = T.as_tensor(tt(a))
        ok = t.ndim in rank if isinstance(rank, (set, list, tuple)) else t.ndim == rank
        if not ok:
            raise PyRaise("AssertionError", f"chex.assert_rank {t.shape} vs {rank}")


@LIB.fn("chex.assert_scalar_in", doc="raises unless lo <= x <= hi")
def chex_scalar_in(E, x, lo, hi, included=True):
    ok = C.band(C.compare(">=", x, lo), C.compare("<=", x, hi))
    if not E.truth(ok):
        raise PyRaise("AssertionError", "chex.assert_scalar_in")


@LIB.fn("chex.assert_scalar_positive")
def chex_scalar_pos(E, x):
    if not E.truth(C.compare(">", x, 0)):
        raise PyRaise("AssertionError", "chex.assert_scalar_positive")


@LIB.fn("chex.assert_scalar_non_negative")
def chex_scalar_nn(E, x):
    if not E.truth(C.compare(">=", x, 0)):
        raise PyRaise("AssertionError", "chex.assert_scalar_non_negative")


@LIB.fn("chex.assert_axis_dimension")
def chex_axis_dim(E, arr, axis, expected):
    t = T.as_tensor(tt(arr))
    if not T.dim_eq(t.shape[axis], T.norm_dim(expected)):
        raise PyRaise("AssertionError", "chex.assert_axis_dimension")


@LIB.fn("chex.assert_tree_all_finite")
def chex_finite(E, *a, **k):
    return None
