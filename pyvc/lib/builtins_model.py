"""Python builtins and container methods over the symbolic value domain."""
from __future__ import annotations

from fractions import Fraction

import z3

from .. import core as C
from ..core import (
    BOOL,
    INT,
    REAL,
    BoundMethod,
    Builtin,
    ClassInfo,
    Closure,
    LibNS,
    NamedTuple,
    NamedTupleType,
    NDArr,
    Obj,
    Opaque,
    Partial,
    PyRaise,
    Sym,
    Unsupported,
)
from . import LIB, SymRange

B = LIB.builtin


def _len(E, v):
    from ..tensor import Tensor

    if isinstance(v, C.OpaqueList):
        raise Unsupported("len() of a list with unknown contents (appended to inside a cut loop)")
    if isinstance(v, (list, tuple, dict, set, str, frozenset)):
        return len(v)
    if isinstance(v, NamedTuple):
        return len(v.values)
    if isinstance(v, Tensor):
        if not v.shape:
            raise PyRaise("TypeError", "len() of unsized object")
        return v.dim_value(0)
    if isinstance(v, NDArr):
        return C.mk(v.length) if not isinstance(v.length, int) else v.length
    if isinstance(v, C.IdxVec):
        return C.mk(C.to_z3(v.length)) if not isinstance(v.length, int) else v.length
    if isinstance(v, Obj):
        if isinstance(v.cls, ClassInfo):
            m = v.cls.lookup("__len__")
            if m is not None:
                return E.call_value(BoundMethod(v, m), [], {})
        r = LIB.len_hook(E, v)
        if r is not NotImplemented:
            return r
    r = LIB.len_hook(E, v)
    if r is not NotImplemented:
        return r
    raise Unsupported(f"len of {type(v).__name__}")


@B("len")
def b_len(E, v):
    return _len(E, v)


@B("slice")
def b_slice(E, *a):
    """slice(stop) / slice(start, stop[, step]): the same object the subscript syntax a[start:stop:step] builds"""
    if len(a) == 1:
        return slice(None, a[0], None)
    if len(a) == 2:
        return slice(a[0], a[1], None)
    if len(a) == 3:
        return slice(a[0], a[1], a[2])
    raise PyRaise("TypeError", "slice expected at most 3 arguments")


@B("range")
def b_range(E, *a):
    if len(a) == 1:
        lo, hi, step = 0, a[0], 1
    elif len(a) == 2:
        lo, hi, step = a[0], a[1], 1
    else:
        lo, hi, step = a
    lo, hi, step = [_as_pyint(x) for x in (lo, hi, step)]
    if all(isinstance(x, int) for x in (lo, hi, step)):
        return range(lo, hi, step)
    if step != 1:
        raise Unsupported("symbolic range with step != 1")
    return SymRange(lo, hi)


def _as_pyint(x):
    if isinstance(x, Sym):
        c = C.concrete_of(z3.simplify(x.z))
        if c is not None:
            return int(c) if not isinstance(c, bool) else int(c)
        if x.z.sort() != INT:
            raise PyRaise("TypeError", "integer argument expected")
        return x
    if isinstance(x, Fraction):
        raise PyRaise("TypeError", "'float' object cannot be interpreted as an integer")
    return x


@B("int")
def b_int(E, x=0):
    from ..tensor import Tensor

    if isinstance(x, C.Anything):
        return x
    if isinstance(x, bool):
        return int(x)
    if isinstance(x, int):
        return x
    if isinstance(x, Fraction):
        import math

        return math.trunc(x)
    if isinstance(x, Tensor):
        x = x.item()
    if isinstance(x, Sym):
        if x.z.sort() == INT:
            return x
        if x.z.sort() == BOOL:
            return C.mk(C.as_num(x))
        if x.z.sort() == REAL:
            # truncation toward zero
            fl = z3.ToInt(x.z)
            return C.mk(z3.If(x.z >= 0, fl, -z3.ToInt(-x.z)))
        if x.z.sort() == C.VAL:
            # int() of an opaque payload: value-preserving cast (DESIGN 4.2)
            return x
    if isinstance(x, str):
        return int(x)
    raise Unsupported(f"int() of {type(x).__name__}")


@B("float")
def b_float(E, x=0):
    from ..tensor import Tensor

    if isinstance(x, C.Anything):
        return x
    if isinstance(x, (int, Fraction)):
        return Fraction(x)
    if isinstance(x, str):
        return C.frac_of(float(x))
    if isinstance(x, Tensor):
        x = x.item()
    if isinstance(x, Sym):
        if x.z.sort() == C.VAL:
            return x
        return C.mk(C.as_real(x), x.gdeps)
    raise Unsupported(f"float() of {type(x).__name__}")


@B("bool")
def b_bool(E, x=False):
    if isinstance(x, Sym):
        return C.mk(C.as_bool(x))
    return E.truth(x)


@B("str")
def b_str(E, x=""):
    return str(x) if not isinstance(x, Sym) else "<sym>"


@B("repr")
def b_repr(E, x):
    return "<repr>"


@B("abs")
def b_abs(E, x):
    from ..tensor import Tensor
    from .. import tensor as T

    if isinstance(x, Tensor):
        return T.tabs(x)
    return C.sabs(x)


@B("min")
def b_min(E, *a, **kw):
    if len(a) == 1:
        a = E.iterate(a[0])
        if not a:
            raise PyRaise("ValueError", "min() arg is an empty sequence")
    a = [_scalar(E, x) for x in a]
    if any(isinstance(x, C.Anything) for x in a):
        return C.Anything("min")
    return C.smin(*a)


@B("max")
def b_max(E, *a, **kw):
    if len(a) == 1:
        a = E.iterate(a[0])
        if not a:
            raise PyRaise("ValueError", "max() arg is an empty sequence")
    a = [_scalar(E, x) for x in a]
    if any(isinstance(x, C.Anything) for x in a):
        return C.Anything("max")
    return C.smax(*a)


def _scalar(E, x):
    from ..tensor import Tensor

    if isinstance(x, Tensor):
        return x.item()
    return x


@B("sum")
def b_sum(E, it, start=0):
    r = start
    for x in E.iterate(it):
        r = E.binop("+", r, x)
    return r


@B("any")
def b_any(E, it):
    for x in E.iterate(it):
        if E.truth(x):
            return True
    return False


@B("all")
def b_all(E, it):
    for x in E.iterate(it):
        if not E.truth(x):
            return False
    return True


@B("zip")
def b_zip(E, *its, strict=False):
    ls = [E.iterate(i) for i in its]
    if strict and len({len(l) for l in ls}) > 1:
        raise PyRaise("ValueError", "zip() arguments have different lengths")
    return [tuple(t) for t in zip(*ls)]


@B("enumerate")
def b_enumerate(E, it, start=0):
    return [(i + start, x) for i, x in enumerate(E.iterate(it))]


@B("reversed")
def b_reversed(E, it):
    return list(reversed(E.iterate(it)))


@B("sorted")
def b_sorted(E, it, key=None, reverse=False):
    xs = E.iterate(it)
    if any(isinstance(x, Sym) for x in xs):
        raise Unsupported("sorted() of symbolic values")
    if key is not None:
        raise Unsupported("sorted with key")
    return sorted(xs, reverse=bool(reverse))


@B("list")
def b_list(E, it=()):
    return list(E.iterate(it))


@B("tuple")
def b_tuple(E, it=()):
    return tuple(E.iterate(it))


@B("set")
def b_set(E, it=()):
    return set(E.iterate(it))


@B("frozenset")
def b_frozenset(E, it=()):
    return frozenset(E.iterate(it))


@B("dict")
def b_dict(E, *a, **kw):
    d = {}
    if a:
        src = a[0]
        if isinstance(src, dict):
            d.update(src)
        else:
            for k, v in E.iterate(src):
                d[k] = v
    d.update(kw)
    return d


@B("print")
def b_print(E, *a, **kw):
    return None


@B("round")
def b_round(E, x, nd=None):
    if isinstance(x, (int,)):
        return x
    if isinstance(x, Fraction):
        return round(x) if nd is None else Fraction(round(float(x), nd))
    raise Unsupported("round of symbolic value")


@B("isinstance")
def b_isinstance(E, v, cls):
    from ..tensor import Tensor

    if isinstance(cls, tuple):
        return any(b_isinstance(E, v, c) for c in cls)
    if isinstance(cls, ClassInfo):
        return isinstance(v, Obj) and isinstance(v.cls, ClassInfo) and cls in v.cls.mro()
    if isinstance(cls, Builtin):
        n = cls.name
        if n == "int":
            return (isinstance(v, int) and not isinstance(v, bool)) or isinstance(v, bool) or (isinstance(v, Sym) and v.z.sort() == INT)
        if n == "float":
            return isinstance(v, Fraction) or (isinstance(v, Sym) and v.z.sort() == REAL)
        if n == "bool":
            return isinstance(v, bool) or (isinstance(v, Sym) and v.z.sort() == BOOL)
        if n == "str":
            return isinstance(v, str)
        if n in ("list", "tuple", "dict", "set"):
            return isinstance(v, {"list": list, "tuple": tuple, "dict": dict, "set": set}[n])
        raise Unsupported(f"isinstance against {n}")
    if isinstance(cls, LibNS):
        tag = LIB.norm(cls.path)
        if isinstance(v, Obj):
            if isinstance(v.cls, str):
                return LIB.is_subclass_tag(v.cls, tag)
            for c in v.cls.mro():
                for b in c.bases:
                    if isinstance(b, str) and LIB.is_subclass_tag(b, tag):
                        return True
            return False
        if tag in ("numpy.ndarray", "jax.Array", "jax.numpy.ndarray"):
            return isinstance(v, (Tensor, NDArr))
        return False
    if isinstance(cls, Opaque) and cls.tag == "exception_class":
        return False
    raise Unsupported(f"isinstance against {cls!r}")


@B("hasattr")
def b_hasattr(E, v, name):
    try:
        E.getattr(v, name)
        return True
    except PyRaise:
        return False


@B("getattr")
def b_getattr(E, v, name, *default):
    try:
        return E.getattr(v, name)
    except PyRaise:
        if default:
            return default[0]
        raise


@B("setattr")
def b_setattr(E, v, name, value):
    E.setattr(v, name, value)


@B("callable")
def b_callable(E, v):
    return isinstance(v, (Closure, Builtin, BoundMethod, Partial, ClassInfo))


@B("id")
def b_id(E, v):
    return id(v)


@B("type")
def b_type(E, v):
    if isinstance(v, Obj):
        return v.cls
    return Opaque("type", type(v).__name__)


@B("iter")
def b_iter(E, v):
    return E.iterate(v)


@B("divmod")
def b_divmod(E, a, b):
    return (C.binop("//", a, b), C.binop("%", a, b))


@B("pow")
def b_pow(E, a, b):
    return C.binop("**", a, b)


for _exc in ("ValueError", "TypeError", "KeyError", "IndexError", "RuntimeError", "Exception",
             "AssertionError", "NotImplementedError", "AttributeError", "StopIteration"):
    LIB.builtins[_exc] = Opaque("exception_class", _exc)
LIB.builtins["NotImplemented"] = Opaque("NotImplemented")
LIB.builtins["Ellipsis"] = Opaque("Ellipsis")
LIB.builtins["object"] = "object"


# ----------------------------------------------------------------------
# container methods
# ----------------------------------------------------------------------

def _list_attr(E, v, name):
    if not isinstance(v, list):
        return NotImplemented

    def logw():
        E.log_write(f"list@{id(v)}", "*")

    if name == "append":
        def f(E, x):
            logw()
            v.append(x)
        return Builtin("list.append", f)
    if name == "extend":
        def f(E, xs):
            logw()
            v.extend(E.iterate(xs))
        return Builtin("list.extend", f)
    if name == "pop":
        def f(E, i=-1):
            logw()
            if not v:
                raise PyRaise("IndexError", "pop from empty list")
            if isinstance(i, Sym):
                raise Unsupported("symbolic list.pop index")
            return v.pop(i)
        return Builtin("list.pop", f)
    if name == "insert":
        def f(E, i, x):
            logw()
            v.insert(i, x)
        return Builtin("list.insert", f)
    if name == "remove":
        def f(E, x):
            logw()
            for k, y in enumerate(v):
                r = C.compare("==", x, y)
                if isinstance(r, Sym):
                    raise Unsupported("symbolic list.remove")
                if r:
                    del v[k]
                    return
            raise PyRaise("ValueError", "list.remove(x): x not in list")
        return Builtin("list.remove", f)
    if name == "index":
        def f(E, x):
            for k, y in enumerate(v):
                r = C.compare("==", x, y)
                if isinstance(r, Sym):
                    raise Unsupported("symbolic list.index")
                if r:
                    return k
            raise PyRaise("ValueError", "not in list")
        return Builtin("list.index", f)
    if name == "copy":
        return Builtin("list.copy", lambda E: list(v))
    if name == "clear":
        def f(E):
            logw()
            v.clear()
        return Builtin("list.clear", f)
    if name == "count":
        return Builtin("list.count", lambda E, x: sum(1 for y in v if C.compare("==", x, y) is True))
    if name == "sort":
        def f(E, **kw):
            if any(isinstance(x, Sym) for x in v):
                raise Unsupported("sort of symbolic list")
            v.sort()
        return Builtin("list.sort", f)
    if name == "reverse":
        return Builtin("list.reverse", lambda E: v.reverse())
    return NotImplemented


def _dict_attr(E, v, name):
    if not isinstance(v, dict):
        return NotImplemented
    if name == "items":
        return Builtin("dict.items", lambda E: [(k, x) for k, x in v.items()])
    if name == "keys":
        return Builtin("dict.keys", lambda E: list(v.keys()))
    if name == "values":
        return Builtin("dict.values", lambda E: list(v.values()))
    if name == "get":
        return Builtin("dict.get", lambda E, k, d=None: v.get(k, d))
    if name == "update":
        def f(E, *a, **kw):
            for o in a:
                if isinstance(o, dict):
                    v.update(o)
                else:
                    for k, x in E.iterate(o):
                        v[k] = x
            v.update(kw)
        return Builtin("dict.update", f)
    if name == "pop":
        def f(E, k, *d):
            if k in v:
                return v.pop(k)
            if d:
                return d[0]
            raise PyRaise("KeyError", repr(k))
        return Builtin("dict.pop", f)
    if name == "setdefault":
        return Builtin("dict.setdefault", lambda E, k, d=None: v.setdefault(k, d))
    if name == "copy":
        return Builtin("dict.copy", lambda E: dict(v))
    if name == "clear":
        return Builtin("dict.clear", lambda E: v.clear())
    return NotImplemented


def _set_attr(E, v, name):
    if not isinstance(v, (set, frozenset)):
        return NotImplemented
    if name == "add":
        def f(E, x):
            if isinstance(x, Sym):
                raise Unsupported("symbolic element added to a python set")
            v.add(x)
        return Builtin("set.add", f)
    if name == "discard":
        return Builtin("set.discard", lambda E, x: v.discard(x))
    if name == "remove":
        def f(E, x):
            if x not in v:
                raise PyRaise("KeyError", repr(x))
            v.remove(x)
        return Builtin("set.remove", f)
    if name == "copy":
        return Builtin("set.copy", lambda E: set(v))
    if name == "union":
        return Builtin("set.union", lambda E, o: set(v) | set(E.iterate(o)))
    if name == "difference":
        return Builtin("set.difference", lambda E, o: set(v) - set(E.iterate(o)))
    if name == "pop":
        raise Unsupported("set.pop (order dependent)")
    return NotImplemented


def _str_attr(E, v, name):
    if not isinstance(v, str):
        return NotImplemented
    if name in ("format", "join", "lower", "upper", "strip", "replace", "split", "startswith", "endswith"):
        def f(E, *a, **k):
            try:
                return getattr(v, name)(*a, **k)
            except Exception:
                return v
        return Builtin(f"str.{name}", f)
    return NotImplemented


def _tuple_attr(E, v, name):
    if not isinstance(v, tuple):
        return NotImplemented
    if name == "index":
        return Builtin("tuple.index", lambda E, x: v.index(x))
    if name == "count":
        return Builtin("tuple.count", lambda E, x: v.count(x))
    return NotImplemented


def _num_attr(E, v, name):
    from ..tensor import Tensor

    if isinstance(v, (int, Fraction)) and not isinstance(v, bool) or isinstance(v, Sym):
        if name == "item":
            return Builtin("item", lambda E: v)
        if name == "shape":
            return ()
        if name == "ndim":
            return 0
        if name == "astype":
            return Builtin("astype", lambda E, t=None: _astype_scalar(E, v, t))
        if name in ("squeeze", "copy", "flatten", "block_until_ready"):
            return Builtin(name, lambda E, *a, **k: v)
        if name == "mean" or name == "sum" or name == "max" or name == "min":
            return Builtin(name, lambda E, *a, **k: v)
        if name == "dtype":
            return Opaque("dtype", "scalar")
        if name == "real":
            return v
        if name == "reshape":
            from .. import tensor as T
            return Builtin("reshape", lambda E, *shape: T.reshape(T.from_scalar(v), shape))
    return NotImplemented


def _astype_scalar(E, v, t):
    return v


def _method_attr(E, v, name):
    if isinstance(v, (Closure, Builtin, Partial, BoundMethod)):
        if name == "__name__":
            return getattr(v, "qualname", "fn").split(".")[-1]
        if name == "func" and isinstance(v, Partial):
            return v.func
        if name == "args" and isinstance(v, Partial):
            return v.args
        if name == "keywords" and isinstance(v, Partial):
            return v.kwargs
    return NotImplemented


for _h in (_list_attr, _dict_attr, _set_attr, _str_attr, _tuple_attr, _num_attr, _method_attr):
    LIB.value_attr_handlers.append(_h)


# ----------------------------------------------------------------------
# functools / collections / dataclasses / copy / typing
# ----------------------------------------------------------------------

@LIB.fn("functools.partial")
def f_partial(E, fn, *a, **k):
    return Partial(fn, a, k)


@LIB.fn("collections.namedtuple")
def f_namedtuple(E, name, fields, **kw):
    if isinstance(fields, str):
        fields = fields.replace(",", " ").split()
    elif isinstance(fields, dict):
        fields = list(fields.keys())
    else:
        fields = list(E.iterate(fields))
    return NamedTupleType(name, fields)


@LIB.fn("collections.OrderedDict")
def f_ordereddict(E, *a, **k):
    return b_dict(E, *a, **k)


@LIB.fn("collections.defaultdict")
def f_defaultdict(E, *a, **k):
    raise Unsupported("defaultdict")


@LIB.fn("collections.deque")
def f_deque(E, it=(), maxlen=None):
    raise Unsupported("deque")


@LIB.fn("dataclasses.dataclass")
def f_dataclass(E, cls=None, **kw):
    return cls


@LIB.fn("dataclasses.replace")
def f_dc_replace(E, o, **kw):
    n = Obj(o.cls, dict(o.fields), name=E.alloc_name(None, None, ":replace"))
    E.register(n)
    n.fields.update(kw)
    return n


@LIB.fn("dataclasses.field")
def f_dc_field(E, default=None, default_factory=None, **kw):
    if default_factory is not None:
        return E.call_value(default_factory, [], {})
    return default


@LIB.fn("copy.copy")
def f_copy(E, o):
    if isinstance(o, list):
        return list(o)
    if isinstance(o, dict):
        return dict(o)
    raise Unsupported("copy.copy")


def deep_copy(E, o, memo=None):
    from ..tensor import Tensor

    memo = {} if memo is None else memo
    if id(o) in memo:
        return memo[id(o)]
    if isinstance(o, (int, Fraction, str, bool, type(None), Sym, Tensor, Opaque, NamedTupleType, ClassInfo)):
        return o
    if isinstance(o, list):
        r = []
        memo[id(o)] = r
        r.extend(deep_copy(E, x, memo) for x in o)
        return r
    if isinstance(o, tuple):
        return tuple(deep_copy(E, x, memo) for x in o)
    if isinstance(o, dict):
        r = {}
        memo[id(o)] = r
        for k, x in o.items():
            r[k] = deep_copy(E, x, memo)
        return r
    if isinstance(o, set):
        return set(o)
    if isinstance(o, NDArr):
        r = NDArr(o.data, o.length, o.elem_sort, E.alloc_name(None, None, f":copy:{o.name}"))
        for extra in ("payload_shape", "dtype"):
            if hasattr(o, extra):
                setattr(r, extra, getattr(o, extra))
        E.heap[r.name] = r
        memo[id(o)] = r
        return r
    if isinstance(o, Obj):
        r = Obj(o.cls, {}, name=E.alloc_name(None, None, f":copy:{o.name}"))
        E.register(r)
        memo[id(o)] = r
        for k, x in o.fields.items():
            r.fields[k] = deep_copy(E, x, memo)
        return r
    raise Unsupported(f"deepcopy of {type(o).__name__}")


@LIB.fn("copy.deepcopy", doc="copy.deepcopy yields a structurally equal object graph with disjoint storage")
def f_deepcopy(E, o):
    return deep_copy(E, o)


@LIB.fn("math.log")
def f_mlog(E, x):
    return C.Sym(C.uf("log", REAL, REAL)(C.as_real(x)))


@LIB.fn("math.sqrt")
def f_msqrt(E, x):
    from .. import tensor as T
    return T.scalar_fn("sqrt", x, E)


@LIB.fn("math.exp")
def f_mexp(E, x):
    return C.Sym(C.uf("exp", REAL, REAL)(C.as_real(x)))


@LIB.fn("math.floor")
def f_mfloor(E, x):
    if isinstance(x, (int, Fraction)):
        import math
        return math.floor(x)
    return C.mk(z3.ToInt(C.as_real(x)))


@LIB.fn("math.ceil")
def f_mceil(E, x):
    if isinstance(x, (int, Fraction)):
        import math
        return math.ceil(x)
    return C.mk(-z3.ToInt(-C.as_real(x)))


LIB.const("math.pi", Fraction(355, 113))  # overwritten by symbolic constant in jax_model
LIB.const("math.inf", Opaque("inf"))


@LIB.fn("warnings.warn")
def f_warn(E, *a, **k):
    return None


@LIB.fn("time.time")
def f_time(E):
    return E.st.fresh_sym("time", REAL)


@LIB.fn("time.perf_counter")
def f_perf(E):
    return E.st.fresh_sym("time", REAL)
