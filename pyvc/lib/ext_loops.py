"""Library models needed by the tabular / on-policy interaction loops (C01, C11).

ASSUMED contracts (trusted base), each transcribing a documented clause:

* jax.numpy.empty(shape, dtype)  "Return a new array of given shape and type,
  without initializing entries": an array of the given shape with ARBITRARY
  contents (a fresh uninterpreted element function).  Element sort by dtype
  (int* -> Int, bool -> Bool, else Real); a contract may set
  `shared.jnp_empty_int_sort = VAL` when the integer arrays of the routine under
  verification only ever hold value-preserving casts (`int(x)`, DESIGN 4.2) of
  opaque payloads - the array then holds payloads.
* collections.deque(iterable=(), maxlen=None)  "Once a bounded length deque is
  full, when new items are added, a corresponding number of items are discarded
  from the opposite end": modelled in LOG SPACE - an append-only column `col`
  indexed by the global append count `g`; the deque's content is the window
      col[max(0, g - maxlen)], ..., col[g - 1]          (all of col[0..g) when maxlen is None)
  so   append(x): col' = col[g := x], g' = g + 1;   len(d) = min(g, maxlen);
       d[k] = col[max(0, g - maxlen) + k];   jnp.asarray(d) / np.asarray(d) = the
       window in order (value-preserving conversion of the elements).
  Only append / len / indexing / conversion to an array are modelled; anything
  else raises Unsupported (never a wrong answer).  Elements are opaque payloads.
"""
from __future__ import annotations

import z3

from .. import core as C
from .. import tensor as T
from ..core import BOOL, INT, REAL, VAL, Builtin, Obj, PyRaise, Sym, Unsupported
from . import LIB
from . import builtins_model, jax_model, np_model  # noqa: F401  (wrapped below: load them first)
from .np_model import dtype_tag, to_sort

DEQUE = "collections.deque"


# ------------------------------------------------------------------ jnp.empty
@LIB.fn("jax.numpy.empty", doc="empty(shape, dtype): new array of the given shape, contents arbitrary")
def jnp_empty(E, shape, dtype=None, **kw):
    shape = tuple(shape) if isinstance(shape, (tuple, list)) else (shape,)
    for n in shape:
        if isinstance(n, C.Fraction) or (isinstance(n, Sym) and n.z.sort() != INT):
            raise PyRaise("TypeError", "shape must be integers")
        if isinstance(n, Sym) and E.st.branch(n < 0):
            raise PyRaise("ValueError", "negative dimensions are not allowed")
    tag = dtype_tag(dtype)
    if tag.startswith(("int", "uint")):
        sort = E.shared.__dict__.get("jnp_empty_int_sort", INT)
    elif tag.startswith("bool"):
        sort = BOOL
    else:
        sort = REAL
    return T.fresh_tensor("empty", shape, sort, is_input=False)


# ---------------------------------------------------------------------- deque
def deque_len(d):
    g, m = d.fields["$g"], d.fields["maxlen"]
    return g if m is None else C.smin(g, m)


def deque_first(d):
    """log index of the oldest element still in the window"""
    g, m = d.fields["$g"], d.fields["maxlen"]
    return 0 if m is None else C.smax(0, C.binop("-", g, m))


def deque_elem(d, k):
    """k-th element (0 = oldest) of the window; k is a python int or Int term, assumed in range"""
    pos = C.binop("+", deque_first(d), k)
    return Sym(z3.Select(d.fields["$col"].z, C.as_int(pos)))


def deque_tensor(d):
    return T.Tensor((deque_len(d),), lambda k: deque_elem(d, k), VAL, name=f"asarray({d.name})")


@LIB.fn(DEQUE, doc="deque(iterable=(), maxlen=None): bounded FIFO window over an append-only log")
def f_deque(E, it=(), maxlen=None):
    items = E.iterate(it)
    if maxlen is not None:
        if isinstance(maxlen, C.Fraction) or (isinstance(maxlen, Sym) and maxlen.z.sort() != INT):
            raise PyRaise("TypeError", "an integer is required")
        if isinstance(maxlen, Sym):
            if E.st.branch(maxlen < 0):
                raise PyRaise("ValueError", "maxlen must be non-negative")
        elif maxlen < 0:
            raise PyRaise("ValueError", "maxlen must be non-negative")
    node, fr = E.cur_call if E.cur_call else (None, None)
    name = E.alloc_name(fr, node, ":deque")
    col = E.st.fresh_sym("deque.col", z3.ArraySort(INT, VAL))
    d = Obj(DEQUE, {"maxlen": maxlen, "$g": 0, "$col": col}, name=name)
    E.register(d)
    for x in items:
        _append(E, d, x)
    return d


def _append(E, d, x):
    g = d.fields["$g"]
    E.log_write(d.name, "$g")
    E.log_write(d.name, "$col")
    d.fields["$col"] = Sym(z3.Store(d.fields["$col"].z, C.as_int(g), to_sort(x, VAL)))
    d.fields["$g"] = C.binop("+", g, 1)
    for h in E.shared.__dict__.get("deque_hooks", []):
        h(E, d, x)
    return None


@LIB.cls(DEQUE)
def _deque_attr(E, d, name):
    if name == "append":
        return Builtin("deque.append", lambda E, x: _append(E, d, x))
    if name == "maxlen":
        return d.fields["maxlen"]
    if name.startswith("__"):
        return NotImplemented
    raise Unsupported(f"deque.{name}")


def _deque_len(E, v):
    if isinstance(v, Obj) and v.cls == DEQUE:
        return deque_len(v)
    return NotImplemented


def _deque_getitem(E, v, idx):
    if not (isinstance(v, Obj) and v.cls == DEQUE):
        return NotImplemented
    if isinstance(idx, slice) or isinstance(idx, bool) or not isinstance(idx, (int, Sym)):
        raise PyRaise("TypeError", "sequence index must be integer, not 'slice'")
    n = C.as_int(deque_len(v))
    iz = C.as_int(idx)
    if not E.st.branch(z3.And(iz >= -n, iz < n)):
        raise PyRaise("IndexError", "deque index out of range")
    return deque_elem(v, Sym(z3.simplify(z3.If(iz < 0, iz + n, iz))))


LIB.len_handlers.insert(0, _deque_len)
LIB.getitem_handlers.insert(0, _deque_getitem)


def _wrap_asarray(path):
    b = LIB.funcs.get(path)
    if b is None or getattr(b, "_deque", False):
        return
    old = b.fn

    def fn(E, v=None, *a, **k):
        if isinstance(v, Obj) and v.cls == DEQUE:
            return deque_tensor(v)
        return old(E, v, *a, **k)

    b.fn = fn
    b._deque = True


for _p in ("numpy.asarray", "numpy.array", "jax.numpy.asarray"):
    _wrap_asarray(_p)


# ------------------------------------------------- opaque payloads: reshaping views
# x[None] / x[jnp.newaxis] / x[...] of an opaque payload adds a unit axis or is the identity: a value-preserving
# view (DESIGN 4.2) - the payload itself.  jnp.concatenate / jnp.concat of a list that contains opaque payloads is an
# opaque result (`Anything`): nothing at loop level may depend on it.
def _val_getitem(E, v, idx):
    if not (isinstance(v, Sym) and v.z.sort() == VAL):
        return NotImplemented
    parts = idx if isinstance(idx, tuple) else (idx,)
    for p in parts:
        full = isinstance(p, slice) and p.start is None and p.stop is None and p.step is None
        if not (p is None or full or (isinstance(p, C.Opaque) and p.tag == "Ellipsis")):
            return NotImplemented
    return v


LIB.getitem_handlers.insert(0, _val_getitem)


def _wrap_concat(path):
    b = LIB.funcs.get(path)
    if b is None or getattr(b, "_payloads", False):
        return
    old = b.fn

    def fn(E, arrs=None, *a, **k):
        if isinstance(arrs, C.OpaqueList):
            return C.Anything("array-of-unknown-rows")
        if isinstance(arrs, (list, tuple)) and any(isinstance(x, Sym) and x.z.sort() == VAL for x in arrs):
            return C.Anything("concatenated-payloads")
        return old(E, arrs, *a, **k)

    b.fn = fn
    b._payloads = True


for _p in ("jax.numpy.concatenate", "jax.numpy.concat", "numpy.concatenate"):
    _wrap_concat(_p)


def _wrap_array_of_unknown_rows(path):
    """jnp.array(rows) / np.asarray(rows) of a list with unknown contents (core.OpaqueList): an opaque array"""
    b = LIB.funcs.get(path)
    if b is None or getattr(b, "_opaque_rows", False):
        return
    old = b.fn

    def fn(E, v=None, *a, **k):
        if isinstance(v, C.OpaqueList):
            return C.Anything("array-of-unknown-rows")
        return old(E, v, *a, **k)

    b.fn = fn
    b._opaque_rows = True


for _p in ("jax.numpy.asarray", "jax.numpy.array", "numpy.asarray", "numpy.array"):
    _wrap_array_of_unknown_rows(_p)


# ---------------------------------------------------------------- jnp.finfo
@LIB.fn("jax.numpy.finfo", doc="finfo(dtype).eps: machine epsilon of the float type (2**-23 for float32, 2**-52 for float64)")
def jnp_finfo(E, dtype=None):
    from fractions import Fraction

    tag = dtype_tag(dtype)
    bits = {"float32": 23, "float": 52, "float64": 52, "float16": 10}.get(tag)
    if bits is None:
        raise Unsupported(f"finfo({tag})")
    o = Obj("jax.numpy.finfo", {"eps": Fraction(1, 2 ** bits), "bits": {23: 32, 52: 64, 10: 16}[bits]}, name=E.alloc_name(None, None, ":finfo"))
    E.register(o)
    return o


@LIB.cls("jax.numpy.finfo")
def _finfo_attr(E, obj, name):
    if name.startswith("__"):
        return NotImplemented
    raise Unsupported(f"finfo.{name}")


# ------------------------------------------- opaque payloads: functional point update
# payload.at[idx].set(x) / .add(x) (jax functional update of one slice of an opaque array): an UNINTERPRETED function of
# (payload, index, value) - the result is some array, nothing is known about how it relates to `payload`
# (in particular it is not provably equal to it).
class PayloadAt:
    def __init__(self, v, idx=None):
        self.v, self.idx = v, idx


def _payload_at_attr(E, v, name):
    if isinstance(v, Sym) and v.z.sort() == VAL and name == "at":
        return PayloadAt(v)
    if isinstance(v, PayloadAt) and v.idx is not None and name in ("set", "add"):
        f = C.uf(f"val_at_{name}", VAL, INT, VAL, VAL)
        return Builtin(f"payload.at.{name}", lambda E, x, **kw: Sym(f(v.v.z, C.as_int(v.idx), to_sort(x, VAL))))
    return NotImplemented


def _payload_at_getitem(E, v, idx):
    if isinstance(v, PayloadAt) and v.idx is None:
        if isinstance(idx, bool) or not isinstance(idx, (int, Sym)):
            raise Unsupported("payload.at[...] with a non-integer index")
        return PayloadAt(v.v, idx)
    return NotImplemented


LIB.value_attr_handlers.insert(0, _payload_at_attr)
LIB.getitem_handlers.insert(0, _payload_at_getitem)
