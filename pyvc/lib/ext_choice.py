"""ext_choice - numpy `Generator.choice` over a finite python sequence of ints
(C02 / C08: the multi-task replay buffer draws the task to sample from with
`rng.choice(list(self.active_buffers), size=1)[0]`).

ASSUMED library contract (numpy.random.Generator.choice, documented behaviour
"Generates a random sample from a given array"; trusted, not proved):

  for a python list / tuple `a` of k >= 1 integers, `replace=True`, `p=None` and
  `size` in {None, 1, (1,)}:  the call returns one ELEMENT OF `a`
  (`a[j]` for some position 0 <= j < k; every position is possible) - as a scalar
  for `size=None`, as an array of shape (1,) holding that element otherwise;
  `a` itself and every other python object are left untouched; the only state
  advanced is the generator's own.  For k == 0 it raises
  ValueError("'a' cannot be empty unless no samples are taken").
  A python int n as population stands for the list [0, .., n-1] ("as if it were
  np.arange(a)"); n <= 0 raises ValueError.

The position j is a fresh symbolic input (`choice_pos`) constrained to [0, k),
so every obligation stated afterwards is proved for EVERY possible draw.  All
other argument shapes fall through to the earlier models (np_model / ext_sched).

Ghost: every call handled here is appended to `E.st.ghost["choice_calls"]` as
  dict(rng=<the Generator object the method was called on>, candidates=[...],
       size=size, result=<value returned for the element>)
so that a contract can state WHICH generator was consulted and over WHICH
candidates (e.g. "the task is drawn from the active tasks with the caller's rng").

Python sets of task ids (`set.add` / `list(set)`): nothing new is needed here.
`set()`/`list(set)` are interpreted natively (builtins_model) and `set.add(x)`
with a symbolic int x is made concrete by an exact case split over
`shared.sched_id_range` (ext_sched.concretize_id); when the range is not
declared that model raises Unsupported (never a guess).
"""
from __future__ import annotations

import z3

from .. import core as C
from .. import tensor as T
from ..core import INT, Builtin, PyRaise, Sym
from . import LIB
from . import np_model, ext_sched  # noqa: F401  (wrapped below: load first)

DOC = ("numpy.random.Generator.choice(list of k>=1 ints, size in {None,1}): returns an element a[j], 0 <= j < k (every j possible); "
       "ValueError when the list is empty; no side effect besides the generator state")

_prev_generator = LIB.class_handlers["numpy.random.Generator"]


def _is_int(x):
    return (isinstance(x, int) and not isinstance(x, bool)) or (isinstance(x, Sym) and x.z.sort() == INT)


def _generator(E, obj, name):
    if name != "choice":
        return _prev_generator(E, obj, name)
    old = _prev_generator(E, obj, name)

    def choice(E, a, size=None, replace=True, p=None, **kw):
        one = size is None or (isinstance(size, int) and not isinstance(size, bool) and size == 1) or (isinstance(size, tuple) and size == (1,))
        if isinstance(a, int) and not isinstance(a, bool) and one and p is None and replace is True and not kw:
            if a <= 0:
                raise PyRaise("ValueError", "a must be a positive integer unless no samples are taken")
            a = list(range(a))  # "If an int, the random sample is generated as if it were np.arange(a)"
        if isinstance(a, (list, tuple)) and one and p is None and replace is True and not kw and all(_is_int(x) for x in a):
            LIB.used.add(DOC)
            items = list(a)
            if not items:
                raise PyRaise("ValueError", "'a' cannot be empty unless no samples are taken")
            if len(items) == 1:
                x = items[0]
            else:
                j = E.st.fresh_sym("choice_pos", INT, is_input=True)
                E.assume(C.band(j >= 0, j < len(items)))
                x = items[-1]
                for k in range(len(items) - 2, -1, -1):
                    x = C.ite(Sym(j.z == k), items[k], x)
            E.st.ghost.setdefault("choice_calls", []).append(dict(rng=obj, candidates=items, size=size, result=x))
            return x if size is None else T.from_list([x])
        if p is not None:
            kw = dict(kw, p=p)
        return old.fn(E, a, size=size, replace=replace, **kw)

    return Builtin("Generator.choice", choice)


LIB.class_handlers["numpy.random.Generator"] = _generator
