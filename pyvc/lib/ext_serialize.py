"""pickle / file / orbax-restore models for C19 (ASSUMED library contracts).

A ghost file system (path -> what was written) lives in the path state:
  open(name, "wb"/"rb")            a handle carrying the name
  pickle.dump(obj, f)              files[name] := deep copy of obj (pickle writes a structural copy)
  pickle.load(f)                   a deep copy of files[name]: pickle round trips dicts / arrays /
                                   nnx.State values to an equal object with fresh identity
  ocp.PyTreeCheckpointer().restore(path)   the state most recently saved under `path` by an Orbax
                                   checkpointer (StandardCheckpointer.save in ext_logging)
  jax.devices / jax.device_put / jax.default_device: placement only, identity on values
"""
from __future__ import annotations

from .. import core as C
from ..core import Builtin, Obj, Opaque, PyRaise, Unsupported
from . import LIB
from .builtins_model import deep_copy


class FileHandle:
    def __init__(self, name, mode):
        self.name = name
        self.mode = mode


def _files(E):
    return E.st.ghost.setdefault("files", {})


def _key(name):
    return name if isinstance(name, str) else id(name)


@LIB.builtin("open")
def b_open(E, name, mode="r", *a, **k):
    return FileHandle(name, mode)


def _copy_state(E, obj):
    from .nnx_model import StateVal

    if isinstance(obj, StateVal):
        return StateVal(list(obj.entries))
    return deep_copy(E, obj)


@LIB.fn("pickle.dump", doc="pickle.dump(obj, f): serialises a structural copy of obj into f")
def pickle_dump(E, obj, f, *a, **k):
    if not isinstance(f, FileHandle) or "w" not in f.mode:
        raise PyRaise("TypeError", "file must be opened for writing")
    _files(E)[_key(f.name)] = _copy_state(E, obj)
    E.st.ghost.setdefault("pickle_dumps", []).append((f.name, obj))


@LIB.fn("pickle.load", doc="pickle.load(f): an object equal to the one dumped into f, with fresh identity")
def pickle_load(E, f, *a, **k):
    if not isinstance(f, FileHandle):
        raise PyRaise("TypeError", "file expected")
    fs = _files(E)
    if _key(f.name) not in fs:
        raise PyRaise("FileNotFoundError", str(f.name))
    return _copy_state(E, fs[_key(f.name)])


@LIB.fn("pickle.dumps")
def pickle_dumps(E, obj, *a, **k):
    return Opaque("pickled", _copy_state(E, obj))


@LIB.fn("pickle.loads")
def pickle_loads(E, data, *a, **k):
    if not (isinstance(data, Opaque) and data.tag == "pickled"):
        raise Unsupported("pickle.loads of unknown bytes")
    return _copy_state(E, data.payload)


@LIB.fn("jax.devices", doc="placement only")
def jax_devices(E, *a, **k):
    return [Opaque("device")]


@LIB.fn("jax.device_put", doc="device_put(x, d): x on device d, same values")
def jax_device_put(E, x, *a, **k):
    return x


@LIB.fn("jax.default_device", doc="context manager: placement only")
def jax_default_device(E, *a, **k):
    return Opaque("ctx")


@LIB.fn("orbax.checkpoint.PyTreeCheckpointer", doc="PyTreeCheckpointer(): restore(path) returns the tree saved under path")
def ocp_pytree_checkpointer(E, *a, **k):
    o = Obj("orbax.checkpoint.PyTreeCheckpointer", {}, name=E.alloc_name(None, None, ":ocp.PyTreeCheckpointer"))
    E.register(o)
    return o


@LIB.cls("orbax.checkpoint.PyTreeCheckpointer")
def _pytree_ckpt(E, o, name):
    if name == "restore":
        def restore(E, path, *a, **k):
            saved = [ev for ev in E.st.ghost.get("io_events", []) if ev and ev[0] == "save"]
            # ext_logging records ("save", checkpointer, directory, state)
            for ev in reversed(saved):
                if ev[2] is path or (isinstance(path, str) and ev[2] == path):
                    return _copy_state(E, ev[3])
            raise PyRaise("FileNotFoundError", "no checkpoint saved under this path")
        return Builtin("PyTreeCheckpointer.restore", restore)
    return NotImplemented
