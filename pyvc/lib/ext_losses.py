"""Models used by contracts/C03.py (critic / representation losses).  ASSUMED contracts.

1. `rowwise_fn(E, name, x)`: an uninterpreted ROW-WISE function applied to the
   last axis of `x`:  out[b.., :] = f_name(x[b.., :])  (shape preserved).  It is
   the contract under which per-row layers that are not `nnx` leaf modules are
   abstracted in the loss proofs:
     * rl_blox.blox.function_approximator.norm.avg_l1_norm (x / max(mean_j |x_j|, eps)
       over the last axis: a function of the row only),
     * the activation hyper-parameter of ModelBasedEncoder (`getattr(nnx, name)`,
       an elementwise - hence row-wise - map).
   Differentiable dependencies are those of the argument.

2. `flax.nnx.scan` with a CONCRETE scan length and a carry made of arrays only:
   exact unrolling
       carry = init;  for k in range(L): carry, *ys_k = f(carry, consts.., xs[k]);
       returns (carry, stack(ys_0), ..)          (out_axes = (Carry, 0, .., 0))
   which transcribes the documented semantics of scan ("a loop that threads a
   carry and stacks the per-step outputs").  Every other use falls through to
   the generic-iteration model of ext_ensemble.
"""
from __future__ import annotations

import z3

from .. import core as C
from .. import tensor as T
from ..core import INT, REAL, ROW, Builtin, Obj, Opaque, PyRaise, Sym, Unsupported
from ..tensor import Tensor
from . import LIB
from . import jax_model as JM
from .jax_model import tt
from .nnx_model import comp, ensure_rows

UNROLL_SCAN_MAX = 4


# ------------------------------------------------------------- row-wise maps
def rowwise_fn(E, name, x):
    x = T.as_tensor(tt(x))
    if x.ndim == 0:
        raise PyRaise("ValueError", f"{name}: needs at least one axis")
    rows = ensure_rows(E, x)
    f = C.uf(f"rowfn_{name}", ROW, ROW)
    orow = lambda *b: f(rows(*b))  # noqa: E731
    return Tensor(x.shape, lambda *i: Sym(comp(orow(*i[:-1]), C.to_z3(i[-1]))), REAL, x.gdeps, rows=orow)


def rowwise_builtin(name):
    return Builtin(f"rowwise:{name}", lambda E, x, *a, **k: rowwise_fn(E, name, x))


# ------------------------------------------------------- nnx.scan, unrolled
_generic_scan = LIB.funcs.get("flax.nnx.scan")


def _is_carry(a):
    return isinstance(a, Opaque) and a.tag == "nnx.Carry"


def _only_arrays(v):
    if isinstance(v, (tuple, list)):
        return all(_only_arrays(x) for x in v)
    if isinstance(v, Obj):
        return False
    return True


def _scan_length(args, axes):
    L = None
    for a, ax in zip(args, axes):
        if _is_carry(ax) or ax is None:
            continue
        if ax != 0:
            return None
        for lf in JM._leaves(tt(a)):
            if not isinstance(lf, Tensor) or lf.ndim == 0:
                raise PyRaise("ValueError", "scan over a value without a leading axis")
            d = lf.shape[0]
            if L is None:
                L = d
            elif not T.dim_eq(L, d):
                raise PyRaise("ValueError", "scan got values with different leading axis sizes")
    return L


def _unrolled_scan(E, f, in_axes, out_axes, args):
    axes = list(in_axes)
    L = _scan_length(args, axes)
    cpos = [k for k, a in enumerate(axes) if _is_carry(a)][0]
    carry = args[cpos]
    n_out = len(out_axes) - 1
    ys = [[] for _ in range(n_out)]
    for k in range(L):
        sl = []
        for pos, (a, ax) in enumerate(zip(args, axes)):
            if pos == cpos:
                sl.append(carry)
            elif ax is None:
                sl.append(a)
            else:
                sl.append(JM._map_leaves(tt(a), lambda lf: JM._slice_axis(lf, 0, k)))
        out = E.call_value(f, sl, {})
        if not isinstance(out, (tuple, list)) or len(out) != n_out + 1:
            raise PyRaise("ValueError", "scan body output does not match out_axes")
        carry = out[0]
        for j in range(n_out):
            ys[j].append(out[1 + j])
    stacked = tuple(T.stack([T.as_tensor(tt(v)) for v in col], axis=0) for col in ys)
    return (carry,) + stacked


def _exact_case(in_axes, out_axes, args):
    if not isinstance(in_axes, (tuple, list)) or len(in_axes) != len(args):
        return False
    if sum(1 for a in in_axes if _is_carry(a)) != 1:
        return False
    if not (isinstance(out_axes, (tuple, list)) and len(out_axes) >= 2 and _is_carry(out_axes[0]) and all(o == 0 for o in out_axes[1:])):
        return False
    cpos = [k for k, a in enumerate(in_axes) if _is_carry(a)][0]
    if not _only_arrays(args[cpos]):
        return False
    try:
        L = _scan_length(args, list(in_axes))
    except PyRaise:
        return False
    return isinstance(L, int) and 0 < L <= UNROLL_SCAN_MAX


@LIB.fn("flax.nnx.scan", doc="nnx.scan: exact unrolling for a concrete length and an array-only carry; otherwise the generic-iteration model (ext_ensemble)")
def nnx_scan(E, f=None, in_axes=None, out_axes=None, length=None, **kw):
    if f is None:
        return Builtin("nnx.scan()", lambda E, g: nnx_scan(E, g, in_axes=in_axes, out_axes=out_axes, length=length, **kw))

    def call(E, *a):
        if not kw.get("reverse") and _exact_case(in_axes, out_axes, a):
            return _unrolled_scan(E, f, in_axes, out_axes, a)
        if _generic_scan is None:
            raise Unsupported("nnx.scan with a symbolic length")
        return _generic_scan.fn(E, f, in_axes=in_axes, out_axes=out_axes, length=length, **kw).fn(E, *a)

    return Builtin("nnx.scanned", call)
