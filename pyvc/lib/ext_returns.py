"""Sequence folds for return / advantage estimates (C07).  ASSUMED contracts.

* jax.lax.scan(f, init, xs, length=None, reverse=False)  -- JAX documentation
  ("scan a function over leading array axes while carrying along state"):

      carry = init; ys = []
      for x in xs:                      # reversed(xs) when reverse=True
          carry, y = f(carry, x); ys.append(y)
      return carry, np.stack(ys)        # ys[j] is the output for xs[j]

  A concrete trip count (<= SCAN_UNROLL_MAX) is unrolled literally.  For a
  symbolic trip count n the fold is DEFINED by its recurrence: the carry after
  k steps is an uninterpreted function c(k) with the definitional facts
      c(0) = init,    forall 0 <= k < n:  (c(k+1), y(k)) = f(c(k), xs[pos(k)])
  (pos(k) = k, or n-1-k when reverse=True) obtained by interpreting the REAL
  body once at a generic step k with the generic carry c(k).  The body must
  not branch and must not write to the heap (JAX traces it once: a Python
  branch on a traced value is an error there, too).  Nothing else is assumed
  about c: equalities between the fold and a specification recurrence are
  proved by `induct` below.
  When the scan runs under jax.vmap, c takes the enclosing vmap indices as
  extra arguments (one fold per mapped slice) and the definitional facts are
  generalised over them.  Every symbolic scan is recorded in
  E.st.ghost["scans"] (dict: carry(k) -> list of leaf terms, n, amb) so that a
  contract can state the inductive invariant of the fold.

* induct(E, name, n, sorts, P): the induction schema over 0..n
      P(.., 0)   and   forall 0 <= k < n: P(.., k) -> P(.., k+1)
      ----------------------------------------------------------
                 forall 0 <= k <= n: P(.., k)
  Base and step are OBLIGED (named obligations); only then the conclusion is
  added as a quantified hypothesis.  The schema itself is the trusted part
  (lemmas/SumLemmas.lean: PyvcSum.nat_induct_upto).

* python lists of symbolic length (pyvc.lib.ext_symlist.SymList):
      reversed(l)          the list read back to front: element j is l[len-1-j]
      for x in l: ...      a loop over k = 0..len(l)-1 with x = l[k]; cut with
                           an inductive invariant like `for k in range(len(l))`
                           (LoopSpec: L.it is the position k)
"""
from __future__ import annotations

from fractions import Fraction

import z3

from .. import core as C
from .. import tensor as T
from ..core import BOOL, INT, REAL, NamedTuple, PyRaise, Sym, Unsupported
from ..tensor import Tensor
from . import LIB
from .ext_symlist import SymList
from .jax_model import _leaves, _map_leaves, tt

SCAN_UNROLL_MAX = 8


# --------------------------------------------------------------------- helpers
def _conc_int(x):
    if isinstance(x, bool):
        return None
    if isinstance(x, int):
        return x
    if isinstance(x, Sym):
        c = C.concrete_of(z3.simplify(x.z))
        return int(c) if isinstance(c, int) and not isinstance(c, bool) else None
    return None


def _same_dim(E, a, b):
    """dimension equality as JAX decides it at trace time: syntactic, else entailed by the path condition
    (e.g. len(x[1:]) + 1 == len(x) for a non-empty x); undecided -> Unsupported, never a guess"""
    if T.dim_eq(a, b):
        return True
    from ..state import prove

    az, bz = T.dim_z(a), T.dim_z(b)
    v, *_ = prove(E.st.pc, [], az == bz, timeout_ms=3000, quick=True)
    if v == "unsat":
        return True
    v, *_ = prove(E.st.pc, [], az != bz, timeout_ms=3000, quick=True)
    if v == "unsat":
        return False
    raise Unsupported(f"cannot decide whether the dimensions {a} and {b} are equal")


def ambient(E):
    """enclosing jax.vmap indices: list of (z3 Int constant, mapped dimension)"""
    return list(E.st.ghost.get("vmap_stack", ()))


def _sort_of_leaf(v):
    if isinstance(v, Tensor):
        return v.sort
    return T.sort_of_value(v)


def _is_scalar(v):
    return isinstance(v, (int, Fraction, float, Sym)) and not isinstance(v, Tensor)


def _flatten(tree):
    """pytree (tuples / lists / NamedTuple / leaves) -> (leaves, rebuild)"""
    if isinstance(tree, NamedTuple):
        subs = [_flatten(v) for v in tree.values]
        counts = [len(s[0]) for s in subs]

        def rebuild(leaves, subs=subs, counts=counts, typ=tree.typ):
            out, p = [], 0
            for (_, rb), c in zip(subs, counts):
                out.append(rb(leaves[p:p + c]))
                p += c
            return NamedTuple(typ, out)

        return [x for s in subs for x in s[0]], rebuild
    if isinstance(tree, (tuple, list)):
        subs = [_flatten(v) for v in tree]
        counts = [len(s[0]) for s in subs]
        kind = type(tree)

        def rebuild(leaves, subs=subs, counts=counts, kind=kind):
            out, p = [], 0
            for (_, rb), c in zip(subs, counts):
                out.append(rb(leaves[p:p + c]))
                p += c
            return kind(out)

        return [x for s in subs for x in s[0]], rebuild
    if tree is None:
        return [], lambda leaves: None
    return [tree], lambda leaves: leaves[0]


def _tleaf(v):
    v = tt(v)
    return v if isinstance(v, Tensor) else T.as_tensor(v)


def _subst(v, pairs):
    if isinstance(v, Sym):
        return Sym(z3.substitute(v.z, *pairs), v.gdeps)
    if isinstance(v, z3.ExprRef):
        return z3.substitute(v, *pairs)
    return v


# ------------------------------------------------------------------- lax.scan
@LIB.fn("jax.lax.scan", doc="carry=init; for x in xs: carry, y = f(carry, x); returns (carry, stack(ys)); symbolic length: fold defined by its recurrence")
def lax_scan(E, f, init, xs=None, length=None, reverse=False, unroll=1, **kw):
    x_leaves = [_tleaf(l) for l in _leaves(xs)] if xs is not None else []
    n = None
    for lf in x_leaves:
        if not isinstance(lf, Tensor) or lf.ndim == 0:
            raise PyRaise("ValueError", "scan got value with no leading axis to scan over")
        if n is None:
            n = lf.shape[0]
        elif not _same_dim(E, n, lf.shape[0]):
            raise PyRaise("ValueError", "scan got values with different leading axis sizes")
    if length is not None:
        if n is not None and not T.dim_eq(T.norm_dim(length), n):
            raise PyRaise("ValueError", "scan got `length` argument that disagrees with leading axis sizes")
        n = T.norm_dim(length)
    if n is None:
        raise PyRaise("ValueError", "scan needs xs or length")
    if isinstance(reverse, Sym):
        raise Unsupported("jax.lax.scan with a symbolic `reverse` flag")
    reverse = bool(reverse)

    def x_at(pos):
        if xs is None:
            return None
        return _map_leaves(xs, lambda lf: T.index(_tleaf(lf), (pos,)))

    nc = _conc_int(n)
    if nc is not None:
        if nc > SCAN_UNROLL_MAX:
            raise Unsupported("jax.lax.scan trip count too large to unroll")
        carry = init
        ys = [None] * nc
        order = range(nc - 1, -1, -1) if reverse else range(nc)
        for j in order:
            out = E.call_value(f, [carry, x_at(j)], {})
            if not isinstance(out, (tuple, list)) or len(out) != 2:
                raise PyRaise("TypeError", "scan body function must return a (carry, y) pair")
            carry, ys[j] = out
            # name scalar carries (definitional equalities with fresh constants): the unrolled
            # terms stay small and later steps refer to the earlier carry by name
            if isinstance(carry, Sym) and carry.z.sort() in (REAL, INT) and not z3.is_const(carry.z) and not ambient(E):
                cz = E.st.fresh(f"scan!carry{j}", carry.z.sort())
                E.st.assume(cz == carry.z)
                same = isinstance(ys[j], Sym) and z3.eq(ys[j].z, carry.z)
                carry = Sym(cz, carry.gdeps)
                if same:
                    ys[j] = carry
        if nc == 0:
            raise Unsupported("jax.lax.scan over an empty axis")
        y_leaves0, y_rebuild = _flatten(ys[0])
        cols = [[_flatten(y)[0][m] for y in ys] for m in range(len(y_leaves0))]
        return carry, y_rebuild([T.stack([T.as_tensor(tt(c)) for c in col], 0) for col in cols])

    # ---- symbolic trip count: the fold is defined by its recurrence
    st = E.st
    amb = ambient(E)
    amb_c = [a for a, _ in amb]
    nz = T.dim_z(n)
    sid = len(st.ghost.setdefault("scans", []))
    k = st.fresh(f"scan{sid}!k", INT)
    st.add_pool(k)
    c_leaves, c_rebuild = _flatten(init)
    if not c_leaves:
        raise Unsupported("jax.lax.scan without a carry")
    for lf in c_leaves:
        if not (_is_scalar(lf) or isinstance(lf, Tensor)):
            raise Unsupported(f"jax.lax.scan carry leaf {type(lf).__name__}")
    pos = Sym(nz - 1 - k) if reverse else Sym(k)

    def run(sorts):
        """interpret the body once at the generic step k with carry functions of the given sorts"""
        funs = []
        leaves_in = []
        for m, (lf, srt) in enumerate(zip(c_leaves, sorts)):
            extra = lf.ndim if isinstance(lf, Tensor) else 0
            cf = z3.Function(st.fresh_name(f"scan{sid}!c{m}"), *([INT] * (len(amb_c) + 1 + extra) + [srt]))
            funs.append(cf)
            if isinstance(lf, Tensor):
                leaves_in.append(Tensor(lf.shape, (lambda cf: lambda *i: Sym(cf(*amb_c, k, *[C.to_z3(x) for x in i])))(cf), srt, lf.gdeps))
            else:
                leaves_in.append(Sym(cf(*amb_c, k), C.gdeps_of(lf)))
        n_pc, n_forks = len(st.pc), len(st.forks)
        out = E.call_value(f, [c_rebuild(leaves_in), x_at(pos)], {})
        if len(st.pc) != n_pc or len(st.forks) != n_forks:
            raise Unsupported("jax.lax.scan: the body branches on a traced value")
        if not isinstance(out, (tuple, list)) or len(out) != 2:
            raise PyRaise("TypeError", "scan body function must return a (carry, y) pair")
        return funs, out

    sorts = [_sort_of_leaf(lf) for lf in c_leaves]
    funs, out = run(sorts)
    co_leaves, _ = _flatten(out[0])
    if len(co_leaves) != len(c_leaves):
        raise PyRaise("TypeError", "scan body function carry input and carry output must have the same pytree structure")
    new_sorts = []
    for lf_in, lf_out, srt in zip(c_leaves, co_leaves, sorts):
        so = _sort_of_leaf(tt(lf_out))
        if isinstance(lf_in, Tensor) != isinstance(tt(lf_out), Tensor):
            if not (isinstance(lf_in, Tensor) and lf_in.ndim == 0):
                raise PyRaise("TypeError", "scan body function carry input and carry output must have equal types")
        if so == srt:
            new_sorts.append(srt)
        elif {str(so), str(srt)} <= {"Int", "Real", "Bool"} and _is_scalar(lf_in) and not isinstance(lf_in, Sym):
            new_sorts.append(REAL if "Real" in (str(so), str(srt)) else INT)  # weakly typed python scalar as init
        else:
            raise PyRaise("TypeError", "scan body function carry input and carry output must have equal types")
    if [str(s) for s in new_sorts] != [str(s) for s in sorts]:
        sorts = new_sorts
        funs, out = run(sorts)
        co_leaves, _ = _flatten(out[0])

    # definitional facts, generalised over the enclosing vmap indices
    nvars = len(amb_c)

    def guards(a):
        return [z3.And(a[j] >= 0, a[j] < T.dim_z(amb[j][1])) for j in range(nvars)]

    def conv(v, srt):
        z = C.to_z3(v)
        if srt == REAL and z.sort() != REAL:
            return C.as_real(v)
        if srt == INT and z.sort() == BOOL:
            return C.as_num(v)
        return z

    for m, (cf, lf0, lf1, srt) in enumerate(zip(funs, c_leaves, co_leaves, sorts)):
        lf1 = tt(lf1)
        rank = lf0.ndim if isinstance(lf0, Tensor) else 0
        if rank and not (isinstance(lf1, Tensor) and lf1.ndim == rank and all(T.dim_eq(a, b) for a, b in zip(lf0.shape, lf1.shape))):
            raise PyRaise("TypeError", "scan body function carry input and carry output must have equal shapes")

        def init_fact(*a, cf=cf, lf0=lf0, srt=srt, rank=rank):
            av, iv = a[:nvars], a[nvars:]
            pairs = [(c, v) for c, v in zip(amb_c, av)]
            v0 = lf0.at(*iv) if rank else lf0
            z0 = conv(v0, srt)
            if pairs:
                z0 = z3.substitute(z0, *pairs)
            g = guards(av)
            body = cf(*av, z3.IntVal(0), *iv) == z0
            return z3.Implies(z3.And(*g), body) if g else body

        def step_fact(*a, cf=cf, lf1=lf1, srt=srt, rank=rank):
            av, kv, iv = a[:nvars], a[nvars], a[nvars + 1:]
            pairs = [(c, v) for c, v in zip(amb_c, av)] + [(k, kv)]
            v1 = lf1.at(*iv) if rank else (lf1.at() if isinstance(lf1, Tensor) else lf1)
            z1 = z3.substitute(conv(v1, srt), *pairs)
            g = guards(av) + [kv >= 0, kv < nz]
            return z3.Implies(z3.And(*g), cf(*av, kv + 1, *iv) == z1)

        if nvars + rank == 0:
            st.assume(init_fact())
        else:
            st.assume_forall([INT] * (nvars + rank), init_fact, f"scan{sid}.init{m}")
        st.assume_forall([INT] * (nvars + 1 + rank), step_fact, f"scan{sid}.step{m}")

    def carry_at(kk, funs=funs):
        kz = C.to_z3(kk)
        leaves = []
        for cf, lf0, srt in zip(funs, c_leaves, sorts):
            if isinstance(lf0, Tensor) and lf0.ndim:
                leaves.append(Tensor(lf0.shape, (lambda cf: lambda *i: Sym(cf(*amb_c, kz, *[C.to_z3(x) for x in i])))(cf), srt))
            else:
                leaves.append(Sym(cf(*amb_c, kz)))
        return leaves

    gd_out = C.gdeps_of(*[l for l in co_leaves if isinstance(l, (Sym, Tensor))])
    final_leaves = []
    for lf in carry_at(nz):
        if isinstance(lf, Sym):
            final_leaves.append(Sym(lf.z, gd_out))
        else:
            lf.gdeps = gd_out
            final_leaves.append(lf)

    # stacked outputs: ys[j] = y(step that processed position j)
    y_leaves, y_rebuild = _flatten(out[1])

    def step_of(j):
        jz = C.to_z3(j)
        return (nz - 1 - jz) if reverse else jz

    ys_out = []
    for yl in y_leaves:
        yl = tt(yl)
        if isinstance(yl, Tensor) and yl.ndim:
            ys_out.append(Tensor((n,) + yl.shape, (lambda yl: lambda j, *i: _subst(yl.at(*i), [(k, step_of(j))]))(yl), yl.sort, yl.gdeps))
        else:
            v = yl.at() if isinstance(yl, Tensor) else yl
            ys_out.append(Tensor((n,), (lambda v: lambda j: _subst(v, [(k, step_of(j))]))(v), T.sort_of_value(v), C.gdeps_of(v)))
    st.ghost["scans"].append(dict(id=sid, n=n, amb=amb, k=k, reverse=reverse, carry=carry_at, funs=funs,
                                  body=getattr(f, "qualname", str(f))))
    return c_rebuild(final_leaves), y_rebuild(ys_out)


# ------------------------------------------------------------------ induction
def instances(E, hints):
    """ground instances of assumed quantified hypotheses, chosen by the contract:
    hints = [(fact-name prefix, (term, ...)), ...].  Only INSTANCES of facts already in
    E.st.qfacts are produced, so handing them to the solver is always sound."""
    out = []
    for pref, terms in hints:
        zs = [C.to_z3(t) for t in terms]
        hit = False
        for q in E.st.qfacts:
            if q.name.startswith(pref) and len(q.sorts) == len(zs):
                out.append(q.instantiate(*zs))
                hit = True
        if not hit:
            raise Unsupported(f"no quantified hypothesis named {pref}* with {len(zs)} variables")
    return out


def oblige_hinted(E, name, goal, hints, assume_after=False, only=None):
    """prove `goal` from the path condition and the listed instances only (small, fast queries).
    only: optional list of z3 facts that REPLACES the path condition for this query; every
    element must already be in the path condition (checked), so this merely hides hypotheses."""
    ins = instances(E, hints)
    g = C.as_bool(goal)
    st = E.st
    n0 = len(st.results)
    hinted = z3.Implies(z3.And(*ins), g) if ins else g
    if only is not None and not st.suppress:
        ids = {f.get_id() for f in st.pc}
        if any(f.get_id() not in ids for f in only):
            raise Unsupported("oblige_hinted(only=...): fact is not part of the path condition")
        saved = st.pc
        st.pc = list(only)
        try:
            st.oblige(name, hinted, assume_after=False, using=[])
        finally:
            st.pc = saved
    else:
        st.oblige(name, hinted, assume_after=False, using=[])
    is_canary = any(part.startswith("canary") for part in name.split("."))
    if not is_canary and len(st.results) > n0 and st.results[-1].verdict != "discharged":
        # not provable from the chosen instances: that is no refutation
        st.results.pop()
        if only is not None or not st.qfacts:
            # concrete sizes / ground context: decide against the COMPLETE context (all hypotheses,
            # quantified ones checked by z3 itself) - a counter-model found there is genuine
            st.oblige(name, g, assume_after=False)
        else:
            # symbolic sizes: retry with every pool instance of the hinted hypotheses (bounded time);
            # still unproved means UNDECIDED - a model of a subset of the hypotheses refutes nothing
            from ..state import ObligationResult, prove

            qf = [q for q in st.qfacts if any(q.name.startswith(p) for p, _ in hints)]
            v, backend, dt, _m, _s = prove(st.pc, qf, g, extra_pool=list(st.pool), timeout_ms=10000, quick=True)
            if v == "unsat":
                st.results.append(ObligationResult(name, "discharged", backend, dt))
            else:
                st.results.append(ObligationResult(name, "undecided", "z3-hinted", dt,
                                                   detail="[not provable from the hinted hypotheses; no verified counter-model] " + str(z3.simplify(g))[:500]))
    if assume_after:
        st.assume(g)


def definitions_of(E, *terms):
    """path-condition facts of the form  c == expr  for the given constants c (definitional equalities)"""
    ids = {C.to_z3(t).get_id() for t in terms}
    return [f for f in E.st.pc if z3.is_eq(f) and f.arg(0).get_id() in ids]


def induct(E, name, n, sorts, P, using=None, base_hints=None, step_hints=None):
    """Induction over k = 0..n for the statement P(p_1, .., p_m, k) (z3 Bool;
    sorts = sorts of the parameters p).  Obliges `<name>.base` and
    `<name>.step`, then assumes  forall p, 0 <= k <= n: P(p, k)  as the
    quantified hypothesis `<name>.ind` (PyvcSum.nat_induct_upto).
    base_hints(*p) / step_hints(*p, k): optional instance lists (see `instances`) that
    replace the brute-force ground instantiation of the hypotheses."""
    st = E.st
    nz = T.dim_z(n) if not isinstance(n, z3.ExprRef) else n
    sorts = list(sorts)
    ps = [st.fresh(f"{name}!p{j}", s) for j, s in enumerate(sorts)]
    pool = [p for p in ps if p.sort() == INT]
    n0 = len(st.results)
    base = C.as_bool(P(*ps, z3.IntVal(0)))
    if base_hints is not None:
        oblige_hinted(E, f"{name}.base", base, base_hints(*ps))
    else:
        st.oblige(f"{name}.base", base, assume_after=False, extra_pool=pool, using=using)
    kk = st.fresh(f"{name}!k", INT)
    step = z3.Implies(z3.And(kk >= 0, kk < nz, C.as_bool(P(*ps, kk))), C.as_bool(P(*ps, kk + 1)))
    if step_hints is not None:
        oblige_hinted(E, f"{name}.step", step, step_hints(*ps, kk))
    else:
        st.oblige(f"{name}.step", step, assume_after=False, extra_pool=pool + [kk, kk + 1], using=using)
    E.shared.lib.used.add("pyvc.induct (induction schema over 0..n, lemmas/SumLemmas.lean nat_induct_upto)")
    if any(r.verdict != "discharged" for r in st.results[n0:]):
        return False  # premises not proved: the conclusion is NOT made available
    st.assume_forall(sorts + [INT], lambda *a: z3.Implies(z3.And(a[-1] >= 0, a[-1] <= nz), C.as_bool(P(*a))), f"{name}.ind")
    return True


# --------------------------------------------------- symbolic lists: reversed / for
def symlist_reversed(sl: SymList):
    n = sl.len_z()
    j = z3.Int("rev!j")
    cols = [z3.Lambda([j], z3.Select(c, n - 1 - j)) for c in sl.cols]
    return SymList(sl.length, cols, sl.sorts, sl.is_tuple, f"reversed({sl.name})")


_prev_reversed = LIB.builtins.get("reversed")


@LIB.builtin("reversed")
def b_reversed(E, it):
    if isinstance(it, SymList) and _conc_int(it.len_sym()) is None:
        return symlist_reversed(it)
    return _prev_reversed.fn(E, it)


_prev_range_hook = LIB.as_symbolic_range


def _as_symbolic_range(E, it):
    if isinstance(it, SymList) and _conc_int(it.len_sym()) is None:
        snap_cols = list(it.cols)
        is_tuple = it.is_tuple

        def elem(kk):
            kz = C.to_z3(kk)
            vals = [Sym(z3.simplify(z3.Select(c, kz))) for c in snap_cols]
            return tuple(vals) if is_tuple else vals[0]

        return 0, it.len_sym(), elem
    return _prev_range_hook(E, it)


LIB.as_symbolic_range = _as_symbolic_range


# jnp.concat is the Array-API alias of jnp.concatenate (JAX documentation)
if "jax.numpy.concat" not in LIB.funcs:
    LIB.funcs["jax.numpy.concat"] = LIB.funcs["jax.numpy.concatenate"]
