"""Library models and proof rules used by contracts/C16.py (CMA-ES).

ASSUMED library contracts (each transcribes the cited documentation clause):

  jnp.log1p(x)            = log(1 + x)                                   [jax.numpy.log1p]
  jnp.argsort(a)          indices that sort `a` ascending: a permutation of
                          range(len(a)) with a[perm[k]] non-decreasing in k;
                          stable (ties keep index order; jnp default stable=True) [jax.numpy.argsort]
  jnp.linalg.norm(x)      = sqrt(sum x_i^2) for a vector, ord=None       [jax.numpy.linalg.norm]
  np.prod(shape tuple)    product of the entries                         [numpy.prod]
  jax.random.multivariate_normal(key, mean, cov, shape)
                          array of shape shape + (len(mean),), a function of the key [jax.random]
  list[i] = x             on a list of symbolic length (lib/ext_symlist)  [list.__setitem__]
  jnp.asarray(list)       value/order preserving                         [jax.numpy.asarray]
  nnx.state(net, nnx.Param) / jax.tree_util.tree_leaves / tree_structure /
  tree_unflatten / nnx.update for a ParamNet (a module given by the ordered
  list of its nnx.Param leaves):  tree_leaves(state) lists the leaves in the
  canonical (sorted-key) order, tree_unflatten(treedef, xs) puts xs[l] at the
  position of leaf l ("leaves order == unflatten order"), nnx.update writes
  them into the module and nnx.state reads them back.                    [jax.tree_util, flax.nnx]

Proof rules over the uninterpreted Sum nodes of pyvc.tensor (each OBLIGES its
premise, then assumes its conclusion; statements proved in
lemmas/SumLemmas.lean, section C16).
"""
from __future__ import annotations

from fractions import Fraction

import z3

from .. import core as C
from .. import tensor as T
from ..core import BOOL, INT, KEY, REAL, Builtin, Obj, Opaque, PyRaise, Sym, Unsupported
from ..tensor import Tensor
from . import LIB
from . import builtins_model, np_model, jax_model, nnx_model  # noqa: F401  (base registrations first: this module wraps some of them)
from .ext_symlist import SymList, symlist_to_tensor
from .jax_model import JNP, tt
from .np_model import to_sort


# ----------------------------------------------------------------- scalars
def _log1p(E, a):
    a = tt(a)
    return T.tfn("log", C.binop("+", 1, a))


LIB.fn("numpy.log1p", "log1p(x) = log(1 + x)")(_log1p)
LIB.fn(JNP + "log1p", "log1p(x) = log(1 + x)")(_log1p)


# ----------------------------------------------------------------- argsort
def _argsort(stable):
    def f(E, a, axis=-1, **kw):
        a = T.as_tensor(tt(a))
        if a.ndim != 1:
            raise Unsupported("argsort of rank != 1")
        if kw.get("descending"):
            raise Unsupported("argsort(descending=True)")
        if a.sort not in (INT, REAL):
            raise Unsupported("argsort of non-numeric array")
        n = a.shape[0]
        nz = T.dim_z(n)
        st = E.st
        perm = z3.Function(st.fresh_name("argsort"), INT, INT)
        inv = z3.Function(st.fresh_name("argsort_inv"), INT, INT)
        x = lambda i: C.as_num(a.at(i))  # noqa: E731
        inb = lambda k: z3.And(k >= 0, k < nz)  # noqa: E731
        st.assume_forall([INT], lambda k: z3.Implies(inb(k), z3.And(inb(perm(k)), inv(perm(k)) == k)), "argsort.perm")
        st.assume_forall([INT], lambda i: z3.Implies(inb(i), z3.And(inb(inv(i)), perm(inv(i)) == i)), "argsort.onto")
        st.assume_forall([INT, INT], lambda k, l: z3.Implies(z3.And(k >= 0, k <= l, l < nz), x(perm(k)) <= x(perm(l))), "argsort.sorted")
        if stable:
            st.assume_forall([INT, INT], lambda k, l: z3.Implies(z3.And(k >= 0, k < l, l < nz, x(perm(k)) == x(perm(l))), perm(k) < perm(l)), "argsort.stable")
        t = Tensor((n,), lambda k: perm(C.to_z3(k)), INT)
        st.ghost.setdefault("argsorts", []).append(dict(perm=t, of=a, fn=perm, inv=inv))
        return t
    return f


LIB.fn(JNP + "argsort", "indices that sort the array ascending (a permutation; stable)")(_argsort(True))
LIB.fn("numpy.argsort", "indices that sort the array ascending (a permutation)")(_argsort(False))


# ------------------------------------------------------------------ linalg
def _norm(E, x, ord=None, axis=None, **kw):
    x = T.as_tensor(tt(x))
    if ord is not None or axis is not None or x.ndim != 1:
        raise Unsupported("linalg.norm: only the 2-norm of a vector is modelled")
    return T.tfn("sqrt", T.reduce(C.binop("*", x, x), "sum"))


LIB.fn(JNP + "linalg.norm", "norm(x) = sqrt(sum x_i^2) (vector 2-norm)")(_norm)
LIB.fn("numpy.linalg.norm", "norm(x) = sqrt(sum x_i^2) (vector 2-norm)")(_norm)


def _tri(upper):
    def f(E, a, k=0):
        a = T.as_tensor(tt(a))
        if a.ndim != 2 or not isinstance(k, int):
            raise Unsupported("triu / tril of a non-matrix")
        keep = (lambda i, j: C.compare(">=", j, C.binop("+", i, k))) if upper else (lambda i, j: C.compare("<=", j, C.binop("+", i, k)))
        return Tensor(a.shape, lambda i, j: C.ite(keep(i, j), a.at(i, j), 0 if a.sort == INT else Fraction(0)), a.sort, a.gdeps)
    return f


for _n, _u in (("triu", True), ("tril", False)):
    if JNP + _n not in LIB.funcs:
        LIB.fn(JNP + _n, f"{_n}(a, k): entries on and {'above' if _u else 'below'} the k-th diagonal, zero elsewhere")(_tri(_u))
        LIB.fn("numpy." + _n, f"{_n}(a, k)")(_tri(_u))


def _prod(E, a, axis=None, **kw):
    if isinstance(a, (tuple, list)):
        r = 1
        for v in a:
            r = C.binop("*", r, v)
        return r
    if isinstance(a, Tensor) and a.ndim == 1 and isinstance(a.shape[0], int) and axis in (None, 0):
        r = 1
        for k in range(a.shape[0]):
            r = C.binop("*", r, a.at(k))
        return r
    if not isinstance(a, Tensor):
        return a
    raise Unsupported("prod over a symbolic axis")


LIB.fn("numpy.prod", "product of the entries")(_prod)
LIB.fn(JNP + "prod", "product of the entries")(_prod)


# ------------------------------------------------------------------ random
@LIB.fn("jax.random.multivariate_normal", doc="multivariate_normal(key, mean, cov, shape): array of shape shape + (n,), a function of the key")
def jr_mvn(E, key, mean, cov, shape=None, **kw):
    mean = T.as_tensor(tt(mean))
    cov = T.as_tensor(tt(cov))
    if mean.ndim != 1 or cov.ndim != 2:
        raise Unsupported("multivariate_normal with batched mean / cov")
    if not (T.dim_eq(cov.shape[0], mean.shape[0]) and T.dim_eq(cov.shape[1], mean.shape[0])):
        raise PyRaise("ValueError", "multivariate_normal: cov must be (n, n) for a mean of length n")
    if shape is None:
        shape = ()
    shape = tuple(shape) if isinstance(shape, (tuple, list)) else (shape,)
    k = len(shape) + 1
    f = C.uf(f"rand_mvn{k}", *([KEY] + [INT] * k + [REAL]))
    kz = key.z
    return Tensor(shape + (mean.shape[0],), lambda *i: Sym(f(kz, *[C.to_z3(x) for x in i])), REAL)


# ------------------------------------------------- lists of symbolic length
def _symlist_setitem(E, v, idx, value):
    if not isinstance(v, SymList):
        return NotImplemented
    if isinstance(idx, slice) or isinstance(idx, bool) or not isinstance(idx, (int, Sym)):
        raise Unsupported("slice / non-integer store into a list of symbolic length")
    if v.is_tuple:
        raise Unsupported("store into a symbolic list of tuples")
    iz = C.as_int(idx)
    n = v.len_z()
    if not E.st.branch(z3.And(iz >= -n, iz < n)):
        raise PyRaise("IndexError", "list assignment index out of range")
    pos = z3.simplify(z3.If(iz < 0, iz + n, iz))
    if isinstance(value, (str, Obj, list, tuple, dict, Opaque)) or value is None:
        raise Unsupported(f"symbolic list: element {type(value).__name__} does not fit the column sort")
    z = to_sort(value, v.sorts[0], None)
    E.log_write(v.name, "*")
    v.cols = [z3.Store(v.cols[0], pos, z)]
    return True


LIB.setitem_handlers.append(_symlist_setitem)


def _wrap(path, handler):
    """handler(E, *a, **k) -> value | NotImplemented in front of an existing model"""
    old = LIB.funcs.get(path)

    def fn(E, *a, **k):
        r = handler(E, *a, **k)
        if r is not NotImplemented:
            LIB.used.add(path)
            return r
        if isinstance(old, Builtin):
            return old.fn(E, *a, **k)
        raise Unsupported(f"no model for library function {path}")

    nb = Builtin(path, fn)
    LIB.funcs[path] = nb
    return nb


def _asarray_symlist(E, v=None, *a, **k):
    if isinstance(v, SymList):
        return symlist_to_tensor(v)
    return NotImplemented


_wrap(JNP + "asarray", _asarray_symlist)
LIB.funcs[JNP + "array"] = LIB.funcs[JNP + "asarray"]


# ------------------------------------------------------------- param trees
PARAMNET = "pyvc.ParamNet"
LIB.class_bases[PARAMNET] = ["flax.nnx.Module"]


class LeafState:
    """nnx.State of a ParamNet: the ordered list of its nnx.Param leaves"""

    def __init__(self, leaves, struct):
        self.leaves = list(leaves)
        self.struct = struct


def mk_param_net(E, name, leaves, other=()):
    """leaves: the nnx.Param leaves; other: NON-Param variables of the module (BatchNorm statistics, the action_scale /
    action_bias of the tanh policy heads): part of nnx.state(m) / nnx.split(m), not selected by the nnx.Param filter.
    flax orders a State by variable path, so where the non-Param variables sit relative to the Params is not fixed:
    modelled FIRST (the position they have for the tanh policy heads: 'action_bias' < 'policy_net')."""
    o = Obj(PARAMNET, {"$leaves": list(leaves), "$other": list(other)}, name=name)
    E.register(o)
    return o


def _is_paramnet(m):
    return isinstance(m, Obj) and m.cls == PARAMNET


def _param_filter(filters):
    if not filters:
        return False
    f = filters[0]
    if len(filters) == 1 and ((isinstance(f, C.Opaque) and f.tag == "nnx.Param") or (isinstance(f, Builtin) and f.name == "flax.nnx.Param")):
        return True
    raise Unsupported(f"nnx filter {filters!r}")


def _state(E, m=None, *filters, **k):
    if _is_paramnet(m):
        other = list(m.fields.get("$other", []))
        if _param_filter(filters) or not other:
            return LeafState(m.fields["$leaves"], ("paramnet", m.name, len(m.fields["$leaves"])))
        return LeafState(other + list(m.fields["$leaves"]), ("paramnet-all", m.name, len(other) + len(m.fields["$leaves"])))
    return NotImplemented


def _split(E, m=None, *filters, **k):
    if _is_paramnet(m):
        return (C.Opaque("graphdef", m), _state(E, m, *filters))
    return NotImplemented


def _update(E, m=None, state=None, *a, **k):
    if _is_paramnet(m):
        nl, other = len(m.fields["$leaves"]), list(m.fields.get("$other", []))
        if not isinstance(state, LeafState) or len(state.leaves) not in (nl, nl + len(other)):
            raise PyRaise("ValueError", "nnx.update: state does not match the module structure")
        E.log_write(m.name, "$leaves")
        if len(state.leaves) == nl and state.struct[0] == "paramnet":
            m.fields["$leaves"] = list(state.leaves)
        else:
            E.log_write(m.name, "$other")
            m.fields["$other"] = list(state.leaves[:len(other)])
            m.fields["$leaves"] = list(state.leaves[len(other):])
        return None
    return NotImplemented


_wrap("flax.nnx.state", _state)
_wrap("flax.nnx.update", _update)
_wrap("flax.nnx.split", _split)


def _py_leaves(E, t):
    if isinstance(t, LeafState):
        return list(t.leaves)
    if t is None:
        return []
    if isinstance(t, dict):
        out = []
        try:
            keys = sorted(t.keys())
        except TypeError:
            keys = list(t.keys())
        for key in keys:
            out.extend(_py_leaves(E, t[key]))
        return out
    if isinstance(t, (list, tuple)):
        out = []
        for v in t:
            out.extend(_py_leaves(E, v))
        return out
    if isinstance(t, (Tensor, Sym, int, Fraction)):
        return [t]
    raise Unsupported(f"tree_leaves of {type(t).__name__}")


def _tree_leaves(E, t=None, *a, **k):
    if isinstance(t, (LeafState, dict, list, tuple, Tensor)):
        return _py_leaves(E, t)
    return NotImplemented


def _tree_structure(E, t=None, *a, **k):
    if isinstance(t, LeafState):
        return Opaque("treedef", t.struct)
    return NotImplemented


def _tree_flatten(E, t=None, *a, **k):
    """jax.tree_util.tree_flatten(t) == (tree_leaves(t), tree_structure(t))"""
    if isinstance(t, LeafState):
        return (_py_leaves(E, t), Opaque("treedef", t.struct))
    return NotImplemented


def _tree_unflatten(E, treedef=None, leaves=None, *a, **k):
    if isinstance(treedef, Opaque) and treedef.tag == "treedef" and isinstance(treedef.payload, tuple) and treedef.payload[0] in ("paramnet", "paramnet-all"):
        xs = list(E.iterate(leaves))
        if len(xs) != treedef.payload[2]:
            raise PyRaise("ValueError", "tree_unflatten: wrong number of leaves")
        return LeafState(xs, treedef.payload)
    return NotImplemented


for _p in ("jax.tree_util.tree_leaves", "jax.tree.leaves"):
    _wrap(_p, _tree_leaves)
for _p in ("jax.tree_util.tree_structure", "jax.tree.structure"):
    _wrap(_p, _tree_structure)
for _p in ("jax.tree_util.tree_unflatten", "jax.tree.unflatten"):
    _wrap(_p, _tree_unflatten)
for _p in ("jax.tree_util.tree_flatten", "jax.tree.flatten"):
    _wrap(_p, _tree_flatten)


# =================================================================== rules
def sum_nodes(E, kind="sum"):
    return [n for n in E.st.sums if n.kind == kind]


def _ps(params):
    return [C.to_z3(p) for p in params]


def lemma_sum_pos(E, name, node, params=(), strict=True, using=None):
    """SumLemmas.c16_sum_pos / c16_sum_nonneg:
    (forall j < n. f j > 0) and n >= 1  ==>  sum_{j<n} f j > 0
    (forall j < n. f j >= 0)            ==>  sum_{j<n} f j >= 0"""
    dz = T.dim_z(node.dim)
    ps = _ps(params)
    if strict:
        E.st.oblige_forall(f"{name}.premise_terms_positive", [INT], lambda j: z3.Implies(z3.And(j >= 0, j < dz), node.body(*ps, j) > 0), hint="j", using=using)
        E.oblige(f"{name}.premise_nonempty", Sym(dz >= 1))
        E.assume(Sym(T._apply(node.vf, ps) > 0))
    else:
        E.st.oblige_forall(f"{name}.premise_terms_nonneg", [INT], lambda j: z3.Implies(z3.And(j >= 0, j < dz), node.body(*ps, j) >= 0), hint="j", using=using)
        E.assume(Sym(T._apply(node.vf, ps) >= 0))


def lemma_sum_scale(E, name, node_b, node_a, c, using=None):
    """SumLemmas.c16_sum_div: c != 0 and (forall j < n. g j = f j / c) ==> sum g = (sum f) / c
    (parameter-free nodes over the same index range)"""
    if node_a.nparams or node_b.nparams or not T.dim_eq(node_a.dim, node_b.dim):
        raise Unsupported("lemma_sum_scale: nodes must be parameter-free over the same range")
    dz = T.dim_z(node_a.dim)
    cz = C.as_real(c)
    E.oblige(f"{name}.premise_divisor_nonzero", Sym(cz != 0))
    E.st.oblige_forall(f"{name}.premise_terms_scaled", [INT], lambda j: z3.Implies(z3.And(j >= 0, j < dz), node_b.body(j) == node_a.body(j) / cz), hint="j", using=using)
    E.assume(Sym(node_b.vf() == node_a.vf() / cz))


def find_scaled_source(E, node_b, c):
    """the parameter-free sum node whose terms, divided by c, are node_b's terms"""
    from ..state import prove

    dz = T.dim_z(node_b.dim)
    cz = C.as_real(c)
    for a in sum_nodes(E):
        if a is node_b or a.nparams or not T.dim_eq(a.dim, node_b.dim):
            continue
        sk = E.st.fresh("fs_j", INT)
        try:
            goal = z3.Implies(z3.And(sk >= 0, sk < dz), node_b.body(sk) == a.body(sk) / cz)
        except (z3.Z3Exception, Unsupported, PyRaise):
            continue
        v, *_ = prove(E.st.pc, [], goal, extra_pool=[sk], timeout_ms=4000, quick=True)
        if v == "unsat":
            return a
    return None


def lemma_sum_single_all(E, name, node, dpos, using=None):
    """SumLemmas.c16_sum_single: (forall j < n. j != d -> f j = 0) ==>
    sum_{j<n} f j = if 0 <= d < n then f d else 0, for every value of the
    node's parameters p, with d = p[dpos]"""
    k = node.nparams
    dz = T.dim_z(node.dim)
    E.st.oblige_forall(f"{name}.premise_offdiag_zero", [INT] * (k + 1),
                       lambda *a: z3.Implies(z3.And(a[-1] >= 0, a[-1] < dz, a[-1] != a[dpos]), node.body(*a) == 0), hint="p", using=using)
    E.st.assume_forall([INT] * k, lambda *p: T._apply(node.vf, p) == z3.If(z3.And(p[dpos] >= 0, p[dpos] < dz), node.body(*(tuple(p) + (p[dpos],))), 0), f"{name}.collapsed")


def auto_sum_single(E, name):
    """apply lemma_sum_single_all to every sum node (and parameter position)
    whose premise holds - products with a diagonal matrix"""
    from ..state import prove

    applied = 0
    for node in sum_nodes(E):
        if getattr(node, "_single", False):
            continue
        k = node.nparams
        dz = T.dim_z(node.dim)
        for dpos in range(k):
            sks = [E.st.fresh(f"ss_p{q}", INT) for q in range(k + 1)]
            try:
                goal = z3.Implies(z3.And(sks[-1] >= 0, sks[-1] < dz, sks[-1] != sks[dpos]), node.body(*sks) == 0)
            except (z3.Z3Exception, Unsupported, PyRaise):
                continue
            v, *_ = prove(E.st.pc, [], goal, extra_pool=sks, timeout_ms=4000, quick=True)
            if v == "unsat":
                lemma_sum_single_all(E, f"{name}.{applied}", node, dpos, using=[])
                node._single = True
                applied += 1
                break
    return applied


def lemma_sum_congr_at(E, name, node, p, q, using=None):
    """SumLemmas.c16_sum_congr: (forall j < n. f j = g j) ==> sum f = sum g, for
    the SAME node at two parameter tuples p, q"""
    dz = T.dim_z(node.dim)
    p, q = _ps(p), _ps(q)
    E.st.oblige_forall(f"{name}.premise_terms_equal", [INT], lambda j: z3.Implies(z3.And(j >= 0, j < dz), node.body(*p, j) == node.body(*q, j)), hint="j", using=using)
    E.assume(Sym(T._apply(node.vf, p) == T._apply(node.vf, q)))


def node_of(E, value):
    """the sum node whose value term is `value` (a Sym returned by a reduction)"""
    z = C.to_z3(value)
    for n in E.st.sums:
        if n.nparams == 0 and n.kind == "sum" and z3.eq(n.vf(), z):
            return n
    return None


def node_of_app(E, value):
    """the sum node whose value function is applied at the head of `value`"""
    z = C.to_z3(value)
    if not z3.is_app(z) or z.decl().kind() != z3.Z3_OP_UNINTERPRETED:
        return None
    for n in E.st.sums:
        if n.kind != "sum":
            continue
        probe = T._apply(n.vf, [z3.Int(f"np!{k}") for k in range(n.nparams)])
        if z3.is_app(probe) and probe.decl().eq(z.decl()):
            return n
    return None


def lemma_sum_congr_nodes(E, name, node_a, node_b, using=None):
    """SumLemmas.sum_congr_range: two sums over the same range with pointwise
    equal terms are equal (for every value of the parameters)"""
    if node_a.nparams != node_b.nparams or not T.dim_eq(node_a.dim, node_b.dim):
        raise Unsupported("lemma_sum_congr_nodes: different parameter counts / ranges")
    k = node_a.nparams
    dz = T.dim_z(node_a.dim)
    E.st.oblige_forall(f"{name}.premise_terms_equal", [INT] * (k + 1), lambda *a: z3.Implies(z3.And(a[-1] >= 0, a[-1] < dz), node_a.body(*a) == node_b.body(*a)), hint="p", using=using)
    if k == 0:
        E.assume(Sym(node_a.vf() == node_b.vf()))
    else:
        E.st.assume_forall([INT] * k, lambda *p: T._apply(node_a.vf, p) == T._apply(node_b.vf, p), f"{name}.equal")
