"""gymnasium.spaces.Box model (C10).  ASSUMED contracts, transcribed from the
gymnasium documentation of `Box`:

* `Box(low, high, shape)`: "A (possibly unbounded) box in R^n ... the Cartesian
  product of n closed intervals".  `.low` / `.high` are NumPy arrays of shape
  `.shape`; the constructor asserts `low <= high` component-wise (gymnasium
  raises / warns otherwise), which is the well-formedness hypothesis
  `forall d. low[d] <= high[d]` attached by `mk_box`.
* `.sample()`: "Generates a single random sample inside the Box" - every call
  returns a new array s of shape `.shape` with low <= s <= high (bounded box;
  the distribution is not modelled).  Successive samples are distinct
  uninterpreted functions of (box, draw counter).
* `.seed(seed)`: re-seeds the space's PRNG, no effect on `.low/.high/.shape`.
* `.contains(x)` / `x in box`: shape matches and low <= x <= high everywhere.
* `.dtype`: opaque.

The class tag is "gymnasium.spaces.Box" (so `isinstance(space, gym.spaces.Box)`
holds).  Only 1-D boxes (shape (A,)) are modelled: all continuous-control
routines of rl_blox index `action_space.shape[0]`.
"""
from __future__ import annotations

import z3

from .. import core as C
from .. import tensor as T
from ..core import BOOL, INT, REAL, Builtin, Obj, Opaque, PyRaise, Sym, Unsupported
from ..tensor import Tensor
from . import LIB

BOX = "gymnasium.spaces.Box"


def mk_box(E, name, A, low=None, high=None, wellformed=True):
    """symbolic 1-D Box with A components.  low/high default to fresh input
    tensors; `wellformed` attaches the constructor's guarantee low <= high."""
    low = low if low is not None else T.fresh_tensor(f"{name}.low", (A,), REAL)
    high = high if high is not None else T.fresh_tensor(f"{name}.high", (A,), REAL)
    if wellformed:
        if isinstance(A, int):
            for d in range(A):
                E.assume(C.compare("<=", low.at(d), high.at(d)))
        else:
            E.st.assume_forall([INT], lambda d: C.as_real(low.at(d)) <= C.as_real(high.at(d)), f"{name}.low_le_high")
    o = Obj(BOX, {"low": low, "high": high, "shape": (T.norm_dim(A),), "$draws": 0}, name=name)
    E.register(o)
    return o


def box_sample(E, box):
    """one `.sample()`: fresh array inside the box"""
    low, high = box.fields["low"], box.fields["high"]
    k = box.fields["$draws"]
    box.fields["$draws"] = k + 1
    base = E.st.fresh_name(f"{box.name}.sample{k}")
    f = z3.Function(base, INT, REAL)
    s = Tensor(low.shape, lambda d: Sym(f(C.to_z3(d))), REAL, name=base)
    A = low.shape[0]
    if isinstance(A, int):
        for d in range(A):
            E.assume(C.band(C.compare("<=", low.at(d), s.at(d)), C.compare("<=", s.at(d), high.at(d))))
    else:
        E.st.assume_forall([INT], lambda d: z3.And(C.as_real(low.at(d)) <= f(d), f(d) <= C.as_real(high.at(d))), f"{base}.in_box")
    return s


@LIB.cls(BOX, bases=("gymnasium.spaces.Space",))
def _box(E, obj, name):
    if name == "sample":
        return Builtin("Box.sample", lambda E, *a, **k: box_sample(E, obj))
    if name == "seed":
        return Builtin("Box.seed", lambda E, *a, **k: None)
    if name == "dtype":
        return Opaque("dtype", "float32")
    if name == "contains":
        def contains(E, x):
            x = T.as_tensor(x)
            low, high = obj.fields["low"], obj.fields["high"]
            if x.ndim != 1 or not T.dim_eq(x.shape[0], low.shape[0]):
                return False
            inside = T.elementwise(lambda v, lo, hi: C.ite(C.band(C.compare("<=", lo, v), C.compare("<=", v, hi)), 0, 1), x, low, high, sort=INT)
            return C.compare("==", T.reduce(inside, "sum"), 0)
        return Builtin("Box.contains", contains)
    if name == "is_bounded":
        return Builtin("Box.is_bounded", lambda E, *a, **k: True)
    return NotImplemented


def in_box_goal(box_or_low, high_or_none, x):
    """(sorts, fn) of the quantified statement  forall d < A. low[d] <= x[d] <= high[d]"""
    if isinstance(box_or_low, Obj):
        low, high = box_or_low.fields["low"], box_or_low.fields["high"]
    else:
        low, high = box_or_low, high_or_none
    A = low.shape[0]

    def fn(d):
        xv = C.as_real(x.at(d))
        return z3.Implies(z3.And(d >= 0, d < T.dim_z(A)), z3.And(C.as_real(low.at(d)) <= xv, xv <= C.as_real(high.at(d))))

    return [INT], fn
