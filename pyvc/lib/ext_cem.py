"""Library models needed by the action samplers / cross-entropy planner (C10, C16).

ASSUMED contracts (trusted base), each transcribing a documented clause:

* jnp.broadcast_to(x, shape): "Broadcast an array to a specified shape" - the
  result has exactly `shape`, element [i...] is x[i... restricted to x's
  non-unit axes]; a shape x cannot be broadcast to raises ValueError.
* jax.lax.top_k(operand, k): "Returns top k values and their indices along the
  last axis of operand" (values sorted in descending order).  Modelled through
  a sort model of the 1-D operand x of length n: a permutation `perm` of
  [0, n) with inverse `rank` such that x[perm[j]] is non-increasing in j;
  top_k = (x[perm[:k]], perm[:k]).  Hence the k indices are distinct, in range,
  and every index that is not selected has a value <= every selected one.
  k > n raises ValueError (jax: "k argument to top_k must be no larger than
  minor dimension").  Tie-breaking is not modelled (any order among equals).
* flax.nnx.Variable(v).value is v (the engine models nnx.Variable(v) as v
  itself): `.value` of an array is the array.
* jnp.where(c, a, b) with a python-bool condition returns the selected
  operand (broadcasting of the other operand to a common shape is not
  modelled in that case; only used when one operand is +-inf).
"""
from __future__ import annotations

from fractions import Fraction

import z3

from .. import core as C
from .. import tensor as T
from ..core import BOOL, INT, REAL, Builtin, Opaque, PyRaise, Sym, Unsupported
from ..tensor import Tensor
from . import LIB
from .jax_model import both, tt


@both("broadcast_to", doc="broadcast_to(x, shape): x broadcast to exactly `shape` (ValueError if incompatible)")
def jnp_broadcast_to(E, x, shape, **kw):
    x = T.as_tensor(tt(x))
    shape = tuple(T.norm_dim(d) for d in (shape if isinstance(shape, (tuple, list)) else (shape,)))
    if x.ndim > len(shape):
        raise PyRaise("ValueError", f"cannot broadcast {x.shape} to {shape}")
    try:
        out = T.broadcast_shapes(x.shape, shape)
    except PyRaise:
        raise PyRaise("ValueError", f"cannot broadcast {x.shape} to {shape}")
    if len(out) != len(shape) or not all(T.dim_eq(a, b) for a, b in zip(out, shape)):
        raise PyRaise("ValueError", f"cannot broadcast {x.shape} to {shape}")
    n = len(shape)
    rows = None
    if x.rows is not None and x.ndim == n and T.dim_eq(x.shape[-1], shape[-1]):
        rows = lambda *b: x.rows(*T._bidx(Tensor(x.shape[:-1], None), n - 1, b))  # noqa: E731
    return Tensor(shape, lambda *i: x.at(*T._bidx(x, n, i)), x.sort, x.gdeps, rows=rows)


# ------------------------------------------------------------------ sorting
def sort_model(E, x):
    """descending sort model of the 1-D tensor x: returns (perm, rank) as python
    functions on z3 Int terms (cached per tensor object)."""
    cache = E.st.ghost.setdefault("sort_models", {})
    hit = cache.get(id(x))
    if hit is not None:
        return hit[0], hit[1]
    n = T.dim_z(x.shape[0])
    base = E.st.fresh_name("sortperm")
    perm = z3.Function(base, INT, INT)
    rank = z3.Function(base + "!rank", INT, INT)
    E.st.assume_forall([INT], lambda j: z3.Implies(z3.And(j >= 0, j < n), z3.And(perm(j) >= 0, perm(j) < n, rank(perm(j)) == j)), "sort.perm")
    E.st.assume_forall([INT], lambda i: z3.Implies(z3.And(i >= 0, i < n), z3.And(rank(i) >= 0, rank(i) < n, perm(rank(i)) == i)), "sort.rank")
    E.st.assume_forall([INT, INT], lambda a, b: z3.Implies(z3.And(a >= 0, a < b, b < n), C.as_num(x.at(perm(a))) >= C.as_num(x.at(perm(b)))), "sort.descending")
    cache[id(x)] = (perm, rank, x)
    return perm, rank


@LIB.fn("jax.lax.top_k", doc="top_k(x, k): (x[perm[:k]], perm[:k]) for the descending sort permutation perm of x; k > len(x) raises")
def lax_top_k(E, operand, k, **kw):
    x = T.as_tensor(tt(operand))
    if x.ndim != 1:
        raise Unsupported("top_k of a non-1-D operand")
    if isinstance(k, Fraction) or (isinstance(k, Sym) and k.z.sort() != INT):
        raise PyRaise("TypeError", "k argument to top_k must be an integer")
    if isinstance(k, bool):
        k = int(k)
    n = x.shape[0]
    bad = C.bor(C.compare("<", k, 0), C.compare(">", k, n))
    if E.truth(bad) if not isinstance(bad, bool) else bad:
        raise PyRaise("ValueError", "k argument to top_k must be non-negative and no larger than the minor dimension")
    perm, rank = sort_model(E, x)
    k = T.norm_dim(k)
    idx = Tensor((k,), lambda j: Sym(perm(C.to_z3(j))), INT)
    vals = Tensor((k,), lambda j: x.at(Sym(perm(C.to_z3(j)))), x.sort, x.gdeps)
    return vals, idx


# -------------------------------------------------------- nnx.Variable.value
def _variable_value(E, v, name):
    if isinstance(v, Tensor) and name == "value":
        return v
    return NotImplemented


LIB.value_attr_handlers.append(_variable_value)


# ------------------------------------------------------------ where(bool,..)
for _p in ("jax.numpy.where", "numpy.where"):
    def _mk(old):
        def where(E, c, a=None, b=None, **kw):
            if isinstance(c, bool) and a is not None and b is not None:
                return tt(a) if c else tt(b)
            return old.fn(E, c, a, b, **kw)
        return where
    LIB.funcs[_p] = Builtin(_p, _mk(LIB.funcs[_p]))


# ------------------------------------------- arrays from symbolic comprehensions
def symcomp_tensor(E, sc):
    """[elt for t in range(lo, hi)] (core.SymComp) as an array: axis 0 has length
    max(hi - lo, 0), row k is elt[t := lo + k] (python list semantics + jnp.array /
    jnp.vstack of a list of equally shaped arrays stacks them along a new leading axis)."""
    v = tt(sc.value)
    vt = T.as_tensor(v)
    n = C.binop("-", sc.hi, sc.lo) if not (isinstance(sc.lo, int) and sc.lo == 0) else sc.hi
    if isinstance(n, int):
        n = max(n, 0)
    elif E.may(C.compare("<", n, 0)):
        n = C.smax(n, 0)
    iv = sc.ivar

    def fn(k, *rest):
        e = vt.at(*rest)
        if isinstance(e, Sym):
            return Sym(z3.substitute(e.z, (iv, C.to_z3(C.binop("+", sc.lo, k)))), e.gdeps)
        return e

    return Tensor((T.norm_dim(n),) + tuple(vt.shape), fn, vt.sort, vt.gdeps)


def _wrap_symcomp(path, vstack=False):
    old = LIB.funcs[path]

    def f(E, a, *rest, **kw):
        if isinstance(a, C.SymComp):
            t = symcomp_tensor(E, a)
            if vstack and t.ndim >= 3:
                raise Unsupported("vstack of a symbolic number of >= 2-D blocks")
            if vstack and t.ndim == 1:
                t = T.expand_dims(t, 1)  # vstack promotes scalars / 1-D rows to 2-D first
            return t
        return old.fn(E, a, *rest, **kw)

    LIB.funcs[path] = Builtin(path, f)


for _p in ("jax.numpy.array", "jax.numpy.asarray", "numpy.array", "numpy.asarray", "jax.numpy.stack", "numpy.stack"):
    if _p in LIB.funcs:
        _wrap_symcomp(_p)
for _p in ("jax.numpy.vstack", "numpy.vstack"):
    if _p in LIB.funcs:
        _wrap_symcomp(_p, vstack=True)
